import ComposeVerif.Model.EnvLayersLoad
import ComposeVerif.Props.C16
/-!
# C16 — YAML `labels` through a whole load, the second caller `WithServicesEnabled`, re-resolution, error choice

Round 5.  Theorems about `Model/EnvLayersLoad.lean`; all for arbitrary inputs.
-/
namespace CV.EnvLayers
open CV.EnvLayers.Spec

/-! ## YAML labels -/

theorem lookup_map_snd {β γ : Type} (g : β → γ) (k : Key) (m : List (Key × β)) :
    lookup k (m.map fun kv => (kv.1, g kv.2)) = (lookup k m).map g := by
  induction m with
  | nil => rfl
  | cons p r ih =>
    obtain ⟨a, b⟩ := p
    by_cases h : a = k <;> simp [lookup, h, ih]

/-- **decodeLabels_last_wins.**  `Labels.DecodeMapstructure`: in the sequence form the last element naming `k` decides
    (`- k` gives the empty value), in the mapping form `k:` (null) is the empty value. -/
theorem decodeLabels_last_wins (yl : YLabels) (k : Key) : lookup k (decodeLabels yl) = yamlLabel yl k := by
  cases yl with
  | absent => rfl
  | list items => exact lookup_overrideBy_nil k _
  | map kvs =>
    show lookup k (overrideBy [] _) = _
    rw [lookup_overrideBy_nil, ← List.map_reverse, lookup_map_snd]
    rfl

theorem distinct_decodeLabels (yl : YLabels) : Distinct (decodeLabels yl) := by
  cases yl with
  | absent => exact distinct_nil
  | list items => exact distinct_overrideBy _ _ distinct_nil
  | map kvs => exact distinct_overrideBy _ _ distinct_nil

/-- the environment stage of a whole load never touches labels or label files (with or without `SkipResolveEnvironment`) -/
theorem loadServiceEnv_keeps_labels (cfg : LoadCfg) (penv : List (Key × Str)) (fs : FS) (y : YEnv) (s s1 : Service)
    (h : loadServiceEnv cfg penv fs y s = .ok s1) : s1.labels = s.labels ∧ s1.labelFiles = s.labelFiles := by
  unfold loadServiceEnv at h
  split at h
  · simp only [Except.ok.injEq] at h
    subst h
    exact ⟨rfl, rfl⟩
  · exact env_step_keeps_labels penv fs cfg.discard { s with environment := loadedEnv cfg penv y } s1 h

/-- **load_labels_precedence.**  Through a whole load — `labels` written as a sequence or as a mapping, any combination
    of `SkipNormalization`, `SkipResolveEnvironment`, discard — the final `Labels` of a service are: what the YAML `labels`
    say (last element wins), else the last label file that defines the key. -/
theorem load_labels_precedence (cfg : LoadCfg) (penv : List (Key × Str)) (fs : FS) (y : YService) (s1 s2 : Service)
    (hwf : WFFS fs) (h1 : loadServiceEnv cfg penv fs y.yenv y.decoded = .ok s1)
    (h2 : resolveServiceLabels fs cfg.discard s1 = .ok s2) (k : Key) :
    lookup k s2.labels = finalLabelY (labelContents fs y.svc.labelFiles) y.ylabels k := by
  have hk := loadServiceEnv_keeps_labels cfg penv fs y.yenv y.decoded s1 h1
  have hd : Distinct s1.labels := hk.1 ▸ distinct_decodeLabels y.ylabels
  have hl := labels_precedence fs cfg.discard s1 s2 hwf hd h2 k
  rw [hk.1, hk.2] at hl
  rw [hl]
  unfold finalLabel finalLabelY
  show orElse (lookup k (decodeLabels y.ylabels)) _ = _
  rw [decodeLabels_last_wins]
  rfl

/-- **load_service_final_y.**  Both observations of one service of a whole load, from the YAML forms. -/
theorem load_service_final_y (cfg : LoadCfg) (penv : List (Key × Str)) (fs : FS) (y : YService) (s1 s2 : Service)
    (hwf : WFFS fs) (hpenv : NoEqKeys penv) (hres : cfg.skipResolveEnvironment = false)
    (h1 : loadServiceEnv cfg penv fs y.yenv y.decoded = .ok s1) (h2 : resolveServiceLabels fs cfg.discard s1 = .ok s2) (k : Key) :
    lookup k s2.environment = finalEnv penv (envContents fs y.svc.envFiles) (decodeEnv y.yenv) k ∧
    lookup k s2.labels = finalLabelY (labelContents fs y.svc.labelFiles) y.ylabels k :=
  ⟨(load_service_final cfg penv fs y.yenv y.decoded s1 s2 hwf hpenv hres (distinct_decodeLabels _) h1 h2 k).1,
   load_labels_precedence cfg penv fs y s1 s2 hwf h1 h2 k⟩

/-! ## the second caller: `WithServicesEnabled`, and resolving an already resolved project again -/

/-- **enabled_without_names_resolves_nothing.**  `WithServicesEnabled()` returns the copy: no env file is read (also no
    error for a missing required file). -/
theorem enabled_without_names_resolves_nothing (penv : List (Key × Str)) (fs : FS) (svcs : List (Str × Service)) :
    withServicesEnabled penv fs [] svcs = .ok svcs := rfl

/-- **enabled_discards.**  `WithServicesEnabled(n, …)` is environment resolution with discard: on success every service
    has lost its `env_file` references (and only those: `discard_only_drops_refs`). -/
theorem enabled_discards (penv : List (Key × Str)) (fs : FS) (n : Str) (ns : List Str) (svcs r : List (Str × Service))
    (h : withServicesEnabled penv fs (n :: ns) svcs = .ok r) :
    resolveProjectEnv penv fs true svcs = .ok r ∧ ∀ p ∈ r, p.2.envFiles = [] := by
  have h' : resolveProjectEnv penv fs true svcs = .ok r := h
  refine ⟨h', fun p hp => ?_⟩
  have hm := project_env_ok penv fs true svcs r h'
  have : (p.1, Except.ok p.2) ∈ r.map (fun q => (q.1, (Except.ok q.2 : Except Err Service))) := List.mem_map.2 ⟨p, hp, rfl⟩
  rw [← hm] at this
  obtain ⟨q, _, hq⟩ := List.mem_map.1 this
  simp only [Prod.mk.injEq] at hq
  have hres := hq.2
  unfold resolveServiceEnv at hres
  cases hl : loadEnvFiles penv fs q.2.envFiles [] with
  | error e => rw [hl] at hres; cases hres
  | ok acc =>
    rw [hl] at hres
    simp only [Except.ok.injEq] at hres
    rw [← hres]
    rfl

theorem loadEnvFiles_distinct (penv : List (Key × Str)) (fs : FS) (efs : List EnvFile) (acc res : List (Key × Str))
    (hd : Distinct acc) (h : loadEnvFiles penv fs efs acc = .ok res) : Distinct res := by
  induction efs generalizing acc with
  | nil =>
    simp only [loadEnvFiles, Except.ok.injEq] at h
    exact h ▸ hd
  | cons f r ih =>
    simp only [loadEnvFiles] at h
    cases hf : loadEnvFile fs f (envChain penv acc) with
    | error e => rw [hf] at h; cases h
    | ok vars =>
      rw [hf] at h
      exact ih _ (distinct_overrideBy _ _ hd) h

/-- pointwise value of a resolved environment in terms of the accumulated files -/
theorem lookup_resolved_env (penv acc : List (Key × Str)) (env : List (Key × Option Str)) (hd : Distinct env) (k : Key) :
    lookup k (overrideBy (toMWE acc) (resolveMWE (fun n => lookup n penv) env)) =
      match (lookup k env).map (rv penv k) with
      | some v => some v
      | none => (lookup k acc).map some := by
  rw [lookup_overrideBy k _ _ (distinct_resolveMWE _ _ hd), lookup_resolveMWE_rv, lookup_toMWE]
  cases Option.map (rv penv k) (lookup k env) <;> rfl

theorem resolveServiceEnv_of_files (penv : List (Key × Str)) (fs : FS) (d : Bool) (s : Service) (acc : List (Key × Str))
    (hl : loadEnvFiles penv fs s.envFiles [] = .ok acc) :
    resolveServiceEnv penv fs d s = .ok { s with
      environment := overrideBy (toMWE acc) (resolveMWE (fun k => lookup k penv) s.environment)
      envFiles := if d then [] else s.envFiles } := by
  unfold resolveServiceEnv
  rw [hl]

/-- **resolve_env_idempotent.**  Resolving the environment of an already resolved service again — what
    `WithServicesEnabled` does to a loaded project, with or without the file references still there — succeeds and
    changes no value: the `environment` layer already carries every file value and every project-environment value. -/
theorem resolve_env_idempotent (penv : List (Key × Str)) (fs : FS) (d d' : Bool) (s s' : Service)
    (hd : Distinct s.environment) (h : resolveServiceEnv penv fs d s = .ok s') :
    ∃ s'', resolveServiceEnv penv fs d' s' = .ok s'' ∧ (∀ k, lookup k s''.environment = lookup k s'.environment) ∧
      s''.envFiles = (if d' then [] else s'.envFiles) ∧ s''.labels = s.labels ∧ s''.labelFiles = s.labelFiles := by
  unfold resolveServiceEnv at h
  cases hl : loadEnvFiles penv fs s.envFiles [] with
  | error e => rw [hl] at h; cases h
  | ok acc =>
    rw [hl] at h
    simp only [Except.ok.injEq] at h
    subst h
    have hacc : Distinct acc := loadEnvFiles_distinct penv fs s.envFiles [] acc distinct_nil hl
    have hd1 : Distinct (overrideBy (toMWE acc) (resolveMWE (fun n => lookup n penv) s.environment)) :=
      distinct_overrideBy _ _ (distinct_toMWE _ hacc)
    -- the pointwise fixed point
    have key : ∀ (acc2 : List (Key × Str)), (∀ k, lookup k acc2 = none ∨ lookup k acc2 = lookup k acc) → ∀ k,
        lookup k (overrideBy (toMWE acc2) (resolveMWE (fun n => lookup n penv)
          (overrideBy (toMWE acc) (resolveMWE (fun n => lookup n penv) s.environment)))) =
        lookup k (overrideBy (toMWE acc) (resolveMWE (fun n => lookup n penv) s.environment)) := by
      intro acc2 h2 k
      rw [lookup_resolved_env penv acc2 _ hd1 k, lookup_resolved_env penv acc _ hd k]
      cases he : lookup k s.environment with
      | some v => simp [rv_idem]
      | none =>
        simp only [Option.map_none]
        cases ha : lookup k acc with
        | some x => simp [rv]
        | none =>
          rcases h2 k with h0 | h0
          · simp [h0]
          · simp [h0, ha]
    cases d with
    | true =>
      refine ⟨_, resolveServiceEnv_of_files penv fs d' _ [] rfl, fun k => key [] (fun _ => Or.inl rfl) k, ?_, rfl, rfl⟩
      cases d' <;> rfl
    | false =>
      exact ⟨_, resolveServiceEnv_of_files penv fs d' _ acc hl, fun k => key acc (fun _ => Or.inr rfl) k, rfl, rfl, rfl⟩

/-! ## which failing service is reported -/

def errsOf {α : Type} (rs : List (Str × Except Err α)) : List Err :=
  rs.filterMap fun p => match p.2 with | .error e => some e | .ok _ => none

theorem firstErr_eq_head {α : Type} (rs : List (Str × Except Err α)) : firstErr rs = (errsOf rs).head? := by
  induction rs with
  | nil => rfl
  | cons p r ih =>
    obtain ⟨n, x⟩ := p
    cases x with
    | error e => simp [firstErr, errsOf]
    | ok a =>
      simp only [firstErr, ih, errsOf, List.filterMap_cons]

theorem collect_eq {α : Type} (rs : List (Str × Except Err α)) :
    (∃ r, collect rs = .ok r ∧ errsOf rs = []) ∨ (collect rs = .error (errsOf rs) ∧ errsOf rs ≠ []) := by
  unfold collect
  simp only
  split
  · rename_i h
    exact Or.inl ⟨_, rfl, List.isEmpty_iff.1 h⟩
  · rename_i h
    exact Or.inr ⟨rfl, fun hn => h (List.isEmpty_iff.2 hn)⟩

/-- **reported_error_is_first_failing.**  Go returns from the services loop at the first failing service of its map
    iteration order.  For every listing `rs'` of the services: the loop succeeds iff the model (`collect`) succeeds, and
    a reported error is one of the model's errors. -/
theorem reported_error_is_first_failing {α : Type} (rs rs' : List (Str × Except Err α)) (hp : rs.Perm rs') :
    (firstErr rs' = none ↔ ∃ r, collect rs = .ok r) ∧
    (∀ e, firstErr rs' = some e → ∃ es, collect rs = .error es ∧ e ∈ es) := by
  have hperm : (errsOf rs).Perm (errsOf rs') := hp.filterMap _
  rw [firstErr_eq_head]
  constructor
  · constructor
    · intro h
      have h0 : errsOf rs' = [] := List.head?_eq_none_iff.1 h
      rw [h0] at hperm
      have h1 : errsOf rs = [] := List.Perm.eq_nil hperm
      rcases collect_eq rs with ⟨r, hr, _⟩ | ⟨_, hne⟩
      · exact ⟨r, hr⟩
      · exact absurd h1 hne
    · rintro ⟨r, hr⟩
      rcases collect_eq rs with ⟨_, _, h1⟩ | ⟨he, _⟩
      · rw [h1] at hperm
        rw [List.Perm.eq_nil hperm.symm]
        rfl
      · rw [he] at hr; cases hr
  · intro e he
    have hm : e ∈ errsOf rs' := List.mem_of_mem_head? he
    have hm' : e ∈ errsOf rs := hperm.symm.subset hm
    rcases collect_eq rs with ⟨_, _, h1⟩ | ⟨hc, _⟩
    · rw [h1] at hm'; cases hm'
    · exact ⟨_, hc, hm'⟩

/-- **every_failing_service_can_be_reported.**  The error set is tight: each of the model's errors is the one Go reports
    for *some* iteration order of the services map. -/
theorem every_failing_service_can_be_reported {α : Type} (rs : List (Str × Except Err α)) (es : List Err)
    (h : collect rs = .error es) (e : Err) (he : e ∈ es) :
    ∃ rs', rs.Perm rs' ∧ firstErr rs' = some e := by
  rcases collect_eq rs with ⟨r, hr, _⟩ | ⟨hc, _⟩
  · rw [hr] at h; cases h
  · rw [hc] at h
    simp only [Except.error.injEq] at h
    subst h
    obtain ⟨p, hp, hpe⟩ := List.mem_filterMap.1 he
    obtain ⟨a, b, hab⟩ := List.append_of_mem hp
    refine ⟨p :: (a ++ b), ?_, ?_⟩
    · rw [hab]; exact List.perm_middle
    · obtain ⟨n, x⟩ := p
      cases x with
      | ok v => simp at hpe
      | error e' =>
        simp only [Option.some.injEq] at hpe
        subst hpe
        rfl

/-- **project_env_error_choice.**  `WithServicesEnvironmentResolved` on any iteration order `svcs'` of the services map:
    its outcome class and its error are those of the list-order model. -/
theorem project_env_error_choice (penv : List (Key × Str)) (fs : FS) (discard : Bool) (svcs svcs' : List (Str × Service))
    (hp : svcs.Perm svcs') :
    (firstErr (svcs'.map fun p => (p.1, resolveServiceEnv penv fs discard p.2)) = none ↔
      ∃ r, resolveProjectEnv penv fs discard svcs = .ok r) ∧
    (∀ e, firstErr (svcs'.map fun p => (p.1, resolveServiceEnv penv fs discard p.2)) = some e →
      ∃ es, resolveProjectEnv penv fs discard svcs = .error es ∧ e ∈ es) :=
  reported_error_is_first_failing _ _ (hp.map _)

namespace Example

/-- sequence-form labels with a duplicate, a bare element and an `=` inside the value; label file `l1` under them -/
def yl0 : YLabels := .list [.kv ['L'] ['1'], .bare ['B'], .kv ['L'] ['2'], .kv ['D'] ['x', '=', 'y']]

example : (decodeLabels yl0) = [(['L'], ['2']), (['B'], []), (['D'], ['x', '=', 'y'])] := by decide
example : yamlLabel (.map [(['B'], none), (['L'], some ['1'])]) ['B'] = some [] := by decide

/-- two failing services with different errors: either can be reported -/
def twoFailing : List (Str × Except Err Unit) := [(['a'], .error .notFound), (['b'], .ok ()), (['c'], .error .parse)]
example : collect twoFailing = .error [.notFound, .parse] := by decide
example : firstErr twoFailing = some .notFound ∧ firstErr twoFailing.reverse = some .parse := by decide

end Example

end CV.EnvLayers
