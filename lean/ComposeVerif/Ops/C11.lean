import ComposeVerif.Ops.Common
/-! line-protocol ops for C11 (filled in by the property's owner) -/
namespace CV.Ops.C11

def handlers : List (String × Handler) := []

end CV.Ops.C11
