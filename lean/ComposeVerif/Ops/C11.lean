import ComposeVerif.Ops.Common
import ComposeVerif.Model.C11Defaults
import ComposeVerif.Model.C11Normalize
import ComposeVerif.Gen.Tables
/-! line-protocol ops for C11: `c11.normalize`, `c11.setDefaults`, `c11.canonical`, `c11.dependsOn`,
`c11.envFile`, `c11.clean` -/
open Lean
namespace CV.Ops.C11
open CV CV.C11

def outVal : Out Val → Json
  | .ok v => Json.mkObj [("ok", v.toJson)]
  | .err _ => Json.mkObj [("err", "err")]          -- error texts / classes are not compared (map order decides which one is reported)
  | .panic s => Json.mkObj [("panic", s)]

def getVal (j : Json) (k : String) : Except String Val :=
  match j.getObjVal? k with
  | .ok v => Val.ofJson v
  | .error e => .error e

def bad (e : String) : Json := Json.mkObj [("bad", e)]

def normalizeOp : Handler := fun args =>
  match getVal args "dict" with
  | .ok (.map d) =>
    let env := getStrMap args "env"
    outVal ((normalize pathClean env d).map Val.map)
  | .ok _ => bad "dict is not a mapping"
  | .error e => bad e

def setDefaultsOp : Handler := fun args =>
  match getVal args "dict" with
  | .ok (.map d) => outVal (setDefaultValues CV.Gen.defaultValues d)
  | .ok _ => bad "dict is not a mapping"
  | .error e => bad e

def canonicalOp : Handler := fun args =>
  match getVal args "dict" with
  | .ok (.map d) => outVal (canonicalLite d)
  | .ok _ => bad "dict is not a mapping"
  | .error e => bad e

def cleanOp : Handler := fun args =>
  Json.mkObj [("ok", Json.str (pathClean (getStr args "s")))]

def handlers : List (String × Handler) :=
  [("c11.normalize", normalizeOp), ("c11.setDefaults", setDefaultsOp), ("c11.canonical", canonicalOp), ("c11.clean", cleanOp)]

end CV.Ops.C11
