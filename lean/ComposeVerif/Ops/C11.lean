import ComposeVerif.Ops.Common
import ComposeVerif.Model.C11Defaults
import ComposeVerif.Model.C11Normalize
import ComposeVerif.Model.C11Keys
import ComposeVerif.Model.C11Pipeline
import ComposeVerif.Gen.Tables
/-! line-protocol ops for C11: `c11.normalize`, `c11.setDefaults`, `c11.canonical`, `c11.dependsOn`,
`c11.envFile`, `c11.clean`, `c11.indexKey`, `c11.unicity`, `c11.pipeline` -/
open Lean
namespace CV.Ops.C11
open CV CV.C11

def outVal : Out Val → Json
  | .ok v => Json.mkObj [("ok", v.toJson)]
  | .err _ => Json.mkObj [("err", "err")]          -- error texts / classes are not compared (map order decides which one is reported)
  | .panic s => Json.mkObj [("panic", s)]

def getVal (j : Json) (k : String) : Except String Val :=
  match j.getObjVal? k with
  | .ok v => Val.ofJson v
  | .error e => .error e

def bad (e : String) : Json := Json.mkObj [("bad", e)]

def normalizeOp : Handler := fun args =>
  match getVal args "dict" with
  | .ok (.map d) =>
    let env := getStrMap args "env"
    outVal ((normalize pathClean env d).map Val.map)
  | .ok _ => bad "dict is not a mapping"
  | .error e => bad e

def setDefaultsOp : Handler := fun args =>
  match getVal args "dict" with
  | .ok (.map d) => outVal (setDefaultValues CV.Gen.defaultValues d)
  | .ok _ => bad "dict is not a mapping"
  | .error e => bad e

def canonicalOp : Handler := fun args =>
  match getVal args "dict" with
  | .ok (.map d) => outVal (canonicalLite d)
  | .ok _ => bad "dict is not a mapping"
  | .error e => bad e

/-- Canonical ; SetDefaultValues ; Normalize, and the same three stages once more on the result (`again`: the result
of the second pass, compared by the harness with the first) -/
def pipelineOp : Handler := fun args =>
  match getVal args "dict" with
  | .ok (.map d) =>
    let env := getStrMap args "env"
    match pipeline CV.Gen.defaultValues pathClean env d with
    | .ok e =>
      let again : Json := match pipeline CV.Gen.defaultValues pathClean env e with
        | .ok e2 => if (Val.map e2).toJson == (Val.map e).toJson then "same" else "differs"
        | .err _ => "err"
        | .panic s => Json.str ("panic " ++ s)
      Json.mkObj [("ok", (Val.map e).toJson), ("again", again)]
    | .err _ => Json.mkObj [("err", "err")]
    | .panic s => Json.mkObj [("panic", s)]
  | .ok _ => bad "dict is not a mapping"
  | .error e => bad e

/-- `tree.Path.Next` as the walker uses it (shared `TPath.next`): the escape facts `Props/C11Stages.lean` takes as a
hypothesis are closed instances the kernel cannot evaluate; here they are evaluated and compared with Go's -/
def nextOp : Handler := fun args =>
  Json.mkObj [("ok", Json.arr ((TPath.next (getStrList args "p") (getStr args "k")).map Json.str).toArray)]

def cleanOp : Handler := fun args =>
  Json.mkObj [("ok", Json.str (pathClean (getStr args "s")))]

/-! unicity keys (override/uncity.go): the indexer is found the way `enforceUnicity` finds it — first row of the
regenerated `unique` table that matches `services.a.<list>` — and must be one the model knows. -/

def outKey : Out String → Json
  | .ok k => Json.mkObj [("ok", k)]
  | .err _ => Json.mkObj [("err", "err")]
  | .panic s => Json.mkObj [("panic", s)]

def listIndexer (list : String) : Option (Val → Out String) :=
  match TPath.firstMatch CV.Gen.unique (((TPath.root.next "services").next "a").next list) with
  | some h => indexerOf h
  | none => none

/-- what `SetDefaultValues` (ports, secrets) / `Canonical` (env_file) make of one entry of the list -/
def entryDefaults (list : String) (v : Val) : Out Val :=
  if list = "ports" then portDefaults v
  else if list = "secrets" then defaultSecretMount v
  else if list = "env_file" then .ok (envFileValue v)
  else .ok v

def indexKeyOp : Handler := fun args =>
  let list := getStr args "list"
  match getVal args "v", listIndexer list with
  | .ok v, some key =>
    let dkey : Out String := match entryDefaults list v with
      | .ok v' => key v'
      | .err e => .err e
      | .panic s => .panic s
    Json.mkObj [("key", outKey (key v)), ("dkey", outKey dkey)]
  | .ok _, none => bad ("no modelled indexer for services.a." ++ list)
  | .error e, _ => bad e

def unicityOp : Handler := fun args =>
  let list := getStr args "list"
  match getVal args "xs", listIndexer list with
  | .ok (.seq xs), some key => outVal ((enforceSeq key xs).map Val.seq)
  | .ok _, some _ => bad "xs is not a sequence"
  | .ok _, none => bad ("no modelled indexer for services.a." ++ list)
  | .error e, _ => bad e

def handlers : List (String × Handler) :=
  [("c11.normalize", normalizeOp), ("c11.setDefaults", setDefaultsOp), ("c11.canonical", canonicalOp), ("c11.clean", cleanOp),
   ("c11.pipeline", pipelineOp), ("c11.next", nextOp), ("c11.indexKey", indexKeyOp), ("c11.unicity", unicityOp)]

end CV.Ops.C11
