import ComposeVerif.Ops.Common
import ComposeVerif.Model.ShortTransform
import ComposeVerif.Model.ShortDecode
import ComposeVerif.Model.ShortMerge
import ComposeVerif.Spec.Short
import ComposeVerif.Spec.ShortShell
/-! line-protocol ops for C03: short-syntax parsers, `transform.Canonical`, decoders, and the grammar specs -/
open Lean
namespace CV.Ops.C03
open CV CV.Short CV.Short.Spec

def volJson (v : Vol) : Json :=
  Json.mkObj [("type", str v.type), ("source", str v.source), ("target", str v.target), ("read_only", Json.bool v.readOnly),
    ("bind", match v.bind with
      | none => Json.null
      | some b => Json.mkObj [("selinux", str b.selinux), ("propagation", str b.propagation), ("create_host_path", Json.bool b.createHostPath)]),
    ("volume", match v.volume with | none => Json.null | some nc => Json.mkObj [("nocopy", Json.bool nc)])]

def portJson (p : PortCfg) : Json :=
  Json.mkObj [("host_ip", str p.hostIP), ("target", Json.num p.target), ("published", str p.published), ("protocol", str p.protocol)]

def parseVolumeOp : Handler := fun args =>
  match parseVolume (getStr args "s").toList with
  | some v => Json.mkObj [("ok", volJson v)]
  | none => Json.mkObj [("err", "parse")]

def parsePortOp : Handler := fun args =>
  match parsePort (getStr args "s").toList with
  | some l => Json.mkObj [("ok", Json.arr (l.map portJson).toArray)]
  | none => Json.mkObj [("err", "parse")]

def outVal : Out Val → Json
  | .ok v => Json.mkObj [("ok", v.toJson)]
  | .err e => Json.mkObj [("err", e)]
  | .panic s => Json.mkObj [("panic", s)]

def canonicalOp : Handler := fun args =>
  match Val.ofJson (getObj args "tree") with
  | .ok v =>
    match canonical (getBool args "ign") v with
    | .ok r => Json.mkObj [("ok", r.toJson)]
    | _ => Json.mkObj [("fails", Json.arr ((fails (getBool args "ign") TPath.root v).map Json.str).toArray)]
  | .error e => Json.mkObj [("bad", e)]

/-- `Canonical(Canonical(v))` -/
def canonical2Op : Handler := fun args =>
  match Val.ofJson (getObj args "tree") with
  | .ok v =>
    match canonical (getBool args "ign") v with
    | .ok v1 => outVal (canonical (getBool args "ign") v1)
    | o => outVal o
  | .error e => Json.mkObj [("bad", e)]

def decodeOp : Handler := fun args =>
  match Val.ofJson (getObj args "v") with
  | .error e => Json.mkObj [("bad", e)]
  | .ok v =>
    let r : Option (Option Val) := match getStr args "type" with
      | "Mapping" => some (decodeMapping v)
      | "MappingWithEquals" => some (decodeMWE v)
      | "Labels" => some (decodeLabels v)
      | "HostsList" => some (decodeHosts v)
      | "StringList" => some (decodeStringList v)
      | "StringOrNumberList" => some (decodeStringOrNumberList v)
      | "HealthCheckTest" => some (decodeHealthTest v)
      | "Options" => some (decodeOptions v)
      | "DeviceCount" => some (decodeDeviceCount v)
      | "UlimitsConfig" => some (decodeUlimit v)
      | "ShellCommand" => some (decodeShellCommand v)
      | "SSHConfig" => some (decodeSSHConfig v)
      | _ => none
    match r with
    | none => Json.mkObj [("bad", "type")]
    | some none => Json.mkObj [("err", "decode")]
    | some (some .null) => Json.mkObj [("ok", Json.null)]
    | some (some r) => Json.mkObj [("ok", r.toJson)]

def pathCleanOp : Handler := fun args => Json.mkObj [("ok", str (pathClean (getStr args "s").toList))]
def validIPOp : Handler := fun args => Json.mkObj [("ok", Json.bool (validIP (getStr args "s").toList))]

/-! ### grammar ASTs from the wire -/

def optObj (j : Json) (k : String) : Option Json :=
  match j.getObjVal? k with
  | .ok .null => none
  | .ok v => some v
  | .error _ => none

def numOf (j : Json) : Num := { zeros := getNat j "z", val := getNat j "v" }
def rangeOf (j : Json) : Range := { lo := numOf (getObj j "lo"), hi := (optObj j "hi").map numOf }

def portSpecOf (j : Json) : PortSpec :=
  { ip := (optObj j "ip").map fun i => { bracket := getBool i "bracket", addr := (getStr i "addr").toList }
    host := (optObj j "host").map rangeOf
    cont := rangeOf (getObj j "cont")
    proto := match j.getObjVal? "proto" with | .ok (.str s) => some s.toList | _ => none }

def segOf (j : Json) : Seg :=
  match j.getObjVal? "plain" with
  | .ok (.str s) => .plain s.toList
  | _ => .drive ((getStr j "drive").toList.headD 'c') (getStr j "rest").toList

def flagOf (s : String) : Flag :=
  if s = "ro" then .ro else if s = "rw" then .rw else if s = "nocopy" then .nocopy
  else if s = "z" then .z else if s = "Z" then .Z
  else if s.startsWith "prop:" then
    match (String.ofList (s.toList.drop 5)).toNat? with
    | some n => if h : n < 6 then .prop ⟨n, h⟩ else .other s.toList
    | none => .other s.toList
  else .other (s.toList.drop 6)      -- "other:<text>"

def volSpecOf (j : Json) : VolSpec :=
  { source := (optObj j "source").map segOf
    target := segOf (getObj j "target")
    flags := (getStrList j "flags").map flagOf }

def portSpecOp : Handler := fun args =>
  let a := portSpecOf (getObj args "ast")
  Json.mkObj [("wf", Json.bool a.wf), ("rendered", str a.render), ("long", Json.arr (a.long.map portJson).toArray)]

def volSpecOp : Handler := fun args =>
  let a := volSpecOf (getObj args "ast")
  Json.mkObj [("wf", Json.bool a.wf), ("rendered", str a.render), ("long", volJson a.long),
    ("clean_target", str (cleanTarget a.long.target)), ("is_path", Json.bool (isPath a.source))]

def devSpecOp : Handler := fun args =>
  let j := getObj args "ast"
  let optS (k : String) : Option Str := match j.getObjVal? k with | .ok (.str s) => some s.toList | _ => none
  let a : DevSpec := { src := (getStr j "src").toList, dst := optS "dst", perm := optS "perm" }
  let (s, d, p) := a.long
  Json.mkObj [("wf", Json.bool a.wf), ("rendered", str a.render), ("long", Json.mkObj [("source", str s), ("target", str d), ("permissions", str p)])]

def shSpecOf (j : Json) : ShSpec :=
  let segOf (g : Json) : ShSeg :=
    let t := (getStr g "s").toList
    match getStr g "k" with
    | "sq" => .sq t
    | "dq" => .dq t
    | "esc" => .esc (t.headD 'x')
    | _ => .plain t
  let arr (j : Json) (k : String) : List Json := match j.getObjVal? k with | .ok (.arr a) => a.toList | _ => []
  { words := (arr j "words").map fun w => { sep := (getStr w "sep").toList, segs := (arr w "segs").map segOf }
    trail := (getStr j "trail").toList }

/-- the shell-words grammar: render / long of the AST, and the model's `shellParse` of the rendered line -/
def shellSpecOp : Handler := fun args =>
  let a := shSpecOf (getObj args "ast")
  Json.mkObj [("wf", Json.bool a.wf), ("rendered", str a.render), ("long", Json.arr (a.long.map fun w => str w).toArray),
    ("model", match shellParse a.render with
      | some l => Json.arr (l.map fun w => str w).toArray
      | none => Json.null)]

/-- `tree.Path.Next`: the shared model `TPath.next` and the kernel-reducible `TPath.nextK` side by side -/
def pathNextOp : Handler := fun args =>
  let p : TPath := match getStrList args "p" with | [] => TPath.root | l => l
  let part := getStr args "part"
  Json.mkObj [("next", Json.arr ((TPath.next p part).map Json.str).toArray), ("nextK", Json.arr ((TPath.nextK p part).map Json.str).toArray)]

/-- `Canonical(Merge(Canonical(doc1), doc2))` at `services.s.<attr>` (depends_on, networks, build): the attribute-level
model `twoDocsAt` and, under "whole", the whole-tree model `loadDocsC` on `{services: {s: {<attr>: doc}}}` (same outcome format) -/
def twoDocsOp : Handler := fun args =>
  match Val.ofJson (getObj args "doc1"), Val.ofJson (getObj args "doc2") with
  | .ok v1, .ok v2 =>
    let attr := getStr args "attr"
    let wrap (v : Val) : Val := .map [("services", .map [("s", .map [(attr, v)])])]
    let unwrap (v : Val) : Val :=
      match v with
      | .map top => match Val.lookup "services" top with
        | some (.map svcs) => match Val.lookup "s" svcs with
          | some (.map sv) => (Val.lookup attr sv).getD .null
          | _ => .null
        | _ => .null
      | _ => .null
    let whole : Json := match loadDocsC false (wrap v1) [wrap v2] with
      | .ok r => Json.mkObj [("ok", (unwrap r).toJson)]
      | .err _ => Json.mkObj [("err", "err")]
      | .panic s => Json.mkObj [("panic", s)]
    match twoDocsAt attr v1 v2 with
    | none => Json.mkObj [("bad", "attr")]
    | some (.ok r) => Json.mkObj [("ok", r.toJson), ("whole", whole)]
    | some (.err _) => Json.mkObj [("err", "err"), ("whole", whole)]
    | some (.panic s) => Json.mkObj [("panic", s), ("whole", whole)]
  | _, _ => Json.mkObj [("bad", "tree")]

def handlers : List (String × Handler) := [
  ("c03.twoDocs", twoDocsOp),
  ("c03.pathNext", pathNextOp),
  ("c03.parseVolume", parseVolumeOp), ("c03.parsePort", parsePortOp), ("c03.canonical", canonicalOp),
  ("c03.canonical2", canonical2Op), ("c03.decode", decodeOp), ("c03.pathClean", pathCleanOp), ("c03.validIP", validIPOp),
  ("c03.portSpec", portSpecOp), ("c03.volSpec", volSpecOp), ("c03.devSpec", devSpecOp),
  ("c03.shellSpec", shellSpecOp)]

end CV.Ops.C03
