import ComposeVerif.Ops.Common
/-! line-protocol ops for C03 (filled in by the property's owner) -/
namespace CV.Ops.C03

def handlers : List (String × Handler) := []

end CV.Ops.C03
