import ComposeVerif.Ops.Common
import ComposeVerif.Model.C01Stages
import ComposeVerif.Model.C01Cycles
import ComposeVerif.Model.C01Reset
import ComposeVerif.Model.C01Unicity
import ComposeVerif.Model.C01Pipeline
import ComposeVerif.Model.C01Files
import ComposeVerif.Gen.Tables
import ComposeVerif.Model.Schema
import ComposeVerif.Gen.Schema
import ComposeVerif.Model.Unicity
import ComposeVerif.Model.C01PipelineFS
import ComposeVerif.Ops.Pipeline
/-! line-protocol ops for C01: stage walkers, cycle tracker, extends / include / depends_on loops -/
open Lean
namespace CV.Ops.C01
open CV.C01

/-! ### `GoVal` on the wire: the `Val` format plus `{"nl":true}` (nil slice) and `{"im":[[k,v],…]}` -/

partial def goValOfJson : Json → Except String GoVal
  | .null => .ok .null
  | .obj o =>
    match o.toList with
    | [("b", .bool b)] => .ok (.bool b)
    | [("i", .str s)] => match s.toInt? with
      | some i => .ok (.int i)
      | none => .error "bad int"
    | [("f", .str s)] => .ok (.float s)
    | [("s", .str s)] => .ok (.str s)
    | [("nl", _)] => .ok .nilseq
    | [("l", .arr xs)] => do
        let ys ← xs.toList.mapM goValOfJson
        pure (.seq ys)
    | [("l", .null)] => .ok (.seq [])
    | [("m", .arr kvs)] => do
        let ys ← kvs.toList.mapM fun kv => match kv with
          | .arr #[.str k, v] => do
            let v' ← goValOfJson v
            pure (k, v')
          | _ => .error "bad entry"
        pure (.map ys)
    | [("m", .null)] => .ok (.map [])
    | [("im", .arr kvs)] => do
        let ys ← kvs.toList.mapM fun kv => match kv with
          | .arr #[k, v] => do
            let k' ← goValOfJson k
            let v' ← goValOfJson v
            pure (k', v')
          | _ => .error "bad entry"
        pure (.imap ys)
    | [("im", .null)] => .ok (.imap [])
    | _ => .error "bad node"
  | _ => .error "bad node"

def sortKVs (kvs : List (String × Json)) : List (String × Json) :=
  (kvs.toArray.qsort (fun a b => a.1 < b.1)).toList

partial def goValToJson : GoVal → Json
  | .null => .null
  | .bool b => Json.mkObj [("b", .bool b)]
  | .int i => Json.mkObj [("i", .str (ToString.toString i))]
  | .float s => Json.mkObj [("f", .str s)]
  | .str s => Json.mkObj [("s", .str s)]
  | .nilseq => Json.mkObj [("nl", .bool true)]
  | .seq xs => Json.mkObj [("l", .arr (xs.map goValToJson).toArray)]
  | .map kvs => Json.mkObj [("m", .arr ((sortKVs (kvs.map fun (k, v) => (k, goValToJson v))).map fun (k, v) => Json.arr #[.str k, v]).toArray)]
  | .imap kvs => Json.mkObj [("im", .arr (kvs.map fun (k, v) => Json.arr #[goValToJson k, goValToJson v]).toArray)]

def bad (s : String) : Json := Json.mkObj [("bad", s)]

def outJson (f : α → Json) : Out α → Json
  | .ok a => Json.mkObj [("ok", f a)]
  | .err c => Json.mkObj [("err", c)]
  | .panic s => Json.mkObj [("panic", s)]

def convertOp : Handler := fun args =>
  match goValOfJson (getObj args "tree") with
  | .error e => bad e
  | .ok t =>
    match convert t with
    | .ok v => Json.mkObj [("ok", goValToJson v)]
    | .error c => Json.mkObj [("err", c)]

def convertTopOp : Handler := fun args =>
  match goValOfJson (getObj args "tree") with
  | .error e => bad e
  | .ok t => outJson (fun kvs => goValToJson (.map kvs)) (if getBool args "parseYAML" then parseYAMLTop t else convertTop t)

def fixEmptyOp : Handler := fun args =>
  match goValOfJson (getObj args "tree") with
  | .error e => bad e
  | .ok t => Json.mkObj [("ok", goValToJson (fixEmpty t))]

def patsOf (args : Json) : List (List String) :=
  (getStrList args "pats").map (fun s => s.splitOn ".")

def omitEmptyOp : Handler := fun args =>
  match goValOfJson (getObj args "tree") with
  | .ok (.map kvs) => outJson (fun kvs => goValToJson (.map kvs)) (omitEmptyTop (patsOf args) kvs)
  | .ok t => Json.mkObj [("ok", goValToJson (omitEmpty (patsOf args) t TPath.root))]
  | .error e => bad e

/-! ### cycle tracker -/

def refsOf (j : Json) : List Ref :=
  match j with
  | .arr a => a.toList.filterMap fun e => match e with
    | .arr #[.str f, .str s] => some ⟨f, s⟩
    | _ => none
  | _ => []

/-- add the references one after the other; report the index of the first refusal -/
def trackerRun : List Ref → Tracker → Nat → Json
  | [], _, n => Json.mkObj [("ok", n)]
  | r :: rest, t, n =>
    match t.add r with
    | none => Json.mkObj [("err", "circular"), ("at", n)]
    | some t' => trackerRun rest t' (n + 1)

def trackerOp : Handler := fun args => trackerRun (refsOf (getObj args "refs")) [] 0

/-! ### extends -/

open CV.C01.Ext in
def fldOfJson : Json → Fld
  | .null => .absent
  | .obj o => match o.toList with
    | [("s", .str s)] => .str s
    | _ => .other
  | _ => .other

open CV.C01.Ext in
def svcOfJson : Json → Svc
  | .null => .null
  | .str _ => .notMap
  | j =>
    match j.getObjVal? "ext" with
    | .ok e =>
      match e.getObjVal? "str" with
      | .ok (.str r) => .ext (.str r)
      | _ =>
        match e.getObjVal? "map" with
        | .ok m => .ext (.map (fldOfJson (getObj m "service")) (fldOfJson (getObj m "file")))
        | _ => .ext .other
    | _ => .plain

/-- `[["name", svc], …]` -/
def servicesOfJson : Json → Ext.Services
  | .arr a => a.toList.filterMap fun e => match e with
    | .arr #[.str n, s] => some (n, svcOfJson s)
    | _ => none
  | _ => []

open CV.C01.Ext in
def fsOfJson : Json → Ext.FS
  | .arr a => a.toList.filterMap fun e => match e with
    | .arr #[.str n, .str "noServices"] => some (n, FileC.noServices)
    | .arr #[.str n, .str "servicesNotMap"] => some (n, FileC.servicesNotMap)
    | .arr #[.str n, s] => some (n, FileC.services (servicesOfJson s))
    | _ => none
  | _ => []

def resStr : Res → String
  | .ok => "ok"
  | .err c => "err:" ++ c
  | .panic s => "panic:" ++ s
  | .outOfFuel => "outOfFuel"

def perms : List String → List (List String)
  | [] => [[]]
  | x :: xs => (perms xs).flatMap fun p => (List.range (p.length + 1)).map fun i => p.take i ++ [x] ++ p.drop i

def dedupSorted (l : List String) : List String :=
  ((l.toArray.qsort (· < ·)).toList).eraseDups

/-- every outcome `ApplyExtends` can have, over all orders in which Go may range the services map -/
def extendsOp : Handler := fun args =>
  let svcs := servicesOfJson (getObj args "services")
  let fs := fsOfJson (getObj args "files")
  let main := getStr args "main"
  let names := svcs.map Prod.fst
  let orders := if names.length ≤ 5 then perms names else [names, names.reverse]
  let outs := orders.map fun o => resStr (Ext.applyExtends fs main 64 o svcs)
  Json.mkObj [("outcomes", Json.arr ((dedupSorted outs).map Json.str).toArray)]

/-! ### include -/

def incFsOfJson : Json → Inc.FS
  | .arr a => a.toList.filterMap fun e => match e with
    | .arr #[.str n, .arr entries] => some (n, entries.toList.map fun en => match en with
        | .arr ps => ps.toList.filterMap fun p => match p with | .str s => some s | _ => none
        | _ => [])
    | _ => none
  | _ => []

def includeOp : Handler := fun args =>
  let fs := incFsOfJson (getObj args "files")
  Json.mkObj [("class", resStr (Inc.loadModel fs 64 (getStrList args "configs") []))]

/-! ### depends_on -/

def graphOfJson : Json → Dep.G String
  | .arr a => a.toList.filterMap fun e => match e with
    | .arr #[.str n, .arr cs] => some (n, cs.toList.filterMap fun c => match c with | .str s => some s | _ => none)
    | _ => none
  | _ => []

def checkCycleOp : Handler := fun args =>
  let g := graphOfJson (getObj args "graph")
  match Dep.checkCycle g (g.length + 1) with
  | .ok => Json.mkObj [("ok", true)]
  | .cycle p => Json.mkObj [("cycle", Json.arr (p.map Json.str).toArray)]
  | .outOfFuel => Json.mkObj [("outOfFuel", true)]

/-! ### alias expansion / `!reset` recording -/

def natList (j : Json) : List Nat :=
  match j with
  | .arr a => a.toList.filterMap fun e => (e.getNat?).toOption
  | _ => []

def nodeOfJson (j : Json) : Reset.Node :=
  let tag := getStr j "tag"
  match getStr j "k" with
  | "seq" => .seq tag (natList (getObj j "items"))
  | "map" => .map tag (match getObj j "entries" with
      | .arr a => a.toList.filterMap fun e => match e with
        | .arr #[.str k, v] => (v.getNat?).toOption.map fun n => (k, n)
        | _ => none
      | _ => [])
  | "alias" => .alias (getNat j "t")
  | _ => .scalar tag

def resetOp : Handler := fun args =>
  let nodes := match getObj args "nodes" with
    | .arr a => a.toList.map nodeOfJson
    | _ => []
  match Reset.run nodes (getNat args "root") 120 with
  | .ok paths => Json.mkObj [("ok", Json.arr (paths.map fun p => Json.str (".".intercalate p)).toArray)]
  | .error .cycle => Json.mkObj [("err", "cycle")]
  | .error .outOfFuel => Json.mkObj [("outOfFuel", true)]
  | .error .badIndex => bad "index"

/-! ### the `seq` / `keys` loop of `enforceUnicity` on a list of `K=v` strings (keys as `keyValueIndexer` computes them) -/

def unicityLoopOp : Handler := fun args =>
  let entries := getStrList args "entries"
  let kes : List (String × CV.Val) := entries.map fun s => (CV.Unicity.kvKey s, CV.Val.str s)
  match CV.C01.Uniq.run kes with
  | .ok seq => Json.mkObj [("ok", Json.arr (seq.map fun v => match v with | .str s => Json.str s | _ => Json.null).toArray)]
  | .panic site => Json.mkObj [("panic", Json.str site)]

/-! ### the composed stages (`Pipe.loadModel`): documents without extends / include, validation and interpolation off,
paths not resolved, normalisation off; `SetDefaultValues` on or off; schema + `validation.Validate` on or off (the schema
verdict is C01Schema's `conforms` on the regenerated schema); tables as regenerated (`CV.Gen`) -/

def pipeOp : Handler := fun args =>
  let docs := match getObj args "docs" with
    | .arr a => a.toList.map goValOfJson
    | _ => []
  match docs.mapM id with
  | .error e => bad e
  | .ok raws =>
    let look (l : List (String × String)) (s : String) : Option String :=
      match l.find? (fun p => p.1 == s) with
      | some p => some p.2
      | none => none
    let o : CV.C01.Pipe.Opts := { skipInterpolation := !(getBool args "interpolate"), skipValidation := !(getBool args "validate"), skipDefaultValues := getBool args "skip_defaults",
                                  skipNormalization := !(getBool args "normalize"), resolvePaths := getBool args "resolve_paths" }
    let P : CV.C01.Pipe.Params :=
      { interp := { table := CV.Gen.castTable, fp := { f64 := look (getStrMap args "f64"), f32 := look (getStrMap args "f32") },
                    env := envOfList (getStrMap args "env") },
        omitPats := patsOf args
        defaults := CV.Gen.defaultValues
        paths := { wd := (getStr args "wd").toList, home := if getStr args "home" = "" then none else some (getStr args "home").toList }
        clean := CV.C11.pathClean
        env := []
        projectName := "p"
        schemaOK := fun v => CV.Schema.conforms CV.Gen.composeSchema v
        extInc := fun v => .ok v
        resolveEnv := id }
    match CV.C01.Pipe.loadModel o P raws with
    | .ok v => Json.mkObj [("ok", CV.Val.toJson v)]
    | .err st => Json.mkObj [("err", st)]
    | .panic site => Json.mkObj [("panic", site)]

/-! ### env_file / label_file of one service on a disk given as path ↦ state -/

open CV.C01.Files in
def diskOf (j : Json) : String → Disk := fun p =>
  match getStr j p with
  | "absent" => .absent
  | "parentIsFile" => .parentIsFile
  | "directory" => .directory
  | "unreadable" => .unreadable
  | "badSyntax" => .file false
  | "file" => .file true
  | _ => .absent

open CV.C01.Files in
def filesOp : Handler := fun args =>
  let fs := diskOf (getObj args "disk")
  let envs : List EnvFile := match getObj args "env_files" with
    | .arr a => a.toList.map fun e => { path := getStr e "path", required := getBool e "required" }
    | _ => []
  match resolveService fs (getBool args "skip_env") envs (getStrList args "label_files") with
  | .ok l => Json.mkObj [("ok", Json.arr (l.map Json.str).toArray)]
  | .err c p => Json.mkObj [("err", c), ("path", p)]

/-- `c01pipeFS`: the composed pipeline with cross-file extends (`Model/C01PipelineFS.lean`).  Arguments of `pipeline.load`
plus `"bases":[{"ref":…, "reldir":…, "docs":[T(map)…]}…]` → `{"ok": T}` | `{"err": stage}` | `{"panic": site}` -/
def pipeFSOp : Handler := fun args =>
  match CV.Ops.Pipeline.docsOf (getObj args "docs") with
  | .error e => Json.mkObj [("bad", e)]
  | .ok docs =>
    let bases : Except String (List CV.C01PipeFS.BaseFile) :=
      match getObj args "bases" with
      | .arr bs => bs.toList.mapM fun b => do
          let ds ← CV.Ops.Pipeline.docsOf (getObj b "docs")
          pure { ref := getStr b "ref", relDir := getStr b "reldir", docs := ds }
      | _ => .ok []
    match bases with
    | .error e => Json.mkObj [("bad", e)]
    | .ok bs =>
      match CV.C01PipeFS.loadFS (CV.Ops.Pipeline.cfgOf args) bs docs with
      | .ok kvs => Json.mkObj [("ok", CV.Val.toJson (.map kvs))]
      | .err e => Json.mkObj [("err", e)]
      | .panic s => Json.mkObj [("panic", s)]

/-- `c01filesProject`: `{"disk":…, "skip_env":…, "services":[{"env_files":[…], "label_files":[…]}…]}` → the outcome of
`Files.resolveProject` for EVERY visit order of the services (the Go map hands them out in any order):
`{"outs":[{"ok":[…]} | {"err":cls,"path":p} …]}` -/
def insertEverywhereG {α : Type} (x : α) : List α → List (List α)
  | [] => [[x]]
  | y :: r => (x :: y :: r) :: (insertEverywhereG x r).map (y :: ·)

def permsG {α : Type} : List α → List (List α)
  | [] => [[]]
  | x :: r => (permsG r).flatMap (insertEverywhereG x)

def filesProjectOp : Handler := fun args =>
  let fs := diskOf (getObj args "disk")
  let svcs : List CV.C01.Files.Svc := match getObj args "services" with
    | .arr a => a.toList.map fun sv =>
        { envFiles := match getObj sv "env_files" with
            | .arr es => es.toList.map fun e => { path := getStr e "path", required := getBool e "required" }
            | _ => []
          labelFiles := getStrList sv "label_files" }
    | _ => []
  let outs : List Json := (permsG svcs).map fun order =>
    match CV.C01.Files.resolveProject fs (getBool args "skip_env") order with
    | .ok l => Json.mkObj [("ok", Json.arr (l.map Json.str).toArray)]
    | .err c p => Json.mkObj [("err", c), ("path", p)]
  Json.mkObj [("outs", Json.arr outs.toArray)]

def handlers : List (String × Handler) := [("c01filesProject", filesProjectOp), ("c01pipeFS", pipeFSOp), ("c01reset", resetOp), ("c01files", filesOp), ("c01unicityLoop", unicityLoopOp), ("c01pipe", pipeOp),
  ("c01convert", convertOp), ("c01convertTop", convertTopOp), ("c01fixEmpty", fixEmptyOp), ("c01omitEmpty", omitEmptyOp),
  ("c01tracker", trackerOp), ("c01extends", extendsOp), ("c01include", includeOp), ("c01checkCycle", checkCycleOp)]

end CV.Ops.C01
