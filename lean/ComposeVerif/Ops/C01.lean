import ComposeVerif.Ops.Common
/-! line-protocol ops for C01 (filled in by the property's owner) -/
namespace CV.Ops.C01

def handlers : List (String × Handler) := []

end CV.Ops.C01
