import ComposeVerif.Ops.Common
import ComposeVerif.Model.Heap
import ComposeVerif.Gen.CopyPlan
import ComposeVerif.Model.Derivations
import ComposeVerif.Model.DerivApply
import ComposeVerif.Model.HeapVisit
/-! line-protocol ops for C14: `c14.copy` (model of the generated deep copy), `c14.spec` (isolation decided by the spec) -/
open Lean
namespace CV.Ops.C14
open CV.Heap

/-- resolved (type, plan) of a hand-written `deepCopy()` root, by receiver type name -/
def rootOf (name : String) : Option (Ty × Plan) :=
  match CV.Gen.CopyPlan.roots.find? (fun r => r.1 == name) with
  | some (_, t, p) => some (Ty.resolve CV.Gen.CopyPlan.types 64 t, Plan.resolve CV.Gen.CopyPlan.fns 64 p)
  | none => none

def fieldIndex : Std.HashMap String Nat :=
  (CV.Gen.CopyPlan.fieldNames.zipIdx).foldl (fun m (n, i) => m.insert n i) {}

def fieldName (i : Nat) : String := CV.Gen.CopyPlan.fieldNames.getD i s!"#{i}"

/-- wire → GoVal.  scalar = string · nil = null · {"p":[a,V]} · {"l":[a,[V…]]} · {"m":[a,[[k,V]…]]} · {"t":[[field,V]…]} · {"o":[a,repr]} -/
partial def ofJson (j : Json) : Except String GoVal := do
  match j with
  | .null => pure .nil
  | .str s => pure (.scalar s)
  | .obj _ =>
    if let .ok (.arr a) := j.getObjVal? "p" then
      let ad ← (a.getD 0 .null).getNat?
      let v ← ofJson (a.getD 1 .null)
      pure (.ptr ad v)
    else if let .ok (.arr a) := j.getObjVal? "l" then
      let ad ← (a.getD 0 .null).getNat?
      let xs ← (a.getD 1 .null).getArr?
      let ks ← xs.toList.mapM fun x => do pure (Key.idx, ← ofJson x)
      pure (.slice ad ks)
    else if let .ok (.arr a) := j.getObjVal? "m" then
      let ad ← (a.getD 0 .null).getNat?
      let xs ← (a.getD 1 .null).getArr?
      let ks ← xs.toList.mapM fun x => do
        let e ← x.getArr?
        let k ← (e.getD 0 .null).getStr?
        pure (Key.str k, ← ofJson (e.getD 1 .null))
      pure (.map ad ks)
    else if let .ok (.arr a) := j.getObjVal? "t" then
      let ks ← a.toList.mapM fun x => do
        let e ← x.getArr?
        let k ← (e.getD 0 .null).getStr?
        match fieldIndex[k]? with
        | some i => pure (Key.fld i, ← ofJson (e.getD 1 .null))
        | none => throw s!"field {k} is not in the regenerated field table"
      pure (.struct ks)
    else if let .ok (.arr a) := j.getObjVal? "o" then
      let ad ← (a.getD 0 .null).getNat?
      let s ← (a.getD 1 .null).getStr?
      pure (.opaque ad s)
    else throw "unknown value object"
  | _ => throw "unknown value"

partial def toJson : GoVal → Json
  | .nil => .null
  | .scalar s => .str s
  | .opaque a s => Json.mkObj [("o", .arr #[(a : Nat), .str s])]
  | .ptr a v => Json.mkObj [("p", .arr #[(a : Nat), toJson v])]
  | .slice a ks => Json.mkObj [("l", .arr #[(a : Nat), .arr (ks.map fun kv => toJson kv.2).toArray])]
  | .map a ks => Json.mkObj [("m", .arr #[(a : Nat), .arr (ks.map fun kv =>
      Json.arr #[.str (match kv.1 with | .str s => s | _ => ""), toJson kv.2]).toArray])]
  | .struct ks => Json.mkObj [("t", .arr (ks.map fun kv =>
      Json.arr #[.str (match kv.1 with | .fld f => fieldName f | _ => "?"), toJson kv.2]).toArray)]

/-- canonical numbering of a copy: addresses below `k` (shared with the source) are kept, the others are renumbered
in first-visit order from `k`; a slice without elements has no identity (0), as in the Go encoder -/
partial def renumber (k : Nat) (v : GoVal) : StateM (Std.HashMap Nat Nat × Nat) GoVal := do
  let fresh (a : Nat) : StateM (Std.HashMap Nat Nat × Nat) Nat := do
    if a < k then return a
    let (m, n) ← get
    match m[a]? with
    | some b => return b
    | none => set (m.insert a n, n + 1); return n
  let kids (ks : List (Key × GoVal)) : StateM (Std.HashMap Nat Nat × Nat) (List (Key × GoVal)) :=
    ks.mapM fun kv => do return (kv.1, ← renumber k kv.2)
  match v with
  | .ptr a w => do let b ← fresh a; return .ptr b (← renumber k w)
  | .slice a ks => do
    if ks.isEmpty then return .slice 0 []
    let b ← fresh a; return .slice b (← kids ks)
  | .map a ks => do let b ← fresh a; return .map b (← kids ks)
  | .struct ks => do return .struct (← kids ks)
  | w => return w

def copyOp : Handler := fun args =>
  match rootOf (getStr args "root") with
  | none => Json.mkObj [("bad", "unknown root")]
  | some (ty, plan) =>
    match ofJson (getObj args "src") with
    | .error e => Json.mkObj [("bad", .str e)]
    | .ok src =>
      -- opaque payloads live in the same heap: allocate above them as well
      let n := (oaddrs src).foldl (fun m a => max m (a+1)) (frontier src)
      let r := exec plan src n
      let dst := ((renumber n r.1).run ({}, n)).1
      let ss := (addrs src).foldl (fun (m : Std.HashSet Nat) x => m.insert x) {}
      let shared := (addrs dst).filter fun a => a != 0 && ss.contains a
      Json.mkObj [("dst", toJson dst),
        ("hasTy", Json.bool (hasTy ty src)),
        ("isolated", Json.bool shared.isEmpty),
        ("equal", Json.bool ((toJson (erase r.1)).compress == (toJson (erase src)).compress))]

/-- the spec on one concrete step: the receiver is literally what it was, and the result shares no address with it -/
def specOp : Handler := fun args =>
  match ofJson (getObj args "before"), ofJson (getObj args "after") with
  | .ok b, .ok a =>
    let unchanged := (toJson b).compress == (toJson a).compress
    let shared : List Nat := match args.getObjVal? "result" with
      | .ok rj => match ofJson rj with
        | .ok r =>
          let sb := (addrs b).foldl (fun (m : Std.HashSet Nat) x => m.insert x) {}
          ((addrs r).filter fun x => x != 0 && sb.contains x).eraseDups
        | .error _ => [0]
      | .error _ => []
    Json.mkObj [("unchanged", Json.bool unchanged), ("shared", Json.arr (shared.map fun (x : Nat) => (x : Json)).toArray)]
  | .error e, _ => Json.mkObj [("bad", .str e)]
  | _, .error e => Json.mkObj [("bad", .str e)]

/-- map children in key order (the wire format's canonical order) -/
partial def sortMaps : GoVal → GoVal
  | .ptr a v => .ptr a (sortMaps v)
  | .slice a ks => .slice a (ks.map fun kv => (kv.1, sortMaps kv.2))
  | .struct ks => .struct (ks.map fun kv => (kv.1, sortMaps kv.2))
  | .map a ks =>
    let key (k : Key) : String := match k with | .str s => s | _ => ""
    let sorted := (ks.map fun kv => (kv.1, sortMaps kv.2)).toArray.qsort (fun x y => key x.1 < key y.1)
    .map a sorted.toList
  | v => v

def pdataOf (j : Json) : PData :=
  match j with
  | .arr a => some (a.toList.map fun x => match x with | .str s => s | _ => "")
  | _ => none

/-- executable reading of `Spec/HeapCarry.Keeps` (the writes keep field `g` of the project struct at `a0`); equality of the
kept field is decided on the wire rendering -/
def keepsJ (a0 g : Nat) : List (Nat × Cell) → List (Key × GoVal) → Bool
  | [], _ => true
  | (a, cell) :: r, ks =>
    if a = a0 then
      match cell with
      | .pointee (.struct ks') =>
        (kidOf (.fld g) ks').isSome == (kidOf (.fld g) ks).isSome &&
        (toJson ((kidOf (.fld g) ks').getD .nil)).compress == (toJson ((kidOf (.fld g) ks).getD .nil)).compress &&
        keepsJ a0 g r ks'
      | _ => false
    else !(addrs ((kidOf (.fld g) ks).getD .nil)).contains a && keepsJ a0 g r (writeKids a cell ks)

/-- the fields of the copy the program's write log does not keep (`none`: the result is not "the first copy after the
program's writes" — programs that copy more than once — so `carry_partial` does not apply to this run) -/
def affectedFields (plan : Plan) (src : GoVal) (n : Nat) (st : St) (res : GoVal) : Option (List String) :=
  let c0 := (exec plan src n).1
  match c0 with
  | .ptr a0 (.struct ks) =>
    if (toJson (writes st.log c0)).compress == (toJson res).compress then
      some (ks.filterMap fun kv => match kv.1 with
        | .fld g => if keepsJ a0 g st.log ks then none else some (fieldName g)
        | _ => none)
    else none
  | _ => none

/-- the heap program of a derivation run on the encoded receiver: result, error class, and what the model observed
about its own run (receiver variable unchanged, every write above the receiver's frontier) -/
def derivOp : Handler := fun args =>
  match rootOf "Project", CV.Heap.Deriv.programsAll.find? (fun p => p.1 == getStr args "op"), ofJson (getObj args "src") with
  | some (ty, plan), some (_, prog), .ok src =>
    let n := (oaddrs src).foldl (fun m a => max m (a+1)) (frontier src)
    let pargs : List (String × PData) := match getObj args "pargs" with
      | .obj o => o.toList.map fun (k, v) => (k, pdataOf v)
      | _ => []
    let st := runProg ty plan prog src pargs n
    let recvSame := (toJson (getVar "p" st.vars)).compress == (toJson src).compress
    let confined := st.log.all fun w => n ≤ w.1
    let res := getVar "result" st.vars
    Json.mkObj [("res", if st.err.isSome && (match res with | .nil => true | _ => false) then Json.null else toJson (sortMaps res)),
      ("err", match st.err with | some e => Json.str e | none => Json.null),
      ("recvUnchanged", Json.bool recvSame), ("confined", Json.bool confined),
      ("wellTyped", Json.bool (match res with | .nil => true | _ => hasTy ty res)),
      -- `apply` is receiver free on the branch under WithSecretContent; without the option it returns the receiver (no write, no allocation)
      ("rf", Json.bool (if getStr args "op" == "MarshalApply" then
          (if (getP "secretsContent" pargs) == some ["1"] then rfL CV.Heap.Deriv.applySecrets else st.log.isEmpty && st.next == n)
        else rfL prog)),
      ("writes", (st.log.length : Nat)),
      ("affected", match affectedFields plan src n st res with
        | some l => Json.arr (l.map Json.str).toArray
        | none => Json.null)]
  | none, _, _ => Json.mkObj [("bad", "no Project root")]
  | _, none, _ => Json.mkObj [("bad", .str ("no program for " ++ getStr args "op"))]
  | _, _, .error e => Json.mkObj [("bad", .str e)]

/-- which branches of the walk an input can reach (input distribution of `c14.visit`), from the final state and the receiver -/
def visitBranches (src : GoVal) (policy : String) (st : CV.Heap.Visit.VSt) : List String :=
  let svcs := CV.Heap.Deriv.mapEntries (getFld CV.Heap.Deriv.fServices src)
  let visited := st.out.map (·.1)
  let optMissing := visited.any fun n => (CV.Heap.Deriv.mapEntries (getFld CV.Heap.Deriv.fDependsOn (getIdx n (getFld CV.Heap.Deriv.fServices src)))).any fun (d, dv) =>
    !(svcs.any (·.1 == d)) && scalarStr (getFld CV.Heap.Deriv.fRequired dv) != "b:true"
  (if st.err == some "no such service" then ["error-no-such-service"] else []) ++
  (if st.out.isEmpty && st.err.isNone then ["nothing-visited"] else []) ++
  (if st.out.length > 1 then ["several-visited"] else []) ++
  (if policy == "deps" && optMissing && st.err.isNone then ["optional-missing-dependency-skipped"] else []) ++
  (if policy == "dependents" && st.log.length > st.out.length then ["dependent-map-stored"] else []) ++
  (if st.out.any (fun e => !(CV.Heap.Deriv.isNil (getFld CV.Heap.Deriv.fDependsOn e.2))) then ["visited-has-depends-on"] else [])

/-- the walk of `withServices` on the encoded receiver: the services handed to the visitor (as one `Services` map made
after the walk), error class, and whether every write of the walk went through memory allocated since the call -/
def visitOp : Handler := fun args =>
  match rootOf "ServiceConfig", ofJson (getObj args "src") with
  | some (ty, plan), .ok src =>
    let n := (oaddrs src).foldl (fun m a => max m (a+1)) (frontier src)
    let policy := getStr args "policy"
    let st := CV.Heap.Visit.forEachService ty plan src policy false (getStrList args "names") n
    let res : GoVal := .map st.next (st.out.map fun e => (Key.str e.1, match e.2 with | .ptr _ v => v | v => v))
    Json.mkObj [("res", toJson (sortMaps res)),
      ("err", match st.err with | some e => Json.str e | none => Json.null),
      ("confined", Json.bool (st.log.all fun w => n ≤ w.1)),
      ("writes", (st.log.length : Nat)),
      ("order", Json.arr (st.out.map fun e => Json.str e.1).toArray),
      -- cross-check of two models: the pure closure the WithSelectedServices program uses for `p.ForEachService(names, set.Add, …)`
      ("selectedAgrees", Json.bool (
        let names := getStrList args "names"
        let names' := if names.isEmpty then mapKeys (getFld CV.Heap.Deriv.fServices src) else names
        match CV.Heap.Deriv.selected src names' policy with
        | none => st.err == some "no such service"
        | some set => st.err.isNone && set.all (fun x => st.out.any (·.1 == x)) && st.out.all (fun e => set.contains e.1))),
      ("branches", Json.arr ((visitBranches src policy st).map Json.str).toArray)]
  | none, _ => Json.mkObj [("bad", "no ServiceConfig root")]
  | _, .error e => Json.mkObj [("bad", .str e)]

def handlers : List (String × Handler) := [("c14.copy", copyOp), ("c14.spec", specOp), ("c14.deriv", derivOp), ("c14.visit", visitOp)]

end CV.Ops.C14
