import ComposeVerif.Ops.Common
/-! line-protocol ops for C14 (filled in by the property's owner) -/
namespace CV.Ops.C14

def handlers : List (String × Handler) := []

end CV.Ops.C14
