import ComposeVerif.Ops.Common
/-! line-protocol ops for C12 (filled in by the property's owner) -/
namespace CV.Ops.C12

def handlers : List (String × Handler) := []

end CV.Ops.C12
