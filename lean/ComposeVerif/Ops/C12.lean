import ComposeVerif.Model.PathsLoaders
import ComposeVerif.Ops.Common
import ComposeVerif.Model.Paths
import ComposeVerif.Spec.Paths
import ComposeVerif.Model.PathsOrigin
import ComposeVerif.Model.PathsSymlink
/-! line-protocol ops for C12: `c12.join`, `c12.winabs`, `c12.remote`, `c12.resolve`, `c12.spec` -/
open Lean
namespace CV.Ops.C12
open CV.Paths

def optStr (j : Json) (k : String) : Option Str :=
  match j.getObjVal? k with
  | .ok (.str s) => some s.toList
  | _ => none

/-- `home` on the wire: a string; "" = `$HOME` unset (UserHomeDir fails) -/
def homeOf (j : Json) : Option Str :=
  match optStr j "home" with
  | some [] => none
  | o => o

def cfgOf (j : Json) : Cfg :=
  let pres := (getStrList j "remotes").map String.toList
  { wd := (getStr j "wd").toList
    home := homeOf j
    remote := fun s => pres.any (fun p => p.isPrefixOf s) }

/-- `filepath.Join(a, b)` and `filepath.Clean(a)` -/
def joinOp : Handler := fun args =>
  let a := (getStr args "a").toList
  let b := (getStr args "b").toList
  Json.mkObj [("join", str (join a b)), ("clean", str (clean a)), ("abs", Json.bool (isAbs a))]

def winabsOp : Handler := fun args =>
  let p := (getStr args "p").toList
  match volumeNameLen? p, isWindowsAbs? p with
  | some n, some b => Json.mkObj [("vol", Json.num n), ("abs", Json.bool b), ("spec", Json.bool (CV.Paths.Spec.winAbs p))]
  | _, _ => Json.mkObj [("panic", "isWindowsAbs")]

def remoteOp : Handler := fun args =>
  let p := (getStr args "p").toList
  Json.mkObj [("remote", Json.bool (isRemoteContext p)), ("expand", str (expandUser (homeOf args) p))]

def outJson : Out Val → Json
  | .ok v => Json.mkObj [("ok", v.toJson)]
  | .err e => Json.mkObj [("err", e)]
  | .panic s => Json.mkObj [("panic", s)]

def dedup (l : List String) : List String := l.foldl (fun acc s => if acc.contains s then acc else acc ++ [s]) []

/-- `paths.ResolveRelativePaths(tree, wd, remotes)`; `fails` = every failure some map order can report -/
def resolveOp : Handler := fun args =>
  match Val.ofJson (getObj args "tree") with
  | .error e => Json.mkObj [("bad", e)]
  | .ok v =>
    let cfg := cfgOf args
    Json.mkObj [("out", outJson (resolve cfg v)),
                ("fails", Json.arr ((dedup (fails CV.Gen.resolvers cfg TPath.root v)).map Json.str).toArray)]

def outStrJson : Out Str → Json
  | .ok r => Json.mkObj [("ok", str r)]
  | .err e => Json.mkObj [("err", e)]
  | .panic x => Json.mkObj [("panic", x)]

/-- `filepath.Rel(base, targ)`, `filepath.Dir(base)` -/
def relOp : Handler := fun args =>
  let b := (getStr args "base").toList
  let t := (getStr args "targ").toList
  Json.mkObj [("rel", match rel b t with | some r => str r | none => Json.null), ("dir", str (dir b))]

def isDirOf (args : Json) : Str → Bool :=
  let dirs := (getStrList args "dirs").map String.toList
  fun p => dirs.contains (clean p)

/-- `localResourceLoader{lw}.Dir(orig)` -/
def ldirOp : Handler := fun args =>
  Json.mkObj [("dir", str (loaderDir (isDirOf args) (getStr args "lw").toList (getStr args "orig").toList))]

def stepOf (j : Json) : Option Step :=
  match j.getObjVal? "ext" with
  | .ok (.str f) => some (.ext f.toList)
  | _ =>
    match j.getObjVal? "incl" with
    | .ok (.str p) =>
      match j.getObjVal? "pd" with
      | .ok (.str d) => some (.incl p.toList (some d.toList))
      | _ => some (.incl p.toList none)
    | _ => none

def kindNo : String → Nat
  | "local" => 0 | "context" => 1 | _ => 2

/-- the value the MODEL predicts for a whole load: origin chain → bases → staged resolution -/
def predictOf (args : Json) : Json :=
  let cfg := cfgOf args
  let steps := match args.getObjVal? "steps" with
    | .ok (.arr a) => a.toList.filterMap stepOf
    | _ => []
  outStrJson (predict (kindNo (getStr args "kind")) cfg (isDirOf args) steps (getBool args "final") (getStr args "s").toList)

/-- the specification, decided on one attribute value: what the property says the resolved value is -/
def specOp : Handler := fun args =>
  let cfg := cfgOf args
  let kind := getStr args "kind"
  let s := (getStr args "s").toList
  match CV.Paths.Spec.kindOf kind with
  | none => Json.mkObj [("bad", "kind")]
  | some k =>
    let want : Json := match CV.Paths.Spec.expected? k cfg.wd cfg.home cfg.remote s with
      | some r => str r
      | none => Json.null
    let cls : Json := Json.str (CV.Paths.Spec.shapeName (CV.Paths.Spec.classify k cfg.remote s))
    let model : List (String × Json) := match args.getObjVal? "model" with
      | .ok m => [("model", predictOf m)]
      | _ => []
    Json.mkObj ([("want", want), ("class", cls)] ++ model)

/-- a batch of spec questions: `items = [{kind, wd, home, remotes, s}, …]` -/
def specsOp : Handler := fun args =>
  match args.getObjVal? "items" with
  | .ok (.arr a) => Json.arr (a.map specOp)
  | _ => Json.arr #[]

def compsOf (j : Json) : Option (List Str) :=
  match j with
  | .arr a => a.toList.mapM fun x => match x with | .str c => some c.toList | _ => none
  | _ => none

/-- `utils.ResolveSymbolicLink` over a finite link table: `links = [[path comps, target comps | null], …]` -/
def symresOp : Handler := fun args =>
  let tab : List (List Str × Option (List Str)) := match args.getObjVal? "links" with
    | .ok (.arr a) => a.toList.filterMap fun e => match e with
      | .arr #[k, v] => match compsOf k with
        | some kk => some (kk, compsOf v)
        | none => none
      | _ => none
    | _ => []
  match compsOf (getObj args "path") with
  | none => Json.mkObj [("bad", "path")]
  | some p =>
    match CV.Paths.Sym.resolveSym (CV.Paths.Sym.ofTable tab) p with
    | .ok r => Json.mkObj [("ok", Json.arr (r.map str).toArray)]
    | .err => Json.mkObj [("err", Json.bool true)]

/-- `utils.ResolveSymbolicLink` on strings (`Sym.resolveStr`): relative paths included -/
def symstrOp : Handler := fun args =>
  let tab : List (List Str × Option (List Str)) := match args.getObjVal? "links" with
    | .ok (.arr a) => a.toList.filterMap fun e => match e with
      | .arr #[k, v] => match compsOf k with
        | some kk => some (kk, compsOf v)
        | none => none
      | _ => none
    | _ => []
  match CV.Paths.Sym.resolveStr (CV.Paths.Sym.ofTable tab) (getStr args "path").toList with
  | some r => Json.mkObj [("ok", str r)]
  | none => Json.mkObj [("err", Json.bool true)]

open CV.Paths.Loaders in
def renderLoader : Option Loader → Json
  | none => Json.str "nil"
  | some (.remote i) => Json.str s!"r{i}"
  | some (.loc d) => Json.str ("L:" ++ String.mk d)

open CV.Paths.Loaders in
/-- the resource-loader lists of a sequence of nested loads on the heap model: `remotes` registered loaders, `spare`
unused slots in the caller's slice, `toOptions` for `wd`, then `script = [[from, dir], …]` -/
def loadersOp : Handler := fun args =>
  let n := getNat args "remotes"
  let spare := getNat args "spare"
  let m : Heap × GoSlice := if n + spare = 0 then (Heap.empty, none)
    else alloc Heap.empty ((List.range n).map fun i => some (.remote (i + 1))) spare
  let o := toOptions m.1 m.2 (getStr args "wd").toList
  let script : List (Nat × Str) := match args.getObjVal? "script" with
    | .ok (.arr a) => a.toList.filterMap fun e => match e with
      | .arr #[.num k, .str d] => some (k.mantissa.toNat, d.toList)
      | _ => none
    | _ => []
  let r := runScript o.1 [o.2] script
  let capOf : GoSlice → Nat := fun s => match s with | none => 0 | some t => t.cap
  Json.mkObj [
    ("mine", Json.arr ((full r.1 m.2).map renderLoader).toArray),
    ("lists", Json.arr (r.2.map fun s => Json.mkObj [("read", Json.arr ((read r.1 s).map renderLoader).toArray), ("cap", Json.num (capOf s))]).toArray)]

def handlers : List (String × Handler) :=
  [("c12.join", joinOp), ("c12.winabs", winabsOp), ("c12.remote", remoteOp),
   ("c12.resolve", resolveOp), ("c12.spec", specOp), ("c12.specs", specsOp),
   ("c12.rel", relOp), ("c12.ldir", ldirOp), ("c12.symres", symresOp), ("c12.symstr", symstrOp), ("c12.loaders", loadersOp)]

end CV.Ops.C12
