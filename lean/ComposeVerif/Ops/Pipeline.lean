import ComposeVerif.Ops.Common
import ComposeVerif.Ops.C08
import ComposeVerif.Ops.C12
import ComposeVerif.Ops.C04
import ComposeVerif.Model.Pipeline
import ComposeVerif.Gen.OmitEmpty
/-! line-protocol op `pipeline.load`: the composed loader pipeline (`Model/Pipeline.lean`) on a list of documents -/
open Lean
namespace CV.Ops.Pipeline
open CV CV.Pipeline

def docsOf (j : Json) : Except String (List Val.KVs) :=
  match j with
  | .arr a => a.toList.mapM fun d => match Val.ofJson d with
    | .ok (.map kvs) => .ok kvs
    | .ok _ => .error "document is not a mapping"
    | .error e => .error e
  | _ => .error "docs is not a list"

def optsOf (j : Json) : Opts :=
  { skipInterpolation := getBool j "skipInterpolation"
    skipValidation := getBool j "skipValidation"
    skipDefaultValues := getBool j "skipDefaultValues"
    resolvePaths := getBool j "resolvePaths"
    skipNormalization := getBool j "skipNormalization"
    skipExtends := !(getBool j "extends") }

def cfgOf (args : Json) : Cfg :=
  { opts := optsOf (getObj args "opts")
    interp := CV.Ops.C08.cfgOf args
    paths := CV.Ops.C12.cfgOf args
    env := getStrMap args "env"
    projectName := getStr args "name"
    clean := CV.C11.pathClean
    omitPats := (getStrList args "omit").map (fun s => s.splitOn ".")
    mainFile := getStr args "mainFile" }

/-- `{"docs":[T(map)…], "opts":{…}, "env":{…}, "name":…, "wd":…, "home":…, "remotes":[…], "omit":[…], "f64":{…}, "f32":{…}}`
    → `{"ok": T}` | `{"err": stage}` | `{"panic": site}` -/
def omitTableBad : String :=
  "the omitempty table handed over at run time (loader.VerifOmitEmptyPatterns) differs from the table regenerated from loader/omitEmpty.go (Gen.omitempty)"

def loadOp : Handler := fun args =>
  if (cfgOf args).omitPats != CV.Gen.omitempty then Json.mkObj [("bad", omitTableBad)] else
  match docsOf (getObj args "docs") with
  | .error e => Json.mkObj [("bad", e)]
  | .ok docs =>
    match load (cfgOf args) docs with
    | .ok kvs => Json.mkObj [("ok", Val.toJson (.map kvs))]
    | .err e => Json.mkObj [("err", e)]
    | .panic s => Json.mkObj [("panic", s)]

def filesOf (j : Json) : List (List Reset.YNode) :=
  match j with
  | .arr fs => fs.toList.map fun f => match f with
    | .arr ds => ds.toList.map CV.Ops.C04.nodeOfJson
    | _ => []
  | _ => []

/-- `{"files":[[node…]…], …}` (nodes in C04's wire format, tags included) → `{"ok": T}` | `{"err": stage}` | `{"panic": site}` -/
def loadYOp : Handler := fun args =>
  if (cfgOf args).omitPats != CV.Gen.omitempty then Json.mkObj [("bad", omitTableBad)] else
  match loadY (cfgOf args) (filesOf (getObj args "files")) with
  | .ok kvs => Json.mkObj [("ok", Val.toJson (.map kvs))]
  | .err e => Json.mkObj [("err", e)]
  | .panic s => Json.mkObj [("panic", s)]

def handlers : List (String × Handler) := [("pipeline.load", loadOp), ("pipeline.loadY", loadYOp)]

end CV.Ops.Pipeline
