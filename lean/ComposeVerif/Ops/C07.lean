import ComposeVerif.Ops.Common
import ComposeVerif.Model.Template
import ComposeVerif.Spec.Template
/-! line-protocol ops for C07: `subst` -/
open Lean
namespace CV.Ops.C07
open CV.Template

def outJson : Out → Json
  | .ok s => Json.mkObj [("ok", str s)]
  | .err .invalid => Json.mkObj [("err", "invalid")]
  | .err (.required v m) => Json.mkObj [("err", "required"), ("var", str v), ("msg", str m)]
  | .panic .fuel => Json.mkObj [("panic", "fuel")]
  | .panic .matchGroups => Json.mkObj [("panic", "matchGroups")]

def subst : Handler := fun args =>
  let t := (getStr args "t").toList
  let env := envOfList (getStrMap args "env")
  outJson (CV.Template.subst env t)

def handlers : List (String × Handler) := [("subst", subst)]

end CV.Ops.C07

namespace CV.Ops.C07
open CV.Template

def opOfStr : String → Option Op
  | ":?" => some .colonQ | "?" => some .q | ":-" => some .colonDash
  | "-" => some .dash | ":+" => some .colonPlus | "+" => some .plus
  | _ => none

partial def segOfJson (j : Json) : Option Seg :=
  match j.getObjVal? "lit" with
  | .ok (.str s) => some (Seg.lit s.toList)
  | _ =>
  match j.getObjVal? "esc" with
  | .ok _ => some Seg.esc
  | _ =>
  match j.getObjVal? "var" with
  | .ok (.str n) => some (Seg.var n.toList (getBool j "braced"))
  | _ =>
  match j.getObjVal? "op" with
  | .ok (.str n) =>
    let a := match j.getObjVal? "arg" with
      | .ok (.arr a) => a.toList
      | _ => []          -- an empty argument is omitted on the wire
    match opOfStr (getStr j "o"), a.mapM segOfJson with
    | some o, some l => some (Seg.op n.toList o l)
    | _, _ => none
  | _ => none

/-- spec oracle: render the AST, say whether it is well-formed, and what the property says it evaluates to -/
def substSpec : Handler := fun args =>
  let env := envOfList (getStrMap args "env")
  let ast : Option (List Json) := match args.getObjVal? "ast" with
    | .ok (.arr a) => some a.toList
    | .ok .null => some []      -- Go encodes an empty slice as null
    | _ => none
  match ast with
  | some a =>
    match a.mapM segOfJson with
    | some t => Json.mkObj [("wf", Json.bool (WF t)), ("wf_ml", Json.bool (WFml t)), ("rendered", str (renderL t)), ("eval", outJson (evalOut env t))]
    | none => Json.mkObj [("bad", "ast")]
  | _ => Json.mkObj [("bad", "ast")]

def handlers2 : List (String × Handler) := [("substSpec", substSpec)]
end CV.Ops.C07
