import ComposeVerif.Ops.Common
import ComposeVerif.Model.Template
import ComposeVerif.Spec.Template
import ComposeVerif.Model.TemplateOpts
import ComposeVerif.Model.TemplateSites
import ComposeVerif.Model.TemplateDocs
import ComposeVerif.Model.TemplateParse
/-! line-protocol ops for C07: `subst` -/
open Lean
namespace CV.Ops.C07
open CV.Template

def outJson : Out → Json
  | .ok s => Json.mkObj [("ok", str s)]
  | .err .invalid => Json.mkObj [("err", "invalid")]
  | .err (.required v m) => Json.mkObj [("err", "required"), ("var", str v), ("msg", str m)]
  | .panic .fuel => Json.mkObj [("panic", "fuel")]
  | .panic .matchGroups => Json.mkObj [("panic", "matchGroups")]

def subst : Handler := fun args =>
  let t := (getStr args "t").toList
  let env := envOfList (getStrMap args "env")
  outJson (CV.Template.subst env t)

def handlers : List (String × Handler) := [("subst", subst)]

end CV.Ops.C07

namespace CV.Ops.C07
open CV.Template

def opOfStr : String → Option Op
  | ":?" => some .colonQ | "?" => some .q | ":-" => some .colonDash
  | "-" => some .dash | ":+" => some .colonPlus | "+" => some .plus
  | _ => none

partial def segOfJson (j : Json) : Option Seg :=
  match j.getObjVal? "lit" with
  | .ok (.str s) => some (Seg.lit s.toList)
  | _ =>
  match j.getObjVal? "esc" with
  | .ok _ => some Seg.esc
  | _ =>
  match j.getObjVal? "var" with
  | .ok (.str n) => some (Seg.var n.toList (getBool j "braced"))
  | _ =>
  match j.getObjVal? "op" with
  | .ok (.str n) =>
    let a := match j.getObjVal? "arg" with
      | .ok (.arr a) => a.toList
      | _ => []          -- an empty argument is omitted on the wire
    match opOfStr (getStr j "o"), a.mapM segOfJson with
    | some o, some l => some (Seg.op n.toList o l)
    | _, _ => none
  | _ => none

/-- spec oracle: render the AST, say whether it is well-formed, and what the property says it evaluates to -/
def substSpec : Handler := fun args =>
  let env := envOfList (getStrMap args "env")
  let ast : Option (List Json) := match args.getObjVal? "ast" with
    | .ok (.arr a) => some a.toList
    | .ok .null => some []      -- Go encodes an empty slice as null
    | _ => none
  match ast with
  | some a =>
    match a.mapM segOfJson with
    | some t =>
      -- completeness of the checked parser on this AST: its rendering is accepted, with the same meaning
      let parseOk := match parse? (renderL t) with
        | some t' => decide (evalOut env t' = evalOut env t)
        | none => false
      Json.mkObj [("wf", Json.bool (WF t)), ("wf_ml", Json.bool (WFml t)), ("rendered", str (renderL t)),
        ("eval", outJson (evalOut env t)), ("parse_ok", Json.bool parseOk)]
    | none => Json.mkObj [("bad", "ast")]
  | _ => Json.mkObj [("bad", "ast")]

/-- `substStr`: a *string* — the model of the code on it, and, when the checked parser accepts it, the grammar's verdict -/
def substStr : Handler := fun args =>
  let t := (getStr args "t").toList
  let env := envOfList (getStrMap args "env")
  match parse? t with
  | some ast => Json.mkObj [("model", outJson (CV.Template.subst env t)), ("parsed", Json.bool true), ("eval", outJson (evalOut env ast))]
  | none => Json.mkObj [("model", outJson (CV.Template.subst env t)), ("parsed", Json.bool false)]

/-! ### `substOpts`: `SubstituteWithOptions` under a named configuration (mirrors `harness/p/c07/c07_opts.go`) -/

/-- custom `SubstituteFunc` of the harness: `NAME:-arg` → the value, or `[arg]` *uninterpolated* when unset
    (an error when the argument is `!`); anything else is "not applied" -/
def optSubs : Env → Str → SubRes := fun env s =>
  if containsStr [':', '-'] s then
    match env (cut [':', '-'] s).1 with
    | some v => .val v true
    | none =>
      if (cut [':', '-'] s).2 == ['!'] then .err (.required (cut [':', '-'] s).1 "bang".toList)
      else .val ('[' :: (cut [':', '-'] s).2 ++ [']']) true
  else .val [] false

/-- custom `ReplacementFunc` of the harness: a doubled delimiter → one, a bare `d{` → invalid, else `<match>` -/
def optRepl : Env → Str → Out := fun _ m =>
  match m with
  | [a, b] => if a == b then .ok [a] else if b == '{' then .err .invalid else .ok ('<' :: m ++ ['>'])
  | _ => .ok ('<' :: m ++ ['>'])

def cfgOf (name : String) : Cfg :=
  let base := if name.startsWith "percent" then delimCfg '%'
    else if name == "strict" then patCfg matchStrictG
    else if name == "angle" then patCfg matchAngleG
    else if name == "dbl" then patCfg matchDblG
    else defaultCfg
  let hasSubs := name == "subs" || name == "percent+subs" || name == "subs+repl"
  let hasRepl := name == "repl" || name == "percent+repl" || name == "subs+repl"
  { base with subsFunc := if hasSubs then some optSubs else none,
              replFunc := if hasRepl then some optRepl else none }

def substOpts : Handler := fun args =>
  let t := (getStr args "t").toList
  let env := envOfList (getStrMap args "env")
  outJson (substWith (cfgOf (getStr args "cfg")) env t)

/-! ### `substSite`: a string value at a call site of the loader (mirrors `harness/p/c07/c07_sites.go`) -/

def pairsOfJson (j : Json) : Sites.GoMap :=
  match j with
  | .arr a => a.toList.filterMap fun p =>
    match p with
    | .arr #[.str k, .str v] => some (k.toList, v.toList)
    | _ => none
  | _ => []

/-- the grammar's reading of several env files of one include entry (values are ASTs; `Spec/Template.lean` only) -/
def specFile2 (environment envMap : Sites.GoMap) : List (Str × List Seg) → Sites.GoMap → Sites.FileRes
  | [], acc => .ok acc
  | (k, t) :: r, acc =>
    match evalOut (Sites.layered [environment, envMap, acc]) t with
    | .ok v => specFile2 environment envMap r ((k, v) :: acc)
    | o => .fail o
def specFiles (environment : Sites.GoMap) : List (List (Str × List Seg)) → Sites.GoMap → Sites.FileRes
  | [], em => .ok em
  | f :: fs, em =>
    match specFile2 environment em f [] with
    | .ok m => specFiles environment fs (m ++ em)
    | .fail o => .fail o

def rawLinesOfJson (a : Array Json) : Option (List (Str × List Seg)) :=
  a.toList.mapM fun l =>
    let la : List Json := match l.getObjVal? "ast" with
      | .ok (.arr x) => x.toList
      | _ => []
    match la.mapM segOfJson with
    | some t => some ((getStr l "k").toList, t)
    | none => none

/-- the documents a site of `c07AfterSites` (harness/p/c07/c07_sites.go) walks, in order: `layers` = env files of the
    entries enclosing the value, `other` = env file of the include entry applied before the value's document -/
def docsOfSite (site : String) (layers : List Sites.GoMap) (other : Sites.GoMap) (s : Str) : Option (List Docs.Doc) :=
  let l0 := layers.headD []
  match site with
  | "after-include-override" | "after-include-dotenv-override" | "after-include-multidoc" =>
    some [.incl other [], .value s]
  | "after-include-extends" => some [.incl other [], .ext [.value s]]
  | "after-include-sibling" => some [.incl other [], .incl [] [.value s]]
  | "after-include-nested-files" | "after-include-nested-multidoc" => some [.incl l0 [.incl other [], .value s]]
  | _ => none

/-- `env`: the project environment; `layers`: the env files of the enclosing include entries, outermost first.
    Answers with the grammar's verdict in the environment the *glue model* builds (`includeChain` + `lookupEnv`)
    and with the model of the code at that site (`siteSubst`). -/
def substSite : Handler := fun args =>
  let envMap : Sites.GoMap := (getStrMap args "env").map fun (k, v) => (k.toList, v.toList)
  let layers : List Sites.GoMap := match args.getObjVal? "layers" with
    | .ok (.arr a) => a.toList.map pairsOfJson
    | _ => []
  let ast : Option (List Json) := match args.getObjVal? "ast" with
    | .ok (.arr a) => some a.toList
    | .ok .null => some []
    | _ => none
  let rawLines : Option (List (Str × List Seg)) := match args.getObjVal? "raw" with
    | .ok (.arr a) => a.toList.mapM fun l =>
      let la : List Json := match l.getObjVal? "ast" with
        | .ok (.arr x) => x.toList
        | _ => []
      match la.mapM segOfJson with
      | some t => some ((getStr l "k").toList, t)
      | none => none
    | _ => none
  let rawFiles : Option (List (List (Str × List Seg))) := match args.getObjVal? "raw2" with
    | .ok (.arr fs) => fs.toList.mapM fun f => match f with
      | .arr a => rawLinesOfJson a
      | _ => none
    | _ => none
  match ast with
  | some a =>
    match a.mapM segOfJson with
    | some t =>
      match rawFiles with
      | some files =>
        -- site `include-raw2`: several env files in one include entry, values are templates
        let wfAll := files.all fun f => f.all fun l => WF l.2
        let eval := match specFiles envMap files [] with
          | .ok f => evalOut (Sites.layered [envMap, f]) t
          | .fail o => o
        let model := Sites.siteSubstRawFiles envMap (files.map fun f => f.map fun l => (l.1, renderL l.2)) (renderL t)
        Json.mkObj [("wf", Json.bool (WF t && wfAll)), ("wf_ml", Json.bool (WFml t && wfAll)), ("rendered", str (renderL t)),
          ("eval", outJson eval), ("model", outJson model)]
      | none =>
      match rawLines with
      | some lines =>
        -- site `include-raw`: one env file whose values are templates themselves
        let wfAll := lines.all fun l => WF l.2
        let eval := match Sites.specFileValues envMap lines [] with
          | .ok f => evalOut (Sites.layered [envMap, f]) t
          | .fail o => o
        let model := Sites.siteSubstRaw envMap (lines.map fun l => (l.1, renderL l.2)) (renderL t)
        Json.mkObj [("wf", Json.bool (WF t && wfAll)), ("wf_ml", Json.bool (WFml t && wfAll)), ("rendered", str (renderL t)),
          ("eval", outJson eval), ("model", outJson model),
          ("lines", Json.arr (lines.map fun l => str (renderL l.2)).toArray)]
      | none =>
      let env := Sites.lookupEnv (Sites.includeChain envMap layers)
      let other : Sites.GoMap := match args.getObjVal? "other" with
        | .ok j => pairsOfJson j
        | _ => []
      match docsOfSite (getStr args "after") layers other (renderL t) with
      | some docs =>
        -- sites after-include-*: the model of the code is the stateful walk over the documents (heap of option cells);
        -- the grammar is evaluated in the enclosing layers only
        let model := match (Docs.loadValues envMap docs).getLast? with
          | some o => o
          | none => .panic .fuel
        Json.mkObj [("wf", Json.bool (WF t)), ("wf_ml", Json.bool (WFml t)), ("rendered", str (renderL t)),
          ("eval", outJson (evalOut env t)), ("model", outJson model), ("docs", Json.num docs.length)]
      | none =>
      Json.mkObj [("wf", Json.bool (WF t)), ("wf_ml", Json.bool (WFml t)), ("rendered", str (renderL t)),
        ("eval", outJson (evalOut env t)), ("model", outJson (Sites.siteSubst envMap layers (renderL t)))]
    | none => Json.mkObj [("bad", "ast")]
  | _ => Json.mkObj [("bad", "ast")]

/-! ### `substDocs`: a random tree of documents (mirrors `harness/p/c07/c07_docs.go`) -/

/-- `{"v":true}` a value, `{"incl":[[k,v]…],"docs":[…]}` an include entry, `{"ext":true}` a service that extends a base
    file holding the value -/
instance : Inhabited Docs.Doc := ⟨.value []⟩

partial def docOfJson (s : Str) (j : Json) : Docs.Doc :=
  match j.getObjVal? "docs" with
  | .ok (.arr ds) => .incl (pairsOfJson (getObj j "incl")) (ds.toList.map (docOfJson s))
  | _ =>
    match j.getObjVal? "ext" with
    | .ok (.bool true) => .ext [.value s]
    | _ => .value s

mutual
/-- the grammar's reading of the same tree: the meaning of the AST in the environment of the enclosing entries -/
def evalDoc (env : Sites.GoMap) (t : List Seg) : Docs.Doc → List Out
  | .value _ => [evalOut (Sites.lookupEnv env) t]
  | .incl f ds => evalDocs (Sites.includeEnv env f) t ds
  | .ext ds => evalDocs env t ds
def evalDocs (env : Sites.GoMap) (t : List Seg) : List Docs.Doc → List Out
  | [] => []
  | d :: ds => evalDoc env t d ++ evalDocs env t ds
end

def substDocs : Handler := fun args =>
  let envMap : Sites.GoMap := (getStrMap args "env").map fun (k, v) => (k.toList, v.toList)
  let ast : Option (List Json) := match args.getObjVal? "ast" with
    | .ok (.arr a) => some a.toList
    | .ok .null => some []
    | _ => none
  let tree : List Json := match args.getObjVal? "tree" with
    | .ok (.arr a) => a.toList
    | _ => []
  match ast with
  | some a =>
    match a.mapM segOfJson with
    | some t =>
      let docs := tree.map (docOfJson (renderL t))
      Json.mkObj [("wf", Json.bool (WF t)), ("wf_ml", Json.bool (WFml t)), ("rendered", str (renderL t)),
        ("model", Json.arr ((Docs.loadValues envMap docs).map outJson).toArray),
        ("eval", Json.arr ((evalDocs envMap t docs).map outJson).toArray)]
    | none => Json.mkObj [("bad", "ast")]
  | _ => Json.mkObj [("bad", "ast")]

def handlers2 : List (String × Handler) := [("substSpec", substSpec), ("substOpts", substOpts), ("substSite", substSite), ("substStr", substStr), ("substDocs", substDocs)]
end CV.Ops.C07
