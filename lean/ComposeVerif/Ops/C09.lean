import ComposeVerif.Ops.Common
/-! line-protocol ops for C09 (filled in by the property's owner) -/
namespace CV.Ops.C09

def handlers : List (String × Handler) := []

end CV.Ops.C09
