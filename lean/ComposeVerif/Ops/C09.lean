import ComposeVerif.Ops.Common
import ComposeVerif.Model.Marshal
import ComposeVerif.Model.Encode
import ComposeVerif.Model.Decode
import ComposeVerif.Gen.Types
import ComposeVerif.Model.RoundTripScope
import ComposeVerif.Model.RenderHistory
/-! line-protocol ops for C09: `c09.marshal` / `c09.decode` (custom marshallers and decoders of package types) -/
open Lean
namespace CV.Ops.C09
open CV CV.Marshal

def outJson : Out → Json
  | .ok v => Json.mkObj [("ok", v.toJson)]
  | .err c => Json.mkObj [("err", c)]
  | .unmodelled w => Json.mkObj [("unmodelled", w)]

def marshalOf (ty fmt : String) : Option (Val → Out) :=
  match ty, fmt with
  | "UnitBytes", "yaml" => some marshalY_UnitBytes
  | "UnitBytes", "json" => some marshalJ_UnitBytes
  | "Duration", _ => some marshal_Duration
  | "DeviceCount", _ => some marshal_DeviceCount
  | "ShellCommand", _ => some marshal_StrSlice          -- custom MarshalYAML keeps nil
  | "HealthCheckTest", "yaml" | "StringList", "yaml" | "StringOrNumberList", "yaml" => some (nilAs (.seq []) marshal_StrSlice)
  | "HealthCheckTest", _ | "StringList", _ | "StringOrNumberList", _ => some marshal_StrSlice
  | "Mapping", "yaml" | "Labels", "yaml" | "Options", "yaml" => some (nilAs (.map []) marshal_StrMap)
  | "Mapping", _ | "Labels", _ | "Options", _ => some marshal_StrMap
  | "MappingWithEquals", "yaml" => some (nilAs (.map []) marshal_StrPtrMap)
  | "MappingWithEquals", _ => some marshal_StrPtrMap
  | "UlimitsConfig", "yaml" => some marshalY_Ulimits
  | "UlimitsConfig", "json" => some marshalJ_Ulimits
  | "EnvFile", "yaml" => some marshalY_EnvFile
  | "EnvFile", "json" => some marshalJ_EnvFile
  | "SSHConfig", "yaml" => some (nilAs (.seq []) marshalY_SSHConfig)
  | "SSHConfig", "json" => some marshalJ_SSHConfig
  | "HostsList", _ => some (nilAs (.seq []) marshal_HostsList)   -- `AsList` builds a non-nil list
  | _, _ => none

def sortById (xs : List Val) : List Val :=
  let key : Val → String := fun v => match v with
    | .map kvs => CV.Marshal.getStr kvs "ID"
    | _ => ""
  (xs.toArray.qsort (fun a b => key a < key b)).toList

def decodeOf (ty : String) : Option (Val → Out) :=
  match ty with
  | "UnitBytes" => some decode_UnitBytes
  | "Duration" => some decode_Duration
  | "DeviceCount" => some decode_DeviceCount
  | "ShellCommand" => some decode_ShellCommand
  | "HealthCheckTest" => some decode_HealthCheckTest
  | "StringList" => some decode_StringList
  | "StringOrNumberList" => some decode_StringOrNumberList
  | "Mapping" => some decode_Mapping
  | "Labels" => some decode_Labels
  | "Options" => some decode_Options
  | "MappingWithEquals" => some decode_MappingWithEquals
  | "UlimitsConfig" => some decode_Ulimits
  | "EnvFile" => some decode_EnvFile
  | "SSHConfig" => some fun v => match decode_SSHConfig v with
    | .ok (.seq xs) => .ok (.seq (sortById xs))
    | o => o
  | "HostsList" => some decode_HostsList
  | _ => none

def marshalOp : Handler := fun args =>
  match marshalOf (getStr args "type") (getStr args "fmt"), Val.ofJson (getObj args "v") with
  | some f, .ok v => outJson (f v)
  | none, _ => Json.mkObj [("bad", "type")]
  | _, .error e => Json.mkObj [("bad", e)]

def decodeOp : Handler := fun args =>
  match decodeOf (getStr args "type"), Val.ofJson (getObj args "v") with
  | some f, .ok v => outJson (f v)
  | none, _ => Json.mkObj [("bad", "type")]
  | _, .error e => Json.mkObj [("bad", e)]

def genEnv : CV.Encode.Env := { structs := CV.Gen.structs, named := CV.Gen.namedTypes, customs := CV.Gen.customMethods }

/-- tag-driven rendering of a typed value of a model type over the regenerated descriptors -/
def structOp : Handler := fun args =>
  let fmt := if getStr args "fmt" == "json" then CV.Encode.Fmt.json else CV.Encode.Fmt.yaml
  match Val.ofJson (getObj args "v") with
  | .ok v => outJson (CV.Encode.render genEnv fmt (getStr args "type") v)
  | .error e => Json.mkObj [("bad", e)]

/-- generic decoding of a tree into a model type over the regenerated descriptors -/
def loadOp : Handler := fun args =>
  match Val.ofJson (getObj args "v") with
  | .ok v => outJson (CV.Decode.load genEnv (getStr args "type") v)
  | .error e => Json.mkObj [("bad", e)]

/-- `processExtensions` then generic decoding (trees that carry `x-` attributes) -/
def loadExtOp : Handler := fun args =>
  match Val.ofJson (getObj args "v") with
  | .ok v => outJson (CV.Decode.loadExt genEnv (getStr args "type") v)
  | .error e => Json.mkObj [("bad", e)]

/-- the composition the generic theorem speaks about: `decode (encode v)` of a typed value, plus whether the value is in
    the theorem's scope (`plainB` of the type over the leaves of `C09.leavesNoEnvSSH`, `stableB` of the value) -/
def rtOp : Handler := fun args =>
  let fmt := if getStr args "fmt" == "json" then CV.Encode.Fmt.json else CV.Encode.Fmt.yaml
  let ty := CV.TypeDesc.TyExpr.named (getStr args "type")
  match Val.ofJson (getObj args "v") with
  | .ok v =>
    let back := (CV.Encode.encode genEnv fmt 60 ty v).bind (CV.Decode.decode genEnv 60 ty)
    let inScope := CV.GenericF.plainB genEnv fmt CV.RoundTripScope.leafNames 60 ty && CV.RoundTripScope.stableB genEnv fmt 60 ty v
    match outJson back with
    | .obj kvs => Json.obj (kvs.insert "inscope" (Json.bool inScope))
    | j => j
  | .error e => Json.mkObj [("bad", e)]

/-- (round 6) a history of renderings of one project on the heap model (`History.run` over `Secrets.applyHeap`): per call
    the secrets whose `content` is in the rendering, and after the history the secrets flagged in the CALLER's map -/
def historyOp : Handler := fun args =>
  let secrets : List (String × CV.Secrets.FileObj) := match getObj args "secrets" with
    | .arr a => a.toList.map fun j =>
        (getStr j "key", { name := getStr j "name", file := getStr j "file", environment := getStr j "environment", content := getStr j "content" })
    | _ => []
  let calls : List CV.History.Call := (getStrList args "steps").map fun st =>
    { r := if st.startsWith "json" then .json else .yaml, content := st.endsWith "+secrets" }
  let h0 : CV.Secrets.Heap := { maps := [(0, secrets)], next := 1 }
  let out := CV.History.run [] calls h0 0
  let visible (v : Val) : List String :=
    match v with
    | .map top =>
      match Val.lookup "secrets" top with
      | some (.map ss) => ss.filterMap fun kv => match kv.2 with
        | .map kvs => if (Val.lookup "content" kvs).isSome then some kv.1 else none
        | _ => none
      | _ => []
    | _ => []
  Json.mkObj [("visible", Json.arr (out.2.map fun v => Json.arr ((visible v).map Json.str).toArray).toArray),
    ("flags", Json.arr (((out.1.get 0).filter fun kv => kv.2.marshallContent).map fun kv => Json.str kv.1).toArray)]

def handlers : List (String × Handler) := [("c09.history", historyOp), ("c09.marshal", marshalOp), ("c09.decode", decodeOp), ("c09.struct", structOp), ("c09.load", loadOp), ("c09.loadext", loadExtOp), ("c09.rt", rtOp)]

end CV.Ops.C09
