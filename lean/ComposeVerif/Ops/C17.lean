import ComposeVerif.Ops.Common
import ComposeVerif.Model.Name
import ComposeVerif.Model.NameLoader
import ComposeVerif.Model.NameOptions
import ComposeVerif.Spec.Name
/-! line-protocol ops for C17: `c17norm`, `c17normRange`, `c17load`, `c17pn` (loader-level entry) -/
open Lean
namespace CV.Ops.C17
open CV CV.Name

def getArr (j : Json) (k : String) : List Json :=
  match j.getObjVal? k with
  | .ok (.arr a) => a.toList
  | _ => []

def jStr (j : Json) : Str := match j with | .str s => s.toList | _ => []

def pairOf (j : Json) : Str × Str :=
  match j with
  | .arr a => (jStr (a.getD 0 .null), jStr (a.getD 1 .null))
  | _ => ([], [])

def envFileOf (j : Json) : EnvFile :=
  if getBool j "dir" then .dir else .file (getStr j "text").toList

/-- the structured form of an env file made of simple `KEY=VALUE` lines (absent for free-form text) -/
def linesOf (j : Json) : Option (List (Str × Str)) :=
  match j.getObjVal? "lines" with
  | .ok (.arr a) => some (a.toList.map pairOf)
  | _ => none

def docOf (j : Json) : Option Str :=
  match j.getObjVal? "name" with
  | .ok (.str s) => some s.toList
  | _ => none

def optNat (j : Json) (k : String) : Option Nat :=
  match j.getObjValAs? Nat k with
  | .ok n => some n
  | .error _ => none

def cfgRefOf (j : Json) : CfgRef :=
  { dir := getNat j "d",
    file := match j.getObjVal? "f" with | .ok (.str s) => some s.toList | _ => none,
    stdin := getBool j "stdin" }

def optOf (j : Json) : Option Opt :=
  match getStr j "op" with
  | "name" => some (.withName (getStr j "v").toList)
  | "env" => some (.withEnv ((getStrList j "l").map String.toList))
  | "osenv" => some .withOsEnv
  | "envfiles" => some (.withEnvFiles ((getStrList j "l").map String.toList))
  | "dotenv" => some .withDotEnv
  | "workdir" => some (.withWorkDir (optNat j "d"))
  | "cfgenv" => some .withConfigFileEnv
  | "defcfg" => some .withDefaultConfigPath
  | "envfile" => some (withEnvFileOpt (getStr j "v").toList)   -- cli.WithEnvFile (deprecated)
  | _ => none

def dirOf (j : Json) : DirNode :=
  { name := (getStr j "name").toList,
    parent := optNat j "parent",
    dotEnv := match j.getObjVal? "dotenv" with
      | .ok (.obj o) => some (envFileOf (.obj o))
      | _ => none,
    files := (getArr j "files").map fun f => match f with
      | .arr a => (jStr (a.getD 0 .null), match a.getD 1 .null with
          | .arr docs => docs.toList.map docOf
          | _ => [])
      | _ => ([], []) }

def worldOf (a : Json) : World where
  dirs := (getArr a "dirs").map dirOf
  cwd := getNat a "cwd"
  given := (getArr a "given").map cfgRefOf
  paths := (getArr a "paths").map fun p => match p with
    | .arr x => (jStr (x.getD 0 .null), cfgRefOf (x.getD 1 .null))
    | _ => ([], { dir := 0, file := none })
  os := (getStrList a "os").map String.toList
  envFiles := (getArr a "envfiles").map fun f => ((getStr f "n").toList, envFileOf f)
  probe := (getStr a "probe").toList
  stdinDocs := (getArr a "stdin").map docOf

/-- structured lines of the env file a reference denotes (spec side) -/
def specLines (a : Json) : FileRef → Option (List (Str × Str))
  | .named n => ((getArr a "envfiles").find? fun f => (getStr f "n").toList == n).bind linesOf
  | .default d => match ((getArr a "dirs").getD d .null).getObjVal? "dotenv" with
    | .ok (.obj o) => linesOf (.obj o)
    | _ => none

/-- first binding of each key (the visible one), as a JSON object -/
def dedupe : Env → List Str → Env
  | [], _ => []
  | (k, v) :: e, seen => if seen.contains k then dedupe e seen else (k, v) :: dedupe e (k :: seen)

def envJson (e : Env) : Json :=
  Json.mkObj ((dedupe e []).map fun (k, v) => (String.ofList k, str v))

def errStr : Err → String
  | .invalidName => "invalidName" | .emptyName => "emptyName" | .envNotFound => "envNotFound"
  | .envIsDir => "envIsDir" | .dotenvParse => "dotenvParse" | .interp => "interp"
  | .disableParse => "disableParse" | .panic => "panic"
  | .configNotFound => "configNotFound" | .configIsDir => "configIsDir" | .noConfig => "noConfig"

def modelJson (w : World) (opts : List Opt) (skip : Bool := false) : Json :=
  match runOpts w opts { configs := w.given } with
  | .error e => Json.mkObj [("err", errStr e), ("at", "options")]
  | .ok o =>
    match loadX w o skip with   -- `loadX w o false = load w o` (`loadX_interp_is_load`)
    | .error e => Json.mkObj [("err", errStr e), ("at", "load")]
    | .ok r => Json.mkObj [("ok", Json.mkObj [("name", str r.name), ("env", envJson r.env), ("probe", str r.probe)])]

/-- what `c17ExtrasYaml` (harness/p/c17/c17prof.go) puts into every compose file of the C17 streams -/
def harnessExtras : Extras :=
  { services := [("q".toList, strs ["dev", "qa"]), ("t".toList, strs ["test"])],
    resourceKeys := strs ["default", "n", "v", "c", "k"] }

def loadedXFields (r : LoadedX) : List (String × Json) :=
  [("name", str r.base.name), ("env", envJson r.base.env), ("probe", str r.base.probe),
   ("profiles", Json.arr (r.profiles.map str).toArray),
   ("enabled", Json.mkObj (r.enabled.map fun e => (String.ofList e.1, Json.bool e.2))),
   ("res", Json.mkObj (r.resources.map fun e => (String.ofList e.1, str e.2)))]

def optOfX (j : Json) : Option XOpt :=
  match getStr j "op" with
  | "profiles" => some (.profiles ((getStrList j "l").map String.toList))
  | "defprofiles" => some (.defaultProfiles ((getStrList j "l").map String.toList))
  | _ => (optOf j).map .base

/-- `ProjectOptions.LoadModel` after a fresh `NewProjectOptions`: the same pipeline, observed in the raw model -/
def lmFields (lm : Bool) (r : LoadedX) : List (String × Json) :=
  if lm then [("lm", Json.mkObj [("name", str r.base.name), ("probe", str r.base.probe),
    ("res", Json.mkObj (r.resources.map fun e => (String.ofList e.1, str e.2)))])] else []

/-- `Name.runXP`, with the stage of a failure -/
def modelJsonX (w : World) (opts : List XOpt) (skip : Bool) (lm : Bool := false) : Json :=
  match runXOpts w opts ({ configs := w.given }, none) with
  | .error e => Json.mkObj [("err", errStr e), ("at", "options")]
  | .ok st =>
    match loadX w st.1 skip with
    | .error e => Json.mkObj [("err", errStr e), ("at", "load")]
    | .ok r => Json.mkObj [("ok", Json.mkObj (loadedXFields (decorate harnessExtras st.2 r) ++
        lmFields (lm && !st.1.configs.any (·.stdin)) (decorate harnessExtras st.2 r)))]

open Spec in
def decisionJson : Decision → Json
  | .name n => Json.mkObj [("name", str n)]
  | .rejected => "rejected"
  | .failed => "failed"
  | .noName => "noName"

def isUnder : Opt → Bool
  | .withOsEnv => true | .withDotEnv => true | _ => false

def isCfgOpt : Opt → Bool
  | .withConfigFileEnv => true | .withDefaultConfigPath => true | _ => false

/-- the order the API documents (README, cmd/main.go): `WithWorkingDirectory` first; explicit and OS variables,
    env files selected, `WithDotEnv` last of the environment options; then `WithConfigFileEnv` before
    `WithDefaultConfigPath`; each of these at most once; `WithName` anywhere -/
def documented (opts : List Opt) : Bool :=
  let rest := opts.filter fun | .withName _ => false | _ => true
  let wds := rest.takeWhile fun | .withWorkDir _ => true | _ => false
  let rest := rest.dropWhile fun | .withWorkDir _ => true | _ => false
  let envOpts := rest.takeWhile (fun x => !isCfgOpt x)
  let cfgOpts := rest.dropWhile (fun x => !isCfgOpt x)
  let nOs := (envOpts.filter (· == .withOsEnv)).length
  let nDot := (envOpts.filter (· == .withDotEnv)).length
  let nFiles := (envOpts.filter fun | .withEnvFiles _ => true | _ => false).length
  wds.length ≤ 1 &&
  envOpts.all (fun | .withWorkDir _ => false | _ => true) &&
  nOs ≤ 1 && nDot ≤ 1 && nFiles ≤ 1 &&
    (nDot == 0 || envOpts.getLast? == some .withDotEnv) &&
  (cfgOpts == [] || cfgOpts == [.withConfigFileEnv] || cfgOpts == [.withDefaultConfigPath] ||
    cfgOpts == [.withConfigFileEnv, .withDefaultConfigPath])

/-- spec side of the oracle, computed from the options *syntactically* (no option state machine) -/
def specJson (a : Json) (w : World) (opts : List Opt) (skip : Bool := false) : Json :=
  -- the explicitly requested name: the last WithName
  let names := opts.filterMap fun | .withName n => some n | _ => none
  let badName := names.any fun n => n ≠ [] && !validName n
  let explicit := names.getLast?.getD []
  let expl := Spec.explicitLayer opts
  let workDir : Option Nat := (opts.filterMap fun | .withWorkDir (some d) => some d | _ => none).getLast?
  let hasOs := opts.contains .withOsEnv
  let hasDot := opts.contains .withDotEnv
  let osL : Env := if hasOs then asEqualsMap w.os else []
  -- the project directory while the environment options run
  let envDir : Nat := match workDir with
    | some d => d
    | none => match firstFileDir w.given with
      | some d => d
      | none => w.cwd
  -- env files selected by the WithEnvFiles
  let sel := (opts.filterMap fun | .withEnvFiles l => some l | _ => none).getLast?
  let disabled : Option Bool := match (asEqualsMap w.os).get disableKey with
    | some v => (parseBool v)
    | none => some false
  let fileRefs : List FileRef := match sel with
    | none => []
    | some [] => (match disabled, (dirNode w envDir).dotEnv with
        | some false, some (.file _) => [.default envDir]
        | _, _ => [])
    | some l => l.map .named
  let filesOk := hasDot && fileRefs.all fun r =>
    (match lookupFile w r with | some (.file _) => true | _ => false) && (specLines a r).isSome
  let contents := fileRefs.filterMap (specLines a)
  let above := expl ++ osL
  let dot : Except Unit (List Env) := if hasDot then Spec.dotenvLayers above contents [] else .ok []
  match dot with
  | .error _ => Json.mkObj [("documented", Json.bool false), ("badName", Json.bool badName), ("layers", Json.arr #[envJson expl])]
  | .ok dl =>
    let layers := [expl, osL] ++ dl
    let projEnv : Env := layers.flatten
    -- which compose files: the given ones, else COMPOSE_FILE of the project environment, else the default names
    let sep : Str := match projEnv.get pathSepKey with
      | some s => if s = [] then [':'] else s
      | none => [':']
    let cfgSel : Except Unit (List CfgRef) :=
      match w.given with
      | _ :: _ => .ok w.given
      | [] =>
        match (if opts.contains .withConfigFileEnv then projEnv.get composeFileKey else none) with
        | some f => (match resolvePaths w (splitOn sep f) with | .ok rs => .ok rs | .error _ => .error ())
        | none =>
          if opts.contains .withDefaultConfigPath then
            .ok (searchUp w (w.dirs.length + 1) (match workDir with | some d => d | none => w.cwd))
          else .ok []
    let filesR : Except Unit (List (List (Option Str))) := match cfgSel with
      | .ok cs => (match readConfigs w cs with | .ok fs => .ok fs | .error _ => .error ())
      | .error _ => .error ()
    let doc := documented opts && (!hasDot || filesOk) && !badName &&
      (sel != some [] || disabled.isSome) && (match filesR with | .ok _ => true | .error _ => false)
    let cfgs : List CfgRef := match cfgSel with | .ok cs => cs | .error _ => []
    let files : List (List (Option Str)) := match filesR with | .ok fs => fs | .error _ => []
    let pdirId : Nat := match workDir with
      | some d => d
      | none => match firstFileDir cfgs with
        | some d => d
        | none => w.cwd
    let pdir := (dirNode w pdirId).name
    let src : Spec.Sources := {
      explicit := explicit, fromEnv := projEnv.get cpn,
      fromFiles := (if skip then .ok (Spec.selectedName files) else
        match Template.subst projEnv.get (Spec.selectedName files) with | .ok s => .ok s | _ => .error ()),
      dirBase := pdir }
    let dec := if cfgs.isEmpty then Spec.Decision.failed else Spec.decide src
    let fin : List (String × Json) := match dec with
      | .name n =>
        let env : Env := (cpn, n) :: projEnv
        let ok := skip || (match interpAll env (allNames files) with | .ok _ => true | _ => false)
        (match ok, (if skip then Template.Out.ok w.probe else Template.subst env.get w.probe) with
          | true, .ok p => [("pipelineOk", Json.bool true), ("probe", str p), ("finalEnv", envJson env)]
          | _, _ => [("pipelineOk", Json.bool false)])
      | _ => []
    Json.mkObj ([
      ("documented", Json.bool doc),
      ("badName", Json.bool badName),
      ("decision", decisionJson dec),
      ("noConfig", Json.bool cfgs.isEmpty),
      ("candidates", Json.mkObj [
        ("explicit", str explicit),
        ("env", str ((projEnv.get cpn).getD [])),
        ("file", match src.fromFiles with | .ok s => str (normalize s) | _ => Json.null),
        ("dir", str (normalize pdir))]),
      ("layers", Json.arr (layers.map envJson).toArray),
      ("env", envJson projEnv)] ++ fin)

/-- the `WithInterpolation(b)` calls among the options, in call order (the option commutes with all others) -/
def interpCalls (a : Json) : List Bool :=
  (getArr a "opts").filterMap fun j => if getStr j "op" == "interp" then some (getBool j "b") else none

def c17load : Handler := fun args =>
  let w := worldOf args
  let xopts := (getArr args "opts").filterMap optOfX
  let opts := baseOpts xopts
  let skip := !interpFlag (interpCalls args)
  Json.mkObj [("model", modelJsonX w xopts skip (getBool args "lm")), ("spec", specJson args w opts skip)]

/-- the loader-level entry: `loader.LoadWithContext` with `SetProjectName(name, imp)`, `SkipInterpolation`, an
    environment that may be nil -/
def c17pn : Handler := fun args =>
  let files : List (List (Option Str)) := (getArr args "files").map fun f => match f with
    | .arr docs => docs.toList.map docOf
    | _ => []
  let env : Option Env := match args.getObjVal? "env" with
    | .ok (.arr a) => some (a.toList.map pairOf)
    | _ => none
  let lo : LOpts := { name := (getStr args "name").toList, imperative := getBool args "imp", skipInterp := getBool args "skip" }
  let probe := (getStr args "probe").toList
  let model := match loadL files env lo probe with
    | .error e => Json.mkObj [("err", errStr e)]
    | .ok r => Json.mkObj [("ok", Json.mkObj (loadedXFields (decorate harnessExtras none r)))]
  let dec := Spec.decide {
    explicit := if lo.imperative then lo.name else [],
    fromEnv := none,
    fromFiles := (match interpName (env.getD []) lo.skipInterp (Spec.selectedName files) with | .ok s => .ok s | .error _ => .error ()),
    dirBase := lo.name }
  Json.mkObj [("model", model), ("decision", decisionJson dec)]

def c17norm : Handler := fun args =>
  let s := (getStr args "s").toList
  Json.mkObj [("out", str (normalize s)), ("valid", Json.bool (validName s))]

/-- every code point of `[from, to)` whose one-rune string has a non-empty normalisation -/
def c17normRange : Handler := fun args =>
  let lo := getNat args "from"
  let hi := getNat args "to"
  let cps := (List.range (hi - lo)).map (· + lo)
  let hits := cps.filterMap fun n =>
    if h : n.isValidChar then
      let c : Char := Char.ofNatAux n h
      match normalize [c] with
      | [] => none
      | r => some (Json.arr #[Json.num (n : Nat), str r])
    else none
  Json.mkObj [("hits", Json.arr hits.toArray)]

def handlers : List (String × Handler) :=
  [("c17load", c17load), ("c17norm", c17norm), ("c17normRange", c17normRange), ("c17pn", c17pn)]

end CV.Ops.C17
