import ComposeVerif.Ops.Common
/-! line-protocol ops for C17 (filled in by the property's owner) -/
namespace CV.Ops.C17

def handlers : List (String × Handler) := []

end CV.Ops.C17
