import ComposeVerif.Ops.Common
import ComposeVerif.Model.Name
import ComposeVerif.Spec.Name
/-! line-protocol ops for C17: `c17norm`, `c17normRange`, `c17load` -/
open Lean
namespace CV.Ops.C17
open CV CV.Name

def getArr (j : Json) (k : String) : List Json :=
  match j.getObjVal? k with
  | .ok (.arr a) => a.toList
  | _ => []

def jStr (j : Json) : Str := match j with | .str s => s.toList | _ => []

def pairOf (j : Json) : Str × Str :=
  match j with
  | .arr a => (jStr (a.getD 0 .null), jStr (a.getD 1 .null))
  | _ => ([], [])

def envFileOf (j : Json) : EnvFile :=
  if getBool j "dir" then .dir else .file ((getArr j "lines").map pairOf)

def docOf (j : Json) : Option Str :=
  match j.getObjVal? "name" with
  | .ok (.str s) => some s.toList
  | _ => none

def optOf (j : Json) : Option Opt :=
  match getStr j "op" with
  | "name" => some (.withName (getStr j "v").toList)
  | "env" => some (.withEnv ((getStrList j "l").map String.toList))
  | "osenv" => some .withOsEnv
  | "envfiles" => some (.withEnvFiles ((getStrList j "l").map String.toList))
  | "dotenv" => some .withDotEnv
  | "workdir" => some (.withWorkDir (getBool j "alt"))
  | _ => none

def worldOf (a : Json) : World where
  dir := (getStr a "dir").toList
  os := (getStrList a "os").map String.toList
  files := (getArr a "files").map fun f => match f with
    | .arr docs => docs.toList.map docOf
    | _ => []
  envFiles := (getArr a "envfiles").map fun f => ((getStr f "n").toList, envFileOf f)
  dotEnv := match a.getObjVal? "dotenv" with
    | .ok (.obj o) => some (envFileOf (.obj o))
    | _ => none
  probe := (getStr a "probe").toList
  altDir := (getStr a "altdir").toList
  altDotEnv := match a.getObjVal? "altdotenv" with
    | .ok (.obj o) => some (envFileOf (.obj o))
    | _ => none

/-- first binding of each key (the visible one), as a JSON object -/
def dedupe : Env → List Str → Env
  | [], _ => []
  | (k, v) :: e, seen => if seen.contains k then dedupe e seen else (k, v) :: dedupe e (k :: seen)

def envJson (e : Env) : Json :=
  Json.mkObj ((dedupe e []).map fun (k, v) => (String.ofList k, str v))

def errStr : Err → String
  | .invalidName => "invalidName" | .emptyName => "emptyName" | .envNotFound => "envNotFound"
  | .envIsDir => "envIsDir" | .dotenvParse => "dotenvParse" | .interp => "interp"
  | .disableParse => "disableParse" | .panic => "panic"

def modelJson (w : World) (opts : List Opt) : Json :=
  match runOpts w opts {} with
  | .error e => Json.mkObj [("err", errStr e), ("at", "options")]
  | .ok o =>
    match load w o with
    | .error e => Json.mkObj [("err", errStr e), ("at", "load")]
    | .ok r => Json.mkObj [("ok", Json.mkObj [("name", str r.name), ("env", envJson r.env), ("probe", str r.probe)])]

open Spec in
def decisionJson : Decision → Json
  | .name n => Json.mkObj [("name", str n)]
  | .rejected => "rejected"
  | .failed => "failed"
  | .noName => "noName"

def isUnder : Opt → Bool
  | .withOsEnv => true | .withDotEnv => true | _ => false

/-- the order the API documents: explicit and OS variables first, env files selected, then `WithDotEnv` last of
    the environment options; each of `WithOsEnv` / `WithEnvFiles` / `WithDotEnv` at most once -/
def documented (opts : List Opt) : Bool :=
  let envOpts := opts.filter fun | .withName _ => false | .withWorkDir _ => false | _ => true
  -- the working directory is chosen before the env files are selected
  let workdirEarly := (opts.dropWhile fun | .withEnvFiles _ => false | _ => true).all
    fun | .withWorkDir _ => false | _ => true
  let nOs := (envOpts.filter (· == .withOsEnv)).length
  let nDot := (envOpts.filter (· == .withDotEnv)).length
  let nFiles := (envOpts.filter fun | .withEnvFiles _ => true | _ => false).length
  nOs ≤ 1 && nDot ≤ 1 && nFiles ≤ 1 && workdirEarly &&
    (nDot == 0 || envOpts.getLast? == some .withDotEnv)

/-- spec side of the oracle, computed from the options *syntactically* (no option state machine) -/
def specJson (w : World) (opts : List Opt) : Json :=
  -- the explicitly requested name: the last WithName
  let names := opts.filterMap fun | .withName n => some n | _ => none
  let badName := names.any fun n => n ≠ [] && !validName n
  let explicit := names.getLast?.getD []
  let expl := Spec.explicitLayer opts
  let alt := opts.contains (.withWorkDir true)
  let pdir := if alt then w.altDir else w.dir
  let hasOs := opts.contains .withOsEnv
  let hasDot := opts.contains .withDotEnv
  let osL : Env := if hasOs then asEqualsMap w.os else []
  -- env files selected by the last WithEnvFiles
  let sel := (opts.filterMap fun | .withEnvFiles l => some l | _ => none).getLast?
  let disabled : Option Bool := match (asEqualsMap w.os).get disableKey with
    | some v => (parseBool v)
    | none => some false
  let fileRefs : List FileRef := match sel with
    | none => []
    | some [] => (match disabled, (if alt then w.altDotEnv else w.dotEnv) with
        | some false, some (.file _) => [if alt then .defaultAlt else .default]
        | _, _ => [])
    | some l => l.map .named
  let filesOk := hasDot && fileRefs.all fun r => match lookupFile w r with | some (.file _) => true | _ => false
  let contents := fileRefs.filterMap fun r => match lookupFile w r with | some (.file ls) => some ls | _ => none
  let above := expl ++ osL
  let dot : Except Unit (List Env) := if hasDot then Spec.dotenvLayers above contents [] else .ok []
  let doc := documented opts && (!hasDot || filesOk) && !badName &&
    (sel != some [] || disabled.isSome)
  match dot with
  | .error _ => Json.mkObj [("documented", Json.bool false), ("badName", Json.bool badName), ("layers", Json.arr #[envJson expl])]
  | .ok dl =>
    let layers := [expl, osL] ++ dl
    let projEnv : Env := layers.flatten
    let src : Spec.Sources := {
      explicit := explicit, fromEnv := projEnv.get cpn,
      fromFiles := (match Template.subst projEnv.get (Spec.selectedName w.files) with | .ok s => .ok s | _ => .error ()),
      dirBase := pdir }
    let dec := Spec.decide src
    let fin : List (String × Json) := match dec with
      | .name n =>
        let env : Env := (cpn, n) :: projEnv
        let ok := match interpAll env (allNames w) with | .ok _ => true | _ => false
        (match ok, Template.subst env.get w.probe with
          | true, .ok p => [("pipelineOk", Json.bool true), ("probe", str p), ("finalEnv", envJson env)]
          | _, _ => [("pipelineOk", Json.bool false)])
      | _ => []
    Json.mkObj ([
      ("documented", Json.bool doc),
      ("badName", Json.bool badName),
      ("decision", decisionJson dec),
      ("candidates", Json.mkObj [
        ("explicit", str explicit),
        ("env", str ((projEnv.get cpn).getD [])),
        ("file", match src.fromFiles with | .ok s => str (normalize s) | _ => Json.null),
        ("dir", str (normalize pdir))]),
      ("layers", Json.arr (layers.map envJson).toArray),
      ("env", envJson projEnv)] ++ fin)

def c17load : Handler := fun args =>
  let w := worldOf args
  let opts := (getArr args "opts").filterMap optOf
  Json.mkObj [("model", modelJson w opts), ("spec", specJson w opts)]

def c17norm : Handler := fun args =>
  let s := (getStr args "s").toList
  Json.mkObj [("out", str (normalize s)), ("valid", Json.bool (validName s))]

/-- every code point of `[from, to)` whose one-rune string has a non-empty normalisation -/
def c17normRange : Handler := fun args =>
  let lo := getNat args "from"
  let hi := getNat args "to"
  let cps := (List.range (hi - lo)).map (· + lo)
  let hits := cps.filterMap fun n =>
    if h : n.isValidChar then
      let c : Char := Char.ofNatAux n h
      match normalize [c] with
      | [] => none
      | r => some (Json.arr #[Json.num (n : Nat), str r])
    else none
  Json.mkObj [("hits", Json.arr hits.toArray)]

def handlers : List (String × Handler) :=
  [("c17load", c17load), ("c17norm", c17norm), ("c17normRange", c17normRange)]

end CV.Ops.C17
