import ComposeVerif.Ops.Common
/-! line-protocol ops for C16 (filled in by the property's owner) -/
namespace CV.Ops.C16

def handlers : List (String × Handler) := []

end CV.Ops.C16
