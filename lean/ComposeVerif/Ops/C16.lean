import ComposeVerif.Ops.Common
import ComposeVerif.Ops.C07
import ComposeVerif.Model.EnvLayers
import ComposeVerif.Spec.EnvLayers
import ComposeVerif.Model.EnvLayersLoad
import ComposeVerif.Model.EnvLayersSites
import ComposeVerif.Model.EnvLayersUnicity
/-! line-protocol ops for C16: `c16.env`, `c16.labels`, `c16.load` (model) and `c16.spec` (specification) -/
open Lean
namespace CV.Ops.C16
open CV.EnvLayers

def arr (j : Json) (k : String) : List Json :=
  match j.getObjVal? k with
  | .ok (.arr a) => a.toList
  | _ => []       -- Go encodes a nil slice as null

def optStr (j : Json) : Option Str :=
  match j with
  | .str s => some s.toList
  | _ => none

/-- `[["k","v"],["k2",null]]` -/
def pairsOpt (j : Json) (k : String) : List (Key × Option Str) :=
  (arr j k).filterMap fun p => match p with
    | .arr #[.str a, v] => some (a.toList, optStr v)
    | _ => none

def pairs (j : Json) (k : String) : List (Key × Str) :=
  (pairsOpt j k).filterMap fun p => match p.2 with
    | some v => some (p.1, v)
    | none => none

/-- C07's wire format of a template segment (`lit` / `esc` / `var`+`braced` / `op`+`o`+`arg`) -/
def segOfJson (j : Json) : Seg :=
  match CV.Ops.C07.segOfJson j with
  | some s => s
  | none => .lit []

def lineOfJson (j : Json) : Line :=
  match j.getObjVal? "bare" with
  | .ok (.str s) => .bare s.toList
  | _ => match j.getObjVal? "k" with
    | .ok (.str k) => .assign k.toList ((arr j "v").map segOfJson)
    | _ => .bad

def linesOf (j : Json) (k : String) : List Line := (arr j k).map lineOfJson

def nodeOfJson (j : Json) : Node :=
  if getBool j "notdir" then .notdir else if getBool j "dir" then .dir else .file (linesOf j "lines")

/-- `"files": {"path": node, …}` -/
def fsOf (j : Json) : FS :=
  let l : List (Str × Node) := match j.getObjVal? "files" with
    | .ok (.obj o) => o.toList.map fun (k, v) => (k.toList, nodeOfJson v)
    | _ => []
  { node := fun p => lookup p l,
    -- the registry of the harness's child processes: only the private format `c16kv`
    formats := fun n => if n = "c16kv".toList then some kvParser else none }

def envFileOfJson (j : Json) : EnvFile :=
  { path := (getStr j "path").toList, required := getBool j "required", format := (getStr j "format").toList }

def itemOfJson (j : Json) : Item :=
  match j.getObjVal? "v" with
  | .ok (.str v) => .kv (getStr j "k").toList v.toList
  | _ => .bare (getStr j "k").toList

def yenvOf (j : Json) : YEnv :=
  match j.getObjVal? "yenv" with
  | .ok y =>
    match y.getObjVal? "list", y.getObjVal? "map" with
    | .ok (.arr a), _ => .list (a.toList.map itemOfJson)
    | _, .ok (.arr _) => .map (pairsOpt y "map")
    | _, _ => .absent
  | _ => .absent

/-- the YAML form of `labels`, if the case gives one (otherwise the typed `labels` as a mapping with values) -/
def ylabelsOf (j : Json) : YLabels :=
  match j.getObjVal? "ylabels" with
  | .ok y =>
    match y.getObjVal? "list", y.getObjVal? "map" with
    | .ok (.arr a), _ => .list (a.toList.map itemOfJson)
    | _, .ok (.arr _) => .map (pairsOpt y "map")
    | _, _ => .absent
  | _ => .map ((pairs j "labels").map fun kv => (kv.1, some kv.2))

def serviceOfJson (j : Json) : Str × Service :=
  ((getStr j "name").toList,
   { environment := pairsOpt j "environment"
     envFiles := (arr j "env_files").map envFileOfJson
     labels := pairs j "labels"
     labelFiles := (getStrList j "label_files").map String.toList })

def errStr : Err → String
  | .notFound => "notFound" | .format => "format" | .parse => "parse" | .read => "read"
  | .template => "template" | .panic => "panic"

def mweJson (m : List (Key × Option Str)) : Json :=
  Json.mkObj (m.map fun kv => (String.ofList kv.1, match kv.2 with | some v => str v | none => Json.null))

def mapJson (m : List (Key × Str)) : Json :=
  Json.mkObj (m.map fun kv => (String.ofList kv.1, str kv.2))

def envFileJson (f : EnvFile) : Json :=
  Json.mkObj [("path", str f.path), ("required", Json.bool f.required), ("format", str f.format)]

def serviceJson (s : Service) : Json :=
  Json.mkObj [("environment", mweJson s.environment), ("env_files", Json.arr (s.envFiles.map envFileJson).toArray),
              ("labels", mapJson s.labels), ("label_files", Json.arr (s.labelFiles.map str).toArray)]

def outJson : Except (List Err) (List (Str × Service)) → Json
  | .ok svcs => Json.mkObj [("ok", Json.mkObj (svcs.map fun p => (String.ofList p.1, serviceJson p.2)))]
  | .error es => Json.mkObj [("errs", Json.arr (es.map fun e => Json.str (errStr e)).toArray)]

def penvOf (args : Json) : List (Key × Str) := (getStrMap args "penv").map fun p => (p.1.toList, p.2.toList)

/-- model of `Project.WithServicesEnvironmentResolved(discard)` -/
def envOp : Handler := fun args =>
  outJson (resolveProjectEnv (penvOf args) (fsOf args) (getBool args "discard") ((arr args "services").map serviceOfJson))

/-- model of `Project.WithServicesLabelsResolved(discard)` -/
def labelsOp : Handler := fun args =>
  outJson (resolveProjectLabels (fsOf args) (getBool args "discard") ((arr args "services").map serviceOfJson))

/-- both Project methods on the same arguments; with `extra` also `WithServicesEnabled` with the first service's name,
    without a name, and on the project `WithServicesEnvironmentResolved` returned (only when it returned one) -/
def resolveOp : Handler := fun args =>
  let penv := penvOf args
  let fs := fsOf args
  let svcs := (arr args "services").map serviceOfJson
  let base := [("env", envOp args), ("labels", labelsOp args)]
  match getBool args "extra", svcs with
  | true, (n, _) :: _ =>
    let twice := match resolveProjectEnv penv fs (getBool args "discard") svcs with
      | .ok r => [("twice", outJson (withServicesEnabled penv fs [n] r))]
      | .error _ => []
    Json.mkObj (base ++ [("enabled", outJson (withServicesEnabled penv fs [n] svcs)),
                         ("enabled_none", outJson (withServicesEnabled penv fs [] svcs))] ++ twice)
  | _, _ => Json.mkObj base

/-- model of the environment / label part of a whole load -/
def loadOp : Handler := fun args =>
  let penv := penvOf args
  let fs := fsOf args
  let cfg : LoadCfg := { skipNormalization := getBool args "skip_normalization",
                         skipResolveEnvironment := getBool args "skip_resolve_environment",
                         discard := getBool args "discard" }
  -- round 7: `override.EnforceUnicity` on the `env_file` list as written (first position, last entry); the key of an
  -- entry is the text of its path when the stage runs: in the `extends-split` layout the first half of the list is
  -- written in base/b.yaml and reaches the stage as an absolute path under base/, the rest as written
  let split := getStr args "layout" == "extends-split"
  let svcs := (arr args "services").map fun j =>
    let s := (serviceOfJson j).2
    let ne := (s.envFiles.length + 1) / 2
    let keys := (List.range s.envFiles.length).zip s.envFiles |>.map fun (p : Nat × EnvFile) =>
      if split && p.1 < ne then "base/".toList ++ p.2.path else p.2.path
    ((serviceOfJson j).1, ({ yenv := yenvOf j, ylabels := ylabelsOf j, svc := enforceUnicityFilesKeyed keys s } : YService))
  -- `methods`: the second call site (load with SkipResolveEnvironment, then the Project method); apart from the keys
  -- above `layout` is not read: the model is the same wherever the services are written (`relocation_env`, `relocation_labels`)
  if getBool args "methods" then outJson (loadThenResolveY cfg penv fs svcs)
  else outJson (loadProjectY cfg penv fs svcs)

/-- model of the decoded `environment` of two services of an *included* file — the same entries in mapping form (`map`)
    and in sequence form (`seq`) — with the include's env file `ifile` -/
def incenvOp : Handler := fun args =>
  let penv := penvOf args
  let ifile := (getStrMap args "ifile").map fun p => (p.1.toList, p.2.toList)
  let cfg : LoadCfg := { skipNormalization := getBool args "skip_normalization", skipResolveEnvironment := true, discard := false }
  let kvs := pairsOpt args "entries"
  Json.mkObj [("map", mweJson (loadedEnvIncluded cfg penv ifile (.map kvs))),
              ("seq", mweJson (loadedEnvIncluded cfg penv ifile (YEnv.asList kvs)))]

/-! ### specification op (direct oracle) -/
open CV.EnvLayers.Spec

def fileLayerOfJson (j : Json) : FileLayer :=
  { lines := linesOf j "lines", present := getBool j "present", required := getBool j "required" }

def optOptJson : Option (Option Str) → Json
  | none => Json.mkObj [("absent", Json.bool true)]
  | some none => Json.null
  | some (some v) => str v

/-- what the property says about a layer assignment: per key of `keys`, the final environment and label -/
def specOp : Handler := fun args =>
  let penv := penvOf args
  let efl := (arr args "env_layers").map fileLayerOfJson
  let lfl := (arr args "label_layers").map fileLayerOfJson
  let env := pairsOpt args "environment"
  let labels := pairs args "labels"
  let keys := (getStrList args "keys").map String.toList
  let wf := (efl ++ lfl).all fun f => f.lines.all fun l => match l with
    | .assign _ v => CV.Template.WF v
    | _ => true
  -- the layers as a file system with synthetic paths e0, e1, … / l0, l1, …: the specification of *which file fails*
  let idx (c : Char) (n : Nat) : Str := c :: (Nat.repr n).toList
  let nodes : List (Str × Node) :=
    (efl.zipIdx.filterMap fun (f, i) => if f.present then some (idx 'e' i, Node.file f.lines) else none) ++
    (lfl.zipIdx.filterMap fun (f, i) => if f.present then some (idx 'l' i, Node.file f.lines) else none)
  let sfs : FS := { node := fun p => lookup p nodes }
  let efs : List EnvFile := efl.zipIdx.map fun (f, i) => { path := idx 'e' i, required := f.required, format := [] }
  let lps : List Str := lfl.zipIdx.map fun (_, i) => idx 'l' i
  if !wf then Json.mkObj [("wf", Json.bool false)]
  else match envFailureFrom penv sfs [] efs with
  | some e => Json.mkObj [("err", Json.str (errStr e))]
  | none =>
  match labelFailureFrom sfs [] lps with
  | some e => Json.mkObj [("err", Json.str (errStr e))]
  | none =>
    let files := presentFiles efl
    let lfiles := presentFiles lfl
    Json.mkObj [
      ("environment", Json.mkObj (keys.filterMap fun k => match finalEnv penv files env k with
        | none => none
        | some v => some (String.ofList k, match v with | some x => str x | none => Json.null))),
      ("labels", Json.mkObj (keys.filterMap fun k => match finalLabel lfiles labels k with
        | none => none
        | some v => some (String.ofList k, str v)))]

def handlers : List (String × Handler) :=
  [("c16.env", envOp), ("c16.labels", labelsOp), ("c16.resolve", resolveOp), ("c16.load", loadOp), ("c16.spec", specOp), ("c16.incenv", incenvOp)]

end CV.Ops.C16
