import ComposeVerif.Ops.Common
/-! line-protocol ops for C20 (filled in by the property's owner) -/
namespace CV.Ops.C20

def handlers : List (String × Handler) := []

end CV.Ops.C20
