import ComposeVerif.Ops.Common
import ComposeVerif.Model.Secrets
import ComposeVerif.Model.SecretsBytes
import ComposeVerif.Model.SecretsInclude
import ComposeVerif.Model.SecretsOpts
/-! line-protocol ops for C20: the path of a secret / config value taken from the environment -/
open Lean
namespace CV.Ops.C20
open CV CV.Secrets

def bad (s : String) : Json := Json.mkObj [("bad", s)]

def getVal (args : Json) (k : String) : Except String Val := Val.ofJson (getObj args k)

def getDict (args : Json) (k : String) : Except String Val.KVs :=
  match getVal args k with
  | .ok (.map kvs) => .ok kvs
  | .ok _ => .error "dict is not a mapping"
  | .error e => .error e

def outVal : Out Val → Json
  | .ok v => Json.mkObj [("ok", v.toJson)]
  | .err e => Json.mkObj [("err", e)]
  | .panic s => Json.mkObj [("panic", s)]

def outKVs : Out Val.KVs → Json
  | .ok v => Json.mkObj [("ok", (Val.map v).toJson)]
  | .err e => Json.mkObj [("err", e)]
  | .panic s => Json.mkObj [("panic", s)]

def strMapJson (m : List (String × String)) : Json := Json.mkObj (m.map fun kv => (kv.1, Json.str kv.2))

def fileObjJson (o : FileObj) : Json :=
  Json.mkObj [("name", o.name), ("file", o.file), ("environment", o.environment), ("content", o.content),
    ("flag", o.marshallContent), ("external", o.external), ("labels", strMapJson o.labels), ("driver", o.driver),
    ("driver_opts", strMapJson o.driverOpts), ("template_driver", o.templateDriver), ("extensions", (Val.map o.extensions).toJson)]

def fileObjOfJson (j : Json) : FileObj :=
  { name := getStr j "name", file := getStr j "file", environment := getStr j "environment", content := getStr j "content",
    marshallContent := getBool j "flag", external := getBool j "external", labels := getStrMap j "labels",
    driver := getStr j "driver", driverOpts := getStrMap j "driver_opts", templateDriver := getStr j "template_driver",
    extensions := match Val.ofJson (getObj j "extensions") with
      | .ok (.map kvs) => kvs
      | _ => [] }

def objsJson (l : List (String × FileObj)) : Json := Json.arr (l.map fun kv => Json.arr #[Json.str kv.1, fileObjJson kv.2]).toArray

def objsOfJson (j : Json) : List (String × FileObj) :=
  match j with
  | .arr a => a.toList.filterMap fun e => match e with
    | .arr #[.str k, o] => some (k, fileObjOfJson o)
    | _ => none
  | _ => []

/-- `resolveSecretsEnvironment` / `resolveConfigsEnvironment` -/
def resolve : Handler := fun args =>
  match getDict args "dict" with
  | .error e => bad e
  | .ok d =>
    let env := getStrMap args "env"
    match getStr args "which" with
    | "secrets" => outKVs (.ok (resolveSecretsEnv env d))
    | "configs" => outKVs (.ok (resolveConfigsEnv env d))
    | _ => outKVs (.ok (resolveConfigsEnv env (resolveSecretsEnv env d)))

def setName : Handler := fun args =>
  match getDict args "dict" with
  | .error e => bad e
  | .ok d => outKVs (setNameFromKey d)

def procExt : Handler := fun args =>
  match getDict args "dict" with
  | .error e => bad e
  | .ok d => outVal (.ok (processExtensions d))

def outObj : Out FileObj → Json
  | .ok o => Json.mkObj [("ok", fileObjJson o)]
  | .err e => Json.mkObj [("err", e)]
  | .panic s => Json.mkObj [("panic", s)]

def decode : Handler := fun args =>
  match getVal args "v" with
  | .error e => bad e
  | .ok v => if getStr args "kind" == "secret" then outObj (decodeSecret v) else outObj (decodeConfig v)

def rendererOf (s : String) : Renderer := if s == "json" then .json else .yaml

def marshal : Handler := fun args =>
  let o := fileObjOfJson (getObj args "obj")
  let r := rendererOf (getStr args "renderer")
  Json.mkObj [("ok", (if getStr args "kind" == "secret" then renderSecret r o else renderConfig r o).toJson)]

/-- `marshallOptions.apply` on the heap: receiver map at address 0 -/
def apply : Handler := fun args =>
  let m := objsOfJson (getObj args "secrets")
  let h : Heap := { maps := [(0, m)], next := 1 }
  let (h', q) := applyHeap (getBool args "content") h 0
  Json.mkObj [("aliased", q == 0), ("receiver", objsJson (h'.get 0)), ("result", objsJson (h'.get q))]

def sortObjs (l : List (String × FileObj)) : List (String × FileObj) := (l.toArray.qsort (fun a b => a.1 < b.1)).toList

def flowOp : Handler := fun args =>
  match getDict args "dict" with
  | .error e => bad e
  | .ok d =>
    let env := getStrMap args "env"
    let pname := getStr args "pname"
    match loadDict env pname d with
    | .err e => Json.mkObj [("err", e)]
    | .panic s => Json.mkObj [("panic", s)]
    | .ok p =>
      -- the section-wise form the theorems speak about must give the same project
      let p' := match load env pname d with
        | .ok q => q
        | _ => { secrets := [], configs := [] }
      let same := match load env pname d with
        | .ok q => objsJson (sortObjs q.secrets) == objsJson (sortObjs p.secrets) && objsJson (sortObjs q.configs) == objsJson (sortObjs p.configs)
        | _ => false
      if !same then bad "Secrets.load ≠ Secrets.loadDict" else
      -- round 6: the load under options (`Model/SecretsOpts.lean`); with the default options it must be `load`.
      -- The harness registers, for the keys a model uses, the Go type of the value it carries (identity decoder).
      let o := getObj args "opts"
      let opts : LoadOpts := { known := { names := getStrList o "known_ext" }, skipNormalization := getBool o "skip_normalization" }
      let sameK := match loadK {} env pname d with
        | .ok q => objsJson q.secrets == objsJson p'.secrets && objsJson q.configs == objsJson p'.configs
        | _ => false
      if !sameK then bad "Secrets.loadK {} ≠ Secrets.load" else
      match loadK opts env pname d with
      | .err e => Json.mkObj [("err", e)]
      | .panic s => Json.mkObj [("panic", s)]
      | .ok p =>
      Json.mkObj [("ok", Json.mkObj [
        ("secrets", objsJson (sortObjs p.secrets)), ("configs", objsJson (sortObjs p.configs)),
        ("yaml0", (render .yaml false p).toJson), ("yaml1", (render .yaml true p).toJson),
        ("json0", (render .json false p).toJson), ("json1", (render .json true p).toJson)])]

/-- `json.MarshalIndent(v, "", "  ")` -/
def jsonBytes : Handler := fun args =>
  match getVal args "v" with
  | .error e => bad e
  | .ok v => Json.mkObj [("ok", Json.str (String.ofList (CV.Bytes.jsonRender 0 v)))]

def sectJson (d : Val.KVs) (k : String) : Json :=
  match Val.lookup k d with
  | some v => v.toJson
  | none => Json.null

/-- the include path, stage level: `Mapping.Clone().Merge`, the resolution of the included model, `importResources`,
`ResolveEnvironment` of the including model; answers the two sections -/
def incResolve : Handler := fun args =>
  match getDict args "main", getDict args "inc" with
  | .ok main, .ok inc =>
    let top := getStrMap args "env"
    let file := getStrMap args "inc_env"
    match includeModel top file main inc with
    | .err e => Json.mkObj [("err", e)]
    | .panic s => Json.mkObj [("panic", s)]
    | .ok m =>
      let r := resolveModel false top m
      Json.mkObj [("ok", Json.mkObj [("secrets", sectJson r "secrets"), ("configs", sectJson r "configs"),
        ("merged", strMapJson (mergeEnv top file))])]
  | .error e, _ => bad e
  | _, .error e => bad e

/-- whole load of a model with one include entry that has an environment of its own -/
def flowIncOp : Handler := fun args =>
  match getDict args "main", getDict args "inc" with
  | .ok main, .ok inc =>
    let top := getStrMap args "env"
    let file := getStrMap args "inc_env"
    let pname := getStr args "pname"
    match loadDictInc top file pname main inc with
    | .err e => Json.mkObj [("err", e)]
    | .panic s => Json.mkObj [("panic", s)]
    | .ok p =>
      let same := match loadInc top file pname main inc with
        | .ok q => objsJson (sortObjs q.secrets) == objsJson (sortObjs p.secrets) && objsJson (sortObjs q.configs) == objsJson (sortObjs p.configs)
        | _ => false
      if !same then bad "Secrets.loadInc ≠ Secrets.loadDictInc" else
      Json.mkObj [("ok", Json.mkObj [
        ("secrets", objsJson (sortObjs p.secrets)), ("configs", objsJson (sortObjs p.configs)),
        ("yaml0", (render .yaml false p).toJson), ("yaml1", (render .yaml true p).toJson),
        ("json0", (render .json false p).toJson), ("json1", (render .json true p).toJson)])]
  | .error e, _ => bad e
  | _, .error e => bad e

def handlers : List (String × Handler) :=
  [("c20.resolve", resolve), ("c20.setName", setName), ("c20.procExt", procExt), ("c20.decode", decode),
   ("c20.marshal", marshal), ("c20.apply", apply), ("c20.flow", flowOp), ("c20.jsonBytes", jsonBytes),
   ("c20.incResolve", incResolve), ("c20.flowInc", flowIncOp)]

end CV.Ops.C20
