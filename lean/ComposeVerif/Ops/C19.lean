import ComposeVerif.Ops.Common
import ComposeVerif.Model.Fanout
import ComposeVerif.Model.Locked
/-! line-protocol ops for C19: `fanout.replay` (trace inclusion + parked-set agreement for the service fan-out) -/
open Lean
namespace CV.Ops.C19
open CV.Fanout

def getIntList (j : Json) (k : String) : List Int :=
  match j.getObjVal? k with
  | .ok (.arr a) => a.toList.map fun x => match x.getInt? with | .ok i => i | .error _ => -1
  | _ => []

/-- `res[v] ≥ 0` = `fn` returns that value for service `v`; negative = `fn` returns an error -/
def cfgOf (res : List Int) : Cfg :=
  { svcs := List.range res.length,
    fn := fun v => match res[v]? with
      | some i => if i < 0 then none else some i.toNat
      | none => none }

def parseLabel (s : String) : Option Label :=
  match s.splitOn ":" with
  | [a] =>
    match a with
    | "mRead" => some .mRead | "mSpawnC" => some .mSpawnC | "mWait" => some .mWait | "mReturn" => some .mReturn
    | "cRecv" => some .cRecv | "cCtxDone" => some .cCtxDone | "cStore" => some .cStore
    | "cReturn" => some .cReturn | "cExit" => some .cExit
    | _ => none
  | [a, b] =>
    match b.toNat? with
    | none => none
    | some v =>
      match a with
      | "mSpawn" => some (.mSpawn v) | "wBegin" => some (.wBegin v) | "wReturn" => some (.wReturn v)
      | "wSend" => some (.wSend v) | "wExit" => some (.wExit v) | "wFail" => some (.wFail v)
      | _ => none
  | _ => none

def labelStr : Label → String
  | .mRead => "mRead" | .mSpawnC => "mSpawnC" | .mSpawn v => s!"mSpawn:{v}" | .mWait => "mWait" | .mReturn => "mReturn"
  | .wBegin v => s!"wBegin:{v}" | .wReturn v => s!"wReturn:{v}" | .wSend v => s!"wSend:{v}" | .wExit v => s!"wExit:{v}"
  | .wFail v => s!"wFail:{v}"
  | .cRecv => "cRecv" | .cCtxDone => "cCtxDone" | .cStore => "cStore" | .cReturn => "cReturn" | .cExit => "cExit"

/-- the yield at which each goroutine of the real code is parked in this state (what the scheduler observes) -/
def pcs (cfg : Cfg) (s : St) : String :=
  let m := match s.m with
    | .read => "M=read" | .spawnC => "M=spawnC" | .spawning [] => "M=wait" | .spawning _ => "M=spawn"
    | .waiting => "M=inWait" | .returned => "M=returned"
  let c := match s.c with
    | .notStarted => "C=none" | .sel => "C=select" | .got v _ => s!"C=recv:{v}" | .done => "C=ctxDone" | .fin => "C=exit" | .gone => "C=gone"
  let ws := cfg.svcs.map fun v =>
    match s.w v with
    | .idle => s!"W{v}=idle" | .start => s!"W{v}=begin" | .running => s!"W{v}=fn" | .returned => s!"W{v}=return"
    | .sent => s!"W{v}=exit" | .exited => s!"W{v}=gone" | .failed => s!"W{v}=gone"
  " ".intercalate (m :: c :: ws)

def servicesJson (cfg : Cfg) (f : V → Option Nat) : Json :=
  Json.arr (cfg.svcs.filterMap fun v => (f v).map fun r => Json.arr #[Json.num (v : Nat), Json.num (r : Nat)]).toArray

def finalJson (cfg : Cfg) (s : St) : Json :=
  Json.mkObj [
    ("terminal", Json.bool (decide (s.m = .returned))),
    ("services", match s.services with | some f => servicesJson cfg f | none => Json.null),
    ("err", match s.firstErr with | some v => Json.num (v : Nat) | none => Json.null),
    ("enabled", Json.arr ((enabled cfg s).map fun l => Json.str (labelStr l)).toArray)]

/-- replay a label sequence through `step?`; stop at the first label the model refuses -/
def replayLoop (cfg : Cfg) : St → List String → Nat → List String → List (List String) → (Nat × List String × List (List String) × St × Option String)
  | s, [], k, accP, accE => (k, accP.reverse, accE.reverse, s, none)
  | s, x :: xs, k, accP, accE =>
    match parseLabel x with
    | none => (k, accP.reverse, accE.reverse, s, some ("unparsable label " ++ x))
    | some l =>
      match step? cfg s l with
      | none => (k, accP.reverse, accE.reverse, s, some ("label " ++ x ++ " is not enabled in the model at " ++ pcs cfg s))
      | some s' => replayLoop cfg s' xs (k + 1) (pcs cfg s' :: accP) (((enabled cfg s').map labelStr) :: accE)

def fanoutReplay : Handler := fun args =>
  let cfg := cfgOf (getIntList args "res")
  let trace := getStrList args "trace"
  let s0 := if getBool args "legacy" then initLegacy cfg else init cfg
  let (k, ps, es, s, why) := replayLoop cfg s0 trace 0 [] []
  Json.mkObj [
    ("accepted", Json.num (k : Nat)),
    ("refused", match why with | some w => Json.str w | none => Json.null),
    ("pcs", Json.arr (ps.map Json.str).toArray),
    ("enabled", Json.arr (es.map fun e => Json.arr (e.map Json.str).toArray).toArray),
    ("final", finalJson cfg s)]

/-- the services are interchangeable up to `fn`, and the harness binds the k-th spawned real service to the k-th
    spawned model service: it suffices to enumerate the runs that spawn in list order -/
def canonEnabled (cfg : Cfg) (s : St) : List Label :=
  (enabled cfg s).filter fun l =>
    match l, s.m with
    | .mSpawn v, .spawning (u :: _) => v == u
    | _, _ => true

/-- all maximal label sequences of the model from `s` (depth-first), at most `limit` of them; `fuel` bounds the depth
    (the termination measure `mu` is a sufficient fuel) -/
def enumRuns (cfg : Cfg) : Nat → St → List String → (Nat × List (List String)) → (Nat × List (List String))
  | 0, _, pre, (lim, acc) => (lim - 1, pre.reverse :: acc)
  | fuel + 1, s, pre, (lim, acc) =>
    if lim = 0 then (lim, acc) else
    match canonEnabled cfg s with
    | [] => (lim - 1, pre.reverse :: acc)
    | ls => ls.foldl (fun st l =>
        match step? cfg s l with
        | some s' => enumRuns cfg fuel s' (labelStr l :: pre) st
        | none => st) (lim, acc)

def applyPrefix (cfg : Cfg) (s : St) : List String → St
  | [] => s
  | x :: xs => match (parseLabel x).bind (step? cfg s) with
    | some s' => applyPrefix cfg s' xs
    | none => s

/-- enumerate the maximal runs that extend `prefix` (the part of a run the scheduler cannot control) -/
def fanoutEnum : Handler := fun args =>
  let cfg := cfgOf (getIntList args "res")
  let pre := getStrList args "prefix"
  let s0 := applyPrefix cfg (init cfg) pre
  let (_, runs) := enumRuns cfg (mu cfg s0 + 1) s0 [] (getNat args "limit", [])
  Json.mkObj [("runs", Json.arr (runs.reverse.map fun r => Json.arr ((pre ++ r).map Json.str).toArray).toArray)]

/-- one pseudo-random maximal run (linear congruential choice among the enabled labels) -/
def sampleRun (cfg : Cfg) : Nat → St → Nat → List String → List String
  | 0, _, _, acc => acc.reverse
  | fuel + 1, s, seed, acc =>
    match enabled cfg s with
    | [] => acc.reverse
    | ls =>
      let seed' := (seed * 6364136223846793005 + 1442695040888963407) % 18446744073709551616
      let l := ls.getD ((seed' / 4294967296) % ls.length) .mRead
      match step? cfg s l with
      | some s' => sampleRun cfg fuel s' seed' (labelStr l :: acc)
      | none => acc.reverse

def fanoutSample : Handler := fun args =>
  let cfg := cfgOf (getIntList args "res")
  let pre := getStrList args "prefix"
  let s0 := applyPrefix cfg (init cfg) pre
  let seed := getNat args "seed"
  let k := getNat args "count"
  let runs := (List.range k).map fun i => pre ++ sampleRun cfg (mu cfg s0 + 1) s0 (seed * 1000003 + i * 7919 + 1) []
  Json.mkObj [("runs", Json.arr (runs.map fun r => Json.arr (r.map Json.str).toArray).toArray)]


/-! ### `locked.warn`: the fine-grained model of `warnObsoleteVersion` run under a pseudo-random schedule -/

def getStrListList (j : Json) (k : String) : List (List String) :=
  match j.getObjVal? k with
  | .ok (.arr a) => a.toList.map fun x =>
      match x with
      | .arr b => b.toList.map fun y => match y.getStr? with | .ok s => s | .error _ => ""
      | _ => []
  | _ => []

open CV.Locked in
def lockedEnabled (locked : Bool) (n : Nat) (s : CV.Locked.St VW Nat) : List (CV.Locked.Label Nat) :=
  ((List.range n).flatMap fun t => [CV.Locked.Label.lock t, .read t, .write t, .unlock t]).filter
    fun l => (CV.Locked.step? locked s l).isSome

open CV.Locked in
def lockedSample (locked : Bool) (n : Nat) : Nat → CV.Locked.St VW Nat → Nat → Nat → CV.Locked.St VW Nat × Nat
  | 0, s, _, k => (s, k)
  | fuel + 1, s, seed, k =>
    match lockedEnabled locked n s with
    | [] => (s, k)
    | ls =>
      let seed' := (seed * 6364136223846793005 + 1442695040888963407) % 18446744073709551616
      let l := ls.getD ((seed' / 4294967296) % ls.length) (.lock 0)
      match CV.Locked.step? locked s l with
      | some s' => lockedSample locked n fuel s' seed' (k + 1)
      | none => (s, k)

/-- args: `files` (one list per goroutine), `seed`, `unlocked` (run the sections without the mutex).
    out: final `versionWarning`, the files a warning was logged for, the order of the writes, number of steps, all done -/
def lockedWarn : Handler := fun args =>
  let files := getStrListList args "files"
  let n := files.length
  let prog : Nat → List (CV.Locked.VW → CV.Locked.VW) := fun t => CV.Locked.warnProg (files.getD t [])
  let total := (files.map List.length).sum
  let (s, k) := lockedSample (!(getBool args "unlocked")) n (4 * total + 1) (CV.Locked.init prog ([], [])) (getNat args "seed") 0
  Json.mkObj [("w", Json.arr (s.mem.1.map Json.str).toArray), ("logged", Json.arr (s.mem.2.map Json.str).toArray),
    ("hist", Json.arr (s.hist.map fun (t : Nat) => Json.num t).toArray), ("steps", Json.num k),
    ("quiescent", Json.bool ((List.range n).all fun t => (s.rest t).isEmpty))]

def handlers : List (String × Handler) := [("locked.warn", lockedWarn), ("fanout.replay", fanoutReplay), ("fanout.enum", fanoutEnum), ("fanout.sample", fanoutSample)]

end CV.Ops.C19
