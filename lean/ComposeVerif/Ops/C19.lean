import ComposeVerif.Ops.Common
/-! line-protocol ops for C19 (filled in by the property's owner) -/
namespace CV.Ops.C19

def handlers : List (String × Handler) := []

end CV.Ops.C19
