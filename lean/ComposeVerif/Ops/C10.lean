import ComposeVerif.Ops.Common
import ComposeVerif.Model.Consistency
import ComposeVerif.Spec.Consistency
import ComposeVerif.Model.Validate
import ComposeVerif.Model.NormalizeDeps
import ComposeVerif.Model.ConsistencyGlue
import ComposeVerif.Model.Merge
import ComposeVerif.Model.ValidateCast
/-! line-protocol ops for C10:
`c10.consistency` (model of `loader.checkConsistency` + outcomes over all iteration orders + spec decision),
`c10.cycleBatch` (model of `graph.CheckCycle` over a range of digraphs),
`c10.consistent` (the `Consistent` decision procedure on an abstracted project),
`c10.validate` (model of `validation.Validate`). -/
open Lean
namespace CV.Ops.C10
open CV.Consistency

def getInt (j : Json) (k : String) : Int :=
  match j.getObjValAs? Int k with
  | .ok n => n
  | .error _ => 0

def getOptInt (j : Json) (k : String) : Option Int :=
  match j.getObjVal? k with
  | .ok .null => none
  | .ok v => match v.getInt? with
    | .ok n => some n
    | .error _ => none
  | .error _ => none

def getArr (j : Json) (k : String) : List Json :=
  match j.getObjVal? k with
  | .ok (.arr a) => a.toList
  | _ => []

def getPairs (j : Json) (k : String) : List (String × String) :=
  (getArr j k).filterMap fun e => match e with
    | .arr #[.str a, .str b] => some (a, b)
    | _ => none

def getOpt {α : Type} (j : Json) (k : String) (f : Json → α) : Option α :=
  match j.getObjVal? k with
  | .ok .null => none
  | .ok v => some (f v)
  | .error _ => none

def buildOfJson (j : Json) : Build :=
  { dockerfile := getStr j "dockerfile", inline := getStr j "inline",
    platforms := getStrList j "platforms", secrets := getStrList j "secrets" }

def limitsOfJson (j : Json) : Limits :=
  { cpus := getStr j "cpus", mem := getInt j "mem", pids := getInt j "pids" }

def deployOfJson (j : Json) : Deploy :=
  { replicas := getOptInt j "replicas", limits := getOpt j "limits" limitsOfJson, reservationsMem := getOptInt j "res_mem" }

def svcOfJson (j : Json) : String × Svc :=
  (getStr j "name",
   { image := getStr j "image", build := getOpt j "build" buildOfJson, platform := getStr j "platform",
     networkMode := getStr j "network_mode", networks := getStrList j "networks",
     hc := getOpt j "hc" (fun v => match v with | .arr a => a.toList.filterMap (fun x => x.getStr?.toOption) | _ => []),
     dependsOn := (getArr j "depends_on").map (fun d => (getStr d "name", getBool d "required")),
     volumes := getPairs j "volumes", configs := getStrList j "configs", secrets := getStrList j "secrets",
     scale := getOptInt j "scale", deploy := getOpt j "deploy" deployOfJson, cpus := getStr j "cpus",
     memLimit := getInt j "mem_limit", memReservation := getInt j "mem_reservation", pidsLimit := getInt j "pids_limit",
     containerName := getStr j "container_name", watch := getPairs j "watch" })

def projOfJson (j : Json) : Proj :=
  { services := (getArr j "services").map svcOfJson, disabled := getStrList j "disabled",
    networks := getStrList j "networks", volumes := getStrList j "volumes",
    secrets := (getArr j "secrets").map (fun s => (getStr s "name",
      { external := getBool s "external", file := getStr s "file", environment := getStr s "environment" })),
    configs := getStrList j "configs" }

def optIntJson : Option Int → Json
  | none => Json.null
  | some i => Json.num (JsonNumber.fromInt i)

/-- digest of the post state: per service `[name, deploy.replicas, sorted depends_on names]` -/
def postJson (p : Proj) : Json :=
  Json.arr ((postState p).services.map fun e =>
    let reps := match e.2.deploy with | some d => optIntJson d.replicas | none => Json.null
    let deps := (e.2.dependsOn.map Prod.fst).toArray.qsort (· < ·)
    Json.arr #[Json.str e.1, reps, Json.arr (deps.map Json.str)]).toArray

def outJson (p : Proj) : Option Err → Json
  | none => Json.mkObj [("ok", postJson p)]
  | some e => Json.mkObj [("err", Json.str e.name)]

def altsJson (p : Proj) (l : List (Option Err)) : Json := Json.arr (l.map (outJson p)).toArray

/-- model outcome (list order = sorted order on the wire), every outcome reachable under some
iteration order, and the verdict of the *specification* -/
def consistency : Handler := fun args =>
  let p := projOfJson (getObj args "proj")
  Json.mkObj [("out", outJson p (checkConsistency p)),
              ("alts", altsJson p (consistencyAlts p)),
              ("consistent", Json.bool (consistentB p)),
              ("broken", Json.arr ((brokenRules p).map Json.str).toArray)]

/-- `graph.CheckCycle` alone -/
def cycle : Handler := fun args =>
  let p := projOfJson (getObj args "proj")
  Json.mkObj [("out", outJson p (checkCycleProj p)), ("alts", altsJson p (cycleAlts p)),
              ("acyclic", Json.bool (acyclicB p))]

/-- the decision procedure of `Consistent` on the abstraction of a project returned by a load -/
def consistent : Handler := fun args =>
  let p := projOfJson (getObj args "proj")
  Json.mkObj [("consistent", Json.bool (consistentB p)), ("broken", Json.arr ((brokenRules p).map Json.str).toArray),
              ("model", outJson p (checkConsistency p))]

/-- digraph number `k` on `n` vertices `s0…`: bit `i*n+j` = edge `si → sj` (with self loops), or, without
self loops, bit index over the off-diagonal pairs in row-major order -/
def graphProj (n : Nat) (loops : Bool) (k : Nat) : Proj :=
  let pairs : List (Nat × Nat) := (List.range n).flatMap fun i => (List.range n).filterMap fun j =>
    if loops || i != j then some (i, j) else none
  let bits : List ((Nat × Nat) × Nat) := pairs.zipIdx
  let svc (i : Nat) : Svc :=
    { image := "i", dependsOn := bits.filterMap fun (ij, b) =>
        if ij.1 == i && k.testBit b then some ("s" ++ Nat.repr ij.2, true) else none }
  { services := (List.range n).map fun i => ("s" ++ Nat.repr i, svc i) }

def cycleBatch : Handler := fun args =>
  let n := getNat args "n"
  let loops := getBool args "loops"
  let from_ := getNat args "from"
  let count := getNat args "count"
  let s := (List.range count).map fun d =>
    match checkCycleProj (graphProj n loops (from_ + d)) with
    | none => '0'
    | some .cycle => '1'
    | some _ => 'e'
  Json.mkObj [("bits", Json.str (String.ofList s))]

def voutJson : CV.Validate.VOut → Json
  | .ok => Json.mkObj [("ok", Json.null)]
  | .err c => Json.mkObj [("err", Json.str c.name)]
  | .panic s => Json.mkObj [("panic", Json.str s)]

def validateOp : Handler := fun args =>
  match CV.Val.ofJson (getObj args "tree") with
  | .error e => Json.mkObj [("bad", e)]
  | .ok t =>
    Json.mkObj [("out", voutJson (CV.Validate.validate t)),
                ("alts", Json.arr (((CV.Validate.failures t).map voutJson).toArray)),
                ("valid", Json.bool (CV.Validate.validTreeB t))]

/-- `depends_on` of one service after `loader.Normalize` (sorted by name) -/
def normDepsOp : Handler := fun args =>
  let r : RawRefs :=
    { dependsOn := (getArr args "depends_on").map (fun d => (getStr d "name", getBool d "required")),
      links := getStrList args "links", namespaces := getStrList args "namespaces", volumesFrom := getStrList args "volumes_from" }
  let out := (normDeps r).toArray.qsort (fun a b => a.1 < b.1)
  Json.mkObj [("deps", Json.arr (out.map fun d => Json.arr #[Json.str d.1, Json.bool d.2]))]

/-- the cycle `graph.CheckCycle` prints (null: no cycle / the graph cannot be built); services and `depends_on` arrive in
arbitrary order, the model sorts as the code does -/
def cyclePathOp : Handler := fun args =>
  let p := projOfJson (getObj args "proj")
  match newGraph p with
  | .error e => Json.mkObj [("err", Json.str e.name)]
  | .ok g =>
    match cyclePath g with
    | none => Json.mkObj [("path", Json.null)]
    | some c => Json.mkObj [("path", Json.arr (c.map Json.str).toArray)]

/-- the glue around the two checks: predicted outcome class of a whole load under the four combinations of
`SkipValidation` (first letter) / `SkipConsistencyCheck` (second letter), from the class of the structural stage (`v`,
known to the generator) and the model of `checkConsistency` on the project as it is loaded with both checks skipped;
plus the option records the model says the caller, an included project and an `extends` base see -/
def glueOp : Handler := fun args =>
  let p := projOfJson (getObj args "proj")
  let v := getStr args "v"
  let out := checkConsistency p
  let c := match out with | none => "ok" | some _ => "consistency"
  let mk (sv sc : Bool) : Json :=
    Json.str (Glue.combineIncl { skipValidation := sv, skipConsistencyCheck := sc } (getStrList args "vinc") v c)
  let flags (o : Glue.Opts) : Json :=
    Json.arr #[Json.bool o.skipValidation, Json.bool o.skipNormalization, Json.bool o.resolvePaths,
               Json.bool o.skipConsistencyCheck, Json.bool o.skipExtends, Json.bool o.skipInclude, Json.bool o.skipDefaultValues]
  let per (r : Glue.Role) : Json :=
    Json.mkObj ([("ff", (false, false)), ("ft", (false, true)), ("tf", (true, false)), ("tt", (true, true))].map fun (k, b) =>
      (k, flags (Glue.optsFor { skipValidation := b.1, skipConsistencyCheck := b.2 } r)))
  Json.mkObj [("ff", mk false false), ("ft", mk false true), ("tf", mk true false), ("tt", mk true true),
              ("alts", altsJson p (consistencyAlts p)),
              ("main", per .main), ("included", per .included), ("extended", per .extended)]

/-- `override.Merge` followed by `validation.Validate` (Props/C10Merge.lean) -/
def mergeValidateOp : Handler := fun args =>
  match CV.Val.ofJson (getObj args "a"), CV.Val.ofJson (getObj args "b") with
  | .ok a, .ok b =>
    match CV.Merge.merge a b with
    | .ok m => Json.mkObj [("merge", Json.str "ok"), ("alts", Json.arr (((CV.Validate.failures m).map voutJson).toArray))]
    | .err e => Json.mkObj [("merge", Json.str ("err:" ++ e))]
    | .panic s => Json.mkObj [("merge", Json.str ("panic:" ++ s))]
  | _, _ => Json.mkObj [("bad", Json.str "tree")]

def vclass : CV.Validate.VOut → String
  | .ok => "ok"
  | .err _ => "structural"
  | .panic s => "panic:" ++ s

/-- a whole load with both checks on under an option set that changes the shape the structural stage sees
(`SkipInterpolation`: the cast of `external` has not run): predicted class from the resource tree as written and the model
of `checkConsistency` on the project loaded with both checks skipped -/
def optLoadOp : Handler := fun args =>
  let p := projOfJson (getObj args "proj")
  match CV.Val.ofJson (getObj args "tree") with
  | .error e => Json.mkObj [("bad", e)]
  | .ok t =>
    let seen := CV.Validate.seenByValidate (getBool args "skip_interpolation") t
    let v := vclass (CV.Validate.validate seen)
    let c := match checkConsistency p with | none => "ok" | some _ => "consistency"
    Json.mkObj [("pred", Json.str (Glue.combine {} v c)), ("v", Json.str v), ("c", Json.str c),
                ("vraw", Json.str (vclass (CV.Validate.validate t))),
                ("vcast", Json.str (vclass (CV.Validate.validate (CV.Validate.castTop t))))]

/-- the cast in front of the structural stage: `castTop` against the real `interp.Interpolate` with the loader's cast table,
and the verdicts of `validate` on the raw and on the cast tree -/
def castValidateOp : Handler := fun args =>
  match CV.Val.ofJson (getObj args "tree") with
  | .error e => Json.mkObj [("bad", e)]
  | .ok t =>
    Json.mkObj [("castable", Json.bool (CV.Validate.castableTop t)), ("cast", CV.Val.toJson (CV.Validate.castTop t)),
                ("vraw", voutJson (CV.Validate.validate t)), ("vcast", voutJson (CV.Validate.validate (CV.Validate.castTop t)))]

def handlers : List (String × Handler) :=
  [("c10.consistency", consistency), ("c10.cycle", cycle), ("c10.consistent", consistent),
   ("c10.cycleBatch", cycleBatch), ("c10.validate", validateOp), ("c10.normDeps", normDepsOp), ("c10.cyclePath", cyclePathOp),
   ("c10.glue", glueOp), ("c10.mergeValidate", mergeValidateOp), ("c10.optload", optLoadOp), ("c10.castValidate", castValidateOp)]

end CV.Ops.C10
