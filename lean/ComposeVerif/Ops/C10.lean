import ComposeVerif.Ops.Common
/-! line-protocol ops for C10 (filled in by the property's owner) -/
namespace CV.Ops.C10

def handlers : List (String × Handler) := []

end CV.Ops.C10
