import ComposeVerif.Ops.Common
import ComposeVerif.Model.Trav
import ComposeVerif.Model.DepGraph
import ComposeVerif.Model.TravProj
/-!
line-protocol ops for C13

`trav.replay`: replay traces of the *real* `graph.walk` (recorded by the controlled scheduler of
`harness/c13sched.go` under the `verif` yield hooks) through `Trav.step?` and compare, at every
quiescent point, the set of goroutines / their pending steps / whether a blocking operation is
enabled with the model's state.

Mapping real event (a goroutine completed the step it was released into) → model labels:

| real step completed (arrived at)                 | labels                                                   |
|--------------------------------------------------|----------------------------------------------------------|
| M `init` (→ ready v / M.wait)                    | `schedNext M v` / `schedEnd M`                           |
| w `ready` v (→ enter v)                          | `ready w`                                                |
| w `ready` v (→ ready v' / M.wait / C.select)     | `ready w`, then `schedNext w v'` / `schedEnd w`           |
| w `enter` v (→ spawn v)                          | `enter w`                                                |
| w `enter` v (→ …)                                | `enter w`, then `schedNext`/`schedEnd`                    |
| w `spawn` v (→ …)                                | `spawn w`, then `schedNext`/`schedEnd`                    |
| W `W.begin` v (→ visitor entry / W.done)         | `wBegin v`  (visitor entered iff not skipped)            |
| W `visit` v (visitor released with ok/err)       | `wReturn v err`                                          |
| W `W.done` / `W.send` / `W.exit`                 | `wDone v` / `wSend v` / `wExit v`                        |
| C `C.select` (→ C.recv k)                        | none; checked: head of `ch` = k (the model receives later) |
| C `C.select` (→ C.ctxDone)                       | none; checked: `cancelled`                               |
| C `C.recv` k (→ ready / C.select)                | `cRecv`, then `schedNext C v'` / `schedEnd C`             |
| C `C.recv` k (→ C.exit)                          | none; checked: `expect = 1` (deferred to `C.exit`)        |
| C `C.exit` (goroutine gone)                      | `cRecv` (the last one: `cAlive := false`)                |
| C `C.ctxDone` (goroutine gone; it first waits for `spawned`, closed by the caller's last loop step) | `cCtxDone` (enabled iff `m = none`) |
| M `M.wait` (walk returned r)                     | none; checked: `terminal`, r = `firstErr`                |
| X `extCancel` (the harness cancels the context it passed to `InDependencyOrder`) | `extCancel`               |
-/
open Lean
namespace CV.Ops.C13
open CV.Trav

def ns (n : Nat) : String := Nat.repr n

def natPairs (j : Json) (k : String) : List (Nat × Nat) :=
  match j.getObjVal? k with
  | .ok (.arr a) => a.toList.filterMap fun e =>
      match e with
      | .arr p => match p.toList with
        | [x, y] => match x.getNat?, y.getNat? with
          | .ok a, .ok b => some (a, b)
          | _, _ => none
        | _ => none
      | _ => none
  | _ => []

def natList (j : Json) (k : String) : List Nat :=
  match j.getObjVal? k with
  | .ok (.arr a) => a.toList.filterMap fun e => e.getNat?.toOption
  | _ => []

def subStr (w : String) (limit : Option Nat) (s : St) : Option Sched → (noneStr : String) → String
  | none, ns => w ++ ":" ++ ns
  | some ⟨_, .next⟩, _ => w ++ ":next"
  | some ⟨_, .ready v⟩, _ => w ++ ":ready:" ++ ns v
  | some ⟨_, .enter v⟩, _ => w ++ ":enter:" ++ ns v
  | some ⟨_, .spawn v⟩, _ => w ++ ":spawn:" ++ ns v ++ (if slotFree limit s then "+" else "-")

def pcStr : WPc → String
  | .start => "start" | .running => "running" | .returned _ => "returned" | .marked _ => "marked" | .sent _ => "sent"

def insertSorted (p : Nat × String) : List (Nat × String) → List (Nat × String)
  | [] => [p]
  | q :: r => if p.1 ≤ q.1 then p :: q :: r else q :: insertSorted p r

/-- canonical rendering of what every goroutine of the model is about to do -/
def view (limit : Option Nat) (s : St) : String :=
  let c := if s.cAlive then
      [subStr "C" limit s s.cSched ("select" ++ (if !s.ch.isEmpty || s.cancelled then "+" else "-")
          -- may the coordinator leave through ctx.Done()?  only once the caller has left its loop (`<-spawned`)
          ++ (if s.cancelled then (if s.m.isNone then "+" else "-") else "."))] else []
  let m := [subStr "M" limit s s.m ("wait" ++ (if decide (terminal s) then "+" else "-"))]
  let ws := (s.workers.foldl (fun acc p => insertSorted (p.1, pcStr p.2) acc) []).map
      fun p => "W" ++ ns p.1 ++ ":" ++ p.2
  " ".intercalate (c ++ m ++ ws)

/-- `?` in the real view is a wildcard for one character (enabledness not yet known) -/
def viewMatch : List Char → List Char → Bool
  | [], [] => true
  | a :: r, b :: m => (a == '?' || a == b) && viewMatch r m
  | _, _ => false

structure Evt where
  g : String
  step : String
  key : Nat
  next : String
  nextKey : Nat
  res : String
  view : String

def parseEvt (e : String) : Evt :=
  let f := e.splitOn "|"
  let get := fun i => f.getD i ""
  { g := get 0, step := get 1, key := (get 2).toNat?.getD 0, next := get 3, nextKey := (get 4).toNat?.getD 0,
    res := get 5, view := get 6 }

def whoOf (g : String) : Option Who := if g == "M" then some .M else if g == "C" then some .C else none

def run (g : Graph) (lim : Option Nat) (s : St) : List Label → Except String St
  | [] => .ok s
  | l :: ls => match step? g lim s l with
    | some s' => run g lim s' ls
    | none => .error ("model refuses " ++ reprStr l)

def whoStr : Who → String | .M => "M" | .C => "C"

/-- which rule of `step?`, and which branch of it, a replayed step took (label coverage of the tie: the harness prints
the histogram into the evidence and counts every branch that no real schedule reached) -/
def branchOf (g : Graph) (s s' : St) : Label → String
  | .schedNext w _ => "schedNext." ++ whoStr w
  | .schedEnd w => "schedEnd." ++ whoStr w
  | .ready w => "ready." ++ whoStr w ++
      (match (getSched s' w).map (·.sub) with | some (.enter _) => ":ready" | _ => ":not-ready")
  | .enter w => "enter." ++ whoStr w ++
      (match (getSched s' w).map (·.sub) with | some (.spawn _) => ":claimed" | _ => ":lost")
  | .spawn w => "spawn." ++ whoStr w
  | .wBegin v => if g.skip v then "wBegin:skipped" else "wBegin:visit"
  | .wReturn _ e => if e then "wReturn:err" else "wReturn:ok"
  | .wDone _ => "wDone"
  | .wSend _ => "wSend"
  | .wExit _ =>
      if s'.errExits.length > s.errExits.length then
        (if s.firstErr.isNone then "wExit:first-error" else "wExit:later-error")
      else "wExit:ok"
  | .cRecv => if s'.cAlive then "cRecv:continue" else "cRecv:last"
  | .cCtxDone => "cCtxDone"
  | .extCancel => "extCancel"

/-- replay monad: the branches taken so far (newest first) over the refusal message -/
abbrev RM := StateT (List String) (Except String)

def runT (g : Graph) (lim : Option Nat) (s : St) : List Label → RM St
  | [] => pure s
  | l :: ls => match step? g lim s l with
    | some s' => do
      modify (branchOf g s s' l :: ·)
      runT g lim s' ls
    | none => throw ("model refuses " ++ reprStr l)

def advance (w : Who) (e : Evt) : Except String (List Label) :=
  if e.next == "ready" then .ok [.schedNext w e.nextKey]
  else if (w == .M && e.next == "M.wait") || (w == .C && e.next == "C.select") then .ok [.schedEnd w]
  else .error ("unexpected next park " ++ e.next)

def subOf (s : St) (w : Who) : Option SubPc := (getSched s w).map (·.sub)

def applyEvt (g : Graph) (lim : Option Nat) (s : St) (e : Evt) : RM St := do
  match e.g, e.step with
  | "M", "init" =>
    let ls ← advance .M e
    runT g lim s ls
  | "M", "M.wait" =>
    if ¬ decide (terminal s) then throw "walk returned but the model is not terminal"
    let r := match s.firstErr with | none => "nil" | some v => "E" ++ ns v
    if r != e.res then throw ("walk returned " ++ e.res ++ ", model says " ++ r)
    pure s
  | "W", "W.begin" =>
    let s' ← runT g lim s [.wBegin e.key]
    let entered := wpc s'.workers e.key == some .running
    if entered != (e.next == "visit") then throw "skip decision differs"
    pure s'
  | "W", "visit" => runT g lim s [.wReturn e.key (e.res == "err")]
  | "W", "W.done" => runT g lim s [.wDone e.key]
  | "W", "W.send" => runT g lim s [.wSend e.key]
  | "W", "W.exit" => runT g lim s [.wExit e.key]
  | "C", "C.select" =>
    if !(s.cAlive && s.cSched.isNone) then throw "coordinator not at select in the model"
    if e.next == "C.recv" then
      if s.ch.head? != some e.nextKey then throw "coordinator received a vertex that is not the head of the model channel"
      pure s
    else if e.next == "C.ctxDone" then
      if !s.cancelled then throw "coordinator saw ctx.Done but the model is not cancelled"
      pure s
    else throw ("unexpected next park " ++ e.next)
  | "C", "C.recv" =>
    if s.ch.head? != some e.key then throw "received vertex is not the head of the model channel"
    if e.next == "C.exit" then
      if s.expect != 1 then throw "coordinator exits but model expect ≠ 1"
      pure s
    else
      let s' ← runT g lim s [.cRecv]
      if !s'.cAlive then throw "model coordinator exits, real one continues"
      let ls ← advance .C e
      runT g lim s' ls
  | "C", "C.exit" =>
    let s' ← runT g lim s [.cRecv]
    if s'.cAlive then throw "real coordinator exited, model one continues"
    pure s'
  | "C", "C.ctxDone" => runT g lim s [.cCtxDone]
  | "X", "extCancel" => runT g lim s [.extCancel]
  | gs, st =>
    match whoOf gs with
    | none => throw ("unknown goroutine " ++ gs)
    | some w =>
      if st == "ready" then
        if subOf s w != some (.ready e.key) then throw "model is not at ready of this vertex"
        let s' ← runT g lim s [.ready w]
        if e.next == "enter" then pure s' else
          let ls ← advance w e
          runT g lim s' ls
      else if st == "enter" then
        if subOf s w != some (.enter e.key) then throw "model is not at enter of this vertex"
        let s' ← runT g lim s [.enter w]
        if e.next == "spawn" then pure s' else
          let ls ← advance w e
          runT g lim s' ls
      else if st == "spawn" then
        if subOf s w != some (.spawn e.key) then throw "model is not at spawn of this vertex"
        let s' ← runT g lim s [.spawn w]
        let ls ← advance w e
        runT g lim s' ls
      else throw ("unknown step " ++ st)

def insertCount (k : String) (n : Nat) : List (String × Nat) → List (String × Nat)
  | [] => [(k, n)]
  | (k', m) :: r => if k == k' then (k', m + n) :: r else (k', m) :: insertCount k n r

def countsJson (l : List (String × Nat)) : Json :=
  Json.arr (l.map (fun p => Json.arr #[Json.str p.1, Json.num (JsonNumber.fromNat p.2)])).toArray

def replayTrace (g : Graph) (lim : Option Nat) (evs : List String) : Json :=
  let rec go (s : St) (i : Nat) (acc : List String) : List String → Json
    | [] => Json.mkObj [("ok", true), ("n", i), ("terminal", decide (terminal s)),
        ("labels", countsJson (acc.foldl (fun m k => insertCount k 1 m) []))]
    | es :: rest =>
      let e := parseEvt es
      match (applyEvt g lim s e).run acc with
      | .error why => Json.mkObj [("ok", false), ("at", i), ("ev", es), ("why", why), ("model", view lim s)]
      | .ok (s', acc') =>
        if e.view != "" && !viewMatch e.view.toList (view lim s').toList then
          Json.mkObj [("ok", false), ("at", i), ("ev", es), ("why", "view"), ("model", view lim s')]
        else go s' (i + 1) acc' rest
  -- `walk` returns nil before creating any goroutine when the graph has no vertex (traversal.go:86-88)
  if g.verts.isEmpty then
    if evs == ["M|M.wait||||nil|"] then Json.mkObj [("ok", true), ("n", 1), ("terminal", true)]
    else Json.mkObj [("ok", false), ("at", 0), ("ev", evs.headD ""), ("why", "empty graph: walk must return nil at once"), ("model", "")]
  else
  go (init g) 0 [] evs

def labelCounts (r : Json) : List (String × Nat) :=
  match r.getObjVal? "labels" with
  | .ok (.arr a) => a.toList.filterMap fun e => match e with
    | .arr p => match p.toList with
      | [k, n] => match k.getStr?, n.getNat? with
        | .ok k, .ok n => some (k, n)
        | _, _ => none
      | _ => none
    | _ => none
  | _ => []

def getInt (j : Json) (k : String) : Int :=
  match j.getObjVal? k with
  | .ok v => match v.getInt? with | .ok i => i | _ => 0
  | _ => 0

/-- the project the harness builds for a `trav.sched` case: services `0 … n-1`, every edge `(a, b)` a required
dependency of `a` on `b` -/
def projOfEdges (n : Nat) (edges : List (Nat × Nat)) : CV.DepGraph.Proj :=
  ⟨(List.range n).map (fun v => ⟨v, (edges.filter (·.1 == v)).map (fun e => ⟨e.2, true⟩)⟩), []⟩

/-- since round 5 the replayed graph is the one `TravProj.plan` (the model of `CollectInDependencyOrder`, about which
`Props/C13Collect.lean` speaks) computes from the project -/
def planOfArgs (args : Json) : CV.TravProj.Plan :=
  CV.TravProj.plan (projOfEdges (getNat args "n") (natPairs args "edges")) (getBool args "reverse") (getInt args "limit")
    (natList args "roots")

def emptyGraph : Graph := { verts := [], pre := fun _ => [], post := fun _ => [], skip := fun _ => false }

def graphOfArgs (args : Json) : Graph × Option Nat :=
  match planOfArgs args with
  | .walk g lim => (g, lim)
  | _ => (emptyGraph, none)

def replay : Handler := fun args =>
  let (g, lim) := graphOfArgs args
  if let .refused cls := planOfArgs args then
    Json.mkObj [("traces", (0 : Nat)), ("bad", Json.arr #[Json.mkObj [("why", "the model refuses this project: " ++ cls)]]), ("nbad", (1 : Nat))]
  else
  let traces : List (List String) := match args.getObjVal? "traces" with
    | .ok (.arr a) => a.toList.map fun t => match t with
      | .arr es => es.toList.filterMap fun e => match e with | .str s => some s | _ => none
      | _ => []
    | _ => []
  let res := traces.map (replayTrace g lim)
  let bad := res.filter fun r => getBool r "ok" == false
  -- label coverage: which rule / branch of `step?` the accepted real traces went through, summed over the case
  let labels := res.foldl (fun m r => (labelCounts r).foldl (fun m p => insertCount p.1 p.2 m) m) []
  Json.mkObj [("traces", traces.length), ("bad", Json.arr (bad.take 3).toArray), ("nbad", bad.length), ("labels", countsJson labels)]

/-- which vertices `t.skip` says are not visited (correspondence of `skipOf` alone) -/
def skips : Handler := fun args =>
  let (g, _) := graphOfArgs args
  Json.arr ((g.verts.filter g.skip).map (fun v => Json.num (JsonNumber.fromNat v))).toArray

/-! `trav.newgraph`: every outcome of `newGraph` + `checkCycle` reachable under some iteration order of the Go maps.
args: `{"services":[{"name":0,"deps":[[1,true],[9,false]]},…],"disabled":[7,8]}` -/

def insertNat (x : Nat) : List Nat → List Nat
  | [] => [x]
  | y :: r => if x ≤ y then x :: y :: r else y :: insertNat x r

def sortNat (l : List Nat) : List Nat := l.foldr insertNat []

def svcOfJson (j : Json) : CV.DepGraph.Svc :=
  let deps : List CV.DepGraph.Dep := match j.getObjVal? "deps" with
    | .ok (.arr a) => a.toList.filterMap fun d => match d with
      | .arr p => match p.toList with
        | [n, r] => match n.getNat?, r.getBool? with
          | .ok n, .ok r => some ⟨n, r⟩
          | _, _ => none
        | _ => none
      | _ => none
    | _ => []
  ⟨getNat j "name", deps⟩

def newgraph : Handler := fun args =>
  let svcs : List CV.DepGraph.Svc := match args.getObjVal? "services" with
    | .ok (.arr a) => a.toList.map svcOfJson
    | _ => []
  let p : CV.DepGraph.Proj := ⟨svcs, natList args "disabled"⟩
  let outs := (CV.DepGraph.outcomes p).map fun o => o.cls ++ ":" ++ " ".intercalate ((sortNat o.changed).map ns)
  Json.arr ((outs.eraseDups).map Json.str).toArray

/-! `trav.plan`: what `CollectInDependencyOrder` sets up before `walk`, for a general project (optional / missing /
disabled dependencies) and all options.  `classes` = every outcome class of `newGraph`+`checkCycle` over all iteration
orders of the Go maps; when the project is accepted the plan does not depend on the order. -/

def natArr (l : List Nat) : Json := Json.arr ((sortNat l).eraseDups.map (fun v => Json.num (JsonNumber.fromNat v))).toArray

def planOp : Handler := fun args =>
  let svcs : List CV.DepGraph.Svc := match args.getObjVal? "services" with
    | .ok (.arr a) => a.toList.map svcOfJson
    | _ => []
  let p : CV.DepGraph.Proj := ⟨svcs, natList args "disabled"⟩
  -- all iteration orders: exponential, only on request (small projects)
  let classes := if getBool args "small" then ((CV.DepGraph.outcomes p).map (·.cls)).eraseDups else []
  let base := [("classes", Json.arr (classes.map Json.str).toArray)]
  match CV.TravProj.plan p (getBool args "reverse") (getInt args "limit") (natList args "roots") with
  | .refused cls => Json.mkObj (base ++ [("plan", Json.str "refused"), ("cls", Json.str cls)])
  | .empty => Json.mkObj (base ++ [("plan", Json.str "empty")])
  | .walk g lim =>
    let per := fun (f : V → List V) => Json.arr (g.verts.map (fun v => Json.arr #[Json.num (JsonNumber.fromNat v), natArr (f v)])).toArray
    Json.mkObj (base ++ [("plan", Json.str "walk"), ("verts", natArr g.verts), ("pre", per g.pre), ("post", per g.post),
      ("ext", natArr (CV.TravProj.extremities g)), ("skip", natArr (g.verts.filter g.skip)),
      ("limit", Json.num (JsonNumber.fromNat (lim.getD 0)))])

def handlers : List (String × Handler) := [("trav.replay", replay), ("trav.skips", skips), ("trav.newgraph", newgraph), ("trav.plan", planOp)]

end CV.Ops.C13
