import ComposeVerif.Ops.Common
/-! line-protocol ops for C13 (filled in by the property's owner) -/
namespace CV.Ops.C13

def handlers : List (String × Handler) := []

end CV.Ops.C13
