import ComposeVerif.Ops.Common
import ComposeVerif.Model.Schema
import ComposeVerif.Gen.Schema
/-! line-protocol op `schemaValidate`: the Lean `conforms` against the regenerated compose schema -/
open Lean
namespace CV.Ops.Schema

def schemaValidate : Handler := fun args =>
  match CV.Val.ofJson (getObj args "tree") with
  | .ok v => if CV.Schema.conforms CV.Gen.composeSchema v then Json.mkObj [("ok", true)] else Json.mkObj [("err", "schema")]
  | .error e => Json.mkObj [("bad", e)]

def handlers : List (String × Handler) := [("schemaValidate", schemaValidate)]

end CV.Ops.Schema
