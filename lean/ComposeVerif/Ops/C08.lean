import ComposeVerif.Ops.Common
/-! line-protocol ops for C08 (filled in by the property's owner) -/
namespace CV.Ops.C08

def handlers : List (String × Handler) := []

end CV.Ops.C08
