import ComposeVerif.Ops.Common
import ComposeVerif.Model.Interp
import ComposeVerif.Spec.Interp
import ComposeVerif.Model.InterpCustom
import ComposeVerif.Model.InterpFloat
import ComposeVerif.Spec.InterpTree
import ComposeVerif.Gen.Tables
/-! line-protocol ops for C08: `interpolate` (model of interpolation.Interpolate with the regenerated cast
table), `c08casters` (the integer / boolean casters alone), `c08escape` (the `$`→`$$` rewriting of the spec) -/
open Lean
namespace CV.Ops.C08
open CV CV.Interp

def errJson : Err → Json
  | .invalid p => Json.mkObj [("err", "invalid"), ("path", p)]
  | .required p v => Json.mkObj [("err", "required"), ("path", p), ("var", v)]
  | .cast p => Json.mkObj [("err", "cast"), ("path", p)]

def lookupTable (l : List (String × String)) (s : String) : Option String :=
  match l.find? (fun p => p.1 == s) with
  | some p => some p.2
  | none => none

/-- the opaque part of the float casters, as tables rendered by the harness from the real `strconv.ParseFloat` and the
    real integer→float conversions: `p64`/`p32` text ↦ rendering (absent = error), `i64`/`i32` decimal integer ↦ rendering -/
def rawFloatOf (args : Json) : RawFloat :=
  let ofInt (t : List (String × String)) (i : Int) : String :=
    match lookupTable t (ToString.toString i) with
    | some r => r
    | none => "?no-rendering-of-" ++ ToString.toString i
  { parse64 := lookupTable (getStrMap args "p64"), parse32 := lookupTable (getStrMap args "p32")
    ofInt64 := ofInt (getStrMap args "i64"), ofInt32 := ofInt (getStrMap args "i32") }

def cfgOf (args : Json) : Cfg :=
  { table := CV.Gen.castTable
    fp := (rawFloatOf args).parser
    env := envOfList (getStrMap args "env") }

/-- `{"tree": T(map), "env": {…}, "p64": {text: repr}, "p32": {…}, "i64": {int: repr}, "i32": {…}}` →
    `{"ok": T}` | `{"errs": [every error reachable under some map order], "first": the list-order one}` | `{"panic": site}` -/
def interpolateOp : Handler := fun args =>
  match Val.ofJson (getObj args "tree") with
  | .ok (.map kvs) =>
    let c := cfgOf args
    match interpolate c kvs with
    | .ok kvs' => Json.mkObj [("ok", Val.toJson (.map kvs'))]
    | .err e => Json.mkObj [("errs", Json.arr ((errsKVs c TPath.root kvs).map errJson).toArray), ("first", errJson e)]
    | .panic s => Json.mkObj [("panic", s)]
  | .ok _ => Json.mkObj [("bad", "tree is not a mapping")]
  | .error e => Json.mkObj [("bad", e)]

/-- the casters alone: `{"s": text, "p64": …, "p32": …, "i64": …, "i32": …}` → `{"int": "n"|null, "bool": b|null, "f64": …, …}` -/
def castersOp : Handler := fun args =>
  let s := getStr args "s"
  Json.mkObj [
    ("int", match parseInt s with | some i => Json.str (ToString.toString i) | none => Json.null),
    ("bool", match parseBool s with | some b => Json.bool b | none => Json.null),
    ("yamlint", match yamlInt s with | some i => Json.str (ToString.toString i) | none => Json.null),
    ("devicecount", match decodeDeviceCount s with | some i => Json.str (ToString.toString i) | none => Json.null),
    ("bytes", Json.arr #[Json.str (unitBytesClass s).1, Json.str (unitBytesClass s).2]),
    ("f64", match (rawFloatOf args).parser.f64 s with | some r => Json.str r | none => Json.null),
    ("f32", match (rawFloatOf args).parser.f32 s with | some r => Json.str r | none => Json.null),
    ("nanocpus", match decodeNanoCPUs (rawFloatOf args).parser s with | some r => Json.str r | none => Json.null)]

/-- the document with nothing substituted (`Spec/InterpTree.lean: castDocument`) and the `$`→`$$` rewriting of the spec:
    `{"tree": T(map), "p64": …, "p32": …, "i64": …, "i32": …}` →
    `{"ok": T}` | `{"errs": [the cast error of every string leaf], "first": the list-order one}`, plus `"escaped": T` -/
def castDocOp : Handler := fun args =>
  match Val.ofJson (getObj args "tree") with
  | .ok (.map kvs) =>
    let c := cfgOf args
    let esc := Val.toJson (.map (escapeKVs kvs))
    match castDocument c kvs with
    | .ok kvs' => Json.mkObj [("ok", Val.toJson (.map kvs')), ("escaped", esc)]
    | .err e =>
      let all := (leavesKVs TPath.root kvs).filterMap (fun qs =>
        match castOnly c qs.1 qs.2 with
        | .err e' => some (errJson e')
        | _ => none)
      Json.mkObj [("errs", Json.arr all.toArray), ("first", errJson e), ("escaped", esc)]
    | .panic s => Json.mkObj [("panic", s), ("escaped", esc)]
  | .ok _ => Json.mkObj [("bad", "tree is not a mapping")]
  | .error e => Json.mkObj [("bad", e)]

def handlers : List (String × Handler) :=
  [("interpolate", interpolateOp), ("c08casters", castersOp), ("c08castdoc", castDocOp)]

end CV.Ops.C08
