import ComposeVerif.Ops.Common
/-! line-protocol ops for C15 (filled in by the property's owner) -/
namespace CV.Ops.C15

def handlers : List (String × Handler) := []

end CV.Ops.C15
