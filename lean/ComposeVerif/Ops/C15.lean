import ComposeVerif.Ops.Common
import ComposeVerif.Model.Select
import ComposeVerif.Spec.Select
import ComposeVerif.Model.SelectLoad
/-!
line-protocol ops for C15

* `c15hist` — a history executed by the real code (`init`, then per step the operation and the real outcome).
  For every step, from the *real* project before the step: the model's outcome, whether it agrees with the
  real outcome (exactly), and the clauses of
  `Spec/Select.lean` that the real before/after pair violates.
-/
open Lean
namespace CV.Ops.C15
open CV.Sel

/-! ## JSON → record -/

def arrOf (j : Json) (k : String) : List Json :=
  match j.getObjVal? k with
  | .ok (.arr a) => a.toList
  | _ => []

def objOf (j : Json) (k : String) : List (String × Json) :=
  match j.getObjVal? k with
  | .ok (.obj o) => o.toList
  | _ => []

def strsOf (j : Json) (k : String) : List String :=
  (arrOf j k).filterMap fun x => match x with | .str s => some s | _ => none

def depOfJson (j : Json) : Dep := { required := getBool j "required", cond := getStr j "cond" }

def svcOfJson (k : String) (j : Json) : Svc :=
  { name := (match j.getObjVal? "name" with | .ok (.str s) => s | _ => k)   -- absent = the map key
    image := getStr j "image"
    profiles := strsOf j "profiles"
    deps := (objOf j "deps").map fun (k, v) => (k, depOfJson v)
    nets := strsOf j "nets"
    vols := (arrOf j "vols").filterMap fun x => match x with
      | .arr #[.str t, .str s] => some (t, s)
      | _ => none
    secrets := strsOf j "secrets"
    build := match j.getObjVal? "build" with
      | .ok (.arr a) => some (a.toList.filterMap fun x => match x with | .str s => some s | _ => none)
      | _ => none
    configs := strsOf j "configs"
    env := (objOf j "env").map fun (k, v) => (k, match v with | .str s => some s | _ => none) }

def strMapOf (j : Json) (k : String) : AL String :=
  (objOf j k).filterMap fun (k, v) => match v with | .str s => some (k, s) | _ => none

def projOfJson (j : Json) : Proj :=
  { services := (objOf j "services").map fun (k, v) => (k, svcOfJson k v)
    disabled := (objOf j "disabled").map fun (k, v) => (k, svcOfJson k v)
    profiles := strsOf j "profiles"
    networks := strMapOf j "networks"
    volumes := strMapOf j "volumes"
    secrets := strMapOf j "secrets"
    configs := strMapOf j "configs"
    environment := strMapOf j "environment" }

def polOfStr1 : String → Policy
  | "dependents" => .dependents
  | "ignore" => .ignore
  | _ => .deps

/-- `"none"` = no option, `"a+b"` = the options `a`, `b` in call order -/
def polOfStr (s : String) : Policy :=
  if s == "none" then policyOf [] else policyOf ((s.splitOn "+").map polOfStr1)

def opOfJson (j : Json) : Op :=
  let names := strsOf j "names"
  match getStr j "op" with
  | "profiles" => .profiles names
  | "enable" => .enable names
  | "disable" => .disable names
  | "select" => .select names (polOfStr (getStr j "pol"))
  | _ => .prune

/-! ## record → canonical JSON (maps sorted by key by `Json.mkObj`) -/

def strs (l : List String) : Json := .arr (l.map Json.str).toArray

def depToJson (d : Dep) : Json := Json.mkObj [("required", .bool d.required), ("cond", .str d.cond)]

def svcToJson (s : Svc) : Json :=
  Json.mkObj [("name", .str s.name), ("image", .str s.image), ("profiles", strs s.profiles),
    ("deps", Json.mkObj (s.deps.map fun (k, d) => (k, depToJson d))),
    ("nets", strs s.nets),
    ("vols", .arr (s.vols.map fun (t, x) => Json.arr #[.str t, .str x]).toArray),
    ("secrets", strs s.secrets),
    ("build", match s.build with | some l => strs l | none => .null),
    ("configs", strs s.configs),
    ("env", Json.mkObj (s.env.map fun (k, v) => (k, match v with | some x => Json.str x | none => Json.null)))]

def strMapToJson (m : AL String) : Json := Json.mkObj (m.map fun (k, v) => (k, Json.str v))

def projToJson (p : Proj) : Json :=
  Json.mkObj [("services", Json.mkObj (p.services.map fun (k, s) => (k, svcToJson s))),
    ("disabled", Json.mkObj (p.disabled.map fun (k, s) => (k, svcToJson s))),
    ("profiles", strs p.profiles),
    ("networks", strMapToJson p.networks), ("volumes", strMapToJson p.volumes),
    ("secrets", strMapToJson p.secrets), ("configs", strMapToJson p.configs),
    ("environment", strMapToJson p.environment)]

def outToJson : Out → Json
  | .ok p => Json.mkObj [("ok", projToJson p)]
  | .err => Json.mkObj [("err", "noSuchService")]
  | .fuel => Json.mkObj [("panic", "model-fuel")]

/-! ## canonical form (equality of projects up to the order of map entries) -/

def sortAL {α} (m : AL α) : AL α := m.mergeSort (fun a b => decide (a.1 ≤ b.1))

def canonSvc (s : Svc) : Svc := { s with deps := sortAL s.deps, env := sortAL s.env, nets := s.nets.mergeSort (fun a b => decide (a ≤ b)) }

def canon (p : Proj) : Proj :=
  { services := sortAL (p.services.map fun (k, s) => (k, canonSvc s))
    disabled := sortAL (p.disabled.map fun (k, s) => (k, canonSvc s))
    profiles := p.profiles
    networks := sortAL p.networks, volumes := sortAL p.volumes
    secrets := sortAL p.secrets, configs := sortAL p.configs
    environment := sortAL p.environment }

def insertEverywhere {α} (x : α) : List α → List (List α)
  | [] => [[x]]
  | y :: ys => (x :: y :: ys) :: (insertEverywhere x ys).map (y :: ·)

def perms {α} : List α → List (List α)
  | [] => [[]]
  | x :: xs => (perms xs).flatMap (insertEverywhere x)

/-- diagnosis only: does the *pre-fix* loop, for some iteration order of the service map, produce `q`?
(bounded: ≤ 7 services).  Since the `fix:` commit the model is order independent (`select_perm`) and the
comparison is exact; a disagreement labelled `pre-fix-order` says the old behaviour is back. -/
def selectSomeOrder (p : Proj) (names : List String) (pol : Policy) (q : Proj) : Bool :=
  if p.services.length > 7 then false
  else (perms p.services).any fun l =>
    match withSelectedServicesPre { p with services := l } names pol with
    | .ok m => canon m == q
    | _ => false

/-! ## spec clauses decided on a real before/after pair -/

def clause (name : String) (b : Bool) : List String := if b then [] else [name]

def specViolations (p : Proj) (o : Op) (r : Option Proj) : List String :=
  (match r with
   | some q => clause "profiles-ok" (decide (ProfilesOK p → ProfilesOK q))
   | none => []) ++
  match o, r with
  | .profiles P, some q =>
    clause "conserved" (decide (Conserved p q)) ++ clause "profiles" (decide (ProfilesSpec p P q)) ++
    clause "resources" (decide (sameResources p q))
  | .enable ns, some q =>
    clause "conserved" (decide (Conserved p q)) ++ clause "enable" (decide (EnableSpec p ns q)) ++
    clause "resources" (decide (sameResources p q))
  | .disable ns, some q =>
    clause "conserved" (decide (Conserved p q)) ++ clause "disable" (decide (DisableSpec p ns q)) ++
    clause "disable-moved" (decide (DisableMovedSpec p ns q)) ++
    clause "resources" (decide (sameResources p q))
  | .select ns pol, r =>
    if ns.isEmpty then clause "select-all" (r == some p)
    else match selectWanted p ns pol, r with
      | none, none => []
      | some S, some q =>
        clause "closure-saturated" (decide (Closed p.services pol ns S)) ++
        clause "conserved" (decide (Conserved p q)) ++ clause "select" (decide (SelectSpec p S q)) ++
        clause "select-moved" (decide (SelectMovedSpec p S q)) ++
        clause "resources" (decide (sameResources p q))
      | none, some _ => ["select-accepts-missing"]
      | some _, none => ["select-rejects"]
  | .prune, some q => clause "prune" (decide (PruneSpec p q))
  | _, none => ["unexpected-error"]

/-- real outcome: `some (some q)` ok, `some none` error, `none` crash -/
def realOf (j : Json) : Option (Option Proj) :=
  match j.getObjVal? "ok" with
  | .ok q => some (some (canon (projOfJson q)))
  | _ => match j.getObjVal? "err" with
    | .ok _ => some none
    | _ => none

def stepJson (p : Proj) (o : Op) (real : Option (Option Proj)) : Json :=
  let m := applyOp p o
  let (agree, via) : Bool × String :=
    match m, real with
    | .ok mq, some (some q) =>
      if canon mq == q then (true, "exact")
      else match o with
        | .select ns pol => if selectSomeOrder p ns pol q then (false, "pre-fix-order") else (false, "none")
        | _ => (false, "none")
    | .err, some none => (true, "exact")
    | _, _ => (false, "none")
  let spec : List String := match real with
    | some r =>
      if !decide (Partition p) then ["skipped:not-a-partition"]
      else if !decide (Named p) then ["skipped:name-differs-from-key"]
      else specViolations p o r
    | none => []
  Json.mkObj [("agree", .bool agree), ("via", .str via), ("spec", strs spec),
    ("model", match m with | .ok mq => outToJson (.ok (canon mq)) | e => outToJson e)]

def histSteps : Proj → List Json → List Json
  | _, [] => []
  | p, s :: rest =>
    let o := opOfJson (getObj s "op")
    let real := realOf (getObj s "real")
    let next := match real with | some (some q) => q | _ => p
    stepJson p o real :: histSteps next rest

def hist : Handler := fun args =>
  let p := canon (projOfJson (getObj args "init"))
  Json.mkObj [("steps", .arr (histSteps p (arrOf args "steps")).toArray)]

/-- model only: run a history on the model (used by hand and by the Neg replay) -/
def modelRun : Handler := fun args =>
  let p := projOfJson (getObj args "init")
  let ops := (arrOf args "ops").map opOfJson
  projToJson (canon (run p ops))

/-! ## `c15each` (round 5): `ForEachService` itself and the accessors, on one real project -/

def getToStr : Get → String
  | .ok _ => "ok"
  | .disabled => "disabled"
  | .notFound => "notFound"

def getManyToJson : GetMany → Json
  | .ok m => Json.mkObj [("ok", Json.mkObj (m.map fun (k, s) => (k, Json.str s.image)))]
  | .disabled => Json.mkObj [("err", "disabled")]
  | .notFound => Json.mkObj [("err", "notFound")]

def sortStrs (l : List String) : List String := l.mergeSort (fun a b => decide (a ≤ b))

/-- args: `init`, `names`, `opts` (policy names in call order), `probe` (names for the accessors), `gets` (the argument list
of `GetServices`), `calls` / `err` (what the real `ForEachService` did).  Result: the model's accessors (compared by the
judge), whether the model's walk agrees with the real one (same outcome; same *set* of calls — the order is Go's map
order), and the clauses of `ForEachSpec` / `eachWanted` the real callback sequence violates. -/
def each : Handler := fun args =>
  let p := canon (projOfJson (getObj args "init"))
  let names := strsOf args "names"
  let opts := (strsOf args "opts").map polOfStr1
  let pol := policyOf opts
  let probe := strsOf args "probe"
  let gets := strsOf args "gets"
  let realCalls := strsOf args "calls"
  let realErr := getStr args "err"
  let m := forEachCalls p names opts
  let (mErr, mCalls) : String × List String := match m with
    | .ok _ c => ("", c)
    | .noSuchService => ("noSuchService", [])
    | .outOfFuel => ("model-fuel", [])
  let agree := mErr == realErr && (realErr != "" || sortStrs mCalls == sortStrs realCalls)
  let spec : List String :=
    if !decide (Partition p) then ["skipped:not-a-partition"]
    else if !decide (Named p) then ["skipped:name-differs-from-key"]
    else match eachWanted p names pol, realErr with
      | none, "" => ["each-accepts-missing"]
      | some _, "noSuchService" => ["each-rejects"]
      | some _, "" => clause "each-calls" (decide (ForEachSpec p names pol realCalls))
      | _, _ => []
  let branch : String := match m with
    | .ok _ c => if c.isEmpty then "ok-empty" else if pol == .deps then "ok-deps" else if pol == .dependents then "ok-dependents" else "ok-ignore"
    | .noSuchService => if (rootsOf p names).any (fun n => !has n p.services) then "err-root" else "err-required-dependency"
    | .outOfFuel => "fuel"
  Json.mkObj [("agree", .bool agree), ("spec", strs spec), ("branch", .str branch),
    ("modelErr", .str mErr), ("modelCalls", strs mCalls),
    ("serviceNames", strs (serviceNames p)), ("disabledNames", strs (disabledServiceNames p)),
    ("get", Json.mkObj (probe.map fun n => (n, Json.str (getToStr (getService p n))))),
    ("getServices", getManyToJson (getServices p gets)),
    ("getDisabled", Json.mkObj (probe.map fun n => (n, Json.bool (getDisabledService p n).isSome))),
    ("dependents", Json.mkObj (p.services.map fun (k, sv) => (k, strs (getDependentsForService p sv)))),
    ("getDependents", Json.mkObj (p.services.map fun (k, sv) => (k, strs (sortStrs (getDependents p sv))))),
    ("all", Json.mkObj ((allServices p).map fun (k, sv) => (k, Json.str sv.image))),
    ("profilesOf", strs (getProfiles p.services)), ("profilesOfAll", strs (getProfiles (allServices p)))]

/-! ## `c15load` (round 6): the tail of `loader.modelToProject` and `cli.WithDefaultProfiles` on real loads -/

/-- args: `base` (the same files loaded with `Profiles = ["*"]` and both checks skipped: the declared services), `path`
(`opts` = `loader.Options.Profiles`, `cli` = `cli.WithDefaultProfiles(given...)` with `COMPOSE_PROFILES` in the environment),
`profiles`, `env`, `skipConsistency`, `skipResolve`, `real` (`{"ok": observation}` or `{"err": class}`).
Result: the model's outcome, whether it agrees exactly, the branch the model took, and the clauses of `load_profiles_exact` /
`load_consistent` / `load_disabled_untouched` / `load_star_enables_all` that the *real* result violates. -/
def load : Handler := fun args =>
  let base := canon (projOfJson (getObj args "base"))
  let p0 : Proj := { base with profiles := [] }
  let given := strsOf args "profiles"
  let env := strMapOf args "env"
  let sc := getBool args "skipConsistency"
  let sr := getBool args "skipResolve"
  let P := if getStr args "path" == "cli" then defaultProfiles given env else given
  let m := loadApply p0 P sc sr
  let real := realOf (getObj args "real")
  let agree : Bool := match m, real with
    | .ok mq, some (some q) => canon mq == q
    | .undefinedDependency, some none => true
    | _, _ => false
  let spec : List String :=
    clause "load-star" (decide (base.disabled = [])) ++
    match real with
    | some (some q) =>
      clause "load-partition" (decide (Partition q ∧ SameSet (known q) (keys p0.services))) ++
      clause "load-profiles" (decide (q.profiles = P ∧ ∀ kv ∈ p0.services,
        ((kv.1 ∈ keys q.services ↔ Active kv.2 P) ∧ (kv.1 ∈ keys q.disabled ↔ ¬Active kv.2 P)))) ++
      clause "load-disabled-untouched" (decide (∀ kv ∈ q.disabled, lookup kv.1 p0.services = some kv.2)) ++
      clause "load-consistent" (sc || decide (∀ kv ∈ q.services, ∀ d ∈ kv.2.deps,
        d.1 ∈ keys q.services ∨ (d.1 ∈ keys q.disabled ∧ d.2.required = false))) ++
      clause "load-profiles-ok" (decide (ProfilesOK q))
    | some none => clause "load-rejects" (sc == false && (checkDeps (withProfiles p0 P)).isSome)
    | none => []
  let branch : String := match m with
    | .undefinedDependency => "err-undefined-dependency"
    | .ok q => (if q.disabled.isEmpty then "ok-all-enabled" else if q.services.isEmpty then "ok-none-enabled" else "ok-split") ++
        (if sr then "" else "+resolved")
  Json.mkObj [("agree", .bool agree), ("spec", strs spec), ("branch", .str branch), ("P", strs P),
    ("model", match m with | .ok mq => outToJson (.ok (canon mq)) | .undefinedDependency => Json.mkObj [("err", "undefinedDependency")])]

/-! ## `c15seq` (round 6): long histories — the final real project against `run`, and the invariant of `partition_inv` -/

/-- args: `init`, `ops`, `final` (the real project after the whole history; failed operations keep the receiver).
Result: whether `run init ops` is that project exactly, and the clauses of `history_conserved` the real pair violates. -/
def seq : Handler := fun args =>
  let p := canon (projOfJson (getObj args "init"))
  let ops := (arrOf args "ops").map opOfJson
  let q := canon (projOfJson (getObj args "final"))
  let m := canon (run p ops)
  let good := decide (Partition p) && decide (Named p)
  let spec : List String :=
    if !good then ["skipped:not-a-good-project"]
    else clause "history-partition" (decide (Partition q)) ++
      clause "history-declared" (decide (SameSet (known p) (known q))) ++
      clause "history-conserved" (decide (Conserved p q)) ++
      clause "history-profiles-ok" (decide (ProfilesOK p → ProfilesOK q))
  Json.mkObj [("agree", .bool (m == q)), ("spec", strs spec), ("model", projToJson m)]

def handlers : List (String × Handler) := [("c15hist", hist), ("c15run", modelRun), ("c15each", each), ("c15load", load), ("c15seq", seq)]

end CV.Ops.C15
