import ComposeVerif.Ops.Common
import ComposeVerif.Model.Merge
import ComposeVerif.Model.Unicity
import ComposeVerif.Model.UnicityLoop
import ComposeVerif.Model.Reset
/-! line-protocol ops for C04: `c04.pathNext`, `c04.mergeSeq`, `c04.unicity`, `c04.parseVolume`,
`c04.reset`, `c04.docs`.

On a *failing* input the real code reports whichever failure Go's map iteration reaches first, so the
handlers also return `alts`: every failure reachable under some iteration order (DESIGN §2.6).  That
collection code is tie-side only; no theorem is about it. -/
open Lean
namespace CV.Ops.C04
open CV CV.Val CV.Merge

def getVal (j : Json) (k : String) : Val :=
  match Val.ofJson (getObj j k) with
  | .ok v => v
  | .error _ => .null

def getVals (j : Json) (k : String) : List Val :=
  match getObj j k with
  | .arr a => a.toList.map fun x => match Val.ofJson x with | .ok v => v | .error _ => .null
  | _ => []

def failJson {α : Type} : Out α → Option Json
  | .ok _ => none
  | .err e => some (Json.mkObj [("err", e)])
  | .panic s => some (Json.mkObj [("panic", s)])

def outJson (o : Out Val) (alts : List Json) (hazard : Bool := false) : Json :=
  match o with
  | .ok v => Json.mkObj ([("ok", v.toJson)] ++ (if hazard then [("hazard", Json.bool true)] else []))
  | .err e => Json.mkObj [("err", e), ("alts", Json.arr alts.toArray)]
  | .panic s => Json.mkObj [("panic", s), ("alts", Json.arr alts.toArray)]

/-- every failure some iteration order of the override maps can reach first -/
partial def failsYaml (fuel : Nat) (e o : Val) (p : TPath) : List Json :=
  match fuel with
  | 0 => []
  | f + 1 =>
  let r := mergeYaml (f + 1) e o p
  match failJson r with
  | none => []
  | some own =>
    let via (a b : KVs) : List Json :=
      let l := b.flatMap fun (k, v) =>
        match lookup k a with
        | some x => if hasXPrefix k then [] else failsYaml f x v (next p k)
        | none => []
      if l.isEmpty then [own] else l
    match ruleAt p with
    | none => match e, o with
      | .map a, .map b => via a b
      | _, _ => [own]
    | some .build => match toBuild e, toBuild o with
      | .ok a, .ok b => via a b
      | _, _ => [own]
    | some .dependsOn => match intoMap dependsOnDefault e, intoMap dependsOnDefault o with
      | .ok a, .ok b => via a b
      | _, _ => [own]
    | some .networks => match intoMap .null e, intoMap .null o with
      | .ok a, .ok b => via a b
      | _, _ => [own]
    | some .logging => match e, o with
      | .map a, .map b => via a b
      | _, _ => [own]
    | some .ulimit => match o with
      | .map kvs => via kvs kvs
      | _ => [own]
    | _ => [own]

/-- is some failure of this merge inside `mergeIPAMConfig`?  (then which one is met first is left open) -/
def touchesIpam (over : Val) : Bool :=
  match over with
  | .map top => match lookup "networks" top with
    | some (.map nets) => nets.any fun (_, n) => match n with
      | .map nkv => match lookup "ipam" nkv with
        | some (.map ikv) => (lookup "config" ikv).isSome
        | _ => false
      | _ => false
    | _ => false
  | _ => false

partial def failsEnforce (v : Val) (p : TPath) : List Json :=
  match failJson (Unicity.enforce v p) with
  | none => []
  | some own =>
    match v with
    | .map kvs =>
      let l := kvs.flatMap fun (k, e) => failsEnforce e (next p k)
      if l.isEmpty then [own] else l
    | _ => [own]

/-- fold of `override.Merge` (or `ExtendService`) over the overrides, optionally followed each time by `EnforceUnicity` -/
def mergeSeq : Handler := fun args =>
  let base := getVal args "base"
  let overs := getVals args "overs"
  let uni := getBool args "unicity"
  let ext := getBool args "extend"
  let root : TPath := if ext then ["services", "x"] else TPath.root
  -- `seen`: an earlier override already went through `mergeIPAMConfig`, whose result list can hold the same
  -- map object twice; merging into it again is aliasing-sensitive (value semantics here) ⇒ hazard
  let rec go (acc : Val) (l : List Val) (hz seen : Bool) : Json :=
    match l with
    | [] => outJson (.ok acc) [] hz
    | o :: r =>
      let m := if ext then extendService acc o else merge acc o
      let hz' := hz
      let seen' := seen
      match m with
      | .ok v =>
        if uni then
          match Unicity.enforceTop v with
          | .ok u => go u r hz' seen'
          | f => Json.mergeObj (outJson f (failsEnforce v TPath.root)) (Json.mkObj [("loose", Json.bool hz')])
        else go v r hz' seen'
      | f =>
        let alts := failsYaml (fuelFor o) acc o root
        Json.mergeObj (outJson f alts) (Json.mkObj [("loose", Json.bool (touchesIpam o))])
  go base overs false false

def unicity : Handler := fun args =>
  let v := getVal args "v"
  outJson (Unicity.enforceTop v) (failsEnforce v TPath.root)

/-- `EnforceUnicity` with the `seq` / `keys` loop as it is written in the Go source (`Model/UnicityLoop.lean`); an index
out of range would be the outcome `panic override.enforceUnicity` -/
def unicityLoop : Handler := fun args =>
  let v := getVal args "v"
  outJson (Unicity.enforceTopL .outLen v) (failsEnforce v TPath.root)

def parseVolume : Handler := fun args =>
  match Unicity.parseVolumeTarget (getStr args "spec") with
  | some t => Json.mkObj [("ok", t)]
  | none => Json.mkObj [("err", "invalidVolume")]

/-- fold `Next` from the root over `keys`; report the parts and whether the path matches `pattern` -/
def pathNext : Handler := fun args =>
  let keys := getStrList args "keys"
  let p := keys.foldl next TPath.root
  let pat := splitDots (getStr args "pattern")
  Json.mkObj [("parts", Json.arr (p.map Json.str).toArray), ("matches", Json.bool (TPath.pmatch pat p))]

open CV.Reset in
partial def nodeOfJson (j : Json) : YNode :=
  let tag : Tag := match getStr j "t" with
    | "reset" => .reset
    | "override" => .override
    | _ => .none
  match j.getObjVal? "l" with
  | .ok (.arr a) => .seq tag (a.toList.map nodeOfJson)
  | .ok _ => .seq tag []
  | .error _ =>
    match j.getObjVal? "m" with
    | .ok (.arr a) => .map tag (a.toList.filterMap fun e => match e with
        | .arr #[.str k, v] => some (k, nodeOfJson v)
        | _ => none)
    | .ok _ => .map tag []
    | .error _ => .scalar tag (getVal j "v")

def pathStr (p : TPath) : String := ".".intercalate p

/-- `yaml.Unmarshal(text, &ResetProcessor{target: &raw})`: decoded tree + recorded paths -/
def reset : Handler := fun args =>
  let doc := nodeOfJson (getObj args "doc")
  let (v, ps) := CV.Reset.readDoc doc
  Json.mkObj [("value", v.toJson), ("paths", Json.arr (ps.map fun p => Json.str (pathStr p)).toArray)]

/-- the documents of a stream applied one after the other onto `base`: reset → merge → unicity -/
def docs : Handler := fun args =>
  let base := getVal args "base"
  let ds := match getObj args "docs" with
    | .arr a => a.toList.map nodeOfJson
    | _ => []
  let rec go (acc : Val) (l : List CV.Reset.YNode) (hz seen : Bool) : Json :=
    match l with
    | [] => outJson (.ok acc) [] hz
    | d :: r =>
      let (cfg, paths) := CV.Reset.readDoc d
      let b := CV.Reset.applyNull paths acc TPath.root
      let hz' := hz
      let seen' := seen
      match merge b cfg with
      | .ok m =>
        match Unicity.enforceTop m with
        | .ok u => go u r hz' seen'
        | f => Json.mergeObj (outJson f (failsEnforce m TPath.root)) (Json.mkObj [("loose", Json.bool hz')])
      | f => Json.mergeObj (outJson f (failsYaml (fuelFor cfg) b cfg TPath.root)) (Json.mkObj [("loose", Json.bool (touchesIpam cfg))])
  go base ds false false

/-- `ResetProcessor.Apply` with the given recorded paths (each a list of parts) on a tree -/
def apply : Handler := fun args =>
  let ps : List TPath := match getObj args "paths" with
    | .arr a => a.toList.map fun p => match p with
      | .arr parts => parts.toList.filterMap fun s => match s with | .str x => some x | _ => none
      | _ => []
    | _ => []
  Json.mkObj [("ok", (CV.Reset.applyNull ps (getVal args "tree") TPath.root).toJson)]

def handlers : List (String × Handler) := [
  ("c04.apply", apply),
  ("c04.mergeSeq", mergeSeq), ("c04.unicity", unicity), ("c04.parseVolume", parseVolume),
  ("c04.pathNext", pathNext), ("c04.reset", reset), ("c04.docs", docs), ("c04.unicityLoop", unicityLoop)]

end CV.Ops.C04
