import ComposeVerif.Ops.Common
/-! line-protocol ops for C04 (filled in by the property's owner) -/
namespace CV.Ops.C04

def handlers : List (String × Handler) := []

end CV.Ops.C04
