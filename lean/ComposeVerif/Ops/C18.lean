import ComposeVerif.Ops.Common
import ComposeVerif.Model.Dotenv
import ComposeVerif.Spec.Dotenv
import ComposeVerif.Model.DotenvTrace
import ComposeVerif.Spec.DotenvPrint
import ComposeVerif.Model.DotenvGlue
import ComposeVerif.Model.DotenvLine
/-! line-protocol ops for C18: `dotenv` (model of `dotenv.UnmarshalWithLookup`) -/
open Lean
namespace CV.Ops.C18
open CV.Dotenv

def mapJson (m : Map) : Json :=
  Json.mkObj (m.map fun (k, v) => (String.ofList k, str v))

def errClass : PErr → String
  | .unexpectedChar => "unexpectedChar"
  | .keySpace => "keySpace"
  | .unterminated => "unterminated"
  | .zeroLength => "zeroLength"
  | .tmpl .invalid => "tmplInvalid"
  | .tmpl (.required _ _) => "tmplRequired"

def siteName : Site → String
  | .fuel => "fuel"
  | .tmpl .fuel => "tmpl.fuel"
  | .tmpl .matchGroups => "template.matchGroups"
  | .stmtSlice => "dotenv.(*parser).getStatementStart"
  | .stmtIndex0 => "dotenv.(*parser).getStatementStart"
  | .stmtSlice2 => "dotenv.(*parser).getStatementStart"
  | .keySlice => "dotenv.(*parser).locateKeyName"
  | .keyRest => "dotenv.(*parser).locateKeyName"
  | .splitIndex0 => "dotenv.(*parser).locateKeyName"
  | .quoteIndex => "dotenv.(*parser).extractVarValue"
  | .quoteRest => "dotenv.(*parser).extractVarValue"
  | .untermSlice => "dotenv.(*parser).extractVarValue"

def outJson : POut → Json
  | .ok m => Json.mkObj [("ok", mapJson m)]
  | .err e m => Json.mkObj [("err", errClass e), ("map", mapJson m)]
  | .panic s => Json.mkObj [("panic", siteName s)]

def dotenv : Handler := fun args =>
  let src := (getStr args "src").toList
  let lookup := envOfList (getStrMap args "lookup")
  outJson (CV.Dotenv.parse src lookup)

def envFiles : Handler := fun args =>
  let files := (getStrList args "files").map String.toList
  let lookup := envOfList (getStrMap args "lookup")
  outJson (CV.Dotenv.fromFiles lookup files [])

def readFilesOp : Handler := fun args =>
  let files := (getStrList args "files").map String.toList
  let lookup := envOfList (getStrMap args "lookup")
  outJson (CV.Dotenv.readFiles lookup files [])

def handlers1 : List (String × Handler) := [("dotenv", dotenv), ("envFiles", envFiles), ("readFiles", readFilesOp)]

end CV.Ops.C18

namespace CV.Ops.C18
open CV.Dotenv

def chr1 (j : Json) (k : String) : Char :=
  match (getStr j k).toList with
  | c :: _ => c
  | [] => 'x'

def itemOfJson (j : Json) : Option QItem :=
  match j.getObjVal? "c" with
  | .ok (.str s) => (match s.toList with | [c] => some (.chr c) | _ => none)
  | _ =>
  match j.getObjVal? "e" with
  | .ok (.str s) => (match s.toList with | [c] => some (.esc c) | _ => none)
  | _ =>
  match j.getObjVal? "q" with
  | .ok _ => some .quote
  | _ => none

def itemsOfJson (j : Json) (k : String) : Option (List QItem) :=
  match j.getObjVal? k with
  | .ok (.arr a) => a.toList.mapM itemOfJson
  | _ => some []        -- Go encodes an empty slice as null / omits it

def valueOfJson (j : Json) : Option Value :=
  match getStr j "t" with
  | "unq" => some (.unq (getStr j "s").toList)
  | "sq" => (itemsOfJson j "items").map Value.sq
  | "dq" => (itemsOfJson j "items").map Value.dq
  | _ => none

def optStr (j : Json) (flag k : String) : Option Str :=
  if getBool j flag then some (getStr j k).toList else none

def lineOfJson (j : Json) : Option Line :=
  match getStr j "k" with
  | "blank" => some (.blank (getStr j "ws").toList)
  | "comment" => some (.comment (getStr j "ws").toList (getStr j "text").toList)
  | "bare" => some (.bare (getStr j "indent").toList (optStr j "hasExp" "exp") (getStr j "key").toList (getStr j "trail").toList)
  | "assign" =>
    match valueOfJson (getObj j "v") with
    | some v =>
      let sep := if getStr j "sep" == ":" then Sep.colon else Sep.eq
      some (.assign (getStr j "indent").toList (optStr j "hasExp" "exp") (getStr j "key").toList (getStr j "ws1").toList sep
        (getStr j "ws2").toList v (getStr j "trail").toList (optStr j "hasCmt" "cmt"))
    | none => none
  | _ => none

/-- spec oracle: render the lines, say whether they are well-formed, and what the grammar says they denote -/
def dotenvSpec : Handler := fun args =>
  let lookup := envOfList (getStrMap args "lookup")
  let ls : Option (List Json) := match args.getObjVal? "lines" with
    | .ok (.arr a) => some a.toList
    | .ok .null => some []
    | .error _ => some []
    | _ => none
  match ls with
  | some a =>
    match a.mapM lineOfJson with
    | some t => Json.mkObj [("wf", Json.bool (WF t)), ("rendered", str (render t)),
        ("renderedNoNL", str (renderNoFinalNL t)), ("eval", outJson (evalLines lookup t))]
    | none => Json.mkObj [("bad", "lines")]
  | none => Json.mkObj [("bad", "lines")]

/-- round 5: the traced model (`parseT`, proved equal to `parse` in its first component): outcome + branch mask -/
def dotenvT : Handler := fun args =>
  let src := (getStr args "src").toList
  let lookup := envOfList (getStrMap args "lookup")
  let r := CV.Dotenv.parseT src lookup
  Json.mkObj [("out", outJson r.1), ("br", Json.num (JsonNumber.fromNat r.2))]

/-- the names of the branch bits, so that the harness never has its own copy of the list -/
def dotenvTags : Handler := fun _ => Json.arr (CV.Dotenv.tagNames.map Json.str).toArray

/-- round 6: the canonical printer (`Spec/DotenvPrint.lean`): the text of an ordered list of definitions, whether the
    list is `Printable` (valid distinct names), and what the model parses the text to under the given lookup -/
def dotenvCanon : Handler := fun args =>
  let ks := (getStrList args "keys").map String.toList
  let vs := (getStrList args "vals").map String.toList
  let m : Map := ks.zip vs
  let lookup := envOfList (getStrMap args "lookup")
  let printable := m.all (fun kv => validKey kv.1) && decide ((m.map Prod.fst).Nodup)
  let t := printCanon m
  Json.mkObj [("text", str t), ("printable", Json.bool printable), ("parse", outJson (CV.Dotenv.parse t lookup))]

/-- round 6: `ParseWithLookup` / `ReadFile` / `ParseWithFormat` with the dotenv parser registered: one BOM stripped -/
def dotenvPWL : Handler := fun args =>
  let src := (getStr args "src").toList
  let lookup := envOfList (getStrMap args "lookup")
  match parseWithFormat (registerFormat [] "c18dotenv" parseWithLookup) "c18dotenv" src lookup with
  | some o => outJson o
  | none => Json.mkObj [("unsupported", Json.bool true)]

/-- round 6: the model with the line counter: outcome + the number the error message carries (-1 = none) -/
def dotenvL : Handler := fun args =>
  let src := (getStr args "src").toList
  let lookup := envOfList (getStrMap args "lookup")
  let r := CV.Dotenv.parseL src lookup
  Json.mkObj [("out", outJson r.1), ("line", match errorLine r with | some n => Json.num (JsonNumber.fromNat n) | none => Json.num (JsonNumber.fromInt (-1)))]

def handlers : List (String × Handler) := handlers1 ++ [("dotenvSpec", dotenvSpec), ("dotenvT", dotenvT), ("dotenvTags", dotenvTags),
  ("dotenvCanon", dotenvCanon), ("dotenvPWL", dotenvPWL), ("dotenvL", dotenvL)]
end CV.Ops.C18
