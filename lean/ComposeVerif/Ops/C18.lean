import ComposeVerif.Ops.Common
/-! line-protocol ops for C18 (filled in by the property's owner) -/
namespace CV.Ops.C18

def handlers : List (String × Handler) := []

end CV.Ops.C18
