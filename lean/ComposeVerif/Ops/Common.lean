import Lean.Data.Json
import ComposeVerif.Model.Str
/-! Shared JSON helpers for the line-protocol driver (core Lean only). -/
open Lean
namespace CV.Ops

abbrev Handler := Json → Json

def getStr (j : Json) (k : String) : String :=
  match j.getObjValAs? String k with
  | .ok s => s
  | .error _ => ""

def getStrList (j : Json) (k : String) : List String :=
  match j.getObjValAs? (Array String) k with
  | .ok a => a.toList
  | .error _ => []

def getNat (j : Json) (k : String) : Nat :=
  match j.getObjValAs? Nat k with
  | .ok n => n
  | .error _ => 0

def getBool (j : Json) (k : String) : Bool :=
  match j.getObjValAs? Bool k with
  | .ok n => n
  | .error _ => false

def getObj (j : Json) (k : String) : Json :=
  match j.getObjVal? k with
  | .ok v => v
  | .error _ => Json.null

/-- `{"A":"x",…}` as an association list (absent key = unset) -/
def getStrMap (j : Json) (k : String) : List (String × String) :=
  match j.getObjVal? k with
  | .ok (.obj o) => o.toList.filterMap fun (k, v) => match v with | .str s => some (k, s) | _ => none
  | _ => []

def envOfList (l : List (String × String)) : CV.Str → Option CV.Str := fun k =>
  match l.find? (fun p => p.1.toList == k) with
  | some p => some p.2.toList
  | none => none

def str (s : CV.Str) : Json := Json.str (String.ofList s)

end CV.Ops
