import ComposeVerif.Ops.Common
/-! line-protocol ops for C06 (filled in by the property's owner) -/
namespace CV.Ops.C06

def handlers : List (String × Handler) := []

end CV.Ops.C06
