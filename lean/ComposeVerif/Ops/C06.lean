import ComposeVerif.Ops.Common
import ComposeVerif.Model.Include
import ComposeVerif.Model.IncludePipe
import ComposeVerif.Model.IncludeResolve
/-! line-protocol ops for C06: `applyInclude`, `importResources`, `includeConfig`, `fpath` -/
open Lean
namespace CV.Ops.C06
open CV CV.Include

def outJson {α} (f : α → Json) : Out α → Json
  | .ok a => Json.mkObj [("ok", f a)]
  | .err e => Json.mkObj [("err", e)]
  | .panic s =>
    -- the harness names a panic by the innermost compose-go function on the stack
    Json.mkObj [("panic", if s.startsWith "importResource" then "loader.importResource" else s)]

def kvsJson (m : Val.KVs) : Json := Val.toJson (.map m)

def valOf (j : Json) : Val := match Val.ofJson j with | .ok v => v | .error _ => .null

def objEntries (j : Json) (k : String) : List (String × Json) :=
  match j.getObjVal? k with
  | .ok (.obj o) => o.toList
  | _ => []

def arrOf (j : Json) : List Json := match j with | .arr a => a.toList | _ => []

partial def ancestors (p : String) : List String :=
  let d := dir p
  if d = p ∨ d = "." then [p] else p :: ancestors d

def fsOf (args : Json) : FSData :=
  let docs := (objEntries args "docs").map fun (p, v) => (p, (arrOf v).map valOf)
  let envs := (objEntries args "envs").map fun (p, v) =>
    (p, (arrOf v).filterMap fun e => match e with
      | .arr #[.str k, .str t] => some (k, t)
      | _ => none)
  let extra := (getStrList args "dirs").map fun d => "/ROOT/" ++ d
  let files := docs.map (·.1) ++ envs.map (·.1)
  let dirs := (files.flatMap fun f => ancestors (dir f)) ++ (extra.flatMap ancestors) ++ ["/ROOT", "/CWD", "/"]
  let home := match args.getObjVal? "home" with
    | .ok (.str h) => some h
    | _ => none
  { home := home, cwd := "/CWD", dirs := dirs.eraseDups, docs := docs, envs := envs }

def envOf (args : Json) (k : String) : Env := getStrMap args k

/-- `loader.ApplyInclude` on a directory tree -/
def applyIncludeOp : Handler := fun args =>
  let D := fsOf args
  let fuel := D.docs.length + 2
  match valOf (getObj args "model") with
  | .map model =>
    outJson kvsJson (applyInclude (world D fuel) (getStr args "wd") (getStr args "lwd") (envOf args "env")
      (getStrList args "chain") (sortKVs' model))
  | _ => Json.mkObj [("bad", "model")]

/-- `importResources(source, target)` -/
def importResourcesOp : Handler := fun args =>
  match valOf (getObj args "source"), valOf (getObj args "target") with
  | .map s, .map t => outJson kvsJson (importResources deepEqual s t)
  | _, _ => Json.mkObj [("bad", "args")]

def cfgJson (c : IncCfg) : Json :=
  Json.mkObj [("path", Json.arr (c.path.map Json.str).toArray), ("project_directory", c.projectDirectory),
    ("env_file", Json.arr (c.envFile.map Json.str).toArray)]

/-- `loadIncludeConfig(source)` -/
def includeConfigOp : Handler := fun args =>
  let src := match args.getObjVal? "source" with
    | .ok j => if getBool args "absent" then none else some (valOf j)
    | .error _ => none
  outJson (fun l => Json.arr (l.map cfgJson).toArray) (loadIncludeConfig src)

/-- `filepath.Clean/Join/Dir/Rel/IsAbs` -/
def fpathOp : Handler := fun args =>
  let a := getStr args "a"
  let b := getStr args "b"
  Json.mkObj [("clean", clean a), ("join", join a b), ("dir", dir a), ("abs", Json.bool (isAbs a)),
    ("rel", match rel a b with | some r => Json.str r | none => Json.null)]

/-- `dotenv.GetEnvFromFile(cur, names)` on a directory tree: the model loop in the driver world's file system -/
def envFromFileOp : Handler := fun args =>
  let D := fsOf args
  outJson (fun (e : Env) => Json.mkObj (e.map fun kv => (kv.1, Json.str kv.2)))
    (getEnvFromFile (envWorldOf D) (envOf args "cur") (getStrList args "names"))

def optFlagNames : List String :=
  ["SkipValidation", "SkipInterpolation", "SkipNormalization", "ResolvePaths", "ConvertWindowsPaths",
   "SkipConsistencyCheck", "SkipExtends", "SkipInclude", "SkipResolveEnvironment", "SkipDefaultValues",
   "discardEnvFiles", "projectNameImperativelySet"]

/-- `Options.clone()`: build the option set, clone it, read every field back -/
def cloneOptionsOp : Handler := fun args =>
  let fl := getObj args "flags"
  let b := fun k => getBool fl k
  let o : Opts :=
    { skipValidation := b "SkipValidation", skipInterpolation := b "SkipInterpolation",
      skipNormalization := b "SkipNormalization", resolvePaths := b "ResolvePaths",
      convertWindowsPaths := b "ConvertWindowsPaths", skipConsistencyCheck := b "SkipConsistencyCheck",
      skipExtends := b "SkipExtends", skipInclude := b "SkipInclude",
      skipResolveEnvironment := b "SkipResolveEnvironment", skipDefaultValues := b "SkipDefaultValues",
      discardEnvFiles := b "discardEnvFiles", projectNameImperativelySet := b "projectNameImperativelySet",
      projectName := getStr args "project_name", profiles := getStrList args "profiles",
      interpolate := 1, resourceLoaders := 2, knownExtensions := 3, listeners := 4 }
  let c := o.clone
  Json.mkObj [
    ("flags", Json.mkObj (optFlagNames.filterMap fun n => (c.flag n).map fun v => (n, Json.bool v))),
    ("project_name", c.projectName),
    ("profiles", Json.arr (c.profiles.map Json.str).toArray),
    ("refs", Json.mkObj [("Interpolate", Json.bool (c.interpolate == o.interpolate)),
      ("KnownExtensions", Json.bool (c.knownExtensions == o.knownExtensions)),
      ("Listeners", Json.bool (c.listeners == o.listeners)),
      ("ResourceLoaders", Json.bool (c.resourceLoaders == o.resourceLoaders))])]

/-- one resolver of loader/environment.go (`which` = services | secrets | configs), `ResolveEnvironment` (all), or the
last statement of `loadYamlModel` for an included model (included) -/
def resolveEnvOp : Handler := fun args =>
  let env := envOf args "env"
  match valOf (getObj args "model") with
  | .map model =>
    let r := match getStr args "which" with
      | "services" => resolveServicesEnvironment env model
      | "secrets" => resolveSecretsEnvironment env model
      | "configs" => resolveConfigsEnvironment env model
      | "included" => resolveModelEnv true env model
      | _ => resolveModelEnv false env model
    Json.mkObj [("ok", kvsJson r)]
  | _ => Json.mkObj [("bad", "model")]

def handlers : List (String × Handler) :=
  [("applyInclude", applyIncludeOp), ("importResources", importResourcesOp),
   ("includeConfig", includeConfigOp), ("fpath", fpathOp),
   ("envFromFile", envFromFileOp), ("cloneOptions", cloneOptionsOp), ("resolveEnv", resolveEnvOp)]

end CV.Ops.C06
