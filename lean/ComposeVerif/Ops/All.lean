import ComposeVerif.Ops.C07
namespace CV.Ops
def allHandlers : List (String × Handler) :=
  C07.handlers ++ C07.handlers2
end CV.Ops
