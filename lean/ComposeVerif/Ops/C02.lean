import ComposeVerif.Ops.Common
import ComposeVerif.Model.Val
import ComposeVerif.Model.Path
import ComposeVerif.Model.MapOrder
import ComposeVerif.Model.Validate
import ComposeVerif.Model.C02ExtendsX
import ComposeVerif.Model.C02History
import ComposeVerif.Gen.Tables
/-! line-protocol ops for C02 (determinism): path matching, the regenerated rule tables, and the
map→sequence decoders of `Model/MapOrder.lean`. -/
open Lean
namespace CV.Ops.C02
open CV CV.Det

def parts (s : String) : List String := s.splitOn "."

def tableByName : String → Option (List (List String × String))
  | "mergeSpecials" => some CV.Gen.mergeSpecials
  | "unique" => some CV.Gen.unique
  | "transformers" => some CV.Gen.transformers
  | "defaultValues" => some CV.Gen.defaultValues
  | "resolvers" => some CV.Gen.resolvers
  | "validationChecks" => some CV.Gen.validationChecks
  | "castTable" => some CV.Gen.castTable
  | _ => none

def sortS (l : List String) : List String := (l.toArray.qsort (· < ·)).toList

def strs (l : List String) : Json := Json.arr (l.map Json.str).toArray

/-- `p.Matches(pattern)` -/
def pmatchOp : Handler := fun args =>
  Json.mkObj [("m", Json.bool (TPath.pmatch (parts (getStr args "pattern")) (parts (getStr args "path"))))]

/-- the regenerated table as sorted rows `[pattern, handler]` -/
def tableOp : Handler := fun args =>
  match tableByName (getStr args "table") with
  | none => Json.mkObj [("bad", "table")]
  | some t =>
    let rows := (t.map fun r => (".".intercalate r.1, r.2)).toArray.qsort (fun a b => a.1 < b.1)
    Json.mkObj [("rows", Json.arr (rows.map fun r => Json.arr #[Json.str r.1, Json.str r.2]))]

/-- every row of the table whose pattern matches the path (sorted); `first` = what first-match returns in list order -/
def ruleAtOp : Handler := fun args =>
  match tableByName (getStr args "table") with
  | none => Json.mkObj [("bad", "table")]
  | some t =>
    let p := parts (getStr args "path")
    let ms := (t.filter fun r => TPath.pmatch r.1 p).map fun r => ".".intercalate r.1
    Json.mkObj [("matches", strs (sortS ms))]

def withVal (args : Json) (k : String) (f : Val → Json) : Json :=
  match Val.ofJson (getObj args k) with
  | .ok v => f v
  | .error e => Json.mkObj [("bad", e)]

def intoSeqOp : Handler := fun args =>
  withVal args "v" fun v =>
    match intoSeq v with
    | none => Json.mkObj [("nil", true)]
    | some l => Json.mkObj [("seq", Val.toJson (.seq l))]

def decErr (e : DecErr) : Json := Json.mkObj [("err", e.toString)]

def sshOp : Handler := fun args =>
  withVal args "v" fun v =>
    match sshDecode v with
    | .error e => decErr e
    | .ok l => Json.mkObj [("ok", Json.arr (l.map fun kv => Json.arr #[Json.str kv.1, Json.str kv.2]).toArray)]

def hostsOp : Handler := fun args =>
  withVal args "v" fun v =>
    match hostsDecode v with
    | .error e => decErr e
    | .ok m => Json.mkObj [("ok", strs (hostsRender m))]

def mappingOp : Handler := fun args =>
  withVal args "v" fun v =>
    if getStr args "kind" = "mwe" then
      match mweDecode v with
      | .error e => decErr e
      | .ok m =>
        Json.mkObj [("ok", strs (sortStrs (m.map fun kv => match kv.2 with | none => kv.1 | some x => kv.1 ++ "=" ++ x))),
                    ("mapping", strs (mappingValues (mweToMapping m)))]
    else
      match mappingDecode v with
      | .error e => decErr e
      | .ok m => Json.mkObj [("ok", strs (mappingValues m)),
                             ("mwe", strs (sortStrs ((toMWE m).map fun kv => match kv.2 with | none => kv.1 | some x => kv.1 ++ "=" ++ x)))]

/-- the two sequence mergers at their real paths: `services.*.labels` (mergeToSequence), `services.*.extra_hosts` -/
def mergeSeqOp : Handler := fun args =>
  withVal args "a" fun a => withVal args "b" fun b => withVal args "c" fun c => withVal args "d" fun d =>
    Json.mkObj [("labels", Val.toJson (mergeToSequence a b)), ("extra_hosts", Val.toJson (mergeExtraHosts c d))]

def mergeOp : Handler := fun args =>
  withVal args "base" fun b =>
    withVal args "over" fun o =>
      match b, o with
      | .map _, .map _ =>
        match mergeGeneric b o with
        | .ok v => Json.mkObj [("ok", Val.toJson v)]
        | .error _ => Json.mkObj [("err", "cannotOverride")]
      | _, _ => Json.mkObj [("bad", "top-level")]

def svcOfJson (j : Json) : Svc :=
  let deps : AL Bool := match j.getObjVal? "deps" with
    | .ok (.arr a) => a.toList.filterMap fun e => match e with
      | .arr #[.str d, .bool r] => some (d, r)
      | _ => none
    | _ => []
  { name := getStr j "name", deps := deps }

def svcJson (s : Svc) : Json :=
  let deps := s.deps.toArray.qsort (fun a b => a.1 < b.1)
  Json.arr #[Json.str s.name, Json.arr (deps.map fun d => Json.arr #[Json.str d.1, Json.bool d.2])]

def graphOut (j : Json) : Json :=
  let svcs : List Svc := match j.getObjVal? "services" with
    | .ok (.arr a) => a.toList.map svcOfJson
    | _ => []
  match newGraph svcs (getStrList j "disabled") with
  | .error e => Json.mkObj [("err", e.toString)]
  | .ok ss => Json.mkObj [("ok", Json.arr ((ss.toArray.qsort (fun a b => a.name < b.name)).map svcJson))]

/-- one outcome per variant (= one iteration order of the services map and of every depends_on map) -/
def newGraphOp : Handler := fun args =>
  match args.getObjVal? "variants" with
  | .ok (.arr a) => Json.mkObj [("outs", Json.arr (a.map graphOut))]
  | _ => Json.mkObj [("bad", "variants")]

/-- `ApplyExtends` on same-file references.  args: `services` = `[[name, extendsOrNull, bodyVal]…]` (sorted by name).
The merge is `mergeGenericKVs` (bodies use only attributes without special merge rules). -/
def extendsOp : Handler := fun args =>
  match args.getObjVal? "services" with
  | .ok (.arr a) =>
    let svcs : Option (AL (XSvc Val.KVs)) := a.toList.mapM fun e => match e with
      | .arr #[.str n, ext, body] =>
        match Val.ofJson body with
        | .ok (.map kvs) => some (n, ((match ext with | .str r => some r | _ => none), kvs))
        | _ => none
      | _ => none
    match svcs with
    | none => Json.mkObj [("bad", "services")]
    | some m =>
      let mrg : Val.KVs → Val.KVs → Val.KVs := fun b o => match mergeGenericKVs b o with | .ok r => r | .error _ => []
      match applyAll mrg (m.length + 1) (akeys m) m with
      | none => Json.mkObj [("err", true)]
      | some mf => Json.mkObj [("ok", Val.toJson (.map (mf.map fun kv => (kv.1, Val.map kv.2.2))))]
  | _ => Json.mkObj [("bad", "services")]

/-- `ApplyExtends` with references into other files, for each listed visit order.
args: `main` = `[[name, null | ref | [file, ref], bodyVal]…]`, `files` = `{file: [[name, extendsOrNull, bodyVal]…]}`,
`orders` = `[[name…]…]`.  One outcome per order. -/
def extendsXOp : Handler := fun args =>
  let body (j : Json) : Option Val.KVs := match Val.ofJson j with | .ok (.map kvs) => some kvs | _ => none
  let plain (a : Array Json) : Option (AL (XSvc Val.KVs)) := a.toList.mapM fun e => match e with
    | .arr #[.str n, ext, b] => (body b).map fun kvs => (n, ((match ext with | .str r => some r | _ => none), kvs))
    | _ => none
  let files : Option (AL (AL (XSvc Val.KVs))) := match args.getObjVal? "files" with
    | .ok (.obj kv) => kv.toList.mapM fun (f, v) => match v with
      | .arr a => (plain a).map fun m => (f, m)
      | _ => none
    | _ => none
  let main : Option (AL (ExtX.XS Val.KVs)) := match args.getObjVal? "main" with
    | .ok (.arr a) => a.toList.mapM fun e => match e with
      | .arr #[.str n, ext, b] => (body b).map fun kvs =>
          (n, ((match ext with
            | .str r => ExtX.Ref.same r
            | .arr #[.str f, .str r] => ExtX.Ref.file f r
            | _ => ExtX.Ref.none), kvs))
      | _ => none
    | _ => none
  match files, main, args.getObjVal? "orders" with
  | some fs, some m, .ok (.arr os) =>
    let mrg : Val.KVs → Val.KVs → Val.KVs := fun b o => match mergeGenericKVs b o with | .ok r => r | .error _ => []
    let outs := os.map fun o =>
      let order : List String := match o with | .arr a => a.toList.filterMap (fun x => match x with | .str s => some s | _ => none) | _ => []
      match ExtX.applyAllX mrg fs (m.length + 1) order m with
      | none => Json.mkObj [("err", true)]
      | some mf => Json.mkObj [("ok", Val.toJson (.map (mf.map fun kv => (kv.1, Val.map kv.2.2))))]
    Json.mkObj [("outs", Json.arr outs)]
  | _, _, _ => Json.mkObj [("bad", "args")]

/-- `validation.Validate` on a whole tree: outcome class (`Props/C02Stages.validate_stage_perm` is about this function) -/
def validateOp : Handler := fun args =>
  if getBool args "skip" then Json.mkObj [("skip", true)] else
  withVal args "t" fun t =>
    match CV.Validate.validate t with
    | .ok => Json.mkObj [("class", "ok")]
    | _ => Json.mkObj [("class", "fail")]

/-- `Model/C02History.lean`: a sequence of loads of one service's `depends_on` (short list + long-form refinements of a
later file) in one process; the answer is what the LAST load holds, by the code as it is (`load false`).
args: `steps` = `[{"short": [name…], "over": [{"n": name, "kv": [[k, v]…]}…]}…]` -/
def historyOp : Handler := fun args =>
  let step (j : Json) : CV.Det.History.In :=
    let over : List (String × CV.Det.History.KS) := match j.getObjVal? "over" with
      | .ok (.arr a) => a.toList.map fun o =>
          (getStr o "n", match o.getObjVal? "kv" with
            | .ok (.arr kv) => kv.toList.filterMap fun e => match e with
              | .arr #[.str k, .str v] => some (k, v)
              | _ => none
            | _ => [])
      | _ => []
    ⟨getStrList j "short", over⟩
  match args.getObjVal? "steps" with
  | .ok (.arr a) =>
    match a.toList.map step |>.reverse with
    | [] => Json.mkObj [("bad", "no steps")]
    | last :: revHist =>
      let r := CV.Det.History.runSeq (CV.Det.History.load false) CV.Det.History.dfltLit revHist.reverse last
      Json.mkObj [("ok", Json.mkObj (r.map fun e => (e.1, Json.mkObj (e.2.map fun kv => (kv.1, Json.str kv.2)))))]
  | _ => Json.mkObj [("bad", "steps")]

def handlers : List (String × Handler) := [
  ("c02.history", historyOp),
  ("c02.validate", validateOp), ("c02.extendsX", extendsXOp),
  ("c02.pmatch", pmatchOp), ("c02.table", tableOp), ("c02.ruleAt", ruleAtOp), ("c02.intoSeq", intoSeqOp),
  ("c02.ssh", sshOp), ("c02.hosts", hostsOp), ("c02.mapping", mappingOp), ("c02.merge", mergeOp), ("c02.mergeSeq", mergeSeqOp),
  ("c02.newGraph", newGraphOp), ("c02.extends", extendsOp)]

end CV.Ops.C02
