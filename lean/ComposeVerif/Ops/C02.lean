import ComposeVerif.Ops.Common
/-! line-protocol ops for C02 (filled in by the property's owner) -/
namespace CV.Ops.C02

def handlers : List (String × Handler) := []

end CV.Ops.C02
