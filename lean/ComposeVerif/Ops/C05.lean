import ComposeVerif.Ops.Common
import ComposeVerif.Model.Extends
import ComposeVerif.Model.ExtendsMerge
import ComposeVerif.Model.ExtendsFS
import ComposeVerif.Model.ExtendsClone
import ComposeVerif.Model.ExtendsLoad
import ComposeVerif.Ops.Pipeline
import ComposeVerif.Spec.Extends
import ComposeVerif.Gen.Tables
/-! line-protocol ops for C05: `c05.apply` (ApplyExtends over a file-system table), `c05.extend` (plain ExtendService) -/
open Lean
namespace CV.Ops.C05
open CV CV.Val CV.Extends

def outJson {α : Type} (f : α → Json) : Out α → Json
  | .ok a => Json.mkObj [("ok", f a)]
  | .err c => Json.mkObj [("err", c)]
  | .panic s => Json.mkObj [("panic", s)]

def fileResOfJson (j : Json) : FileRes :=
  match j.getObjVal? "err" with
  | .ok (.str c) => .err c
  | _ =>
    match j.getObjVal? "panic" with
    | .ok (.str c) => .panic c
    | _ =>
    match j.getObjVal? "ok" with
    | .ok v =>
      match Val.ofJson v with
      | .ok (.map doc) =>
        (match j.getObjVal? "rpanic" with
        | .ok (.str site) => .okResolvePanic doc site
        | _ => .ok doc (getBool j "rerr"))
      | _ => .err "bad-doc"
    | _ => .err "bad-entry"

def fsOfJson (j : Json) : FS :=
  match j with
  | .arr a => a.toList.filterMap fun e => match e with
    | .arr #[.str k, r] => some (k, fileResOfJson r)
    | _ => none
  | _ => []

def perms : List String → List (List String)
  | [] => [[]]
  | x :: xs => (perms xs).flatMap fun p => (List.range (p.length + 1)).map fun i => p.take i ++ [x] ++ p.drop i

/-- one file of the virtual file system: `{"reldir":…, "doc":T(map)}` or `{"err":class}` -/
def vfileOfJson (j : Json) : VFile :=
  match j.getObjVal? "err" with
  | .ok (.str c) => .bad c
  | _ =>
    match Val.ofJson (getObj j "doc") with
    | .ok (.map doc) => .doc (getStr j "reldir") doc
    | _ => .bad "loadErr"

def vfsOfJson (j : Json) : VFS :=
  match j with
  | .arr a => a.toList.filterMap fun e => match e with
    | .arr #[.str k, r] => some (k, vfileOfJson r)
    | _ => none
  | _ => []

/-- `"merge":"plain"` selects the rule-free merge of `Model/Extends.lean`; default = the C04 merge model.
With `"vfs"` the file-system parameter is *computed by the model* from raw documents (`Model/ExtendsLoad.lean`: the nested
load of `getExtendsBaseFromFile` = the composed per-document pipeline under the cloned options + `Paths.resolve` at the
file's directory); the configuration fields are those of `pipeline.load`. -/
def mkEnv (args : Json) : Env :=
  { mainFile := getStr args "main",
    fs := match getObj args "vfs" with
      | .arr _ => loadedFS (CV.Ops.Pipeline.cfgOf args) (vfsOfJson (getObj args "vfs"))
      | _ => fsOfJson (getObj args "fs"),
    extend := if getStr args "merge" == "plain" then plainExtend CV.Gen.mergeSpecials else mergeExtend }

/-- all outcomes of `ApplyExtends` over the visit orders of the services map (Go's order is random):
    `{"outs":[…distinct…]}`; with more than 5 services only the list order and its reverse are tried. -/
def apply : Handler := fun args =>
  let E := mkEnv args
  match Val.ofJson (getObj args "dict") with
  | .ok (.map dict) =>
    let orders : List (List String) :=
      match getObj args "order" with
      | .arr _ => [getStrList args "order"]
      | _ =>
        match lookup "services" dict with
        | some (.map S) => if (keys S).length ≤ 5 then perms (keys S) else [keys S, (keys S).reverse]
        | _ => [[]]
    let outs0 := orders.map fun o => (outJson (fun d => Val.toJson (.map d)) (applyExtendsOrd E o dict)).compress
    -- the failure a visit order reports is the failure of the first failing service it visits; memoisation
    -- does not change whether or how a service fails, so every failing service contributes its own failure
    let perSvc : List String :=
      match lookup "services" dict with
      | some (.map S) => (keys S).filterMap fun n =>
          match applySvc E (fuelFor E S) E.mainFile n S [] with
          | .ok _ => none
          | .err c => some (outJson (fun (_ : Unit) => Json.null) (.err c)).compress
          | .panic st => some (outJson (fun (_ : Unit) => Json.null) (.panic st)).compress
      | _ => []
    let outs := outs0 ++ perSvc
    let distinct := outs.foldl (fun acc s => if acc.contains s then acc else acc ++ [s]) ([] : List String)
    -- the flatten specification of every service (no tracker, no memoisation, no order): the spec oracle
    let flat : List Json :=
      match lookup "services" dict with
      | some (.map S) => (keys S).map fun n =>
          Json.arr #[.str n, outJson Val.toJson (flattenF E ((keyUniverse E S).length + 2) S n)]
      | _ => []
    -- the link walk of every service (`walkChain`: leaf / stuck / long; `long` ⇔ `Cyclic`, `walkChain_long_iff_cyclic`)
    let walk : List Json :=
      match lookup "services" dict with
      | some (.map S) => (keys S).map fun n =>
          Json.arr #[.str n, .str (match walkChain E ((keyUniverse E S).length + 2) S n with
            | .leaf => "leaf" | .stuck => "stuck" | .long => "long")]
      | _ => []
    -- the class each service's chain gets stuck with, if it does (`stuckClass`; `stuck_service_error_class`)
    let stuck : List Json :=
      match lookup "services" dict with
      | some (.map S) => (keys S).map fun n =>
          Json.arr #[.str n, match stuckClass E ((keyUniverse E S).length + 2) S n with
            | some c => .str c | none => Json.null]
      | _ => []
    Json.mkObj [("outs", Json.arr (distinct.filterMap fun s => (Json.parse s).toOption).toArray),
                ("flat", Json.arr flat.toArray), ("walk", Json.arr walk.toArray), ("stuck", Json.arr stuck.toArray)]
  | _ => Json.mkObj [("bad", "dict")]

/-- `override.ExtendService`: through the C04 merge model (`full`) and through the rule-free merge (`plain`) -/
def extend : Handler := fun args =>
  match Val.ofJson (getObj args "base"), Val.ofJson (getObj args "over") with
  | .ok (.map b), .ok (.map o) =>
    Json.mkObj [("full", outJson (fun d => Val.toJson (.map d)) (mergeExtend b o)),
                ("plain", outJson (fun d => Val.toJson (.map d)) (plainExtend CV.Gen.mergeSpecials b o))]
  | _, _ => Json.mkObj [("bad", "args")]

/-- `cycleTracker.Add` fed with a key sequence: index of the first rejected key, or -1 -/
def tracker : Handler := fun args =>
  let keys : List Key := match getObj args "keys" with
    | .arr a => a.toList.filterMap fun e => match e with
      | .arr #[.str f, .str n] => some (f, n)
      | _ => none
    | _ => []
  let rec go (tr : List Key) (i : Nat) : List Key → Int
    | [] => -1
    | k :: ks => match trackerAdd tr k with
      | none => i
      | some tr' => go tr' (i + 1) ks
  Json.mkObj [("rejected", Json.num (JsonNumber.fromInt (go [] 0 keys)))]

/-- `getExtendsBaseFromFile` on a canonical document stored in directory `reldir`: the model's file-system entry
(`anchoredFile`) and what `baseFromFile` makes of it for the reference `ref` -/
def base : Handler := fun args =>
  match Val.ofJson (getObj args "doc") with
  | .ok (.map doc) =>
    let fs : FS := [("f", anchoredFile (getStr args "reldir") doc)]
    outJson (fun d => Val.toJson (.map d)) (baseFromFile fs "f" (getStr args "ref"))
  | _ => Json.mkObj [("bad", "doc")]

/-- `getExtendsBaseFromFile` on a **raw** document stored in directory `reldir`: the nested load inside the model
(`loadFile`: `Pipeline.processDoc` under `nestedOpts` on the empty model, then `Paths.resolve` at `reldir`) and what
`baseFromFile` makes of it for the reference `ref`; `stage` = the outcome class of the nested load alone -/
def loadOp : Handler := fun args =>
  match Val.ofJson (getObj args "doc") with
  | .ok (.map doc) =>
    let c := CV.Ops.Pipeline.cfgOf args
    let fs : FS := [("f", loadFile c (getStr args "reldir") doc)]
    match outJson (fun d => Val.toJson (.map d)) (baseFromFile fs "f" (getStr args "ref")) with
    | .obj kvs => Json.obj (kvs.insert "stage" (.str (nestedLoad c doc).stage))
    | j => j
  | _ => Json.mkObj [("bad", "doc")]

/-- `deepClone` on the heap model: lay the value out at addresses `0 … n-1`, clone with the allocator at `n`;
`equal` = the clone has the argument's value, `shared` = containers of the clone that are containers of the argument,
`fresh` = containers allocated -/
def cloneOp : Handler := fun args =>
  match Val.ofJson (getObj args "v") with
  | .ok v =>
    let h := Clone.alloc 0 v
    let c := Clone.clone h.2 h.1
    let shared := (Clone.addrs c.1).filter fun a => (Clone.addrs h.1).contains a
    Json.mkObj [("equal", Json.bool (Clone.erase c.1 == v)), ("shared", Json.num shared.length),
                ("fresh", Json.num (c.2 - h.2))]
  | _ => Json.mkObj [("bad", "v")]

def handlers : List (String × Handler) :=
  [("c05.apply", apply), ("c05.extend", extend), ("c05.tracker", tracker), ("c05.base", base), ("c05.clone", cloneOp),
   ("c05.load", loadOp)]

end CV.Ops.C05
