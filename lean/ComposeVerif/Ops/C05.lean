import ComposeVerif.Ops.Common
/-! line-protocol ops for C05 (filled in by the property's owner) -/
namespace CV.Ops.C05

def handlers : List (String × Handler) := []

end CV.Ops.C05
