import ComposeVerif.Model.Consistency
/-!
# The implicit dependencies `loader.Normalize` adds (loader/normalize.go:66-136)

`links`, the `service:` form of `network_mode` / `ipc` / `pid` / `uts` / `cgroup`, and `volumes_from` each add a
*required* `depends_on` entry unless the service already lists that name.  This is how every "`service:` namespace
reference" of the property reaches the `depends_on` rule of `checkConsistency`.
-/
namespace CV.Consistency

/-- the attributes of one service that `Normalize` reads to complete `depends_on` -/
structure RawRefs where
  /-- explicit `depends_on`: name ↦ required -/
  dependsOn : List (String × Bool) := []
  links : List String := []
  /-- the values of `network_mode`, `ipc`, `pid`, `uts`, `cgroup` that are set, in that order -/
  namespaces : List String := []
  volumesFrom : List String := []
deriving Repr, DecidableEq

def containerPrefix : String := "container:"

/-- `strings.Split(s, ":")` on code points -/
def splitColon : List Char → List Char → List String
  | acc, [] => [String.ofList acc.reverse]
  | acc, c :: cs => if c = ':' then String.ofList acc.reverse :: splitColon [] cs else splitColon (c :: acc) cs

/-- `parts := strings.Split(link, ":"); if len(parts) == 2 { link = parts[0] }` -/
def linkTarget (l : String) : String :=
  match splitColon [] l.toList with
  | [a, _] => a
  | _ => l

/-- `if !strings.HasPrefix(vol, "container:") { spec := strings.Split(vol, ":"); … spec[0] }` -/
def volumesFromTarget (v : String) : Option String :=
  if containerPrefix.toList.isPrefixOf v.toList then none else (splitColon [] v.toList).head?

/-- `if _, ok := dependsOn[x]; !ok { dependsOn[x] = {required: true, …} }` -/
def addDep (deps : List (String × Bool)) (x : String) : List (String × Bool) :=
  if deps.any (fun d => d.1 == x) then deps else deps ++ [(x, true)]

def addOpt (deps : List (String × Bool)) : Option String → List (String × Bool)
  | some x => addDep deps x
  | none => deps

/-- the `depends_on` of the service after `Normalize` -/
def normDeps (r : RawRefs) : List (String × Bool) :=
  let d1 := r.links.foldl (fun d l => addDep d (linkTarget l)) r.dependsOn
  let d2 := r.namespaces.foldl (fun d v => addOpt d (serviceRef v)) d1
  r.volumesFrom.foldl (fun d v => addOpt d (volumesFromTarget v)) d2

/-- every service the attributes refer to -/
def implicitRefs (r : RawRefs) : List String :=
  r.links.map linkTarget ++ r.namespaces.filterMap serviceRef ++ r.volumesFrom.filterMap volumesFromTarget

end CV.Consistency
