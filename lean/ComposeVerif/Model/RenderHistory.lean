import ComposeVerif.Model.Secrets
/-!
# C09 — histories of renderings of one project value   (types/project.go: `applyMarshallOptions`, `MarshalYAML`, `MarshalJSON`)

`Project.MarshalYAML(opts…)` / `MarshalJSON(opts…)` first run `marshallOptions.apply` — which, with
`WithSecretContent`, flags every secret of a **deep copy** — and then encode the project `apply` returned.  Go maps are
references, so whether the caller's project survives a call is a statement about the heap: `Secrets.applyHeap`
(`Model/Secrets.lean`) is that function on a heap of `Secrets` maps.  Here: one call = `apply` + the encoder's view of
the project it returns; a history = calls in sequence on the evolving heap.  `applyShared` is the variant that copies
the project *struct* only (`clone := *p`): kept for `Neg/C09History.lean`.
-/
namespace CV.History
open CV CV.Secrets

/-- one call: which renderer, and whether `types.WithSecretContent` is among the options -/
structure Call where
  r : Renderer
  content : Bool
deriving Repr, DecidableEq

/-- the encoder proper (no options): `Secrets.render` with the option off -/
def encode (r : Renderer) (p : Proj) : Val := render r false p

/-- `Project.Marshal*(opts)`, `apply` given as a parameter: options on the heap, then the encoder on the project returned -/
def callWith (apply : Bool → Heap → Nat → Heap × Nat) (cfgs : List (String × FileObj)) (c : Call) (h : Heap) (p : Nat) : Heap × Val :=
  let hq := apply c.content h p
  (hq.1, encode c.r { secrets := hq.1.get hq.2, configs := cfgs })

/-- a history of calls on one project value (address `p` of its `Secrets` map; `Configs` is never written) -/
def runWith (apply : Bool → Heap → Nat → Heap × Nat) (cfgs : List (String × FileObj)) : List Call → Heap → Nat → Heap × List Val
  | [], h, _ => (h, [])
  | c :: cs, h, p =>
    let hv := callWith apply cfgs c h p
    let rest := runWith apply cfgs cs hv.1 p
    (rest.1, hv.2 :: rest.2)

/-- the code of the tree -/
def run := runWith applyHeap

/-- `clone := *p; for name, config := range clone.Secrets { …; clone.Secrets[name] = config }`: the struct is copied,
the map is shared — the flags are written into the caller's map -/
def applyShared (secretsContent : Bool) (h : Heap) (p : Nat) : Heap × Nat :=
  if secretsContent then (h.set p (setFlags (h.get p)), p) else (h, p)

/-- what the same call renders on a freshly loaded project (the functional view: nothing is shared) -/
def fresh (cfgs secrets : List (String × FileObj)) (c : Call) : Val :=
  render c.r c.content { secrets := secrets, configs := cfgs }

end CV.History
