import ComposeVerif.Model.ShortTransform
import ComposeVerif.Model.Merge
/-!
# C03 × override.Merge: the loader's two-document pipeline at one attribute (core Lean only; linked into the driver)
-/
namespace CV.Short
open CV

/-! ## the loader's two-document pipeline, at one attribute

`loadYamlFile` (loader/loader.go): `dict = Merge(dict, cfg); dict = Canonical(dict)` per document.  At the
position of an attribute with a converting merger this is: canonical form of document 1, merged with the **raw**
value of document 2, made canonical again. -/

def liftM {α : Type} : Merge.Out α → Out α
  | .ok a => .ok a
  | .err e => .err e
  | .panic s => .panic s

/-- `t` = the transformer at the attribute, `r` = the merge rule at the attribute -/
def twoDocs (t : Val → Out Val) (mk : Val.KVs → Val.KVs → TPath → Merge.Out Val.KVs) (r : Merge.Rule)
    (doc1 doc2 : Val) (p : TPath) : Out Val :=
  bindOut (t doc1) fun c1 => bindOut (liftM (Merge.specialStep mk r c1 doc2 p)) t


/-- the three attributes whose short form is expanded by the merger too; `none` = not one of them -/
def twoDocsAt (attr : String) (doc1 doc2 : Val) : Option (Out Val) :=
  let p : TPath := ["services", "s", attr]
  let mk := Merge.mergeKVs (Merge.fuelFor doc2)
  if attr = "depends_on" then some (twoDocs transformDependsOn mk .dependsOn doc1 doc2 p)
  else if attr = "networks" then some (twoDocs transformServiceNetworks mk .networks doc1 doc2 p)
  else if attr = "build" then some (twoDocs (transform false p) mk .build doc1 doc2 p)
  else none

/-- the document loop of `loader.loadYamlModel` on whole trees, from the canonical tree of the first document on:
every further document is merged into the dict (`override.Merge`) and the dict is made canonical again -/
def loadRest (ign : Bool) : Val → List Val → Out Val
  | dict, [] => .ok dict
  | dict, d :: r => bindOut (liftM (Merge.merge dict d)) fun m => bindOut (canonical ign m) fun c => loadRest ign c r

/-- first document, then the rest -/
def loadDocsC (ign : Bool) (first : Val) (rest : List Val) : Out Val :=
  bindOut (canonical ign first) fun c => loadRest ign c rest

end CV.Short
