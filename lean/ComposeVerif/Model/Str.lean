/-!
# Strings as lists of code points

Go strings are byte sequences; every modelled function below only tests ASCII
bytes, so modelling at code-point level gives the same cuts (a UTF-8
continuation byte is never an ASCII byte).  See DESIGN.md §2.5.
-/
namespace CV

abbrev Str := List Char

/-- `strings.Index(s, pat)` (code-point index; only used for cutting). -/
def indexOfGo (pat : Str) : Str → Nat → Option Nat
  | [], i => if pat.isEmpty then some i else none
  | c :: cs, i => if pat.isPrefixOf (c :: cs) then some i else indexOfGo pat cs (i + 1)

def indexOf (pat s : Str) : Option Nat := indexOfGo pat s 0

def containsStr (pat s : Str) : Bool := (indexOf pat s).isSome

/-- `strings.Cut` / the template package's `partition`. -/
def cut (sep s : Str) : Str × Str :=
  match indexOf sep s with
  | none => (s, [])
  | some i => (s.take i, s.drop (i + sep.length))

def ofString (s : String) : Str := s.toList
def toString (s : Str) : String := String.ofList s

end CV
