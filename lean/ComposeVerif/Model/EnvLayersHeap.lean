import ComposeVerif.Model.EnvLayers
/-!
# C16 — `MappingWithEquals` on the heap (round 5)

`types.MappingWithEquals` is `map[string]*string`: the value-typed model (`Model/EnvLayers.lean`) cannot see which keys
share a string cell.  This file models the cells: a heap `Cells` (address = index), a mapping `key ↦ nil | address`, and
`MappingWithEquals.Resolve` as it is written — `if value, ok := lookupFn(k); ok { m[k] = &value }` with `value` declared
**inside** the loop body, so that every hit allocates a cell of its own.  `Props/C16Heap.lean` proves that this refines
`resolveMWE`, never writes an existing cell and never makes two keys share a cell; `Neg/C16Heap.lean` shows what the
variant with the variable hoisted out of the loop does.  The source fact `c16_body_MWE_Resolve` pins the text.
-/
namespace CV.EnvLayers.Heap
open CV.EnvLayers

/-- the string cells allocated so far; address (a `Nat`) = index; cells are never freed -/
abbrev Cells := List Str
/-- `MappingWithEquals` on the heap (iteration in list order) -/
abbrev HMWE := List (Key × Option Nat)

/-- what the map says when its pointers are followed (a dangling address would read as "no value") -/
def deref (h : Cells) (m : HMWE) : List (Key × Option Str) :=
  m.map fun kv => (kv.1, match kv.2 with | some a => h[a]? | none => none)

/-- `MappingWithEquals.Resolve`: a hit stores the address of a **fresh** variable -/
def resolveH (look : Look) : HMWE → Cells → HMWE × Cells
  | [], h => ([], h)
  | (k, some a) :: r, h => ((k, some a) :: (resolveH look r h).1, (resolveH look r h).2)
  | (k, none) :: r, h =>
    match look k with
    | some v => ((k, some h.length) :: (resolveH look r (h ++ [v])).1, (resolveH look r (h ++ [v])).2)
    | none => ((k, none) :: (resolveH look r h).1, (resolveH look r h).2)

/-- the slip (seeded change C16-5): `var value string` declared once before the loop — the cell `cell`;
    every hit overwrites it and stores its address -/
def resolveHoistedFrom (look : Look) (cell : Nat) : HMWE → Cells → HMWE × Cells
  | [], h => ([], h)
  | (k, some a) :: r, h => ((k, some a) :: (resolveHoistedFrom look cell r h).1, (resolveHoistedFrom look cell r h).2)
  | (k, none) :: r, h =>
    match look k with
    | some v => ((k, some cell) :: (resolveHoistedFrom look cell r (h.set cell v)).1, (resolveHoistedFrom look cell r (h.set cell v)).2)
    | none => ((k, none) :: (resolveHoistedFrom look cell r h).1, (resolveHoistedFrom look cell r h).2)

def resolveHoisted (look : Look) (m : HMWE) (h : Cells) : HMWE × Cells :=
  resolveHoistedFrom look h.length m (h ++ [[]])

/-- `Mapping.ToMappingWithEquals` / `Labels.ToMappingWithEquals`: `for k, v := range m { v := v; mapping[k] = &v }` — the
    copy `v := v` gives every key a cell of its own (go.mod says go 1.21: without it the loop variable is one cell) -/
def toMWEH : List (Key × Str) → Cells → HMWE × Cells
  | [], h => ([], h)
  | (k, v) :: r, h => ((k, some h.length) :: (toMWEH r (h ++ [v])).1, (toMWEH r (h ++ [v])).2)

/-- the slip: no copy — every key stores the address of the one loop variable `cell`, which holds the value visited last -/
def toMWENoCopyFrom (cell : Nat) : List (Key × Str) → Cells → HMWE × Cells
  | [], h => ([], h)
  | (k, v) :: r, h => ((k, some cell) :: (toMWENoCopyFrom cell r (h.set cell v)).1, (toMWENoCopyFrom cell r (h.set cell v)).2)

def toMWENoCopy (m : List (Key × Str)) (h : Cells) : HMWE × Cells := toMWENoCopyFrom h.length m (h ++ [[]])

/-- every address of the map is allocated -/
def Valid (h : Cells) (m : HMWE) : Prop := ∀ k a, (k, some a) ∈ m → a < h.length

def addrs (m : HMWE) : List Nat := m.filterMap (·.2)

/-- no two keys share a cell -/
def NoAlias (m : HMWE) : Prop := (addrs m).Nodup

/-! ## the loop body of `WithServicesEnvironmentResolved` on the heap -/

/-- the strings of an all-pointer map: what the `resolve` closure reads through `*v` -/
def derefStr (h : Cells) (m : HMWE) : List (Key × Str) := ofMWE (deref h m)

def loadEnvFilesH (penv : List (Key × Str)) (fs : FS) : List EnvFile → HMWE → Cells → Except Err (HMWE × Cells)
  | [], acc, h => .ok (acc, h)
  | f :: r, acc, h =>
    match loadEnvFile fs f (envChain penv (derefStr h acc)) with
    | .error e => .error e
    | .ok vars => loadEnvFilesH penv fs r (overrideBy acc (toMWEH vars h).1) (toMWEH vars h).2

def resolveServiceEnvH (penv : List (Key × Str)) (fs : FS) (env : HMWE) (efs : List EnvFile) (h : Cells) :
    Except Err (HMWE × Cells) :=
  match loadEnvFilesH penv fs efs [] (resolveH (fun k => lookup k penv) env h).2 with
  | .error e => .error e
  | .ok r => .ok (overrideBy r.1 (resolveH (fun k => lookup k penv) env h).1, r.2)

end CV.EnvLayers.Heap
