import ComposeVerif.Model.EnvLayersSites
/-!
# C16 — file lists with a REPEATED path through a whole load (round 7)

`override.EnforceUnicity` (loader.go: after every merge of a document, and once more after `transform.Canonical`) runs
over every sequence whose path is a key of the table `override.unique`.  `services.*.env_file` is in the table (indexer
`envFileIndexer`: the key of an entry is its path *as written at that moment*), `services.*.label_file` is not.  The loop

    if j, ok := keys[key]; ok { seq[j] = entry } else { seq = append(seq, entry); keys[key] = len(seq) - 1 }

keeps the **first position** of a key and stores the **last entry** there.  So `env_file: [a, b, a]` reaches the Project
method as `[a, b]`: a key defined in both files ends with `b`'s value, while the written order ("env_file entries in
order, a later file overriding an earlier one") says `a`'s.  A label_file list is not touched: `[a, b, a]` stays.

The key is the text of the path when the stage runs: two spellings of one file (`a.env` in the main file, the absolute
path the loader made of `a.env` of an `extends.file` base in another directory) are different keys.  `ukey` is a parameter.
-/
namespace CV.EnvLayers

/-- one iteration of the loop of `enforceUnicity` -/
def uniqStep {α : Type} (key : α → Str) (acc : List α) (x : α) : List α :=
  if acc.any (fun y => key y == key x) then acc.map (fun y => if key y == key x then x else y) else acc ++ [x]

/-- `enforceUnicity` on one sequence with an indexer: first position, last entry -/
def uniqBy {α : Type} (key : α → Str) (l : List α) : List α := l.foldl (uniqStep key) []

/-- the sequence with the key of every entry beside it (the key is the text of the path when the stage runs) -/
def uniqKeyed {α : Type} (l : List (Str × α)) : List α := (uniqBy Prod.fst l).map Prod.snd

/-- the effective table `override.unique` restricted to the two kinds of file list (`Gen.unique`, pinned by
    `C16Src.unicity_rows_are_modelled_source`): `env_file` is de-duplicated, `label_file` is not -/
def enforceUnicityFiles (ukey : EnvFile → Str) (s : Service) : Service :=
  { s with envFiles := uniqBy ukey s.envFiles }

/-- the same when the key of an entry depends on where it is written (`keys`: one key per entry, in order) -/
def enforceUnicityFilesKeyed (keys : List Str) (s : Service) : Service :=
  { s with envFiles := uniqKeyed (keys.zip s.envFiles) }

def YService.enforceUnicity (ukey : EnvFile → Str) (y : YService) : YService :=
  { y with svc := enforceUnicityFiles ukey y.svc }

/-- a whole load from file lists *as written* (all in one directory: the key is the path): unicity first, then the decode
    and the two Project methods -/
def loadProjectYU (cfg : LoadCfg) (penv : List (Key × Str)) (fs : FS)
    (svcs : List (Str × YService)) : Except (List Err) (List (Str × Service)) :=
  loadProjectY cfg penv fs (svcs.map fun p => (p.1, p.2.enforceUnicity (·.path)))

end CV.EnvLayers
