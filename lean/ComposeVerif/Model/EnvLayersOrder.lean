import ComposeVerif.Model.EnvLayers
/-!
# C16 — the same loops when Go picks the iteration order

`Model/EnvLayers.lean` iterates every Go map in list order.  Here every `range` over a map
(`OverrideBy`, `Resolve`, and the conversion of the map returned by the dotenv parser) may visit the entries in
**any** order, and every intermediate map is known only up to the order it is listed in.  The theorems
`env_any_iteration_order` / `labels_any_iteration_order` (Props/C16.lean) say that every such run agrees with the
list-order model: same success or failure, same error, same value at every key.
-/
namespace CV.EnvLayers

/-- two listings of the same Go map -/
def MapEq {β : Type} (m m' : List (Key × β)) : Prop := ∀ k, lookup k m = lookup k m'

/-- `res` lists the Go map `m`: distinct keys, same bindings, any order -/
def Listing {β : Type} (m res : List (Key × β)) : Prop := (res.map Prod.fst).Nodup ∧ MapEq res m

/-- `for k, v := range other { m[k] = v }` with Go choosing the order: some listing `other'` of `other` is
    iterated, and the result is any listing of the resulting map -/
def RangeOverride {β : Type} (m other res : List (Key × β)) : Prop :=
  ∃ other', other.Perm other' ∧ Listing (overrideBy m other') res

/-- `MappingWithEquals.Resolve` with Go choosing the order -/
def RangeResolve (look : Look) (m res : List (Key × Option Str)) : Prop :=
  ∃ m', m.Perm m' ∧ Listing (resolveMWE look m') res

/-- the loop over env / label files: `load` reads one file with a lookup, `chain` builds the lookup from the map
    accumulated so far -/
inductive FilesRun {α : Type} (load : α → Look → Except Err (List (Key × Str))) (chain : List (Key × Str) → Look) :
    List α → List (Key × Str) → Except Err (List (Key × Str)) → Prop
  | nil (acc : List (Key × Str)) : FilesRun load chain [] acc (.ok acc)
  | fail (f : α) (r : List α) (acc : List (Key × Str)) (e : Err) :
      load f (chain acc) = .error e → FilesRun load chain (f :: r) acc (.error e)
  | step (f : α) (r : List α) (acc vars acc1 : List (Key × Str)) (res : Except Err (List (Key × Str))) :
      load f (chain acc) = .ok vars → RangeOverride acc vars acc1 → FilesRun load chain r acc1 res →
      FilesRun load chain (f :: r) acc res

/-- one service through `WithServicesEnvironmentResolved`, any iteration orders; the outcome is the final `Environment` -/
def ServiceEnvRun (penv : List (Key × Str)) (fs : FS) (s : Service) (out : Except Err (List (Key × Option Str))) : Prop :=
  ∃ env1, RangeResolve (fun k => lookup k penv) s.environment env1 ∧
    ∃ r, FilesRun (loadEnvFile fs) (envChain penv) s.envFiles [] r ∧
      match r with
      | .error e => out = .error e
      | .ok acc => ∃ final, RangeOverride (toMWE acc) env1 final ∧ out = .ok final

/-- one service through `WithServicesLabelsResolved`, any iteration orders; the outcome is the merged label map
    (before the `len(labels) == 0` test) -/
def ServiceLabelsRun (fs : FS) (s : Service) (out : Except Err (List (Key × Option Str))) : Prop :=
  ∃ r, FilesRun (loadLabelFile fs) labelChain s.labelFiles [] r ∧
    match r with
    | .error e => out = .error e
    | .ok acc => ∃ final, RangeOverride (toMWE acc) (toMWE s.labels) final ∧ out = .ok final

end CV.EnvLayers
