/-!
# C01 — the reference-following loops of the loader (core Lean only)

* `Tracker`          `cycleTracker.Add`                               (loader/loader.go)
* `Ext.resolve`      `applyServiceExtends` / `ApplyExtends`           (loader/extends.go)
* `Inc.loadModel`    `loadYamlModel` → `loadYamlFile` → `ApplyInclude` (loader/loader.go, loader/include.go)
* `Dep.checkCycle`   `graph.checkCycle` / `searchCycle`                (graph/cycle.go)

The Go functions are plain recursions with no bound of their own; the models take `fuel` and the
"never loops" half of the property is the theorem that some fuel always suffices (Props/C01.lean).
What the recursion *computes* (merged services, imported resources) is the business of C05/C06; here
only the outcome class is modelled: `ok`, `err class`, `panic site`, `outOfFuel`.
-/
namespace CV.C01

/-- outcome of a reference-following loop -/
inductive Res where
  | ok
  | err (cls : String)
  | panic (site : String)
  | outOfFuel
deriving Repr, DecidableEq, Inhabited

/-! ## `cycleTracker` -/

structure Ref where
  file : String
  service : String
deriving Repr, DecidableEq, Inhabited

abbrev Tracker := List Ref

/-- `ct.Add(filename, service)`: error when the reference was already followed on this branch -/
def Tracker.add (t : Tracker) (r : Ref) : Option Tracker :=
  if r ∈ t then none else some (t ++ [r])

/-! ## `extends` -/

namespace Ext

/-- a field of the `extends` mapping as the code looks at it -/
inductive Fld where
  | absent            -- key missing or null
  | str (s : String)
  | other             -- any other node kind
deriving Repr, DecidableEq, Inhabited

/-- the value under `extends` -/
inductive ExtVal where
  | str (ref : String)
  | map (service file : Fld)
  | other             -- bool / int / float / list / null: the type switch matches nothing, `ref = ""`, `file = nil`
deriving Repr, DecidableEq, Inhabited

/-- a service definition as `applyServiceExtends` looks at it -/
inductive Svc where
  | null              -- `a:` (nil)
  | notMap            -- scalar or list
  | plain             -- a mapping without `extends`
  | ext (e : ExtVal)
deriving Repr, DecidableEq, Inhabited

abbrev Services := List (String × Svc)

/-- what `getExtendsBaseFromFile` finds at a path -/
inductive FileC where
  | noServices
  | servicesNotMap
  | services (s : Services)
deriving Repr, Inhabited

abbrev FS := List (String × FileC)

def lookup {α : Type} (k : String) : List (String × α) → Option α
  | [] => none
  | (k', v) :: r => if k = k' then some v else lookup k r

/-- Go `m[k] = v` on an association list -/
def setKey {α : Type} (k : String) (v : α) : List (String × α) → List (String × α)
  | [] => [(k, v)]
  | (k', v') :: r => if k = k' then (k, v) :: r else (k', v') :: setKey k v r

/-- the type switch on the `extends` value: `(ref, file)` or an error class -/
def parse : ExtVal → Except String (String × Option String)
  | .str r => .ok (r, none)
  | .other => .ok ("", none)
  | .map (.str r) .absent => .ok (r, none)
  | .map (.str r) (.str f) => .ok (r, some f)
  | .map (.str _) .other => .error "extendsFileNotString"
  | .map _ _ => .error "extendsServiceNotString"

/-- what `transform.Canonical` (run by `loadYamlFile` on the *other* file) does to a service's `extends`:
the short form becomes `{service: ref}`, any non-string non-mapping value is an error -/
def canonServices : Services → Except String Services
  | [] => .ok []
  | (n, s) :: r =>
    match s, canonServices r with
    | .ext .other, _ => .error "invalidExtendsType"
    | _, .error c => .error c
    | .ext (.str ref), .ok r' => .ok ((n, .ext (.map (.str ref) .absent)) :: r')
    | s, .ok r' => .ok ((n, s) :: r')

/-- `absExtendsPath` (run by `paths.ResolveRelativePaths` on the loaded file) rejects a non-string `extends.file`
("unexpected type …"; before `fix: an extends.file that is not a string is reported as an error` it asserted `value.(string)`) -/
def hasNonStringFile (svcs : Services) : Bool :=
  svcs.any (fun p => match p.2 with | .ext (.map _ .other) => true | _ => false)

/--
Where an `extends` value points (the part of `applyServiceExtends` before `tracker.Add`, including
`getExtendsBaseFromFile`): the referenced service, the file name handed to the tracker, and the services map
in which the recursion continues (`none` = the current one).  `main` is the file name found in the context
(always the file being loaded at top level).
-/
def locate (fs : FS) (main : String) (svcs : Services) (e : ExtVal) : Except Res (String × String × Option Services) :=
  match parse e with
  | .error c => .error (.err c)
  | .ok (ref, none) =>
    match lookup ref svcs with
    | none => .error (.err "notFound")
    | some _ => .ok (ref, main, none)
  | .ok (ref, some f) =>
    match lookup f fs with
    | none => .error (.err "fileNotFound")
    | some .noServices => .error (.err "noServices")
    | some .servicesNotMap => .error (.err "servicesNotMap")
    | some (.services raw) =>
      match canonServices raw with
      | .error c => .error (.err c)
      | .ok other =>
        match lookup ref other with
        | none => .error (.err "notFoundInFile")
        | some _ =>
          if hasNonStringFile other then .error (.err "pathNotString")
          else .ok (ref, f, some other)

/--
`applyServiceExtends(name, services, tracker)`.  Returns the outcome, whether the result is `nil`
(`base == nil` short-cut) and the services map of this level after the `services[name] = merged` memo
(when the base comes from another file, the memo goes to the caller's map and the loaded map is dropped).
-/
def resolve (fs : FS) (main : String) : Nat → Services → String → Tracker → Res × Bool × Services
  | 0, svcs, _, _ => (.outOfFuel, false, svcs)
  | fuel + 1, svcs, name, tr =>
    match lookup name svcs with
    | none => (.ok, true, svcs)
    | some .null => (.ok, true, svcs)
    | some .notMap => (.err "serviceNotMapping", false, svcs)
    | some .plain => (.ok, false, svcs)
    | some (.ext e) =>
      match locate fs main svcs e with
      | .error r => (r, false, svcs)
      | .ok (ref, file, target) =>
        -- since `fix: the extends cycle tracker records the file the extending service lives in`: the key is the
        -- *current* file (`main`), and the recursion continues with the referenced file as current file
        match tr.add ⟨main, name⟩ with
        | none => (.err "circular", false, svcs)
        | some tr' =>
          match resolve fs file fuel (target.getD svcs) ref tr' with
          | (.ok, true, svcs') => (.ok, false, if target.isSome then svcs else svcs')   -- `base == nil`: returned as is, no memo
          | (.ok, false, svcs') => (.ok, false, setKey name .plain (if target.isSome then svcs else svcs'))
          | (r, _, svcs') => (r, false, if target.isSome then svcs else svcs')

/-- `ApplyExtends`: every service of the main file, in the order the Go map happens to be ranged -/
def applyExtends (fs : FS) (main : String) (fuel : Nat) : List String → Services → Res
  | [], _ => .ok
  | n :: rest, svcs =>
    match resolve fs main fuel svcs n [] with
    | (.ok, _, svcs') => applyExtends fs main fuel rest svcs'
    | (r, _, _) => r

end Ext

/-! ## `include` -/

namespace Inc

/-- one compose file as the include machinery sees it: readable or not, and its `include` entries
(each entry = the list of paths of the long syntax; the first is the "main" included file) -/
abbrev FS := List (String × List (List String))

def lookup (k : String) : FS → Option (List (List String))
  | [] => none
  | (k', v) :: r => if k = k' then some v else lookup k r

/-- `ApplyInclude`: for every entry, cycle test on every path of the entry (the first is the base, the others are
overrides — all of them are loaded), then load the entry's files (`load` = the recursive `loadYamlModel`).
Before the repair of `hang@include-override-position` only the first path was tested. -/
def applyInclude (load : List String → List String → Res) : List (List String) → List String → Res
  | [], _ => .ok
  | [] :: rest, included => applyInclude load rest included      -- no path: nothing to load
  | (p0 :: ps) :: rest, included =>
    if (p0 :: ps).any (fun p => decide (p ∈ included)) = true then .err "includeCycle"
    else match load (p0 :: ps) included with
      | .ok => applyInclude load rest included
      | r => r

/-- the loop of `loadYamlModel` over `config.ConfigFiles`; `loadYamlFile` does
`included = append(included, file.Filename)` and then `ApplyInclude` (`inc`) -/
def loadFiles (fs : FS) (inc : List (List String) → List String → Res) : List String → List String → Res
  | [], _ => .ok
  | f :: rest, included =>
    match lookup f fs with
    | none => .err "fileNotFound"
    | some entries =>
      match inc entries (included ++ [f]) with
      | .ok => loadFiles fs inc rest included
      | r => r

/-- `loadYamlModel(files, included)`; `fuel` bounds the nesting depth of includes -/
def loadModel (fs : FS) : Nat → List String → List String → Res
  | 0, _, _ => .outOfFuel
  | fuel + 1, files, included => loadFiles fs (applyInclude (loadModel fs fuel)) files included

end Inc

/-! ## `depends_on` -/

namespace Dep

/-- a directed graph: vertex ↦ children, in the order the code visits them (for `graph.checkCycle`: service names,
both in name order since `utils.MapKeys` sorts; for the YAML node check of loader/reset.go: node indices) -/
abbrev G (α : Type) := List (α × List α)

variable {α : Type} [DecidableEq α]

def children (g : G α) (v : α) : List α :=
  match g with
  | [] => []
  | (k, cs) :: r => if v = k then cs else children r v

inductive R (α : Type) where
  | ok
  | cycle (path : List α)     -- "dependency cycle detected: a -> b -> a"
  | outOfFuel
deriving Repr, DecidableEq, Inhabited

/-- the loop of `searchCycle` over `v.children` (`search` = the recursive call) -/
def searchChildren (search : List α → α → R α) (path : List α) : List α → R α
  | [] => .ok
  | name :: rest =>
    if name ∈ path then .cycle (path.dropWhile (· ≠ name) ++ [name])
    else match search (path ++ [name]) name with
      | .ok => searchChildren search path rest
      | r => r

/-- `searchCycle(path, v)`; `fuel` bounds the depth of the search -/
def searchCycle (g : G α) : Nat → List α → α → R α
  | 0, _, _ => .outOfFuel
  | fuel + 1, path, v => searchChildren (searchCycle g fuel) path (children g v)

/-- `checkCycle`: start a search at every vertex -/
def checkFrom (g : G α) (fuel : Nat) : List α → R α
  | [] => .ok
  | v :: rest =>
    match searchCycle g fuel [v] v with
    | .ok => checkFrom g fuel rest
    | r => r

def checkCycle (g : G α) (fuel : Nat) : R α := checkFrom g fuel (g.map Prod.fst)

end Dep
end CV.C01
