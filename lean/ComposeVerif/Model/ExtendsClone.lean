import ComposeVerif.Model.Val
/-!
# `deepClone` on the Go heap  (loader/extends.go)

`Model/Extends.lean` works on immutable values, where `deepClone` is the identity.  What the property needs from it is
visible only on the heap: `override.ExtendService(source, service)` merges **in place** into `source`, and `source`
must therefore share no mutable container (`map[string]any` header, `[]any` backing array) with the base it was cloned
from — the base stays in the services map (memoised) and is extended again by sibling services.

`HVal`: a yaml tree in which every container carries the address of its storage.  `clone n v` is `deepClone(v)` with
the allocator at `n`: a fresh address for every container, scalars copied by value.  `write a c v` is an in-place
update of the container stored at `a` (what the mergers do to `source`).
-/
namespace CV.Extends.Clone
open CV

inductive HVal where
  /-- null / bool / number / string: copied by value -/
  | leaf (v : Val)
  /-- `[]any` with backing array at `a` -/
  | seq (a : Nat) (xs : List HVal)
  /-- `map[string]any` with header at `a` -/
  | map (a : Nat) (kvs : List (String × HVal))
deriving Repr, Inhabited

mutual
  /-- the addresses of all containers of the tree (with multiplicity) -/
  def addrs : HVal → List Nat
    | .leaf _ => []
    | .seq a xs => a :: addrsL xs
    | .map a kvs => a :: addrsK kvs
  def addrsL : List HVal → List Nat
    | [] => []
    | x :: r => addrs x ++ addrsL r
  def addrsK : List (String × HVal) → List Nat
    | [] => []
    | (_, x) :: r => addrs x ++ addrsK r
end

mutual
  /-- forget the addresses: the yaml value (`reflect.DeepEqual` compares these) -/
  def erase : HVal → Val
    | .leaf v => v
    | .seq _ xs => .seq (eraseL xs)
    | .map _ kvs => .map (eraseK kvs)
  def eraseL : List HVal → List Val
    | [] => []
    | x :: r => erase x :: eraseL r
  def eraseK : List (String × HVal) → List (String × Val)
    | [] => []
    | (k, x) :: r => (k, erase x) :: eraseK r
end

mutual
  /-- `deepClone(value)`; `n` = next free address, returned advanced by the number of containers allocated -/
  def clone (n : Nat) : HVal → HVal × Nat
    | .leaf v => (.leaf v, n)                                   -- default: return value
    | .seq _ xs =>                                              -- cp := make([]any, len(v)); cp[i] = deepClone(e)
      let r := cloneL (n + 1) xs
      (.seq n r.1, r.2)
    | .map _ kvs =>                                             -- cp := make(map[string]any, len(v)); cp[k] = deepClone(e)
      let r := cloneK (n + 1) kvs
      (.map n r.1, r.2)
  def cloneL (n : Nat) : List HVal → List HVal × Nat
    | [] => ([], n)
    | x :: r =>
      let a := clone n x
      let b := cloneL a.2 r
      (a.1 :: b.1, b.2)
  def cloneK (n : Nat) : List (String × HVal) → List (String × HVal) × Nat
    | [] => ([], n)
    | (k, x) :: r =>
      let a := clone n x
      let b := cloneK a.2 r
      ((k, a.1) :: b.1, b.2)
end

mutual
  /-- in-place update: the container stored at `a` gets the content `c` (same address), wherever it is reachable -/
  def write (a : Nat) (c : HVal) : HVal → HVal
    | .leaf v => .leaf v
    | .seq b xs => if b = a then (match c with | .seq _ ys => .seq b ys | _ => .seq b xs) else .seq b (writeL a c xs)
    | .map b kvs => if b = a then (match c with | .map _ ys => .map b ys | _ => .map b kvs) else .map b (writeK a c kvs)
  def writeL (a : Nat) (c : HVal) : List HVal → List HVal
    | [] => []
    | x :: r => write a c x :: writeL a c r
  def writeK (a : Nat) (c : HVal) : List (String × HVal) → List (String × HVal)
    | [] => []
    | (k, x) :: r => (k, write a c x) :: writeK a c r
end

/-! ### the two seeded slips, as models (used by `Neg/C05.lean` to show what the theorems exclude) -/

mutual
  /-- `cp[k] = e` in the mapping case: only sequences and the top-level mapping are copied -/
  def cloneShallowMap (n : Nat) : HVal → HVal × Nat
    | .leaf v => (.leaf v, n)
    | .seq _ xs =>
      let r := cloneShallowMapL (n + 1) xs
      (.seq n r.1, r.2)
    | .map _ kvs => (.map n kvs, n + 1)
  def cloneShallowMapL (n : Nat) : List HVal → List HVal × Nat
    | [] => ([], n)
    | x :: r =>
      let a := cloneShallowMap n x
      let b := cloneShallowMapL a.2 r
      (a.1 :: b.1, b.2)
end

mutual
  /-- `v[i] = deepClone(e); return v` in the sequence case: the backing array is reused -/
  def cloneInPlaceSeq (n : Nat) : HVal → HVal × Nat
    | .leaf v => (.leaf v, n)
    | .seq a xs =>
      let r := cloneInPlaceSeqL n xs
      (.seq a r.1, r.2)
    | .map _ kvs =>
      let r := cloneInPlaceSeqK (n + 1) kvs
      (.map n r.1, r.2)
  def cloneInPlaceSeqL (n : Nat) : List HVal → List HVal × Nat
    | [] => ([], n)
    | x :: r =>
      let a := cloneInPlaceSeq n x
      let b := cloneInPlaceSeqL a.2 r
      (a.1 :: b.1, b.2)
  def cloneInPlaceSeqK (n : Nat) : List (String × HVal) → List (String × HVal) × Nat
    | [] => ([], n)
    | (k, x) :: r =>
      let a := cloneInPlaceSeq n x
      let b := cloneInPlaceSeqK a.2 r
      ((k, a.1) :: b.1, b.2)
end

/-- lay a value out on the heap: one fresh address per container (how the harness builds its inputs) -/
def alloc (n : Nat) : Val → HVal × Nat
  | .seq xs =>
    let r := allocL (n + 1) xs
    (.seq n r.1, r.2)
  | .map kvs =>
    let r := allocK (n + 1) kvs
    (.map n r.1, r.2)
  | v => (.leaf v, n)
where
  allocL (n : Nat) : List Val → List HVal × Nat
    | [] => ([], n)
    | x :: r =>
      let a := alloc n x
      let b := allocL a.2 r
      (a.1 :: b.1, b.2)
  allocK (n : Nat) : List (String × Val) → List (String × HVal) × Nat
    | [] => ([], n)
    | (k, x) :: r =>
      let a := alloc n x
      let b := allocK a.2 r
      ((k, a.1) :: b.1, b.2)

end CV.Extends.Clone
