/-!
# `tree.Path` (tree/path.go) and first-match rule tables

A path is kept as the list of its dot-separated parts; `root` is `NewPath()` (the
empty string, whose `Parts()` is `[""]`).  `next` reproduces the two quirks of
`Path.Next`: at the root the part is *not* escaped (a top-level key containing
dots becomes several parts), elsewhere dots are replaced by 👻.
-/
namespace CV

abbrev TPath := List String

namespace TPath

def root : TPath := [""]

def ghost : String := "👻"

def next (p : TPath) (part : String) : TPath :=
  if p = root then part.splitOn "." else p ++ [part.replace "." ghost]

/-- `p.Matches(pattern)` -/
def pmatch : (pattern p : List String) → Bool
  | [], [] => true
  | a :: as, b :: bs => (a = "*" || a = b) && pmatch as bs
  | _, _ => false

/-- the string form (for messages / the wire) -/
def toString (p : TPath) : String := ".".intercalate p

/-- two patterns overlap when some path matches both -/
def overlap : (p q : List String) → Bool
  | [], [] => true
  | a :: as, b :: bs => (a = "*" || b = "*" || a = b) && overlap as bs
  | _, _ => false

/-- Go: `for pattern, h := range table { if p.Matches(pattern) { return h … } }` in list order -/
def firstMatch {α : Type} (t : List (List String × α)) (p : TPath) : Option α :=
  match t with
  | [] => none
  | (pat, h) :: r => if pmatch pat p then some h else firstMatch r p

/-- no two rows can match the same path -/
def PairwiseExclusive {α : Type} (t : List (List String × α)) : Prop :=
  t.Pairwise (fun a b => overlap a.1 b.1 = false)

instance {α : Type} (t : List (List String × α)) : Decidable (PairwiseExclusive t) := by
  unfold PairwiseExclusive; infer_instance

end TPath
end CV
