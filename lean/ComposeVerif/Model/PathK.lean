import ComposeVerif.Model.Path
/-!
# `TPath.nextK` — a kernel-reducible variant of `TPath.next`

`TPath.next` is written with `String.splitOn` / `String.replace`, whose implementations (slice iterators with
well-founded recursion) do not reduce in the kernel, so no theorem can evaluate `next p "context"`.
`nextK` does the same two operations of `tree.Path.Next` on code-point lists with structural recursion:
at the root the part is split at every '.', elsewhere every '.' is replaced by 👻.
The two functions are compared by the driver on every key the C03 correspondence generates (op `c03.pathNext`,
which also asks the real `tree.Path.Next`); their equality cannot be stated as a kernel-checked lemma for the very
reason `nextK` exists.
-/
namespace CV.TPath

/-- `strings.Split(s, ".")` -/
def splitDots : List Char → List (List Char)
  | [] => [[]]
  | c :: cs =>
    if c = '.' then [] :: splitDots cs
    else match splitDots cs with
      | [] => [[c]]
      | h :: t => (c :: h) :: t

/-- `strings.ReplaceAll(s, ".", "👻")` -/
def replaceDots : List Char → List Char
  | [] => []
  | c :: cs => (if c = '.' then '👻' else c) :: replaceDots cs

def nextK (p : TPath) (part : String) : TPath :=
  if p = root then (splitDots part.toList).map String.ofList else p ++ [String.ofList (replaceDots part.toList)]

theorem nextK_of_ne_root (p : TPath) (part : String) (h : p ≠ root) :
    nextK p part = p ++ [String.ofList (replaceDots part.toList)] := by
  simp [nextK, h]

end CV.TPath
