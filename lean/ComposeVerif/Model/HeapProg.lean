import ComposeVerif.Model.Heap
/-!
# C14 — a small Go-statement semantics over the heap model (core Lean only)

The derivations of `types/project.go` are written as programs of this language (`Model/Derivations.lean`) and run
against the real methods (`c14.deriv`).  The language has exactly the statement shapes those methods use on *model
state*: local assignment, struct-field update of a local value, `make(map)`, slice / pointer allocation, deep copy,
field store through a pointer, map store, map delete, `range` over a map, `range` over pure data, `if`, early error
return.  Everything that only computes names, sets of names, booleans (profile matching, the dependency closure,
the set of referenced resources, image strings) is a *pure* Lean function `St → …` returning strings: such a function
may look at anything — the receiver included — but what it returns cannot carry an address.

State: local variables hold `GoVal`s; a heap write (`write a cell`) is applied to *every* variable (the receiver `"p"`
included), which is how sharing is observed.  `Stmt.rf` ("receiver free") is the syntactic condition the escape
extractor checks on the Go source: no expression mentions the receiver variable except as the source of a deep copy.
-/
namespace CV.Heap

/-- pure data: a list of strings, or `none` for a nil slice -/
abbrev PData := Option (List String)

structure St where
  vars : List (String × GoVal) := []
  pvars : List (String × PData) := []
  next : Nat := 0
  log : List (Nat × Cell) := []
  err : Option String := none
  deriving Inhabited

def getVar (x : String) : List (String × GoVal) → GoVal
  | [] => .nil
  | (y, v) :: r => if y = x then v else getVar x r

def setVar (x : String) (v : GoVal) : List (String × GoVal) → List (String × GoVal)
  | [] => [(x, v)]
  | (y, w) :: r => if y = x then (x, v) :: r else (y, w) :: setVar x v r

def getP (x : String) : List (String × PData) → PData
  | [] => none
  | (y, v) :: r => if y = x then v else getP x r

def setP (x : String) (v : PData) : List (String × PData) → List (String × PData)
  | [] => [(x, v)]
  | (y, w) :: r => if y = x then (x, v) :: r else (y, w) :: setP x v r

/-- the string held by a pure variable (loop keys) -/
def St.pstr (st : St) (x : String) : String :=
  match getP x st.pvars with
  | some (s :: _) => s
  | _ => ""

def St.plist (st : St) (x : String) : List String := (getP x st.pvars).getD []

/-! ## children -/

def kidOf (k : Key) : List (Key × GoVal) → Option GoVal
  | [] => none
  | (j, v) :: r => if j = k then some v else kidOf k r

def setKid (k : Key) (v : GoVal) : List (Key × GoVal) → List (Key × GoVal)
  | [] => [(k, v)]
  | (j, w) :: r => if j = k then (k, v) :: r else (j, w) :: setKid k v r

def delKid (k : Key) : List (Key × GoVal) → List (Key × GoVal)
  | [] => []
  | (j, w) :: r => if j = k then r else (j, w) :: delKid k r

def keysOf : List (Key × GoVal) → List String
  | [] => []
  | (.str s, _) :: r => s :: keysOf r
  | _ :: r => keysOf r

/-- `v.F` (through a pointer when `v` is one) -/
def getFld (f : Nat) : GoVal → GoVal
  | .struct ks => (kidOf (.fld f) ks).getD .nil
  | .ptr _ (.struct ks) => (kidOf (.fld f) ks).getD .nil
  | _ => .nil

/-- `v[k]` for a map (`nil` when absent) -/
def getIdx (k : String) : GoVal → GoVal
  | .map _ ks => (kidOf (.str k) ks).getD .nil
  | _ => .nil

def hasIdx (k : String) : GoVal → Bool
  | .map _ ks => (kidOf (.str k) ks).isSome
  | _ => false

def mapKeys : GoVal → List String
  | .map _ ks => keysOf ks
  | _ => []

/-- the scalar elements of a slice of strings (scalar encoding: `""` = zero, `"s:…"` otherwise) -/
def sliceStrs : GoVal → List String
  | .slice _ ks => ks.filterMap fun kv => match kv.2 with | .scalar s => some s | _ => none
  | _ => []

def scalarStr : GoVal → String
  | .scalar s => s
  | _ => ""

/-- scalar encoding of a Go string -/
def encStr (s : String) : String := if s = "" then "" else "s:" ++ s
def decStr (s : String) : String := if s.startsWith "s:" then (s.drop 2).toString else s

/-! ## expressions -/

inductive Expr where
  | var (x : String)
  | fld (e : Expr) (f : Nat)                  -- e.F
  | idx (e : Expr) (k : St → String)          -- e[k]
  | str (s : St → String)                     -- a scalar computed purely (already in scalar encoding)
  | nilv
  | withFld (e : Expr) (f : Nat) (v : Expr)   -- the struct value e with field F replaced (a local `s.F = v`)

def Expr.eval : Expr → St → GoVal
  | .var x, st => getVar x st.vars
  | .fld e f, st => getFld f (e.eval st)
  | .idx e k, st => getIdx (k st) (e.eval st)
  | .str s, st => .scalar (s st)
  | .nilv, _ => .nil
  | .withFld e f v, st =>
    match e.eval st with
    | .struct ks => .struct (setKid (.fld f) (v.eval st) ks)
    | w => w

/-- the expression does not mention the receiver variable -/
def Expr.rf : Expr → Bool
  | .var x => x != "p"
  | .fld e _ => e.rf
  | .idx e _ => e.rf
  | .str _ => true
  | .nilv => true
  | .withFld e _ v => e.rf && v.rf

/-! ## statements -/

inductive Stmt where
  | assign (x : String) (e : Expr)                         -- x := e
  | pset (x : String) (f : St → PData)                     -- pure variable
  | allocMap (x : String)                                  -- x := map{}
  | allocSlice (x : String) (elems : St → PData)           -- x := []string{…}  (nil when the data is `none`)
  | allocPtr (x : String) (e : Expr)                       -- x := &v
  | deepCopy (x : String) (e : Expr)                       -- x := e.deepCopy()
  | setPtrFld (tgt : Expr) (f : Nat) (e : Expr)            -- tgt.F = e   (tgt points to a struct)
  | mapStore (m : Expr) (k : St → String) (e : Expr)       -- m[k] = e
  | mapDelete (m : Expr) (k : St → String)                 -- delete(m, k)
  | rangeMap (kx vx : String) (m : Expr) (body : List Stmt) -- for k, v := range m   (m: a variable holding the map)
  | rangePure (kx : String) (l : St → PData) (body : List Stmt) -- for _, k := range <pure list>
  | ite (c : St → Bool) (t e : List Stmt)
  | fail (c : St → Bool) (cls : String)                    -- if c { return nil, err }
  | block (tag : String) (body : List Stmt)                -- a call of another modelled function, expanded in place
  | opaque (tag : String)                                  -- a source statement outside the model's domain (no-op here)

def applyWrite (a : Nat) (c : Cell) : List (String × GoVal) → List (String × GoVal)
  | [] => []
  | (x, v) :: r => (x, write a c v) :: applyWrite a c r

/-- perform a heap write: every variable that reaches address `a` sees it -/
def St.write (st : St) (a : Nat) (c : Cell) : St :=
  { st with vars := applyWrite a c st.vars, log := st.log ++ [(a, c)] }

def St.stuck (st : St) (why : String) : St := { st with err := some ("stuck:" ++ why) }

/-- fold with early exit on error -/
def foldKeys (f : St → String → St) : List String → St → St
  | [], st => st
  | k :: r, st => foldKeys f r (f st k)

mutual
/-- `t`, `plan`: the type and resolved copy plan of `Project.deepCopy` -/
def execS (t : Ty) (plan : Plan) : Stmt → St → St
  | s, st =>
    if st.err.isSome then st else
    match s with
    | .assign x e => { st with vars := setVar x (e.eval st) st.vars }
    | .pset x f => { st with pvars := setP x (f st) st.pvars }
    | .allocMap x => { st with vars := setVar x (.map st.next []) st.vars, next := st.next + 1 }
    | .allocSlice x f =>
      match f st with
      | none => { st with vars := setVar x .nil st.vars }
      | some l => { st with vars := setVar x (.slice st.next (l.map fun s => (Key.idx, GoVal.scalar s))) st.vars, next := st.next + 1 }
    | .allocPtr x e => { st with vars := setVar x (.ptr st.next (e.eval st)) st.vars, next := st.next + 1 }
    | .deepCopy x e =>
      let v := e.eval st
      if hasTy t v then
        let r := exec plan v st.next
        { st with vars := setVar x r.1 st.vars, next := r.2 }
      else st.stuck "deepCopy of an ill-typed value"
    | .setPtrFld tgt f e =>
      match tgt.eval st with
      | .ptr a (.struct ks) => st.write a (.pointee (.struct (setKid (.fld f) (e.eval st) ks)))
      | _ => st.stuck "field store through a non-pointer"
    | .mapStore m k e =>
      match m.eval st with
      | .map a ks => st.write a (.kids (setKid (.str (k st)) (e.eval st) ks))
      | _ => st.stuck "store into a nil map"
    | .mapDelete m k =>
      match m.eval st with
      | .map a ks => st.write a (.kids (delKid (.str (k st)) ks))
      | _ => st
    | .rangeMap kx vx m body =>
      foldKeys (fun st' k =>
        if st'.err.isSome then st' else
        execL t plan body { st' with pvars := setP kx (some [k]) st'.pvars, vars := setVar vx (getIdx k (m.eval st')) st'.vars })
        (mapKeys (m.eval st)) st
    | .rangePure kx l body =>
      foldKeys (fun st' k =>
        if st'.err.isSome then st' else
        execL t plan body { st' with pvars := setP kx (some [k]) st'.pvars })
        ((l st).getD []) st
    | .ite c a b => if c st then execL t plan a st else execL t plan b st
    | .fail c cls => if c st then { st with err := some cls } else st
    | .block _ body => execL t plan body st
    | .opaque _ => st
def execL (t : Ty) (plan : Plan) : List Stmt → St → St
  | [], st => st
  | s :: r, st => execL t plan r (execS t plan s st)
end

mutual
/-- **receiver free**: no expression mentions the receiver variable `"p"` (a deep copy may take it as its source),
and no statement binds it -/
def Stmt.rf : Stmt → Bool
  | .assign x e => x != "p" && e.rf
  | .pset _ _ => true
  | .allocMap x => x != "p"
  | .allocSlice x _ => x != "p"
  | .allocPtr x e => x != "p" && e.rf
  | .deepCopy x _ => x != "p"
  | .setPtrFld tgt _ e => tgt.rf && e.rf
  | .mapStore m _ e => m.rf && e.rf
  | .mapDelete m _ => m.rf
  | .rangeMap _ vx m body => vx != "p" && m.rf && rfL body
  | .rangePure _ _ body => rfL body
  | .ite _ a b => rfL a && rfL b
  | .fail _ _ => true
  | .block _ body => rfL body
  | .opaque _ => true
def rfL : List Stmt → Bool
  | [] => true
  | s :: r => s.rf && rfL r
end

/-- run a derivation program on receiver `p` with the allocation frontier at `n` and pure arguments `args` -/
def runProg (t : Ty) (plan : Plan) (prog : List Stmt) (p : GoVal) (args : List (String × PData)) (n : Nat) : St :=
  execL t plan prog { vars := [("p", p)], pvars := args, next := n }

end CV.Heap
