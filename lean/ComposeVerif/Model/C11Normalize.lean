import ComposeVerif.Model.C11Defaults
import ComposeVerif.Model.Paths
/-!
# C11 — model of `loader.Normalize`  (loader/normalize.go)

`Normalize` = `normalizeNetworks` ; per-service loop ; `setNameFromKey`.  Every type assertion of the Go code
is a conjunct of one of the three *shape* predicates below.  They used to be unchecked (a failing one was a
panic); since the /repo repairs `fix: Normalize / normalizeNetworks / setNameFromKey report … as an error instead
of panicking` a failing one makes the function return an error (the model names the function in the class; the
wire only compares `err`, because which of several errors is reported depends on Go's map order).  When all hold
the result is the pure function `normalizePure`.  `Normalize` never panics any more (`normalize_never_panics`).

`clean` stands for Go's `path.Clean` (standard library).  The driver instantiates it with
`pathClean` below (tied by its own correspondence op); the general theorems only use that it is idempotent,
and `pathClean_idempotent` discharges that for the instance.
-/
namespace CV.C11
open CV CV.Val

abbrev Env := List (String × String)

def envLookup (env : Env) (k : String) : Option String :=
  match env with
  | [] => none
  | (k', v) :: r => if k = k' then some v else envLookup r k

/-! ## small string helpers (code-point level; only ASCII bytes are tested) -/

/-- `strings.Split(s, string(c))` -/
def splitChar (c : Char) : List Char → List (List Char)
  | [] => [[]]
  | x :: r =>
    if x = c then [] :: splitChar c r
    else match splitChar c r with
      | h :: t => (x :: h) :: t
      | [] => [[x]]

def hasPrefix (pre s : String) : Bool := pre.toList.isPrefixOf s.toList

def dropPrefix (pre s : String) : String := String.ofList (s.toList.drop pre.toList.length)

def containsChar (c : Char) (s : String) : Bool := s.toList.contains c

/-- `parts := strings.Split(link, ":"); if len(parts) == 2 { link = parts[0] }` -/
def linkTarget (s : String) : String :=
  match splitChar ':' s.toList with
  | [a, _] => String.ofList a
  | _ => s

/-- `strings.Split(vol, ":")[0]` -/
def volFromTarget (s : String) : String :=
  match splitChar ':' s.toList with
  | a :: _ => String.ofList a
  | [] => s

/-! ## `path.Clean` (lexical)

`path.Clean` and Unix `filepath.Clean` are the same lexical function; the model is C12's
`CV.Paths.clean` (Model/Paths.lean, `clean_idem` in Lemmas/PathsClean.lean), tied to `path.Clean`
by this property's own correspondence op `c11.clean`. -/

def pathClean (s : String) : String := String.ofList (CV.Paths.clean s.toList)

/-! ## `resolve` (build args / environment against the project environment) -/

def resolveStr (env : Env) (keepEmpty : Bool) (s : String) : Val × Bool :=
  if containsChar '=' s then (.str s, true)
  else match envLookup env s with
    | some v => (.str (s ++ "=" ++ v), true)
    | none => if keepEmpty then (.str s, true) else (.str "", false)

def resolveKVs (env : Env) (keepEmpty : Bool) : KVs → KVs
  | [] => []
  | (k, .null) :: r =>
    match envLookup env k with
    | some s => (k, .str s) :: resolveKVs env keepEmpty r
    | none => if keepEmpty then (k, .null) :: resolveKVs env keepEmpty r else resolveKVs env keepEmpty r
  | (k, v) :: r => (k, v) :: resolveKVs env keepEmpty r

mutual
def resolve (env : Env) (keepEmpty : Bool) : Val → Val × Bool
  | .seq xs => (.seq (resolveList env keepEmpty xs), true)
  | .map kvs => (.map (resolveKVs env keepEmpty kvs), true)
  | .str s => resolveStr env keepEmpty s
  | v => (v, false)
def resolveList (env : Env) (keepEmpty : Bool) : List Val → List Val
  | [] => []
  | x :: r =>
    match resolve env keepEmpty x with
    | (y, true) => y :: resolveList env keepEmpty r
    | (_, false) => resolveList env keepEmpty r
end

/-! ## `normalizeNetworks` -/

def defaultNet : Val := .map [("default", .null)]

/-- a service (without `network_mode`) that ends up attached to `default` -/
def svcUsesDefault (s : KVs) : Bool :=
  match lookup "networks" s with
  | none => true
  | some (.map []) => true
  | some (.map n) => (lookup "default" n).isSome
  | some _ => false

def nnService (s : KVs) : KVs :=
  if (lookup "network_mode" s).isSome then s
  else match lookup "networks" s with
    | none => insert "networks" defaultNet s
    | some (.map []) => insert "networks" defaultNet s
    | some _ => s

def nnServiceV : Val → Val
  | .map s => .map (nnService s)
  | v => v

def svcJoinsDefault : Val → Bool
  | .map s => !(lookup "network_mode" s).isSome && svcUsesDefault s
  | _ => false

def mapVals (f : Val → Val) (kvs : KVs) : KVs := kvs.map fun kv => (kv.1, f kv.2)

/-- update the values of existing keys in place (`m[k] = f(m[k])` for keys that are present); on the
association lists with distinct keys that represent Go maps this is exactly a sequence of such stores -/
def mapAt (f : String → Val → Val) (kvs : KVs) : KVs := kvs.map fun kv => (kv.1, f kv.1 kv.2)

def declaredNetworks (d : KVs) : KVs :=
  match lookup "networks" d with
  | some (.map n) => n
  | _ => []

def usesDefaultNetwork (d : KVs) : Bool :=
  match lookup "services" d with
  | some (.map svcs) => svcs.any fun kv => svcJoinsDefault kv.2
  | _ => false

def nnTop (k : String) (v : Val) : Val :=
  if k = "services" then
    match v with
    | .map svcs => .map (mapVals nnServiceV svcs)
    | v => v
  else v

def nnServices (d : KVs) : KVs := mapAt nnTop d

def nnNetworks (d : KVs) : KVs :=
  let nets := declaredNetworks d
  if (lookup "default" nets).isNone && usesDefaultNetwork d then insert "default" .null nets else nets

def normNetworks (d : KVs) : KVs :=
  let nets := nnNetworks d
  match nets with
  | [] => nnServices d
  | _ :: _ => insert "networks" (.map nets) (nnServices d)

/-- assertions of `normalizeNetworks` -/
def shapeNNService : Val → Bool
  | .map s =>
    (lookup "network_mode" s).isSome ||
      match lookup "networks" s with
      | none => true
      | some (.map _) => true
      | some _ => false
  | _ => false

def shapeNN (d : KVs) : Bool :=
  (match lookup "networks" d with
   | none => true
   | some (.map _) => true
   | some _ => false) &&
  (match lookup "services" d with
   | none => true
   | some (.map svcs) => svcs.all fun kv => shapeNNService kv.2
   | some _ => false)

/-! ## the per-service loop of `Normalize` -/

def depEntry (restart : Bool) : Val :=
  .map [("condition", .str "service_started"), ("restart", .bool restart), ("required", .bool true)]

/-- `if _, ok := dependsOn[k]; !ok { dependsOn[k] = e }` -/
def addDep (k : String) (e : Val) (deps : KVs) : KVs := setIfAbsent k e deps

def pullPolicyV : Val → Val
  | .str p => if p = "if_not_present" then .str "missing" else .str p
  | v => v

def normBuildArgs (env : Env) (b : KVs) : KVs :=
  match lookup "args" b with
  | some a => insert "args" (resolve env false a).1 b
  | none => b

def dockerfileDefault (b : KVs) : KVs :=
  match lookup "dockerfile" b, lookup "dockerfile_inline" b with
  | none, none => insert "dockerfile" (.str "Dockerfile") b
  | none, some .null => insert "dockerfile" (.str "Dockerfile") b
  | some .null, none => insert "dockerfile" (.str "Dockerfile") b
  | some .null, some .null => insert "dockerfile" (.str "Dockerfile") b
  | _, _ => b

def normBuild (env : Env) (b : KVs) : KVs :=
  normBuildArgs env (dockerfileDefault (setIfNil "context" (.str ".") b))

def normBuildV (env : Env) : Val → Val
  | .map b => .map (normBuild env b)
  | v => v

/-- `for _, (k, e) := range ks { if _, ok := deps[k]; !ok { deps[k] = e } }` -/
def addDeps (ks : List (String × Val)) (deps : KVs) : KVs :=
  ks.foldl (fun acc ke => addDep ke.1 ke.2 acc) deps

def namespaces : List String := ["network_mode", "ipc", "pid", "uts", "cgroup"]

def servicePrefix : String := "service:"
def containerPrefix : String := "container:"

/-- the dependency each `links` entry stands for -/
def linkDeps (links : List Val) : List (String × Val) :=
  links.map fun l => (linkTarget (strOf l), depEntry true)

/-- the dependency a `service:<name>` namespace reference stands for (`ref, _ := n.(string)`: a value that
is not a string — e.g. the `null` of an empty `pid:` — reads as the empty string and stands for none) -/
def nsDep (s : KVs) (ns : String) : Option (String × Val) :=
  match lookup ns s with
  | some (.str ref) => if hasPrefix servicePrefix ref then some (dropPrefix servicePrefix ref, depEntry true) else none
  | _ => none

def nsDeps (s : KVs) : List (String × Val) := namespaces.filterMap (nsDep s)

/-- the dependency a `volumes_from` entry stands for (`container:` references stand for none) -/
def vfDep (v : Val) : Option (String × Val) :=
  if hasPrefix containerPrefix (strOf v) then none else some (volFromTarget (strOf v), depEntry false)

def vfDeps (vf : List Val) : List (String × Val) := vf.filterMap vfDep

def seqOf : Option Val → List Val
  | some (.seq l) => l
  | _ => []

def mapOf : Option Val → KVs
  | some (.map m) => m
  | _ => []

/-- all implied dependencies of a service, in the order the loop visits them -/
def impliedList (s : KVs) : List (String × Val) :=
  linkDeps (seqOf (lookup "links" s)) ++ (nsDeps s ++ vfDeps (seqOf (lookup "volumes_from" s)))

/-- the final `dependsOn` mapping of one service -/
def impliedDeps (s : KVs) : KVs :=
  addDeps (impliedList s) (mapOf (lookup "depends_on" s))

def cleanVolume (clean : String → String) : Val → Val
  | .map vol => .map (insert "target" (.str (clean (strOf ((lookup "target" vol).getD .null)))) vol)
  | v => v

def normVolumesV (clean : String → String) : Val → Val
  | .seq vols => .seq (vols.map (cleanVolume clean))
  | v => v

/-- the attributes of a service that the loop rewrites in place -/
def svcAttr (clean : String → String) (env : Env) (k : String) (v : Val) : Val :=
  if k = "pull_policy" then pullPolicyV v
  else if k = "build" then normBuildV env v
  else if k = "environment" then (resolve env true v).1
  else if k = "volumes" then normVolumesV clean v
  else v

def setDeps (deps : KVs) (s : KVs) : KVs :=
  match deps with
  | [] => s
  | _ :: _ => insert "depends_on" (.map deps) s

/-- one iteration of the loop over `services` -/
def normService (clean : String → String) (env : Env) (s : KVs) : KVs :=
  setDeps (impliedDeps s) (mapAt (svcAttr clean env) s)

def normServiceV (clean : String → String) (env : Env) : Val → Val
  | .map s => .map (normService clean env s)
  | v => v

def nsTop (clean : String → String) (env : Env) (k : String) (v : Val) : Val :=
  if k = "services" then
    match v with
    | .map svcs => .map (mapVals (normServiceV clean env) svcs)
    | v => v
  else v

def normServices (clean : String → String) (env : Env) (d : KVs) : KVs := mapAt (nsTop clean env) d

/-- assertions of the loop body -/
def shapeVolume : Val → Bool
  | .map vol => match lookup "target" vol with
    | some (.str _) => true
    | _ => false
  | _ => false

def shapeService : Val → Bool
  | .map s =>
    (match lookup "build" s with
     | none => true
     | some (.map _) => true
     | some _ => false) &&
    (match lookup "depends_on" s with
     | none => true
     | some (.map _) => true
     | some _ => false) &&
    (match lookup "links" s with
     | none => true
     | some (.seq l) => l.all isStr
     | some _ => false) &&
    (match lookup "volumes" s with
     | none => true
     | some (.seq l) => l.all shapeVolume
     | some _ => false) &&
    (match lookup "volumes_from" s with
     | none => true
     | some (.seq l) => l.all isStr
     | some _ => false)
  | _ => false

def shapeServices (d : KVs) : Bool :=
  match lookup "services" d with
  | none => true
  | some (.map svcs) => svcs.all fun kv => shapeService kv.2
  | some _ => false

/-! ## `setNameFromKey` -/

/-- `isTrue` (loader/normalize.go): a boolean is itself; a string (interpolation skipped: not cast yet) is read with the
    YAML 1.1 spellings `toBoolean` converts later; anything else as `strconv.ParseBool(fmt.Sprint(x))` without the error -/
def isTrue (v : Val) : Bool :=
  match v with
  | .seq _ => false
  | .map _ => false
  | .bool b => b
  | .str s => ["true", "y", "yes", "on"].contains (String.ofList (s.toList.map Char.toLower))
  | v => ["1", "t", "T", "TRUE", "true", "True"].contains (fmtV v)

def resourceNames : List String := ["networks", "volumes", "configs", "secrets"]

def defaultName (proj : Option Val) (key : String) (res : KVs) : String :=
  match lookup "external" res with
  | some x => if isTrue x then key else fmtS proj ++ "_" ++ key
  | none => fmtS proj ++ "_" ++ key

def nameResourceKVs (proj : Option Val) (key : String) (res : KVs) : KVs :=
  setIfNil "name" (.str (defaultName proj key res)) res

def nameResource (proj : Option Val) (key : String) : Val → Val
  | .map res => .map (nameResourceKVs proj key res)
  | .null => .map (nameResourceKVs proj key [])
  | v => v

def nameSectionV (proj : Option Val) : Val → Val
  | .map top => .map (mapAt (nameResource proj) top)
  | v => v

def namesTop (proj : Option Val) (k : String) (v : Val) : Val :=
  if resourceNames.contains k then nameSectionV proj v else v

def setNames (d : KVs) : KVs := mapAt (namesTop (lookup "name" d)) d

def shapeResource : Val → Bool
  | .null => true
  | .map _ => true
  | _ => false

def shapeSection (d : KVs) (r : String) : Bool :=
  match lookup r d with
  | none => true
  | some (.map top) => top.all fun kv => shapeResource kv.2
  | some _ => false

def shapeNames (d : KVs) : Bool := resourceNames.all (shapeSection d)

/-! ## `Normalize` -/

def normalizePure (clean : String → String) (env : Env) (d : KVs) : KVs :=
  setNames (normServices clean env (normNetworks d))

def normalize (clean : String → String) (env : Env) (d : KVs) : Out KVs :=
  if !shapeNN d then .err "normalizeNetworks"
  else if !shapeServices d then .err "Normalize"
  else if !shapeNames d then .err "setNameFromKey"
  else .ok (normalizePure clean env d)

end CV.C11
