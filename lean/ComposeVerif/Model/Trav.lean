/-!
# Model of `graph.walk` (compose-go `graph/traversal.go`) as a labelled transition system

Core Lean only (linked into the driver).  One state component per piece of shared state of the Go
code, one label per primitive step:

| Go (graph/traversal.go)                                   | model                                   |
|-----------------------------------------------------------|-----------------------------------------|
| `t.status` (guarded by `t.mu`)                            | `St.status`                             |
| goroutine spawned by `visit` (`eg.Go(func() …)`)           | an entry of `St.workers` with a `WPc`   |
| `nodeCh` (buffered, capacity = number of vertices)         | `St.ch` (FIFO)                          |
| coordinator goroutine: `select`, `expect--`, adjacents loop | `cAlive`, `cSched`, `expect`, `received` (ghost) |
| caller: loop over `extremityNodes`, then `eg.Wait()`       | `St.m` (`none` = in `eg.Wait`)          |
| errgroup: semaphore of `maxConcurrency+1`, first error, ctx | `sem`, `firstErr`, `cancelled`          |
| the visitor callback                                      | `wBegin` (entry) … `wReturn v err` (return; environment step) |

`ready`, `enter`, `done` hold the mutex for their whole body, so each is one atomic step.
The order in which a `range` over a Go map yields the extremities / the adjacent vertices is a
scheduling choice of the model (`schedNext w v` may pick any `v` still in `todo`).
Direction is not a parameter of the LTS: `pre v` is the set that must be *visited* before `v`
may start (dependencies; dependents in reverse mode) and `post v` the set the coordinator tries
after `v` finished; the wire handler builds both from the edge list and the direction flag.
-/
namespace CV.Trav

abbrev V := Nat

inductive Status | absent | entered | visited
deriving DecidableEq, Repr

/-- program counter of a worker goroutine (the closure passed to `eg.Go` in `visit`) -/
inductive WPc
  | start                    -- spawned, before the skip test / visitor entry
  | running                  -- inside the visitor callback
  | returned (err : Bool)    -- visitor returned (or was skipped), before `t.done`
  | marked (err : Bool)      -- status = visited, before `nodeCh <- node`
  | sent (err : Bool)        -- handed off, before `return err`
deriving DecidableEq, Repr

/-- where a scheduling goroutine (caller or coordinator) is inside `visit` -/
inductive SubPc | next | ready (v : V) | enter (v : V) | spawn (v : V)
deriving DecidableEq, Repr

structure Sched where
  todo : List V
  sub : SubPc
deriving DecidableEq, Repr

structure Graph where
  verts : List V
  pre : V → List V
  post : V → List V
  /-- `t.skip`: with `WithRootNodesAndDown`, vertices whose visitor is not called -/
  skip : V → Bool

/-- ghost events: what the property observes -/
inductive Ev | start (v : V) | finish (v : V) (err : Bool)
deriving DecidableEq, Repr

structure St where
  status : V → Status
  workers : List (V × WPc)
  ch : List V
  received : List V          -- ghost: vertices the coordinator has taken from `nodeCh`, newest first
  cAlive : Bool
  cSched : Option Sched      -- none: at `select`
  expect : Nat
  m : Option Sched           -- none: in `eg.Wait`
  cancelled : Bool
  firstErr : Option V
  log : List Ev              -- ghost: visitor entries / returns, newest first
  errExits : List V          -- ghost: workers that returned a non-nil error to the errgroup, newest first
  extCancelled : Bool        -- the caller's own context has been cancelled (environment step `extCancel`)

inductive Who | M | C deriving DecidableEq, Repr

inductive Label
  | schedNext (w : Who) (v : V) | schedEnd (w : Who)
  | ready (w : Who) | enter (w : Who) | spawn (w : Who)
  | wBegin (v : V) | wReturn (v : V) (err : Bool) | wDone (v : V) | wSend (v : V) | wExit (v : V)
  | cRecv | cCtxDone
  | extCancel   -- environment: the context passed to `InDependencyOrder` is cancelled by its owner (at most once)
deriving DecidableEq, Repr

def setStatus (f : V → Status) (v : V) (s : Status) : V → Status := fun x => if x = v then s else f x

/-- errgroup slots in use: live workers + the coordinator -/
def sem (s : St) : Nat := s.workers.length + (if s.cAlive then 1 else 0)

def getSched (s : St) : Who → Option Sched
  | .M => s.m
  | .C => if s.cAlive then s.cSched else none

def putSched (s : St) (w : Who) (x : Option Sched) : St :=
  match w with
  | .M => { s with m := x }
  | .C => { s with cSched := x }

def setW (ws : List (V × WPc)) (v : V) (pc : WPc) : List (V × WPc) :=
  ws.map (fun p => if p.1 = v then (v, pc) else p)

def wpc (ws : List (V × WPc)) (v : V) : Option WPc := (ws.find? (·.1 = v)).map (·.2)

/-- `eg.Go` does not block -/
def slotFree (limit : Option Nat) (s : St) : Bool :=
  match limit with
  | none => true
  | some l => decide (sem s < l + 1)

def step? (g : Graph) (limit : Option Nat) (s : St) : Label → Option St
  | .schedNext w v =>
    match getSched s w with
    | some ⟨todo, .next⟩ => if v ∈ todo then some (putSched s w (some ⟨todo.erase v, .ready v⟩)) else none
    | _ => none
  | .schedEnd w =>
    match getSched s w with
    | some ⟨[], .next⟩ => some (putSched s w none)   -- M: go to `eg.Wait`; C: back to `select`
    | _ => none
  | .ready w =>
    match getSched s w with
    | some ⟨todo, .ready v⟩ =>
      if (g.pre v).all (fun d => s.status d == .visited) then some (putSched s w (some ⟨todo, .enter v⟩))
      else some (putSched s w (some ⟨todo, .next⟩))
    | _ => none
  | .enter w =>
    match getSched s w with
    | some ⟨todo, .enter v⟩ =>
      if s.status v = .absent then
        some (putSched { s with status := setStatus s.status v .entered } w (some ⟨todo, .spawn v⟩))
      else some (putSched s w (some ⟨todo, .next⟩))
    | _ => none
  | .spawn w =>
    match getSched s w with
    | some ⟨todo, .spawn v⟩ =>
      if slotFree limit s then
        some (putSched { s with workers := (v, .start) :: s.workers } w (some ⟨todo, .next⟩))
      else none
    | _ => none
  | .wBegin v =>
    if wpc s.workers v = some .start then
      if g.skip v then some { s with workers := setW s.workers v (.returned false) }
      else some { s with workers := setW s.workers v .running, log := .start v :: s.log }
    else none
  | .wReturn v e =>
    if wpc s.workers v = some .running then
      some { s with workers := setW s.workers v (.returned e), log := .finish v e :: s.log }
    else none
  | .wDone v =>
    match wpc s.workers v with
    | some (.returned e) => some { s with workers := setW s.workers v (.marked e), status := setStatus s.status v .visited }
    | _ => none
  | .wSend v =>
    match wpc s.workers v with
    | some (.marked e) => some { s with workers := setW s.workers v (.sent e), ch := s.ch ++ [v] }
    | _ => none
  | .wExit v =>
    match wpc s.workers v with
    | some (.sent e) =>
      some { s with workers := s.workers.filter (·.1 ≠ v),
                    cancelled := s.cancelled || e,
                    firstErr := if e then (match s.firstErr with | some x => some x | none => some v) else s.firstErr,
                    errExits := if e then v :: s.errExits else s.errExits }
    | _ => none
  | .cRecv =>
    if s.cAlive && s.cSched.isNone then
      match s.ch with
      | v :: rest =>
        let s' := { s with ch := rest, received := v :: s.received, expect := s.expect - 1 }
        if s.expect - 1 = 0 then some { s' with cAlive := false }
        else some { s' with cSched := some ⟨g.post v, .next⟩ }
      | [] => none
    else none
  | .cCtxDone =>
    -- `case <-ctx.Done(): <-spawned; return nil`: the coordinator keeps its errgroup slot until the caller has left
    -- the extremities loop (`close(spawned)`, i.e. `m = none`)
    if s.cAlive && s.cSched.isNone && s.cancelled && s.m.isNone then some { s with cAlive := false } else none
  | .extCancel =>
    -- the errgroup's context is derived from the caller's: it is done from now on; no error is recorded
    if s.extCancelled then none else some { s with cancelled := true, extCancelled := true }

/- (the `extCancel` case of `step?` is the last one above) -/
def init (g : Graph) : St :=
  { status := fun _ => .absent, workers := [], ch := [], received := [], cAlive := true, cSched := none,
    expect := g.verts.length, m := some ⟨g.verts.filter (fun v => (g.pre v).isEmpty), .next⟩,
    cancelled := false, firstErr := none, log := [], errExits := [], extCancelled := false }

inductive Reach (g : Graph) (lim : Option Nat) : St → Prop
  | init : Reach g lim (init g)
  | step {s s' l} : Reach g lim s → step? g lim s l = some s' → Reach g lim s'

/-- `walk` has returned: the caller is past `eg.Wait`, i.e. no errgroup goroutine is left -/
def terminal (s : St) : Prop := s.m = none ∧ s.workers = [] ∧ s.cAlive = false

instance (s : St) : Decidable (terminal s) := by unfold terminal; infer_instance

/-- run a label sequence -/
def runL (g : Graph) (lim : Option Nat) (s : St) : List Label → Option St
  | [] => some s
  | l :: ls => (step? g lim s l).bind (runL g lim · ls)

/-- number of visitor callbacks in progress -/
def running (s : St) : Nat := (s.workers.filter (fun p => p.2 == .running)).length

/-! ### `t.skip` / `vertex.descendents` (graph/traversal.go:195-213, graph/graph.go:67-75)

`deps v` = the services `v` depends on (`vertex.children`), whatever the direction of the walk. -/

/-- `descendents`, duplicates included; `fuel` bounds the recursion depth (any value ≥ the number of
vertices is enough on an acyclic graph) -/
def descendents (deps : V → List V) : Nat → V → List V
  | 0, _ => []
  | f + 1, v => (deps v).flatMap (fun n => n :: descendents deps f n)

def skipOf (deps : V → List V) (fuel : Nat) (after : List V) (v : V) : Bool :=
  if after.isEmpty then false
  else if after.contains v then false
  else !(after.any (fun r => (descendents deps fuel v).contains r))

end CV.Trav
