import ComposeVerif.Model.Val
import ComposeVerif.Model.Path
/-!
# C11 — models of `transform.SetDefaultValues` and of the defaulting halves of
`transformDependsOn` / `transformEnvFile`   (transform/{defaults,build,ports,secrets,devices,dependson,envfile}.go)

Conventions (DESIGN.md §2): Go maps are association lists iterated in list order; `m[k] = v`
is `Val.insert` (replace in place, else append); panics are outcomes.
-/
namespace CV.C11
open CV CV.Val

/-- outcome of a modelled Go function -/
inductive Out (α : Type) where
  | ok (a : α)
  | err (cls : String)
  | panic (site : String)
deriving Repr

namespace Out
def map {α β : Type} (f : α → β) : Out α → Out β
  | .ok a => .ok (f a)
  | .err e => .err e
  | .panic s => .panic s
end Out

/-- `if _, ok := m[k]; !ok { m[k] = v }` -/
def setIfAbsent (k : String) (v : Val) (m : KVs) : KVs :=
  match lookup k m with
  | some _ => m
  | none => insert k v m

/-- `if m[k] == nil { m[k] = v }`  (a missing key and an explicit `null` are the same to Go here) -/
def setIfNil (k : String) (v : Val) (m : KVs) : KVs :=
  match lookup k m with
  | none => insert k v m
  | some .null => insert k v m
  | some _ => m

/-- `fmt.Sprintf("%s", x)` for the operand kinds the generators produce (`x` read from a map: absent = nil) -/
def fmtS : Option Val → String
  | some (.str s) => s
  | none => "%!s(<nil>)"
  | some .null => "%!s(<nil>)"
  | some (.bool b) => "%!s(bool=" ++ (if b then "true" else "false") ++ ")"
  | some (.int i) => "%!s(int=" ++ toString i ++ ")"
  | some (.float r) => "%!s(float64=" ++ r ++ ")"
  | some (.seq _) => "%!s(?)"
  | some (.map _) => "%!s(?)"

/-! ## the five handlers of the `defaultValues` table -/

/-- transform/build.go `defaultBuildContext` -/
def defaultBuildContext : Val → Out Val
  | .map m => .ok (.map (setIfAbsent "context" (.str ".") m))
  | v => .ok v

/-- transform/secrets.go `defaultSecretMount` -/
def defaultSecretMount : Val → Out Val
  | .map m => .ok (.map (setIfAbsent "target" (.str ("/run/secrets/" ++ fmtS (lookup "source" m))) m))
  | _ => .err "unsupportedType"

/-- transform/ports.go `portDefaults` -/
def portDefaults : Val → Out Val
  | .map m => .ok (.map (setIfAbsent "mode" (.str "ingress") (setIfAbsent "protocol" (.str "tcp") m)))
  | v => .ok v

/-- transform/devices.go `deviceRequestDefaults` -/
def deviceCount (m : KVs) : KVs :=
  match lookup "count" m, lookup "device_ids" m with
  | none, none => insert "count" (.str "all") m
  | _, _ => m

def deviceRequestDefaults : Val → Out Val
  | .map m => .ok (.map (deviceCount m))
  | _ => .err "invalidType"

/-- dispatch on the handler *name* found in the regenerated table -/
def applyHandler (h : String) (v : Val) : Out Val :=
  if h = "defaultBuildContext" then defaultBuildContext v
  else if h = "defaultSecretMount" then defaultSecretMount v
  else if h = "portDefaults" then portDefaults v
  else if h = "deviceRequestDefaults" then deviceRequestDefaults v
  else .err ("unknownHandler:" ++ h)

/-! ## the walker `setDefaults` (first matching row wins; no descent below a matched node) -/

mutual
def setDefaults (tbl : List (List String × String)) (p : TPath) (v : Val) : Out Val :=
  match TPath.firstMatch tbl p with
  | some h => applyHandler h v
  | none =>
    match v with
    | .map kvs =>
      match setDefaultsKVs tbl p kvs with
      | .ok r => .ok (.map r)
      | .err e => .err e
      | .panic s => .panic s
    | .seq xs =>
      match setDefaultsList tbl p xs with
      | .ok r => .ok (.seq r)
      | .err e => .err e
      | .panic s => .panic s
    | v => .ok v
def setDefaultsKVs (tbl : List (List String × String)) (p : TPath) : List (String × Val) → Out (List (String × Val))
  | [] => .ok []
  | (k, v) :: r =>
    match setDefaults tbl (p.next k) v with
    | .ok v' =>
      match setDefaultsKVs tbl p r with
      | .ok r' => .ok ((k, v') :: r')
      | .err e => .err e
      | .panic s => .panic s
    | .err e => .err e
    | .panic s => .panic s
def setDefaultsList (tbl : List (List String × String)) (p : TPath) : List Val → Out (List Val)
  | [] => .ok []
  | v :: r =>
    match setDefaults tbl (p.next "[]") v with
    | .ok v' =>
      match setDefaultsList tbl p r with
      | .ok r' => .ok (v' :: r')
      | .err e => .err e
      | .panic s => .panic s
    | .err e => .err e
    | .panic s => .panic s
end

/-- `transform.SetDefaultValues` -/
def setDefaultValues (tbl : List (List String × String)) (d : KVs) : Out Val :=
  setDefaults tbl TPath.root (.map d)

/-! ## defaulting halves of the canonical transformers -/

def isMap : Val → Bool
  | .map _ => true
  | _ => false

def isStr : Val → Bool
  | .str _ => true
  | _ => false

def strOf : Val → String
  | .str s => s
  | _ => ""

/-- the two defaults of one long-form `depends_on` entry -/
def depDefaults (d : KVs) : KVs :=
  setIfAbsent "required" (.bool true) (setIfAbsent "condition" (.str "service_started") d)

def depDefaultsV : Val → Val
  | .map d => .map (depDefaults d)
  | v => v

def shortDep : Val := .map [("condition", .str "service_started"), ("required", .bool true)]

/-- transform/dependson.go `transformDependsOn` -/
def transformDependsOn : Val → Out Val
  | .map kvs =>
    if kvs.all (fun kv => isMap kv.2) then .ok (.map (kvs.map fun kv => (kv.1, depDefaultsV kv.2)))
    else .err "unsupportedValue"
  | .seq xs =>
    if xs.all isStr then .ok (.map (xs.foldl (fun acc x => insert (strOf x) shortDep acc) []))
    else .err "unsupportedItem"
  | _ => .err "invalidType"

/-- transform/envfile.go `transformEnvFileValue` (anything but a string or a mapping becomes `nil`) -/
def envFileValue : Val → Val
  | .str s => .map [("path", .str s), ("required", .bool true)]
  | .map m => .map (setIfAbsent "required" (.bool true) m)
  | _ => .null

/-- transform/envfile.go `transformEnvFile` -/
def transformEnvFile : Val → Out Val
  | .str s => .ok (.seq [envFileValue (.str s)])
  | .seq xs => .ok (.seq (xs.map envFileValue))
  | _ => .err "invalidType"

/-- `transform.Canonical` restricted to services whose only non-scalar attributes are
`depends_on` and `env_file` (the two transformers with a defaulting half) -/
def canonSvcAttrs : List (String × Val) → Out (List (String × Val))
  | [] => .ok []
  | (k, v) :: r =>
    let hv : Out Val :=
      if k = "depends_on" then transformDependsOn v
      else if k = "env_file" then transformEnvFile v
      else .ok v
    match hv with
    | .ok v' =>
      match canonSvcAttrs r with
      | .ok r' => .ok ((k, v') :: r')
      | e => e
    | .err e => .err e
    | .panic s => .panic s

def canonServices : List (String × Val) → Out (List (String × Val))
  | [] => .ok []
  | (k, .map s) :: r =>
    match canonSvcAttrs s with
    | .ok s' =>
      match canonServices r with
      | .ok r' => .ok ((k, .map s') :: r')
      | e => e
    | .err e => .err e
    | .panic s => .panic s
  | (k, v) :: r =>
    match canonServices r with
    | .ok r' => .ok ((k, v) :: r')
    | e => e

def canonicalLite (d : KVs) : Out Val :=
  match lookup "services" d with
  | some (.map svcs) =>
    match canonServices svcs with
    | .ok s' => .ok (.map (insert "services" (.map s') d))
    | .err e => .err e
    | .panic s => .panic s
  | _ => .ok (.map d)

end CV.C11
