import ComposeVerif.Model.Derivations
/-!
# C14 (round 6) — the marshaller option path as a heap program

`(*marshallOptions).apply(p)` (types/project.go) is the only function of package `types` outside the nine derivations and
`deepCopy` itself that produces a `*Project` from a `*Project`; `applyMarshallOptions` calls it and `MarshalYAML` /
`MarshalJSON` read the project it returns.

```go
func (opt *marshallOptions) apply(p *Project) *Project {
	if opt.secretsContent {
		p = p.deepCopy()
		for name, config := range p.Secrets {
			config.marshallContent = true
			p.Secrets[name] = config
		}
	}
	return p
}
```

The heap language never rebinds the receiver variable, so the copy is called `pc` (the translator reads
`if c { p = p.deepCopy(); B }; return p` as `if c { pc := p.deepCopy(); B[p:=pc]; return pc }; return p`).
With the option the function is a derivation (`applySecrets`: receiver free); without it, it is the identity
(`applyPlain`): the project handed to the encoder *is* the receiver, and nothing is written.
-/
namespace CV.Heap.Deriv
open CV.Heap

def fMarshallContent := fid "marshallContent"

/-- the branch taken under `WithSecretContent` -/
def applySecrets : List Stmt := [
  .deepCopy "pc" (.var "p"),
  .rangeMap "name" "config" (.fld (.var "pc") fSecrets) [
    .assign "config" (.withFld (.var "config") fMarshallContent (.str fun _ => "b:true")),
    .mapStore (.fld (.var "pc") fSecrets) (·.pstr "name") (.var "config")],
  .assign "result" (.var "pc")]

/-- no option: the receiver itself is returned -/
def applyPlain : List Stmt := [.assign "result" (.var "p")]

/-- `apply` as a whole; the pure argument `secretsContent` is `["1"]` when the option is set -/
def applyProg : List Stmt := [.ite (fun st => st.plist "secretsContent" == ["1"]) applySecrets applyPlain]

/-- the programs the correspondence `c14.deriv` can run: the nine derivations and the option path -/
def programsAll : List (String × List Stmt) := programs ++ [("MarshalApply", applyProg)]

/-- what every function of package `types` that returns a `*Project` is, for the theorems of `Props/C14Apply.lean`:
`prog name` = it has the heap program `name` of `programsAll`; `copy` = it is the generated deep copy itself;
`delegate f` = it returns what `f` returns (pinned by its source text) -/
inductive Cover where
  | prog (name : String)
  | copy
  | delegate (f : String)
  deriving DecidableEq, Repr

def coverage : List (String × Cover) := [
  ("Project.WithImagesResolved", .prog "WithImagesResolved"),
  ("Project.WithProfiles", .prog "WithProfiles"),
  ("Project.WithSelectedServices", .prog "WithSelectedServices"),
  ("Project.WithServicesDisabled", .prog "WithServicesDisabled"),
  ("Project.WithServicesEnabled", .prog "WithServicesEnabled"),
  ("Project.WithServicesEnvironmentResolved", .prog "WithServicesEnvironmentResolved"),
  ("Project.WithServicesLabelsResolved", .prog "WithServicesLabelsResolved"),
  ("Project.WithServicesTransform", .prog "WithServicesTransform"),
  ("Project.WithoutUnnecessaryResources", .prog "WithoutUnnecessaryResources"),
  ("Project.deepCopy", .copy),
  ("applyMarshallOptions", .delegate "marshallOptions.apply"),
  ("marshallOptions.apply", .prog "MarshalApply")]

/-- a coverage entry is closed: its program exists / the function it delegates to is covered -/
def Cover.closed : Cover → Bool
  | .prog n => (programsAll.map (·.1)).contains n
  | .copy => true
  | .delegate f => (coverage.map (·.1)).contains f

end CV.Heap.Deriv
