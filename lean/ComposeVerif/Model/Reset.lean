import ComposeVerif.Model.Unicity
/-!
# `!reset` / `!override` (loader/reset.go) and the per-document step of `loadYamlFile` (loader/loader.go)

A YAML document is a tree of nodes that carry an optional `!reset` / `!override` tag.
`resolve` mirrors `ResetProcessor.resolveReset`: it records the path of every tagged node, drops `!reset`
nodes from their parent and keeps `!override` nodes *without descending into them*.  Quirks kept:
sequence items are recorded under `path.Next("3")` while `Apply` looks for `path.Next("[3]")`, so a tag
on (or below) a sequence item never removes anything from the base; at the document root a key is not
escaped, so a top-level key with dots is several path parts.

Outside the model (generators stay away; DESIGN §10 #3 belongs to C01): alias nodes, `<<` merge keys,
a tag on the document root, tags nested inside an `!override` node, non-string `!override` scalars.

`applyNull` mirrors `ResetProcessor.Apply` (`applyNullOverrides`): every mapping key whose path matches a
recorded path is deleted from the **accumulated model** before the document is merged into it.

`docStep` is the part of `processRawYaml` that C04 is about: reset → `override.Merge` →
`override.EnforceUnicity`; the stages in between and after (interpolation, extends, include, schema,
canonicalisation, omit-empty) are the parameter `post` (they belong to other properties and are covered
here by the split oracle on the real loader).  `loadDocs` is the fold over documents, `loadFiles` the
fold over files.
-/
namespace CV.Reset
open CV CV.Val CV.Merge

inductive Tag where
  | none | reset | override
deriving Repr, BEq, DecidableEq

inductive YNode where
  | scalar (tag : Tag) (v : Val)
  | seq (tag : Tag) (items : List YNode)
  | map (tag : Tag) (entries : List (String × YNode))
deriving Repr

instance : Inhabited YNode := ⟨.scalar .none .null⟩

def YNode.tag : YNode → Tag
  | .scalar t _ => t | .seq t _ => t | .map t _ => t

mutual
/-- `resolveReset(node, path)`: the surviving node (`none` = dropped) and the recorded paths in document order -/
def resolve (n : YNode) (p : TPath) : Option YNode × List TPath :=
  match n with
  | .scalar .reset _ => (none, [p])
  | .seq .reset _ => (none, [p])
  | .map .reset _ => (none, [p])
  | .scalar .override v => (some (.scalar .override v), [p])
  | .seq .override xs => (some (.seq .override xs), [p])
  | .map .override es => (some (.map .override es), [p])
  | .scalar .none v => (some (.scalar .none v), [])
  | .seq .none xs => let r := resolveSeq xs p 0; (some (.seq .none r.1), r.2)
  | .map .none es => let r := resolveMap es p; (some (.map .none r.1), r.2)
def resolveSeq : List YNode → TPath → Nat → List YNode × List TPath
  | [], _, _ => ([], [])
  | x :: r, p, i =>
    let a := resolve x (next p (toString i))
    let b := resolveSeq r p (i + 1)
    (match a.1 with | some y => y :: b.1 | none => b.1, a.2 ++ b.2)
def resolveMap : List (String × YNode) → TPath → List (String × YNode) × List TPath
  | [], _ => ([], [])
  | (k, x) :: r, p =>
    let a := resolve x (next p k)
    let b := resolveMap r p
    (match a.1 with | some y => (k, y) :: b.1 | none => b.1, a.2 ++ b.2)
end

mutual
/-- `node.Decode(&raw)` on the modelled fragment (tags are ignored by the decoder) -/
def decode : YNode → Val
  | .scalar _ v => v
  | .seq _ xs => .seq (decodeL xs)
  | .map _ es => .map (decodeKV es)
def decodeL : List YNode → List Val
  | [] => []
  | x :: r => decode x :: decodeL r
def decodeKV : List (String × YNode) → KVs
  | [] => []
  | (k, x) :: r => (k, decode x) :: decodeKV r
end

def matchesAny (paths : List TPath) (p : TPath) : Bool := paths.any fun pat => TPath.pmatch pat p

mutual
/-- `applyNullOverrides(target, path)` -/
def applyNull (paths : List TPath) (v : Val) (p : TPath) : Val :=
  match v with
  | .map kvs => .map (applyKVs paths kvs p)
  | .seq xs => .seq (applySeq paths xs p 0)
  | v => v
def applyKVs (paths : List TPath) : KVs → TPath → KVs
  | [], _ => []
  | (k, e) :: r, p =>
    if matchesAny paths (next p k) then applyKVs paths r p
    else (k, applyNull paths e (next p k)) :: applyKVs paths r p
def applySeq (paths : List TPath) : List Val → TPath → Nat → List Val
  | [], _, _ => []
  | e :: r, p, i =>
    (if matchesAny paths (next p ("[" ++ toString i ++ "]")) then e
     else applyNull paths e (next p ("[" ++ toString i ++ "]"))) :: applySeq paths r p (i + 1)
end

/-- a document as the loader sees it after `yaml.Decode(&ResetProcessor{…})`: the decoded tree and the recorded paths -/
def readDoc (doc : YNode) : Val × List TPath :=
  match resolve doc TPath.root with
  | (some n, ps) => (decode n, ps)
  | (none, ps) => (.null, ps)

/-- the C04 part of `processRawYaml`: `processor.Apply(dict)`; `override.Merge(dict, cfg)`;
`override.EnforceUnicity(dict)`; then the remaining stages `post` -/
def docStep (post : Val → Out Val) (dict : Val) (doc : YNode) : Out Val :=
  let (cfg, paths) := readDoc doc
  (merge (applyNull paths dict TPath.root) cfg).bind fun m =>
  (Unicity.enforceTop m).bind post

/-- the decode loop of `loadYamlFile` over the documents of one file -/
def loadDocs (post : Val → Out Val) : Val → List YNode → Out Val
  | dict, [] => .ok dict
  | dict, d :: r => (docStep post dict d).bind fun dict' => loadDocs post dict' r

/-- `loadYamlModel`: `for _, file := range config.ConfigFiles` (a file = its list of documents) -/
def loadFiles (post : Val → Out Val) : Val → List (List YNode) → Out Val
  | dict, [] => .ok dict
  | dict, f :: r => (loadDocs post dict f).bind fun dict' => loadFiles post dict' r

/-! ### `processRawYaml` as written: a second `EnforceUnicity` closes the step

```go
dict, err = override.Merge(dict, cfg)
dict, err = override.EnforceUnicity(dict)
… schema.Validate(dict) … transform.Canonical(dict, …) … OmitEmpty(dict)      // `post`
// Canonical transformation can reveal duplicates, typically as ports can be a range and conflict with an override
dict, err = override.EnforceUnicity(dict)
```
The stages of other properties stay the parameter `post`; whatever they do, the step ends with `EnforceUnicity`. -/

/-- the stages after the first `EnforceUnicity`, followed by the second one -/
def postU (post : Val → Out Val) (v : Val) : Out Val := (post v).bind Unicity.enforceTop

/-- the per-document step with both `EnforceUnicity` calls -/
def docStepU (post : Val → Out Val) (dict : Val) (doc : YNode) : Out Val := docStep (postU post) dict doc

def loadDocsU (post : Val → Out Val) : Val → List YNode → Out Val := loadDocs (postU post)

def loadFilesU (post : Val → Out Val) : Val → List (List YNode) → Out Val := loadFiles (postU post)

end CV.Reset
