import ComposeVerif.Model.Dotenv
/-!
# Branch trace of the env-file parser model (property C18, round 5)

`parseLoopT` is `parseLoop` with one more accumulator: a bit mask of the model branches the run went
through.  `Lemmas/DotenvR5.lean` proves `(parseLoopT …).1 = parseLoop …` (the traced run IS the model), so
the differential correspondence can run the traced version and the harness can measure, per run of the
check, how often every branch of the model was reached by an input on which model and real code agreed.
A branch that is never reached is reported by the check (`modelBranchCoverage`).

The tags of one iteration are computed from the results of the model's own functions (`stmtStart`,
`dropExport`, `scanKey`, `locateKey`, `extractValue`, `quotedLoop`, …) on the statement at hand; only the
tags of `expEsc` come from a mirror of its recursion (`escTags`, measurement only).
-/
namespace CV.Dotenv
open CV CV.Template

def tagNames : List String := [
  /- 0 -/ "stmt:end-of-input",
  /- 1 -/ "stmt:comment-line-skipped",
  /- 2 -/ "stmt:leading-space-skipped",
  /- 3 -/ "export:stripped",
  /- 4 -/ "export:prefix-of-longer-key",
  /- 5 -/ "export:bare-word-at-eof",
  /- 6 -/ "scanKey:delim-eq-colon",
  /- 7 -/ "scanKey:delim-newline",
  /- 8 -/ "scanKey:noDelim",
  /- 9 -/ "scanKey:bad",
  /- 10 -/ "scanKey:space-skipped",
  /- 11 -/ "locateKey:zeroLength",
  /- 12 -/ "locateKey:unexpectedChar",
  /- 13 -/ "locateKey:bare-at-eof",
  /- 14 -/ "locateKey:delimited",
  /- 15 -/ "locateKey:key-right-trimmed",
  /- 16 -/ "parse:keySpace",
  /- 17 -/ "parse:inherited-found",
  /- 18 -/ "parse:inherited-missing",
  /- 19 -/ "parse:value-error",
  /- 20 -/ "parse:value-ok",
  /- 21 -/ "parse:later-assignment-overwrites",
  /- 22 -/ "value:unquoted",
  /- 23 -/ "value:unq-inline-comment-cut",
  /- 24 -/ "value:unq-right-trimmed",
  /- 25 -/ "value:unq-at-eof",
  /- 26 -/ "value:dq-closed",
  /- 27 -/ "value:sq-closed",
  /- 28 -/ "value:unterminated",
  /- 29 -/ "value:unterminated-multiline",
  /- 30 -/ "value:template-error",
  /- 31 -/ "quoted:escaped-quote",
  /- 32 -/ "quoted:backslash-pair-kept",
  /- 33 -/ "quoted:multiline",
  /- 34 -/ "esc:lone-trailing-backslash",
  /- 35 -/ "esc:simple",
  /- 36 -/ "esc:octal-accepted",
  /- 37 -/ "esc:octal-rejected",
  /- 38 -/ "esc:other-pair-kept",
  /- 39 -/ "esc:plain-char",
  /- 40 -/ "value:has-dollar",
  /- 41 -/ "value:dq-rest-nonempty",
  /- 42 -/ "value:empty"]

def tag (b : Bool) (n : Nat) : Nat := if b then 1 <<< n else 0

/-- mirror of the recursion of `expEsc`: which of its branches a text goes through -/
def escTags : Nat → Str → Nat
  | _, [] => 0
  | skip + 1, _ :: cs => escTags skip cs
  | 0, c :: cs =>
    if c == '\\' then
      match cs with
      | [] => tag true 34
      | d :: ds =>
        match simpleEscape d with
        | some _ => tag true 35 ||| escTags 1 cs
        | none =>
          if d == '0' then
            let digits := (ds.take 3).takeWhile Char.isDigit
            tag (octalRepl digits != '\\' :: digits) 36 ||| tag (octalRepl digits == '\\' :: digits) 37 |||
              escTags (1 + digits.length) cs
          else tag true 38 ||| escTags 0 cs
    else tag true 39 ||| escTags 0 cs

/-- tags of the value extraction on `left` -/
def valueTags (left : Str) (out : Map) (lookup : Env) : Nat :=
  let res := extractValue left out lookup
  let isTmplErr := match res with
    | .ok (.error (.tmpl _)) => true
    | _ => false
  tag isTmplErr 30 |||
  (match quotePrefix left with
   | none =>
     let line := (cut ['\n'] left).1
     let c := (cut [' ', '#'] line).1
     tag true 22 ||| tag (c != line) 23 ||| tag (trimRightU c != c) 24 ||| tag (!left.contains '\n') 25 |||
       tag (c.contains '$') 40 ||| tag (trimRightU c).isEmpty 42
   | some q =>
     match quotedLoop q left (left.length - 1) 1 false [] with
     | .oob => 0
     | .unterminated => tag true 28 ||| tag (valEndIndex left < left.length) 29
     | .closed chars i =>
       tag (q == '"') 26 ||| tag (q != '"') 27 ||| tag (chars.length + 1 < i) 31 ||| tag (chars.contains '\\') 32 |||
         tag (chars.contains '\n') 33 ||| tag (chars.contains '$') 40 ||| tag (i + 1 < left.length) 41 |||
         tag chars.isEmpty 42 |||
         (if q == '"' then escTags 0 chars else 0))

/-- tags of one iteration of the statement loop on `src` -/
def iterTags (src : Str) (out : Map) (lookup : Env) : Nat :=
  match stmtStart (src.length + 1) src with
  | .error _ => 0
  | .ok cs =>
    tag cs.isEmpty 0 ||| tag (src.any (· == '#') && cs != src.dropWhile isSpaceU) 1 |||
    tag (match src with | c :: _ => isSpaceU c | [] => false) 2 |||
    (if cs.isEmpty then 0 else
      let s := dropExport cs
      let hasExp := exportKw.isPrefixOf cs
      tag (hasExp && s != cs) 3 ||| tag (hasExp && s == cs && 6 < cs.length) 4 ||| tag (hasExp && cs.length == 6) 5 |||
      (match scanKey s 0 with
       | .delim i inh => tag (!inh) 6 ||| tag inh 7 ||| tag ((s.take i).any isSpaceNB) 10
       | .noDelim => tag true 8 ||| tag (s.any isSpaceNB) 10
       | .bad => tag true 9) |||
      (match locateKey cs with
       | .error _ => 0
       | .ok (.error e) => tag (e == .zeroLength) 11 ||| tag (e == .unexpectedChar) 12
       | .ok (.ok (key, left, inherited)) =>
         tag (scanKey s 0 == .noDelim) 13 ||| tag (scanKey s 0 != .noDelim) 14 |||
         tag (match scanKey s 0 with | .delim i _ => key.length < i | _ => key.length < s.length) 15 |||
         (if key.any isSpaceU then tag true 16
          else if inherited then tag (lookup key).isSome 17 ||| tag (lookup key).isNone 18
          else
            (match extractValue left out lookup with
             | .ok (.ok _) => tag true 20 ||| tag (get out key).isSome 21
             | _ => tag true 19) ||| valueTags left out lookup)))

/-- `parseLoop` with the branch mask as one more accumulator -/
def parseLoopT : Nat → Str → Map → Env → Nat → POut × Nat
  | 0, _, _, _, t => (.panic .fuel, t)
  | fuel + 1, src, out, lookup, t0 =>
    let t := t0 ||| iterTags src out lookup
    match stmtStart (src.length + 1) src with
    | .error s => (.panic s, t)
    | .ok cs =>
      if cs.isEmpty then (.ok out, t)
      else
        match locateKey cs with
        | .error s => (.panic s, t)
        | .ok (.error e) => (.err e out, t)
        | .ok (.ok (key, left, inherited)) =>
          if key.any isSpaceU then (.err .keySpace out, t)
          else if inherited then
            match lookup key with
            | some v => parseLoopT fuel left (put out key v) lookup t
            | none => parseLoopT fuel left out lookup t
          else
            match extractValue left out lookup with
            | .error s => (.panic s, t)
            | .ok (.error e) => (.err e out, t)
            | .ok (.ok (v, left')) => parseLoopT fuel left' (put out key v) lookup t

def parseT (src : Str) (lookup : Env) : POut × Nat := parseLoopT (src.length + 2) src [] lookup 0

end CV.Dotenv
