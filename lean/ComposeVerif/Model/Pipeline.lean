import ComposeVerif.Model.C01Stages
import ComposeVerif.Model.Interp
import ComposeVerif.Model.Merge
import ComposeVerif.Model.Unicity
import ComposeVerif.Model.ShortTransform
import ComposeVerif.Model.C11Defaults
import ComposeVerif.Model.C11Normalize
import ComposeVerif.Model.Validate
import ComposeVerif.Model.Paths
import ComposeVerif.Model.Secrets
import ComposeVerif.Model.Schema
import ComposeVerif.Model.Reset
import ComposeVerif.Model.ExtendsMerge
import ComposeVerif.Gen.Schema
import ComposeVerif.Gen.Tables
/-!
# The composed loader pipeline: `loader.LoadModelWithContext` on already-parsed documents

The stage models (`Interp`, `Merge`, `Unicity`, `Short`, `C11`, `Validate`, `Paths`, `Secrets`, `Schema`) each
describe ONE function of the loader.  This module is the glue the Go code has between them —
`loadYamlFile.processRawYaml`, `loadYamlModel`, `load` (loader/loader.go) — as one executable function, so that
the *whole* dictionary pipeline is inside the model and can be run against `loader.LoadModelWithContext`:

    per file / document (`processRawYaml`):
        convert → [Interpolate] → fixEmpty → (ApplyExtends) → (reset) → (ApplyInclude)
        → Merge(dict, cfg) → EnforceUnicity → [schema.Validate; drop `version`] → Canonical → OmitEmpty → EnforceUnicity
    after the last file (`loadYamlModel`):
        [SetDefaultValues] → [validation.Validate] → [ResolveRelativePaths] → ResolveEnvironment
    `load`:
        empty-model test → project-name test → [name := projectName; Normalize]

Scope of this composition (exactly what the correspondence streams `pipeline.load` / `pipeline.loadY` drive): documents
handed over as `ConfigFile.Config` trees, or files given as YAML text (`loadY`: several `---` documents, `!reset` /
`!override` through C04's `Reset` model); `SkipInclude` set and `extends` restricted to same-file bases (the stages that
read the file system have their own world models in `Model/Extends*`, `Model/Include*`; `ApplyExtends` itself is in:
C05's model on the empty file system).  `convert` and `fixEmpty` are the identity on trees built from `Val`
(`convert_ofVal`, `fixEmpty_ofVal` in `Lemmas/Pipeline.lean`), so the pipeline is stated on `Val`.

Everything else is *not* assumed away: the option flags, the order of the stages, which stage sees which tree, the
`version` key dropped only under validation, `name` forced before `Normalize`, `ResolveEnvironment` after path
resolution, the empty-model and empty-name errors.
-/
namespace CV.Pipeline
open CV CV.Val

/-- outcome of the whole pipeline: the error names the *stage* that failed (error texts are not modelled) -/
inductive Out (α : Type) where
  | ok (a : α)
  | err (stage : String)
  | panic (site : String)
deriving Repr, Inhabited

def Out.bind {α β : Type} : Out α → (α → Out β) → Out β
  | .ok a, f => f a
  | .err e, _ => .err e
  | .panic s, _ => .panic s

/-- observer used by examples and by the driver: `ok`, `err:<stage>`, `panic:<site>` -/
def Out.stage {α : Type} : Out α → String
  | .ok _ => "ok"
  | .err e => "err:" ++ e
  | .panic s => "panic:" ++ s

instance : Monad Out where
  pure := .ok
  bind := Out.bind

/-- `loader.Options`, the flags the dictionary pipeline reads -/
structure Opts where
  skipInterpolation : Bool := false
  skipValidation : Bool := false
  skipDefaultValues : Bool := false
  resolvePaths : Bool := true
  skipNormalization : Bool := false
  /-- `SkipExtends`; when extends are applied, only *same-file* bases can resolve: the composed model runs
  `ApplyExtends` on the empty file system (C05's world model `Model/Extends*.lean` carries the cross-file part) -/
  skipExtends : Bool := true
deriving Repr, DecidableEq

structure Cfg where
  opts : Opts
  /-- `opts.Interpolate` (cast table, float reader, `LookupValue`) -/
  interp : Interp.Cfg
  /-- working directory, home, remote-resource test, symlink resolution -/
  paths : Paths.Cfg
  /-- `configDetails.Environment` -/
  env : List (String × String)
  /-- `opts.projectName` after `projectName()` -/
  projectName : String
  /-- `path.Clean` (Normalize) -/
  clean : String → String
  /-- `loader.omitempty` -/
  omitPats : List (List String)
  /-- `ConfigFiles[0].Filename`: the file name the extends cycle tracker records for same-file steps -/
  mainFile : String := "compose.yaml"

/-! ## embeddings between `Val` and the Go-level tree of the first stages -/

mutual
def ofVal : Val → C01.GoVal
  | .null => .null
  | .bool b => .bool b
  | .int i => .int i
  | .float r => .float r
  | .str s => .str s
  | .seq xs => .seq (ofVals xs)
  | .map kvs => .map (ofKVs kvs)
def ofVals : List Val → List C01.GoVal
  | [] => []
  | v :: r => ofVal v :: ofVals r
def ofKVs : List (String × Val) → List (String × C01.GoVal)
  | [] => []
  | (k, v) :: r => (k, ofVal v) :: ofKVs r
end

mutual
/-- back to `Val`; a nil slice reads as the empty sequence, a non-string-keyed map does not occur after `convert` -/
def toVal : C01.GoVal → Val
  | .null => .null
  | .bool b => .bool b
  | .int i => .int i
  | .float r => .float r
  | .str s => .str s
  | .nilseq => .seq []
  | .seq xs => .seq (toVals xs)
  | .map kvs => .map (toKVs kvs)
  | .imap _ => .map []
def toVals : List C01.GoVal → List Val
  | [] => []
  | v :: r => toVal v :: toVals r
def toKVs : List (String × C01.GoVal) → List (String × Val)
  | [] => []
  | (k, v) :: r => (k, toVal v) :: toKVs r
end

/-! ## stage adapters (each stage keeps its own outcome type; only the class ok / err / panic crosses) -/

def ofInterp {α : Type} : Interp.Out α → Out α
  | .ok a => .ok a
  | .err _ => .err "interpolate"
  | .panic s => .panic s

def ofMerge {α : Type} (stage : String) : Merge.Out α → Out α
  | .ok a => .ok a
  | .err _ => .err stage
  | .panic s => .panic s

def ofShort {α : Type} : Short.Out α → Out α
  | .ok a => .ok a
  | .err _ => .err "canonical"
  | .panic s => .panic s

def ofC11 {α : Type} (stage : String) : C11.Out α → Out α
  | .ok a => .ok a
  | .err _ => .err stage
  | .panic s => .panic s

def ofPaths {α : Type} : Paths.Out α → Out α
  | .ok a => .ok a
  | .err _ => .err "paths"
  | .panic s => .panic s

def ofValidate (v : Val) : Validate.VOut → Out Val
  | .ok => .ok v
  | .err _ => .err "validation"
  | .panic s => .panic s

/-! ## glue functions of loader.go that no stage model owns -/

/-- `OmitEmpty(dict)` on a `Val` tree (the C01 stage model, through the embedding) -/
def omitEmpty (pats : List (List String)) (dict : Val) : Out Val :=
  match dict with
  | .map kvs =>
    match C01.omitEmptyTop pats (ofKVs kvs) with
    | .ok m => .ok (.map (toKVs m))
    | .err _ => .err "omitEmpty"
    | .panic s => .panic s
  | _ => .err "omitEmpty"

/-- `schema.Validate(dict)` followed by `delete(dict, "version")` (only under `!SkipValidation`) -/
def schemaStage (o : Opts) (dict : Val) : Out Val :=
  if o.skipValidation then .ok dict
  else if Schema.conforms Gen.composeSchema dict then
    match dict with
    | .map kvs => .ok (.map (erase "version" kvs))
    | v => .ok v
  else .err "schema"

/-- one element of `resolveServicesEnvironment`: a string whose *whole text* names a variable of the project
environment becomes `text=value`; every other string is kept; a non-string element is dropped (`continue`) -/
def resolveEnvItem (env : List (String × String)) : Val → Option Val
  | .str s =>
    match env.lookup s with
    | some found => some (.str (s ++ "=" ++ found))
    | none => some (.str s)
  | _ => none

def resolveServiceEnv (env : List (String × String)) : Val → Val
  | .map cfg =>
    match lookup "environment" cfg with
    | some (.seq items) => .map (insert "environment" (.seq (items.filterMap (resolveEnvItem env))) cfg)
    | _ => .map cfg
  | v => v

def resolveServicesEnv (env : List (String × String)) (dict : KVs) : KVs :=
  match lookup "services" dict with
  | some (.map svcs) => insert "services" (.map (svcs.map (fun kv => (kv.1, resolveServiceEnv env kv.2)))) dict
  | _ => dict

/-- `ResolveEnvironment(dict, environment)` -/
def resolveEnvironment (env : List (String × String)) (dict : KVs) : KVs :=
  Secrets.resolveConfigsEnv env (Secrets.resolveSecretsEnv env (resolveServicesEnv env dict))

/-! ## `processRawYaml`, `loadYamlModel`, `load` -/

/-- `if opts.Interpolate != nil && !opts.SkipInterpolation { cfg, err = interp.Interpolate(cfg, *opts.Interpolate) }` -/
def interpStage (c : Cfg) (cfg : KVs) : Out KVs :=
  if c.opts.skipInterpolation then .ok cfg else ofInterp (Interp.interpolate c.interp cfg)

def ofExtends {α : Type} : Extends.Out α → Out α
  | .ok a => .ok a
  | .err _ => .err "extends"
  | .panic s => .panic s

/-- `if !opts.SkipExtends { err = ApplyExtends(ctx, cfg, opts, ct, processors...) }` with no other file reachable -/
def extendsStage (c : Cfg) (cfg : KVs) : Out KVs :=
  if c.opts.skipExtends then .ok cfg else ofExtends (Extends.applyExtends (Extends.realEnv c.mainFile []) cfg)

/-- `processRawYaml` from `override.Merge(dict, cfg)` on -/
def mergeStages (c : Cfg) (dict : Val) (cfg : KVs) : Out Val :=
  (ofMerge "merge" (Merge.merge dict (.map cfg))).bind fun dict =>
  (ofMerge "unicity" (Unicity.enforceTop dict)).bind fun dict =>
  (schemaStage c.opts dict).bind fun dict =>
  (ofShort (Short.canonical c.opts.skipInterpolation dict)).bind fun dict =>
  (omitEmpty c.omitPats dict).bind fun dict =>
  ofMerge "unicity2" (Unicity.enforceTop dict)

/-- `processRawYaml(raw)` with `SkipExtends`, `SkipInclude`, no post-processor: one document merged into `dict` -/
def processDoc (c : Cfg) (dict : Val) (cfg : KVs) : Out Val :=
  (interpStage c cfg).bind fun cfg => (extendsStage c cfg).bind (mergeStages c dict)

/-- `processRawYaml(raw, processor)` for a document read from YAML text: `decoder.Decode(&ResetProcessor{…})` gives
the tree without its `!reset` nodes and the recorded paths (C04's `Reset.readDoc`); the tree is interpolated; the
processor deletes the recorded paths from the model built so far (`processor.Apply(dict)`) *before* the merge -/
def processNode (c : Cfg) (dict : Val) (n : Reset.YNode) : Out Val :=
  match Reset.readDoc n with
  | (.map cfg, paths) =>
    (interpStage c cfg).bind fun cfg => (extendsStage c cfg).bind (mergeStages c (Reset.applyNull paths dict TPath.root))
  | _ => .err "toplevel"

/-- the decode loop of `loadYamlFile` over the documents of one file -/
def processNodes (c : Cfg) : Val → List Reset.YNode → Out Val
  | dict, [] => .ok dict
  | dict, n :: r =>
    match processNode c dict n with
    | .ok dict' => processNodes c dict' r
    | .err e => .err e
    | .panic s => .panic s

/-- `for _, file := range config.ConfigFiles` when every file is YAML text (a file = its `---` documents) -/
def processFiles (c : Cfg) : Val → List (List Reset.YNode) → Out Val
  | dict, [] => .ok dict
  | dict, f :: r =>
    match processNodes c dict f with
    | .ok dict' => processFiles c dict' r
    | .err e => .err e
    | .panic s => .panic s

/-- the loop of `loadYamlModel` over `config.ConfigFiles` (each file one `Config` document) -/
def processDocs (c : Cfg) : Val → List KVs → Out Val
  | dict, [] => .ok dict
  | dict, d :: r =>
    match processDoc c dict d with
    | .ok dict' => processDocs c dict' r
    | .err e => .err e
    | .panic s => .panic s

/-- `if !opts.SkipDefaultValues { dict, err = transform.SetDefaultValues(dict) }` -/
def defaultsStage (c : Cfg) (dict : Val) : Out Val :=
  match dict with
  | .map kvs => if c.opts.skipDefaultValues then .ok (.map kvs) else ofC11 "defaults" (C11.setDefaultValues Gen.defaultValues kvs)
  | _ => .err "defaults"

/-- `if !opts.SkipValidation { validation.Validate(dict) }` -/
def validateStage (c : Cfg) (dict : Val) : Out Val :=
  if c.opts.skipValidation then .ok dict else ofValidate dict (Validate.validate dict)

/-- `if opts.ResolvePaths { paths.ResolveRelativePaths(dict, config.WorkingDir, remotes) }` -/
def pathsStage (c : Cfg) (dict : Val) : Out Val :=
  if c.opts.resolvePaths then ofPaths (Paths.resolve c.paths dict) else .ok dict

/-- `ResolveEnvironment(dict, config.Environment)` (the main model: `len(included) == 0`) -/
def envStage (c : Cfg) (dict : Val) : Out KVs :=
  match dict with
  | .map kvs => .ok (resolveEnvironment c.env kvs)
  | _ => .err "model"

/-- `loadYamlModel` after the loop -/
def finishModel (c : Cfg) (dict : Val) : Out KVs :=
  (defaultsStage c dict).bind fun dict =>
  (validateStage c dict).bind fun dict =>
  (pathsStage c dict).bind fun dict =>
  envStage c dict

def loadYamlModel (c : Cfg) (docs : List KVs) : Out KVs :=
  (processDocs c (.map []) docs).bind (finishModel c)

/-- the tail of `load`: empty model, empty project name, `dict["name"] = projectName; Normalize(dict, environment)` -/
def finishLoad (c : Cfg) (dict : KVs) : Out KVs :=
  if dict.isEmpty then .err "empty"
  else if c.projectName = "" then .err "name"
  else if c.opts.skipNormalization then .ok dict
  else ofC11 "normalize" (C11.normalize c.clean c.env (insert "name" (.str c.projectName) dict))

/-- `loadYamlModel` / `load` for files given as YAML text -/
def loadYamlModelY (c : Cfg) (files : List (List Reset.YNode)) : Out KVs :=
  (processFiles c (.map []) files).bind (finishModel c)

def loadY (c : Cfg) (files : List (List Reset.YNode)) : Out KVs :=
  if files.isEmpty then .err "nofiles" else (loadYamlModelY c files).bind (finishLoad c)

/-- `load` (and `loadModelWithContext`: at least one file) -/
def load (c : Cfg) (docs : List KVs) : Out KVs :=
  if docs.isEmpty then .err "nofiles" else (loadYamlModel c docs).bind (finishLoad c)

/-! ## the stage skeleton this module composes

The calls of the Go glue in source order, each with the option test that guards it — written next to the definitions
above and compared with the skeleton regenerated from loader/loader.go (`Gen/PipelineSource.lean`) by
`Props/C01Whole.glue_skeleton_is_modelled`.  Where a row is outside the composed model the comment says who owns it. -/

/-- `loadYamlFile`: `processRawYaml` (= `processDoc` / `processNode`) and the decode loop (= `processNodes`) -/
def skeletonLoadYamlFile : List String := [
  "convertToStringKeysRecursive | -",                                            -- identity on `Val` (`convert_ofVal`); C01 stage model
  "interp.Interpolate | opts.Interpolate != nil && !opts.SkipInterpolation",    -- `interpStage`
  "fixEmptyNotNull | -",                                                         -- identity on `Val` (`convert_ofVal`); C01 stage model
  "ApplyExtends | !opts.SkipExtends",                                            -- `extendsStage` (same-file bases; cross-file: C05's world)
  "processor.Apply | -",                                                         -- `Reset.applyNull` in `processNode`
  "ApplyInclude | !opts.SkipInclude",                                            -- out: C06's world model
  "override.Merge | -",                                                          -- `mergeStages` …
  "override.EnforceUnicity | -",
  "schema.Validate | !opts.SkipValidation",                                      -- `schemaStage`
  "opts.warnObsoleteVersion | !opts.SkipValidation && ok",                       -- a log line (C19 owns its lock)
  "delete | !opts.SkipValidation && ok",                                         -- `schemaStage`: `erase "version"`
  "transform.Canonical | -",
  "OmitEmpty | -",
  "override.EnforceUnicity | -",
  "yaml.NewDecoder | file.Config == nil",                                        -- `loadY`: YAML text
  "decoder.Decode | file.Config == nil",                                         -- `Reset.readDoc` per document
  "processRawYaml | file.Config == nil",                                         -- `processNode`
  "processRawYaml | !(file.Config == nil)"]                                      -- `processDoc`

/-- `loadYamlModel`: the loop (`processDocs` / `processFiles`) and `finishModel` -/
def skeletonLoadYamlModel : List String := [
  "loadYamlFile | -",
  "transform.SetDefaultValues | !opts.SkipDefaultValues",                        -- `defaultsStage`
  "validation.Validate | !opts.SkipValidation",                                  -- `validateStage`
  "paths.ResolveRelativePaths | opts.ResolvePaths",                              -- `pathsStage`
  "ResolveEnvironment | len(included) == 0",                                     -- `envStage` (the main model)
  "resolveServicesEnvironment | !(len(included) == 0)",                          -- included models: C06 / C20
  "resolveSecretsEnvironment | !(len(included) == 0)"]

/-- `load`: `loadYamlModel` then `finishLoad` (the two error returns in between carry no stage call) -/
def skeletonLoad : List String := [
  "loadYamlModel | -",
  "Normalize | !opts.SkipNormalization"]

/-- `loadModelWithContext`: `projectName` (C17's model; the streams set the name imperatively), then `load` -/
def skeletonLoadModelWithContext : List String := ["projectName | -", "load | -"]

/-- `ResolveEnvironment`: `resolveEnvironment` -/
def skeletonResolveEnvironment : List String := [
  "resolveServicesEnvironment | -", "resolveSecretsEnvironment | -", "resolveConfigsEnvironment | -"]

end CV.Pipeline
