import ComposeVerif.Model.Val
/-!
# C02 — the places where a Go map becomes a sequence, or is walked to build another map

Every Go `map` is an association list with distinct keys that is *iterated in list order*;
Go's randomised iteration order is a universally quantified permutation in the theorems
(`Props/C02.lean`).  This file holds the executable models (core Lean only):

* generic: `put`/`find` on association lists, `rangeWrite` (range over a map and store
  `f k v` under the same key of a fresh map), `isort` (the result of any correct sort);
* `intoSeq`        — `override.convertIntoSequence`            (override/merge.go)
* `mergeKVsE`      — `override.mergeMappings` for an arbitrary per-key combiner
* `mergeGeneric`   — `override.mergeYaml` on paths without a special rule
* `sshDecode`      — `types.SSHConfig.DecodeMapstructure`      (types/ssh.go; `sshDecodeUnsorted` = before the fix)
* `hostsDecode`, `hostsRender` — `types.HostsList.DecodeMapstructure`, `AsList` + sort (types/hostList.go)
* `mappingDecode`, `mappingValues`, `mweDecode` — `types.Mapping` / `MappingWithEquals` (types/mapping.go)
* `newGraph`       — `graph.newGraph` + `checkCycle`           (graph/services.go, graph/cycle.go)
* `warnObsoleteVersion` — the package-level `versionWarning` state (loader/loader.go)
-/
namespace CV.Det
open CV CV.Val

/-! ## association lists over any value type -/

abbrev AL (α : Type) := List (String × α)

def find {α : Type} (k : String) : AL α → Option α
  | [] => none
  | (k', v) :: r => if k = k' then some v else find k r

/-- Go `m[k] = v`: replace in place if present, else append -/
def put {α : Type} (k : String) (v : α) : AL α → AL α
  | [] => [(k, v)]
  | (k', v') :: r => if k = k' then (k, v) :: r else (k', v') :: put k v r

def akeys {α : Type} (m : AL α) : List String := m.map Prod.fst

/-- `for k, v := range m { out[k] = f k v }` into a fresh map -/
def rangeWrite {α β : Type} (f : String → α → β) (m : AL α) : AL β :=
  m.foldl (fun acc kv => put kv.1 (f kv.1 kv.2) acc) []

/-- `for k, v := range m { m[k] = f(k, v) }` — the map is updated in place while it is ranged (enforceUnicity,
convertToStringKeysRecursive, normalisation loops, `services[name] = merged`) -/
def rangeUpdate {α : Type} (f : String → α → α) (m : AL α) : AL α :=
  m.foldl (fun acc kv => put kv.1 (f kv.1 kv.2) acc) m

/-- `for k, v := range m { if err := f(k, v); err != nil { return err } }` — the first error in iteration order -/
def rangeCheck {α ε : Type} (f : String → α → Option ε) : AL α → Option ε
  | [] => none
  | (k, v) :: r => match f k v with
    | some e => some e
    | none => rangeCheck f r

/-! ## sorting (structural, so that `decide` can run it) -/

def insertBy {α : Type} (le : α → α → Bool) (x : α) : List α → List α
  | [] => [x]
  | y :: ys => if le x y then x :: y :: ys else y :: insertBy le x ys

/-- the sorted arrangement of `l` (what `sort.Strings`, `slices.SortFunc`, `sort.Slice` compute when the
order is total and antisymmetric on the elements) -/
def isort {α : Type} (le : α → α → Bool) : List α → List α
  | [] => []
  | x :: xs => insertBy le x (isort le xs)

def strLe (a b : String) : Bool := decide (a ≤ b)

def sortStrs (l : List String) : List String := isort strLe l

/-! ## `convertIntoSequence` -/

/-- the strings one map entry contributes -/
def entryStrs (kv : String × Val) : List String :=
  match kv.2 with
  | .null => [kv.1]
  | .seq xs => xs.map (fun x => kv.1 ++ "=" ++ fmtV x)
  | v => [kv.1 ++ "=" ++ fmtV v]

/-- since "fix: convertIntoSequence turns an empty mapping into an empty sequence" the mapping branch never yields a nil slice -/
def nilIfEmpty (l : List Val) : Option (List Val) := some l

/-- `convertIntoSequence`: `none` is Go's nil slice -/
def intoSeq : Val → Option (List Val)
  | .map kvs => nilIfEmpty ((sortStrs (kvs.flatMap entryStrs)).map Val.str)
  | .seq xs => some xs
  | .str s => some [.str s]
  | _ => none

/-- the code without its `slices.SortFunc` (what a careless edit would leave) -/
def intoSeqUnsorted : Val → Option (List Val)
  | .map kvs => nilIfEmpty ((kvs.flatMap entryStrs).map Val.str)
  | .seq xs => some xs
  | .str s => some [.str s]
  | _ => none

/-- `mergeToSequence` -/
def mergeToSequence (c o : Val) : Val :=
  .seq ((intoSeq c).getD [] ++ (intoSeq o).getD [])

/-- `mergeExtraHosts`: the override's entries that the base does not already contain are appended
(`slices.Contains` compares with `==`; the modelled domain is scalars) -/
def mergeExtraHosts (c o : Val) : Val :=
  let right := (intoSeq c).getD []
  let left := (intoSeq o).getD []
  .seq (right ++ left.filter (fun v => !(right.contains v)))

/-! ## `mergeMappings` with an abstract per-key combiner -/

/-- `for k, v := range other { e, ok := mapping[k]; if !ok {mapping[k] = v; continue}; mapping[k], err = f k e v }` -/
def mergeKVsE {ε : Type} (f : String → Val → Val → Except ε Val) : KVs → KVs → Except ε KVs
  | a, [] => .ok a
  | a, (k, v) :: r =>
    match find k a with
    | none => mergeKVsE f (put k v a) r
    | some e =>
      match f k e v with
      | .ok m => mergeKVsE f (put k m a) r
      | .error x => .error x

/-- the pure version (combiner cannot fail) -/
def mergeKVs (f : String → Val → Val → Val) : KVs → KVs → KVs
  | a, [] => a
  | a, (k, v) :: r =>
    match find k a with
    | none => mergeKVs f (put k v a) r
    | some e => mergeKVs f (put k (f k e v) a) r

/-! ## `mergeYaml` where no special rule applies (generic rules only) -/

def isExtKey (k : String) : Bool := "x-".toList.isPrefixOf k.toList

mutual
/-- `mergeYaml e o p` for a path `p` (and all paths below) outside `mergeSpecials`; the error is "cannot override" -/
def mergeGeneric : Val → Val → Except Unit Val
  | e, .null => .ok e
  | .map a, .map b => do
      let m ← mergeGenericKVs a b
      pure (.map m)
  | .map _, _ => .error ()
  | .seq a, .seq b => .ok (.seq (a ++ b))
  | .seq _, _ => .error ()
  | _, o => .ok o
def mergeGenericKVs : KVs → KVs → Except Unit KVs
  | a, [] => .ok a
  | a, (k, v) :: r =>
    match find k a with
    | none => mergeGenericKVs (put k v a) r
    | some e =>
      if isExtKey k then mergeGenericKVs (put k v a) r
      else
        match mergeGeneric e v with
        | .ok m => mergeGenericKVs (put k m a) r
        | .error x => .error x
end

/-! ## `SSHConfig.DecodeMapstructure` -/

inductive DecErr | badType | badHost | missingIP
deriving Repr, DecidableEq

def DecErr.toString : DecErr → String
  | .badType => "badType" | .badHost => "badHost" | .missingIP => "missingIP"

/-- `fmt.Sprint(path)` for a non-nil value, "" for nil -/
def sshKey (kv : String × Val) : String × String :=
  (kv.1, match kv.2 with | .null => "" | v => fmtV v)

def keyLe (a b : String × String) : Bool := decide (a.1 ≤ b.1)

/-- before the fix: the keys in Go's iteration order -/
def sshDecodeUnsorted : Val → Except DecErr (List (String × String))
  | .map kvs => .ok (kvs.map sshKey)
  | _ => .error .badType

/-- the code as it is now: keys sorted by ID -/
def sshDecode : Val → Except DecErr (List (String × String))
  | .map kvs => .ok (isort keyLe (kvs.map sshKey))
  | _ => .error .badType

/-! ## `HostsList` -/

def hasSepChar (s : String) : Bool := s.toList.any (fun c => c = ':' || c = '=')

/-- `"[::1]" → "::1"` (only when longer than 2) -/
def stripBrackets (ip : String) : String :=
  let cs := ip.toList
  if cs.length > 2 && cs.head? = some '[' && cs.getLast? = some ']' then
    String.ofList ((cs.drop 1).dropLast)
  else ip

/-- `HostsList.cleanup`: any bad host name is an error (which one is reported depends on Go's order) -/
def hostsCleanup (m : AL (List String)) : Except DecErr (AL (List String)) :=
  if m.any (fun kv => kv.1 = "" || hasSepChar kv.1) then .error .badHost
  else .ok (m.map (fun kv => (kv.1, kv.2.map stripBrackets)))

/-- `strings.Cut(s, sep)` for a one-character separator -/
def cutAt (sep : Char) (s : String) : Option (String × String) :=
  let cs := s.toList
  if cs.contains sep then
    some (String.ofList (cs.takeWhile (· ≠ sep)), String.ofList ((cs.dropWhile (· ≠ sep)).drop 1))
  else none

/-- `strings.Split(ip, ",")` -/
def splitComma (s : String) : List String := s.splitOn ","

/-- `NewHostsList`: separators tried in the order "=", ":" -/
def newHostsList : List String → AL (List String) → Except DecErr (AL (List String))
  | [], acc => hostsCleanup acc
  | s :: r, acc =>
    match (cutAt '=' s).orElse (fun _ => cutAt ':' s) with
    | none => .error .missingIP
    | some (host, ip) =>
      match find host acc with
      | some ips => newHostsList r (put host (ips ++ splitComma ip) acc)
      | none => newHostsList r (put host (splitComma ip) acc)

/-- the value side of the map case; `none` = unexpected type -/
def hostEntry : Val → Option (List String)
  | .null => some [""]
  | .str s => some [s]
  | .seq xs => some (xs.map fmtV)
  | _ => none

def hostsDecode : Val → Except DecErr (AL (List String))
  | .map kvs =>
    if kvs.any (fun kv => (hostEntry kv.2).isNone) then .error .badType
    else hostsCleanup (rangeWrite (fun _ v => (hostEntry v).getD []) kvs)
  | .seq xs => newHostsList (xs.map fmtV) []
  | _ => .error .badType

/-- `AsList(sep)` in iteration order -/
def hostsAsList (sep : String) (m : AL (List String)) : List String :=
  m.flatMap (fun kv => kv.2.map (fun ip => kv.1 ++ sep ++ ip))

/-- the order in which `sortedList` visits the hosts: by `host=` -/
def hostLe (a b : String × List String) : Bool := decide (a.1 ++ "=" ≤ b.1 ++ "=")

/-- `MarshalYAML` / `MarshalJSON` (`sortedList`, since the C09 repair): the hosts sorted by `host=`, each host's
addresses in their own order (before: `AsList("=")` then `sort.Strings` over whole lines) -/
def hostsRender (m : AL (List String)) : List String := hostsAsList "=" (isort hostLe m)

/-! ## `Mapping`, `MappingWithEquals` -/

/-- `Mapping.DecodeMapstructure` -/
def mappingDecode : Val → Except DecErr (AL String)
  | .map kvs => .ok (rangeWrite (fun _ v => match v with | .null => "" | v => fmtV v) kvs)
  | .seq xs => .ok (xs.foldl (fun acc x =>
      match cutAt '=' (fmtV x) with
      | some (k, e) => put k e acc
      | none => put (fmtV x) "" acc) [])
  | _ => .error .badType

/-- `Mapping.Values`: "k=v" sorted -/
def mappingValues (m : AL String) : List String := sortStrs (m.map (fun kv => kv.1 ++ "=" ++ kv.2))

/-- `mappingValue`: nil stays nil, anything else is printed -/
def mweValue : Val → Option String
  | .null => none
  | v => some (fmtV v)

/-- `MappingWithEquals.DecodeMapstructure` -/
def mweDecode : Val → Except DecErr (AL (Option String))
  | .map kvs => .ok (rangeWrite (fun _ v => mweValue v) kvs)
  | .seq xs => .ok (xs.foldl (fun acc x =>
      match cutAt '=' (fmtV x) with
      | some (k, e) => put k (some e) acc
      | none => put (fmtV x) none acc) [])
  | _ => .error .badType

/-- `ToMapping`: entries with a value -/
def mweToMapping (m : AL (Option String)) : AL String :=
  m.filterMap (fun kv => kv.2.map (fun v => (kv.1, v)))

/-- `Mapping.ToMappingWithEquals` -/
def toMWE (m : AL String) : AL (Option String) := rangeWrite (fun _ v => some v) m

/-! ## `graph.newGraph` + `checkCycle` (the part of `checkConsistency` that walks two maps) -/

structure Svc where
  name : String
  /-- `depends_on`: dependency ↦ required -/
  deps : AL Bool
deriving Repr, DecidableEq

inductive GErr | disabled | unknown | cycle
deriving Repr, DecidableEq

def GErr.toString : GErr → String
  | .disabled => "disabled" | .unknown => "unknown" | .cycle => "cycle"

/-- state of the inner loop of one service: edges collected so far, and whether `delete(s.DependsOn, name)`
has been executed (it removes the service's dependency *on itself*, so that entry is not produced later) -/
structure LoopSt where
  edges : List String
  selfDeleted : Bool
deriving Repr, DecidableEq

/-- `for dep, condition := range s.DependsOn { … }` in list order, with Go's delete-during-range semantics -/
def depLoop (enabled disabled : List String) (name : String) : AL Bool → LoopSt → Except GErr LoopSt
  | [], st => .ok st
  | (dep, required) :: r, st =>
    if dep = name && st.selfDeleted then depLoop enabled disabled name r st   -- entry was deleted before being reached
    else if enabled.contains dep then depLoop enabled disabled name r { st with edges := st.edges ++ [dep] }
    else if required then
      (if disabled.contains dep then .error .disabled else .error .unknown)
    else depLoop enabled disabled name r { st with selfDeleted := true }

/-- the service after the loop: its `DependsOn` lost the self entry if the delete ran -/
def svcAfter (s : Svc) (st : LoopSt) : Svc :=
  if st.selfDeleted then { s with deps := s.deps.filter (fun kv => kv.1 ≠ s.name) } else s

/-- outer loop over `project.Services` in list order: (services after mutation, adjacency) -/
def graphLoop (enabled disabled : List String) : List Svc → Except GErr (List Svc × AL (List String))
  | [] => .ok ([], [])
  | s :: r =>
    match depLoop enabled disabled s.name s.deps ⟨[], false⟩ with
    | .error e => .error e
    | .ok st =>
      match graphLoop enabled disabled r with
      | .error e => .error e
      | .ok (ss, adj) => .ok (svcAfter s st :: ss, (s.name, st.edges) :: adj)

/-- is there a path of length ≤ fuel from `x` back into `path`?  (`searchCycle`, children visited in any order:
only *whether* a cycle exists is modelled, not which one is printed) -/
def reaches (adj : AL (List String)) : Nat → String → String → Bool
  | 0, _, _ => false
  | n + 1, x, target =>
    ((find x adj).getD []).any (fun c => c = target || reaches adj n c target)

def hasCycle (adj : AL (List String)) : Bool :=
  adj.any (fun kv => reaches adj adj.length kv.1 kv.1)

/-- `CheckCycle(project)`: error class, or the (mutated) services -/
def newGraph (svcs : List Svc) (disabled : List String) : Except GErr (List Svc) :=
  match graphLoop (svcs.map (·.name)) disabled svcs with
  | .error e => .error e
  | .ok (ss, adj) => if hasCycle adj then .error .cycle else .ok ss

/-! ## `ApplyExtends` (same-file references): memoised recursive resolution -/

/-- a service as `extends` sees it: the service it extends (same file), and its own attributes -/
abbrev XSvc (β : Type) := Option String × β

/-- `applyServiceExtends` (same-file references): resolve `name`, memoising every service resolved on the way in the
services map.  `mrg base own` stands for `override.ExtendService(deepClone(base), own)` minus `extends`.
`none` = error (reference not found / circular reference, i.e. out of fuel). -/
def applyOne {β : Type} (mrg : β → β → β) : Nat → AL (XSvc β) → String → Option (AL (XSvc β) × β)
  | 0, _, _ => none
  | n + 1, m, name =>
    match find name m with
    | none => none
    | some (none, b) => some (m, b)
    | some (some ref, b) =>
      match applyOne mrg n m ref with
      | none => none
      | some (m1, base) => some (put name (none, mrg base b) m1, mrg base b)

/-- `ApplyExtends`: `for name := range services { merged := applyServiceExtends(name); services[name] = merged }`
with the services ranged in the order `order` -/
def applyAll {β : Type} (mrg : β → β → β) (n : Nat) : List String → AL (XSvc β) → Option (AL (XSvc β))
  | [], m => some m
  | name :: r, m =>
    match applyOne mrg n m name with
    | none => none
    | some (m1, b) => applyAll mrg n r (put name (none, b) m1)

/-- what a service denotes: its own attributes merged over what the service it extends denotes -/
def val {β : Type} (mrg : β → β → β) : Nat → AL (XSvc β) → String → Option β
  | 0, _, _ => none
  | n + 1, m, name =>
    match find name m with
    | none => none
    | some (none, b) => some b
    | some (some ref, b) => (val mrg n m ref).map (fun base => mrg base b)

/-! ## package-level state: `versionWarning` -/

/-- `warnObsoleteVersion(file)`: returns the new global and whether a warning was logged -/
def warnObsoleteVersion (g : List String) (file : String) : List String × Bool :=
  if g.contains file then (g ++ [file], false) else (g ++ [file], true)

/-- a load as far as the global is concerned: the files that carry a `version:` attribute touch the global;
the project is computed by `core`, which never sees it -/
def loadWithGlobal {I P : Type} (core : I → P) (versioned : I → List String) (g : List String) (i : I) : List String × P :=
  ((versioned i).foldl (fun g f => (warnObsoleteVersion g f).1) g, core i)

end CV.Det
