import ComposeVerif.Model.Secrets
/-!
# C20 — a secret / config declared in an *included* file (round 5)

An included model is resolved twice (core Lean only; Go maps are association lists, panics are outcomes):

* `loader/include.go` `ApplyInclude`: the include gets an environment of its own,
  `environment.Clone().Merge(envFromFile)` (`types.Mapping.Merge`: the values of the include's env file —
  `env_file:` of the entry or the `.env` of the included project directory — that the including environment does
  not define);
* `loader/loader.go` `loadYamlModel`, last statement: a model loaded with `len(included) > 0` resolves its
  services and **secrets** with that environment and leaves its configs as written (repo `a87ef4e`);
* `loader/include.go` `importResources`: the resources of the included model are added to the including model
  (an equal definition is skipped, a different one is a conflict);
* the including model then runs `ResolveEnvironment` with *its* environment on the merged model: the secrets of the
  included file are resolved a **second** time, with an environment that may not define their variable.
-/
namespace CV.Secrets
open CV CV.Val

/-- `types.Mapping.Merge`: `for k, v := range o { if _, set := m[k]; !set { m[k] = v } }` (on the clone of `m`).
The keys of a Go map are distinct; for an association list with a repeated key the first entry is the one kept. -/
def mergeEnv (m o : Env) : Env := m ++ o.filter (fun kv => (m.lookup kv.1).isNone)

/-- last statement of `loadYamlModel` (secrets / configs part): the top-level model resolves both sections, an
included one only its secrets -/
def resolveModel (included : Bool) (env : Env) (dict : KVs) : KVs :=
  if included then resolveSecretsEnv env dict else resolveConfigsEnv env (resolveSecretsEnv env dict)

/-- loop of `importResource`: `if conflict, ok := to[name]; ok { if same(a, conflict) { continue }; return err }; to[name] = a` -/
def importObjs : KVs → KVs → Out KVs
  | [], to => .ok to
  | (n, a) :: r, to =>
    match lookup n to with
    | some b => if a == b then importObjs r to else .err "conflict"
    | none => importObjs r (to ++ [(n, a)])

/-- `importResource(source, target, key, same)` -/
def importSection (key : String) (source target : KVs) : Out KVs :=
  match lookup key source with
  | none => .ok target
  | some .null => .ok target
  | some (.map res) =>
    match lookup key target with
    | none => (importObjs res []).bind fun to => .ok (insert key (.map to) target)
    | some .null => (importObjs res []).bind fun to => .ok (insert key (.map to) target)
    | some (.map to) => (importObjs res to).bind fun to' => .ok (insert key (.map to') target)
    | some _ => .err "must be a mapping"
  | some _ => .err "must be a mapping"

/-- the raw model of the including file just before its own `ResolveEnvironment`: the included model, resolved with
the include's environment, imported into it -/
def includeModel (top file : Env) (main inc : KVs) : Out KVs :=
  let incR := resolveModel true (mergeEnv top file) inc
  (importSection "secrets" incR main).bind fun m1 => importSection "configs" incR m1

/-- whole flow with one include entry: literal composition (`loadDict` = `ResolveEnvironment` of the including
model → `setNameFromKey` → `processExtensions` → decode) -/
def loadDictInc (top file : Env) (pname : String) (main inc : KVs) : Out Proj :=
  (includeModel top file main inc).bind fun m => loadDict top pname m

/-- the same with the section-wise pipeline the theorems are about (`loadDict_agrees_with_load`) -/
def loadInc (top file : Env) (pname : String) (main inc : KVs) : Out Proj :=
  (includeModel top file main inc).bind fun m => load top pname m

end CV.Secrets
