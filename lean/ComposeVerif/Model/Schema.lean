import ComposeVerif.Model.Val
/-!
# JSON-schema subset used by schema/compose-spec.json, and `conforms`

Keywords: `type, properties, patternProperties, additionalProperties, items, oneOf, anyOf, enum,
required, uniqueItems, minimum, maximum, format`; `$ref` is inlined by the translator.
`conforms` mirrors gojsonschema's verdict on this subset (tie: correspondence op `schemaValidate`).
-/
namespace CV.Schema
open CV

inductive Ty | string | object | array | boolean | number | integer | null | other (s : String)
deriving Repr, DecidableEq

/-- the five `patternProperties` regular expressions that occur (unanchored search semantics) -/
inductive Pat | xDash | nameChars | nonEmptyLine | someChar | lower | unknown (s : String)
deriving Repr, DecidableEq

inductive Addl | allow | deny | unknownAddl
deriving Repr, DecidableEq

inductive S where
  | node (types : List Ty) (props : List (String × S)) (patProps : List (Pat × S)) (addl : Addl)
      (items : Option S) (oneOf : List S) (anyOf : List S) (enum : Option (List String))
      (required : List String) (uniqueItems : Bool) (minimum maximum : Option Int) (format : Option String)
  | unknown (why : String)
deriving Repr

def isNameChar (c : Char) : Bool := c.isAlphanum || c == '.' || c == '_' || c == '-'

def Pat.matches : Pat → String → Bool
  | .xDash, k => k.startsWith "x-"
  | .nameChars, k => !k.isEmpty && k.toList.all isNameChar
  | .nonEmptyLine, k => !k.isEmpty && k.toList.all (· != '\n')   -- `^.+$` (no multi-line flag: `.` excludes newline)
  | .someChar, k => k.toList.any (· != '\n')                      -- `.+` searched anywhere
  | .lower, k => !k.isEmpty && k.toList.all (fun c => 'a' ≤ c && c ≤ 'z')
  | .unknown _, _ => false

/-- a float repr (Go `'g'` format) denotes an integral value when it has no fraction and no exponent -/
def floatIsIntegral (r : String) : Bool := r.toList.all (fun c => c.isDigit || c == '-')  -- larger magnitudes print with an exponent and are not generated

def tyOk (t : Ty) : Val → Bool
  | .null => t == .null
  | .bool _ => t == .boolean
  | .int _ => t == .integer || t == .number
  | .float r => t == .number || (t == .integer && floatIsIntegral r)
  | .str _ => t == .string
  | .seq _ => t == .array
  | .map _ => t == .object

/-- decimal text of a Go float (`strconv.FormatFloat(x,'g',-1,64)`): mantissa digits and power of ten -/
def parseFloatRepr (r : String) : Option (Int × Int) :=
  let cs := r.toList
  let neg := cs.head? == some '-'
  let cs := if neg || cs.head? == some '+' then cs.drop 1 else cs
  let ip := cs.takeWhile Char.isDigit
  let rest := cs.drop ip.length
  let (fp, rest) := match rest with
    | '.' :: r => (r.takeWhile Char.isDigit, r.drop (r.takeWhile Char.isDigit).length)
    | _ => ([], rest)
  let exp : Option Int := match rest with
    | [] => some 0
    | 'e' :: r =>
      let (sgn, ds) := match r with
        | '-' :: d => ((-1 : Int), d)
        | '+' :: d => (1, d)
        | d => (1, d)
      if ds.isEmpty || !ds.all Char.isDigit then none
      else some (sgn * (String.ofList ds).toNat!)
    | _ => none
  if ip.isEmpty && fp.isEmpty then none else
  match exp with
  | none => none
  | some e =>
    let m : Int := (String.ofList (ip ++ fp)).toNat!
    some (if neg then -m else m, e - fp.length)

/-- `lo ≤ m·10^e` -/
def decLE (lo : Int) (m e : Int) : Bool :=
  if e ≥ 0 then lo ≤ m * (10 : Int) ^ e.toNat else lo * (10 : Int) ^ (-e).toNat ≤ m
def decGE (hi : Int) (m e : Int) : Bool :=
  if e ≥ 0 then m * (10 : Int) ^ e.toNat ≤ hi else m ≤ hi * (10 : Int) ^ (-e).toNat

def numLE (lo : Int) : Val → Bool
  | .int i => lo ≤ i
  | .float r => match parseFloatRepr r with
    | some (m, e) => decLE lo m e
    | none => false
  | _ => true

def numGE (hi : Int) : Val → Bool
  | .int i => i ≤ hi
  | .float r => match parseFloatRepr r with
    | some (m, e) => decGE hi m e
    | none => false
  | _ => true

/- gojsonschema compares array items for `uniqueItems` through their JSON text (so `1` and `1.0` coincide;
   `encoding/json` sorts map keys — the driver is fed key-sorted maps) -/
mutual
def jsonKey : Val → String
  | .null => "null"
  | .bool b => if b then "true" else "false"
  | .int i => toString i
  | .float r => r
  | .str s => "\"" ++ s ++ "\""
  | .seq xs => "[" ++ jsonKeyList xs ++ "]"
  | .map kvs => "{" ++ jsonKeyKVs kvs ++ "}"
def jsonKeyList : List Val → String
  | [] => ""
  | x :: xs => jsonKey x ++ "," ++ jsonKeyList xs
def jsonKeyKVs : List (String × Val) → String
  | [] => ""
  | (k, v) :: r => "\"" ++ k ++ "\":" ++ jsonKey v ++ "," ++ jsonKeyKVs r
end

/- Equality of two array items as gojsonschema sees it for `uniqueItems`: the JSON texts coincide.  `encoding/json`
   writes the keys of a map in sorted order, so two mappings are the same item exactly when they have the same entries,
   whatever order the association lists spell them in (until round 6 the model compared `jsonKey` texts, which spell a
   mapping in list order: right on the key-sorted trees the driver is fed, wrong as a function on association lists —
   `Neg/C02Whole` had the witness).  Scalars are compared through their text as before. -/
mutual
def jsonEq : Val → Val → Bool
  | .seq xs, .seq ys => jsonEqList xs ys
  | .map kvs, .map kvs' => kvs.length == kvs'.length && jsonSub kvs kvs'
  | .seq _, _ => false
  | .map _, _ => false
  | _, .seq _ => false
  | _, .map _ => false
  | a, b => jsonKey a == jsonKey b
def jsonEqList : List Val → List Val → Bool
  | [], [] => true
  | x :: xs, y :: ys => jsonEq x y && jsonEqList xs ys
  | _, _ => false
/-- every entry of the first mapping is an entry of the second -/
def jsonSub : List (String × Val) → List (String × Val) → Bool
  | [], _ => true
  | (k, v) :: r, m => (match Val.lookup k m with
      | some v' => jsonEq v v'
      | none => false) && jsonSub r m
end

def uniqueJson : List Val → Bool
  | [] => true
  | x :: xs => !(xs.any (fun y => jsonEq y x)) && uniqueJson xs

def propDefined (props : List (String × S)) (k : String) : Bool := props.any (fun p => p.1 = k)
def patDefined (pats : List (Pat × S)) (k : String) : Bool := pats.any (fun p => p.1.matches k)

mutual
def conforms : S → Val → Bool
  | .unknown _, _ => false
  | .node types props patProps addl items oneOf anyOf enum required uniq minimum maximum _format, v =>
    (types.isEmpty || types.any (fun t => tyOk t v)) &&
    (match enum with
     | none => true
     | some l => match v with
       | .str s => l.contains s
       | _ => false) &&
    (oneOf.isEmpty || countConf oneOf v == 1) &&
    (anyOf.isEmpty || countConf anyOf v ≥ 1) &&
    (match minimum with | none => true | some lo => numLE lo v) &&
    (match maximum with | none => true | some hi => numGE hi v) &&
    (match v with
     | .map kvs =>
       required.all (fun r => (Val.lookup r kvs).isSome) &&
       kvs.all (fun kv =>
         conformsProp props kv.1 kv.2 && conformsPats patProps kv.1 kv.2 &&
         (propDefined props kv.1 || patDefined patProps kv.1 || addl == .allow))
     | .seq xs =>
       (match items with
        | none => true
        | some it => xs.all (fun x => conforms it x)) &&
       (!uniq || uniqueJson xs)
     | _ => true)
def countConf : List S → Val → Nat
  | [], _ => 0
  | s :: r, v => (if conforms s v then 1 else 0) + countConf r v
def conformsProp : List (String × S) → String → Val → Bool
  | [], _, _ => true
  | (n, s) :: r, k, v => (if n = k then conforms s v else true) && conformsProp r k v
def conformsPats : List (Pat × S) → String → Val → Bool
  | [], _, _ => true
  | (p, s) :: r, k, v => (if p.matches k then conforms s v else true) && conformsPats r k v
end

end CV.Schema
