import ComposeVerif.Model.Trav
import ComposeVerif.Model.DepGraph
/-!
# Model of `graph.CollectInDependencyOrder` (compose-go `graph/services.go:36-47`): the glue between
`newGraph` + `checkCycle` (`Model/DepGraph.lean`) and `walk` (`Model/Trav.lean`)

Core Lean only (linked into the driver).

| Go                                                                      | model                                  |
|-------------------------------------------------------------------------|----------------------------------------|
| `graph, err := newGraph(project); if err != nil { return nil, err }`     | `plan … = .refused cls`                |
| `walk`: `if len(g.vertices) == 0 { return nil }`                         | `plan … = .empty`                      |
| `vertex.children` (`src.children[dep] = dest`)                          | `children adj v` = `adjOf adj v`        |
| `vertex.parents` (`dest.parents[name] = src`)                           | `parents adj v`                        |
| `ready`: `depends := v.children; if t.inverse { depends = v.parents }`   | `Graph.pre`                            |
| `adjacentNodes`: `if t.inverse { return v.children }; return v.parents`  | `Graph.post`                           |
| `extremityNodes`: `g.roots()` (no parents) / `g.leaves()` (no children)  | `Trav.init`: vertices with `pre = []`   |
| `skip` with `t.after` (`WithRootNodesAndDown`), `descendents` on `children` | `Graph.skip` = `skipOf (children adj)` |
| `if t.maxConcurrency > 0 { eg.SetLimit(t.maxConcurrency + 1) }`          | `limitOf`                              |

`adj` is the association list `build` returns (service ↦ dependencies that are enabled services), in the iteration
order of the Go maps; the traversal theorems do not depend on that order.
-/
namespace CV.TravProj
open CV.DepGraph CV.Trav

/-- keys of `vertex.children` of service `v` -/
def children (adj : List (Name × List Name)) (v : Name) : List Name := adjOf adj v

/-- keys of `vertex.parents` of service `v`: every service that got `v` as a child -/
def parents (adj : List (Name × List Name)) (v : Name) : List Name :=
  (adj.filter (fun p => p.2.contains v)).map (·.1)

/-- the graph `walk` traverses, with the direction and root selection of the traversal options folded in -/
def graphOf (en : List Name) (adj : List (Name × List Name)) (inverse : Bool) (after : List Name) : Graph :=
  { verts := en
    pre := if inverse then parents adj else children adj
    post := if inverse then children adj else parents adj
    skip := skipOf (children adj) en.length after }

/-- `WithMaxConcurrency(n)`: only a positive `n` sets a limit -/
def limitOf (maxc : Int) : Option Nat := if maxc > 0 then some maxc.toNat else none

def errCls : Err → String
  | .disabled => "disabled" | .unknown => "unknown" | .cycle => "cycle"

/-- what `CollectInDependencyOrder` does with a project and options -/
inductive Plan
  /-- `newGraph` returned an error: nothing is visited -/
  | refused (cls : String)
  /-- no enabled service: `walk` returns nil before creating any goroutine -/
  | empty
  /-- `walk` runs the transition system `Trav.step? g lim` from `Trav.init g` -/
  | walk (g : Graph) (lim : Option Nat)

def plan (p : Proj) (inverse : Bool) (maxc : Int) (after : List Name) : Plan :=
  let en := p.services.map (·.name)
  match build en p.disabled p.services [] with
  | (some e, _) => .refused (errCls e)
  | (none, adj) =>
    if checkCycle en (adjOf adj) then .refused "cycle"
    else if en.isEmpty then .empty
    else .walk (graphOf en adj inverse after) (limitOf maxc)

/-- the extremities the caller's loop starts (`g.leaves()` / `g.roots()`) -/
def extremities (g : Graph) : List V := g.verts.filter (fun v => (g.pre v).isEmpty)

end CV.TravProj
