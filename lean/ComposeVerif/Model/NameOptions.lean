import ComposeVerif.Model.NameLoader
/-!
# Option *sequences* with the profile options, and what the loaded project is named after (C17, round 6)

`Model/Name.lean` runs the options that write `ProjectOptions` fields; `Model/NameLoader.lean` adds
`WithInterpolation`.  This file adds the remaining options of `cli/options.go` that read the *project environment*:

* `cli.WithProfiles(l)` / `cli.WithDefaultProfiles(l…)` — both only append `loader.WithProfiles(p)` to the load
  options (`opts.Profiles = p`: the **last** call decides); `WithDefaultProfiles()` with no argument reads
  `COMPOSE_PROFILES` of the project environment **as it is when the option runs** (`strings.Split(…, ",")`, every
  entry `strings.TrimSpace`d; an unset variable gives the one-entry list `[""]`);
* the loaded project: `Project.Profiles` is that list, a service with a `profiles:` attribute is enabled iff one of
  the selected profiles is `*` or is listed (`ServiceConfig.HasProfile`);
* every *implicit resource name* (`networks`/`volumes`/`configs`/`secrets` without `name:`/`external`) is
  `<project name>_<key>` for the name `loader.projectName` decided — `loader.load` overwrites the `name` of the merged
  model with `opts.projectName` before `Normalize` builds those names, so a compose-file `name:` that lost against
  an imperative name does not show up anywhere in the project.
-/
namespace CV.Name
open CV

/-- `unicode.IsSpace` (Latin-1 table + the `White_Space` property) — what `strings.TrimSpace` cuts -/
def isSpaceGo (c : Char) : Bool :=
  let n := c.toNat
  (9 ≤ n && n ≤ 13) || n == 0x20 || n == 0x85 || n == 0xA0 || n == 0x1680 ||
  (0x2000 ≤ n && n ≤ 0x200A) || n == 0x2028 || n == 0x2029 || n == 0x202F || n == 0x205F || n == 0x3000

def trimRight (s : Str) : Str := (s.reverse.dropWhile isSpaceGo).reverse

/-- `strings.TrimSpace` -/
def trimSpace (s : Str) : Str := trimRight (s.dropWhile isSpaceGo)

def profilesKey : Str := "COMPOSE_PROFILES".toList

/-- the fallback of `WithDefaultProfiles()`: `o.Environment["COMPOSE_PROFILES"]` (a missing key reads as `""`)
    split at `,`, every entry trimmed -/
def envProfiles (env : Env) : List Str := (splitOn [','] ((env.get profilesKey).getD [])).map trimSpace

/-- an option call of `cli.NewProjectOptions`: one of `Model/Name.lean`, or a profile option -/
inductive XOpt
  | base (o : Opt)
  | profiles (l : List Str)
  | defaultProfiles (l : List Str)
deriving Repr, DecidableEq

/-- state: the `ProjectOptions` fields + the `Profiles` the appended load options will leave in `loader.Options`
    (`none`: no profile option ran) -/
abbrev XState := PO × Option (List Str)

def applyX (w : World) (st : XState) : XOpt → Except Err XState
  | .base x =>
    match applyOpt w st.1 x with
    | .ok o' => .ok (o', st.2)
    | .error e => .error e
  | .profiles l => .ok (st.1, some l)
  | .defaultProfiles l => .ok (st.1, some (if l = [] then envProfiles st.1.env else l))

def runXOpts (w : World) : List XOpt → XState → Except Err XState
  | [], st => .ok st
  | x :: xs, st =>
    match applyX w st x with
    | .ok st' => runXOpts w xs st'
    | .error e => .error e

/-- the options of `Model/Name.lean` among them, in order -/
def baseOpts : List XOpt → List Opt
  | [] => []
  | .base x :: xs => x :: baseOpts xs
  | _ :: xs => baseOpts xs

/-- `ServiceConfig.HasProfile` -/
def hasProfile (svc : List Str) (selected : List Str) : Bool :=
  svc.isEmpty || selected.any fun p => p == ['*'] || svc.contains p

/-- `fmt.Sprintf("%s_%s", dict["name"], key)` -/
def implicitName (project key : Str) : Str := project ++ '_' :: key

/-- the loaded project, observed further: `Project.Profiles`, which of the probe services is enabled, the names of
    the resources that carry no `name:` -/
structure LoadedX where
  base : Loaded
  profiles : List Str
  /-- service key ↦ enabled -/
  enabled : List (Str × Bool)
  /-- resource key ↦ `Name` -/
  resources : List (Str × Str)
deriving Repr, DecidableEq

/-- what the harness puts into every compose file: services (key, `profiles:`) and unnamed resources (keys) -/
structure Extras where
  services : List (Str × List Str) := []
  resourceKeys : List Str := []
deriving Repr

def decorate (x : Extras) (profiles : Option (List Str)) (r : Loaded) : LoadedX :=
  { base := r,
    profiles := profiles.getD [],
    enabled := x.services.map fun s => (s.1, hasProfile s.2 (profiles.getD [])),
    resources := x.resourceKeys.map fun k => (k, implicitName r.name k) }

/-- `NewProjectOptions(given, opts…)` with profile options and `WithInterpolation` calls anywhere, then `LoadProject` -/
def runXP (w : World) (x : Extras) (opts : List XOpt) (interps : List Bool) : Except Err LoadedX :=
  match runXOpts w opts ({ configs := w.given }, none) with
  | .ok st =>
    match loadX w st.1 (!interpFlag interps) with
    | .ok r => .ok (decorate x st.2 r)
    | .error e => .error e
  | .error e => .error e

end CV.Name
