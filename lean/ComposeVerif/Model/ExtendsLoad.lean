import ComposeVerif.Model.Pipeline
import ComposeVerif.Model.ExtendsFS
/-!
# The nested load of `getExtendsBaseFromFile`, inside the model  (round 6)

`Model/Extends.lean` takes the file system as a parameter: for each reference string, *what loading that file
yields*.  `Model/ExtendsFS.lean` filled the parameter for files that are already canonical.  This module fills it for
**raw** files: `getExtendsBaseFromFile` calls

    extendsOpts := opts.clone()
    extendsOpts.ResolvePaths = false; .SkipNormalization = true; .SkipConsistencyCheck = true; .SkipInclude = true
    extendsOpts.SkipExtends = true;   .SkipValidation = true;    .SkipDefaultValues = true
    source, processor, err := loadYamlFile(ctx, ConfigFile{Filename: local}, extendsOpts, relworkingdir, nil, ct, map[string]any{}, nil)
    … `services` / base-present checks …
    err = paths.ResolveRelativePaths(source, relworkingdir, remotes)

and `loadYamlFile` on one document is `Pipeline.processDoc` (the integrator's composed model of `processRawYaml`:
interpolate → (extends: skipped) → merge into `{}` → unicity → (schema: skipped) → canonical → omitEmpty → unicity).
So the file-system entry of a raw file is `loadFile`: the composed per-document pipeline under the cloned options on
the empty model, then C12's `Paths.resolve` with the file's own directory (`anchoredFileAt`: `$HOME` and the remote test of
the outer configuration, working directory = the file's directory).

A **virtual file system** (`VFS`) lists, per reference string, the directory of the file (relative to the project
directory: `loader.Dir(refPath)`) and its raw document — or the error of reading it; `loadedFS` turns it into the `FS`
parameter.  Tied to the real `getExtendsBaseFromFile` by the `c05.load` correspondence stream (raw short-syntax
documents with `${VAR}` references, every directory of the layout).
-/
namespace CV.Extends
open CV CV.Val

/-- the option block of `getExtendsBaseFromFile`: the clone keeps the interpolation switch, everything else is forced -/
def nestedOpts (o : Pipeline.Opts) : Pipeline.Opts :=
  { o with resolvePaths := false, skipNormalization := true, skipExtends := true,
           skipValidation := true, skipDefaultValues := true }

/-- the configuration of the nested load: same interpolation / environment / omitempty table, cloned options -/
def nestedCfg (c : Pipeline.Cfg) : Pipeline.Cfg := { c with opts := nestedOpts c.opts }

/-- `loadYamlFile` on the one document of an extended file, into the empty model -/
def nestedLoad (c : Pipeline.Cfg) (raw : KVs) : Pipeline.Out Val :=
  Pipeline.processDoc (nestedCfg c) (.map []) raw

/-- the file-system entry of the raw document `raw` stored in directory `relDir`: nested load, then
`ResolveRelativePaths(source, relworkingdir)` (which runs after the `services` / base checks of `baseFromFile`) -/
def loadFile (c : Pipeline.Cfg) (relDir : String) (raw : KVs) : FileRes :=
  match nestedLoad c raw with
  | .ok (.map d) => anchoredFileAt { c.paths with wd := relDir.toList } d
  | .ok _ => .err "loadErr"
  | .err _ => .err "loadErr"
  | .panic s => .panic s

/-- one file of the virtual file system -/
inductive VFile where
  /-- the file cannot be read / is not a YAML mapping (class of the error) -/
  | bad (cls : String)
  /-- the file's directory relative to the project directory, and its raw document -/
  | doc (relDir : String) (raw : KVs)
deriving Repr, Inhabited

/-- reference string ↦ file -/
abbrev VFS := List (String × VFile)

def loadVFile (c : Pipeline.Cfg) : VFile → FileRes
  | .bad cls => .err cls
  | .doc relDir raw => loadFile c relDir raw

/-- the `FS` parameter of `Model/Extends.lean` computed from a virtual file system -/
def loadedFS (c : Pipeline.Cfg) (vfs : VFS) : FS := vfs.map fun p => (p.1, loadVFile c p.2)

/-- the environment of a real load whose extended files are the raw documents of `vfs` -/
def loadedEnv (c : Pipeline.Cfg) (vfs : VFS) : Env := realEnv c.mainFile (loadedFS c vfs)

/-- `ApplyExtends` of the main document over a virtual file system of raw files -/
def applyExtendsV (c : Pipeline.Cfg) (vfs : VFS) (order : List String) (dict : KVs) : Out KVs :=
  applyExtendsOrd (loadedEnv c vfs) order dict

end CV.Extends
