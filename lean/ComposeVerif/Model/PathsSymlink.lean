import ComposeVerif.Model.Paths
import ComposeVerif.Model.PathsOrigin
/-!
# `utils.ResolveSymbolicLink` over a finite link table  (property C12, develop.watch paths)

An absolute clean path is the list of its components.  The file system is a *link table*
`fs : List Str → Option (Option (List Str))`: `fs p = some (some t)` ⇔ `os.Lstat(p)` says symbolic link and
`filepath.EvalSymlinks(p) = t`; `some none` ⇔ symbolic link whose evaluation fails (dangling, loop); `none` ⇔ not a
symbolic link (a directory, a file, or nothing at all).

* `firstLink`   `getSymbolinkLink`: the shortest prefix that is a symbolic link, with its evaluation
* `resolveSym`  `ResolveSymbolicLink` as repaired in round 2: replace that prefix by its target and look again, at most
                once per component of the original path (`for range strings.Split(path, "/")`); stop early when nothing
                is found or the replacement changes nothing
* `resolveSymOnce`  the function before the repair (first link only) — kept for `Neg/C12.lean`
* `resolveStr`  `ResolveSymbolicLink` on strings (round 5): a **relative** path is returned as it is (`getSymbolinkLink`
                finds no link in a path that is not anchored — before the round-5 repair its components were looked up
                from the working directory of the process); an absolute path is resolved on its components.
                This is the function the parameter `Cfg.sym` of `Model/Paths.lean` stands for (`cfgOf`).
-/
namespace CV.Paths.Sym

abbrev P := List Str
abbrev FS := P → Option (Option P)

inductive Res where
  | ok (p : P)
  | err
deriving Repr, DecidableEq

/-- scan the prefixes `done ++ [c₁]`, `done ++ [c₁, c₂]`, … : the first one that is a link, its evaluation, and the rest -/
def firstLink (fs : FS) : P → P → Option (P × Option P × P)
  | _, [] => none
  | done, c :: rest =>
    match fs (done ++ [c]) with
    | some t => some (done ++ [c], t, rest)
    | none => firstLink fs (done ++ [c]) rest

/-- one round of the loop: `none` = finished with this path -/
def round (fs : FS) (p : P) : Option Res ⊕ P :=
  match firstLink fs [] p with
  | none => .inl (some (.ok p))                  -- no symbolic link detected
  | some (_, none, _) => .inl (some .err)        -- EvalSymlinks failed
  | some (_, some t, rest) =>
    if t ++ rest = p then .inl (some (.ok p))    -- `resolved == path`
    else .inr (t ++ rest)

/-- the repaired loop, `fuel` = number of components of the original path -/
def loop (fs : FS) : Nat → P → Res
  | 0, p => .ok p
  | fuel + 1, p =>
    match round fs p with
    | .inl (some r) => r
    | .inl none => .ok p
    | .inr p' => loop fs fuel p'

def resolveSym (fs : FS) (p : P) : Res := loop fs p.length p

/-- before the repair: only the first link was replaced -/
def resolveSymOnce (fs : FS) (p : P) : Res :=
  match firstLink fs [] p with
  | none => .ok p
  | some (_, none, _) => .err
  | some (_, some t, rest) => .ok (t ++ rest)

/-- a finite link table -/
def ofTable (tab : List (P × Option P)) : FS := fun p =>
  match tab.find? (fun e => e.1 = p) with
  | some e => some e.2
  | none => none

/-- `utils.ResolveSymbolicLink(path)` on strings; `none` = error.  (An absolute path that is not clean — only a watch path
written absolute with `.`, `..`, `//` — is handled through its cleaned components here; the real function replaces a link
only when its clean spelling is a leading component of the path as written and otherwise leaves the path alone.  Those
inputs are outside the correspondence streams and checked by an oracle only, see design/C12.md "Not proved".) -/
def resolveStr (fs : FS) (s : Str) : Option Str :=
  if isAbs s then
    match resolveSym fs (comps s) with
    | .ok r => some ('/' :: joinSlash r)
    | .err => none
  else some s

/-- the resolver configuration whose symbolic-link resolution is the link-table model -/
def cfgOf (fs : FS) (wd : Str) (home : Option Str) : Cfg := ⟨wd, home, fun _ => false, resolveStr fs⟩

end CV.Paths.Sym
