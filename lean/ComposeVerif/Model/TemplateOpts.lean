import ComposeVerif.Model.Template
/-!
# `template.SubstituteWithOptions`: the model of `Substitute` with its three options as parameters

`Cfg` carries what `template.Config` carries:

* `pattern` — used twice by the Go code and therefore two fields here: `matchAt` is one step of
  `pattern.ReplaceAllStringFunc` (a match attempt at the current position; an empty match is treated as no
  match — the default pattern never matches the empty string), `find` is `pattern.FindStringSubmatch` +
  `matchGroups` on the truncated substring (`none` = nil match = the `matchGroups` panic);
* `subsFunc` — `WithSubstitutionFunction` (`none` = chosen from the text by `getSubstitutionFunctionForTemplate`);
* `replFunc` — `WithReplacementFunction` (`none` = `DefaultReplacementFunc`).

Quirks that are modelled because the code has them:

* the rest of an over-long match is interpolated by `SubstituteWith(rest, mapping, pattern)`: the custom
  *pattern* is kept, a custom substitution function and a custom replacement function are **dropped**;
* the six built-in operator functions interpolate their argument with `Substitute(…)`, i.e. with the
  **default** pattern and no options, whatever the configuration.

`scanC defaultCfg = scan`, and `replC defaultCfg = repl` on every text the scan hands over (`Props/C07Opts.lean`).
-/
namespace CV.Template

/-- the named groups of a match as `matchGroups` returns them (a group that did not participate is empty) -/
structure Groups where
  escaped : Str
  named : Str
  braced : Str
deriving Repr, DecidableEq

/-- result of a `SubstituteFunc`: `(value, applied, nil)` or `(_, _, err)` -/
inductive SubRes
  | val (v : Str) (applied : Bool)
  | err (e : Err)
  | panic (p : PanicSite)
deriving Repr, DecidableEq

structure Cfg where
  matchAt : Str → Option (Str × Str)
  find : Str → Option Groups
  subsFunc : Option (Env → Str → SubRes)
  replFunc : Option (Env → Str → Out)

/-- the six built-in `SubstituteFunc`s; `sc` is `Substitute(·, mapping)` — always the default configuration -/
def builtinSubs (sc : Str → Out) (op : Op) (env : Env) (substitution : Str) : SubRes :=
  if containsStr op.str substitution then
    match sc (cut op.str substitution).2 with
    | .panic p => .panic p
    | .err e => .err e
    | .ok d =>
      match applyOp op (cut op.str substitution).1 (env (cut op.str substitution).1) d with
      | .ok x => .val x true
      | .err e => .err e
      | .panic p => .panic p
  else .val [] false

mutual
/-- `SubstituteWithOptions`: `ReplaceAllStringFunc` + first-error bookkeeping -/
def scanC (cfg : Cfg) (fuel : Nat) (env : Env) (s : Str) (acc : Str) (firstErr : Option Err) : Out :=
  match fuel with
  | 0 => .panic .fuel
  | fuel + 1 =>
    match s with
    | [] => match firstErr with
      | none => .ok acc
      | some e => .err e
    | c :: cs =>
      match cfg.matchAt (c :: cs) with
      | none => scanC cfg fuel env cs (acc ++ [c]) firstErr
      | some (m, rest) =>
        match (match cfg.replFunc with
               | some f => f env m
               | none => replC cfg fuel env m) with
        | .ok v => scanC cfg fuel env rest (acc ++ v) firstErr
        | .err e => scanC cfg fuel env rest acc (match firstErr with | none => some e | some e0 => some e0)
        | .panic p => .panic p
/-- `DefaultReplacementAppliedFunc` -/
def replC (cfg : Cfg) (fuel : Nat) (env : Env) (m : Str) : Out :=
  match fuel with
  | 0 => .panic .fuel
  | f + 1 =>
    let sub := match firstClose m with
      | some i => m.take (i + 1)
      | none => m
    let rest := match firstClose m with
      | some i => m.drop (i + 1)
      | none => []
    match cfg.find sub with
    | none => .panic .matchGroups
    | some g =>
      if !g.escaped.isEmpty then .ok g.escaped
      else if !g.named.isEmpty then .ok ((env g.named).getD [])
      else if g.braced.isEmpty then .err .invalid
      else
        match (match cfg.subsFunc with
               | some sf => sf env g.braced
               | none => builtinSubs (fun a => scan f env a [] none) (selectOp m) env g.braced) with
        | .panic p => .panic p
        | .err e => .err e
        | .val v true =>
          match scanC { cfg with subsFunc := none, replFunc := none } f env rest [] none with
          | .ok r => .ok (v ++ r)
          | o => o
        | .val _ false => .ok ((env g.braced).getD [])
end

def substWith (cfg : Cfg) (env : Env) (s : Str) : Out := scanC cfg (fuelFor s) env s [] none

/-! ## The pattern with another delimiter (`WithPattern(regexp.MustCompile(fmt.Sprintf(patternFormat, d, …)))`) -/

/-- `matchDollar` with the delimiter as a parameter; the `escaped` group is the delimiter itself -/
def matchDelim (d : Char) : Str → Option (M × Str × Str)
  | a :: b :: r =>
    if a == d then
      if b == d then some (.escaped, [d, d], r)
      else if b == '{' then
        let m := matchBraced r
        some (m.1, d :: '{' :: m.2.1, m.2.2)
      else if isNameStart b then
        some (.named (spanName (b :: r)).1, d :: (spanName (b :: r)).1, (spanName (b :: r)).2)
      else none
    else none
  | _ => none

def groupsOfD (d : Char) : M → Groups
  | .escaped => ⟨[d], [], []⟩
  | .named n => ⟨[], n, []⟩
  | .braced b => ⟨[], [], b⟩
  | .invalid => ⟨[], [], []⟩

/-- leftmost match of the delimiter pattern anywhere in `s` (`FindStringSubmatch` is not anchored) -/
def findDelim (d : Char) : Str → Option Groups
  | [] => none
  | c :: cs =>
    match matchDelim d (c :: cs) with
    | some x => some (groupsOfD d x.1)
    | none => findDelim d cs

def delimCfg (d : Char) : Cfg where
  matchAt s := (matchDelim d s).map (fun x => (x.2.1, x.2.2))
  find := findDelim d
  subsFunc := none
  replFunc := none

/-- the configuration of `Substitute`: `DefaultPattern` (delimiter `$`), no options -/
def defaultCfg : Cfg := delimCfg '$'

end CV.Template

/-! ## Custom patterns that are not "the default format with another delimiter"

Three further regular expressions as matchers (`harness/p/c07/c07_opts.go` builds the same three regexps):

* `strict` — the default format without the operator part: `\$(?i:(?P<escaped>\$)|(?P<named>N)|{(?:(?P<braced>N)}|(?P<invalid>)))`;
* `angle`  — no delimiter, no braces, no `braced`/`invalid` group: `<<(?P<named>[a-z]+)>>|@(?P<escaped>@)`;
* `dbl`    — a match that contains a `}` before its end: `\$\{(?P<braced>[a-z]+)\}\}|\$(?P<escaped>\$)`.
  `DefaultReplacementAppliedFunc` truncates the match at the first balanced `}` and re-matches: the re-match
  fails and `matchGroups` indexes a nil slice — the `panic matchGroups` outcome of the model is reachable.
-/
namespace CV.Template

/-- `FindStringSubmatch` for a matcher that is tried at every position (leftmost match) -/
def findBy (g : Str → Option (Groups × Str × Str)) : Str → Option Groups
  | [] => none
  | c :: cs =>
    match g (c :: cs) with
    | some x => some x.1
    | none => findBy g cs

def patCfg (g : Str → Option (Groups × Str × Str)) : Cfg where
  matchAt s := (g s).map (fun x => (x.2.1, x.2.2))
  find := findBy g
  subsFunc := none
  replFunc := none

def matchStrictG : Str → Option (Groups × Str × Str)
  | '$' :: '$' :: r => some (⟨['$'], [], []⟩, ['$', '$'], r)
  | '$' :: '{' :: r =>
    match r with
    | c :: _ =>
      if isNameStart c then
        match (spanName r).2 with
        | '}' :: r3 => some (⟨[], [], (spanName r).1⟩, '$' :: '{' :: (spanName r).1 ++ ['}'], r3)
        | _ => some (⟨[], [], []⟩, ['$', '{'], r)
      else some (⟨[], [], []⟩, ['$', '{'], r)
    | [] => some (⟨[], [], []⟩, ['$', '{'], r)
  | '$' :: c :: r =>
    if isNameStart c then some (⟨[], (spanName (c :: r)).1, []⟩, '$' :: (spanName (c :: r)).1, (spanName (c :: r)).2)
    else none
  | _ => none

def isLowerAscii (c : Char) : Bool := 'a' ≤ c && c ≤ 'z'

def matchAngleG : Str → Option (Groups × Str × Str)
  | '@' :: '@' :: r => some (⟨['@'], [], []⟩, ['@', '@'], r)
  | '<' :: '<' :: r =>
    match r.takeWhile isLowerAscii, r.dropWhile isLowerAscii with
    | [], _ => none
    | n, '>' :: '>' :: r3 => some (⟨[], n, []⟩, '<' :: '<' :: n ++ ['>', '>'], r3)
    | _, _ => none
  | _ => none

def matchDblG : Str → Option (Groups × Str × Str)
  | '$' :: '$' :: r => some (⟨['$'], [], []⟩, ['$', '$'], r)
  | '$' :: '{' :: r =>
    match r.takeWhile isLowerAscii, r.dropWhile isLowerAscii with
    | [], _ => none
    | n, '}' :: '}' :: r3 => some (⟨[], [], n⟩, '$' :: '{' :: n ++ ['}', '}'], r3)
    | _, _ => none
  | _ => none

end CV.Template
