/-!
# C01 — service `env_file` / `label_file`: what a missing or unreadable file does (types/project.go, round 5)

`WithServicesEnvironmentResolved` and `WithServicesLabelsResolved` walk the files of each service in list order:

```go
loadEnvFile:    if _, err := os.Stat(path); fileIsMissing(err) { if Required { return error "env file … not found" }; return nil, nil }
                return loadMappingFile(path, …)             // os.Open error, read / parse error
loadLabelFile:  if missing { return error "label file … not found" };  return loadMappingFile(path, …)
```

`fileIsMissing` = `ErrNotExist` or `ENOTDIR` (a parent that is a file).  What is on disk at a path is the parameter
`fs`; the content of a readable file matters only through "parses or not".  Outcomes carry the path the error names.
-/
namespace CV.C01.Files

/-- what `os.Stat` / `os.Open` / the dotenv parser meet at a path -/
inductive Disk where
  | absent            -- nothing there (ErrNotExist)
  | parentIsFile      -- ENOTDIR: counted as absent by `fileIsMissing`
  | directory         -- Stat and Open succeed, reading fails ("is a directory")
  | unreadable        -- Stat succeeds, Open fails (permissions)
  | file (parses : Bool)
deriving DecidableEq, Repr

structure EnvFile where
  path : String
  required : Bool
deriving DecidableEq, Repr

inductive Out where
  | ok (loaded : List String)                 -- the files whose variables were taken, in order
  | err (cls : String) (path : String)        -- notFound / open / read / parse, and the path in the message
deriving DecidableEq, Repr

def isMissing : Disk → Bool
  | .absent | .parentIsFile => true
  | _ => false

/-- `loadMappingFile` on a path that `Stat` found -/
def loadMappingFile (d : Disk) (path : String) : Except (String × String) Unit :=
  match d with
  | .file true => .ok ()
  | .file false => .error ("parse", path)
  | .directory => .error ("read", path)
  | .unreadable => .error ("open", path)
  | .absent | .parentIsFile => .error ("open", path)   -- not reached: `Stat` said missing

/-- the loop over `service.EnvFiles` -/
def loadEnvFiles (fs : String → Disk) : List EnvFile → List String → Out
  | [], acc => .ok acc.reverse
  | e :: r, acc =>
    if isMissing (fs e.path) then
      if e.required then .err "notFound" e.path else loadEnvFiles fs r acc
    else match loadMappingFile (fs e.path) e.path with
      | .ok () => loadEnvFiles fs r (e.path :: acc)
      | .error (c, p) => .err c p

/-- the loop over `service.LabelFiles` -/
def loadLabelFiles (fs : String → Disk) : List String → List String → Out
  | [], acc => .ok acc.reverse
  | p :: r, acc =>
    if isMissing (fs p) then .err "notFound" p
    else match loadMappingFile (fs p) p with
      | .ok () => loadLabelFiles fs r (p :: acc)
      | .error (c, q) => .err c q

/-- one service: env files (unless `SkipResolveEnvironment`), then label files -/
def resolveService (fs : String → Disk) (skipEnv : Bool) (envFiles : List EnvFile) (labelFiles : List String) : Out :=
  match (if skipEnv then Out.ok [] else loadEnvFiles fs envFiles []) with
  | .err c p => .err c p
  | .ok l1 => match loadLabelFiles fs labelFiles [] with
    | .err c p => .err c p
    | .ok l2 => .ok (l1 ++ l2)

/-! ## all services of a project (round 6)

`WithServicesEnvironmentResolved` and `WithServicesLabelsResolved` each run `for i, service := range newProject.Services`
(a Go map: any order) and return the first error; `modelToProject` calls the first (unless `SkipResolveEnvironment`)
and then the second.  Nothing is remembered from one service — or one reference — to the next. -/

structure Svc where
  envFiles : List EnvFile
  labelFiles : List String
deriving Repr

/-- the loop of `WithServicesEnvironmentResolved` over the services in visit order -/
def envPass (fs : String → Disk) : List Svc → List String → Out
  | [], acc => .ok acc
  | s :: r, acc =>
    match loadEnvFiles fs s.envFiles [] with
    | .err c p => .err c p
    | .ok l => envPass fs r (acc ++ l)

/-- the loop of `WithServicesLabelsResolved` over the services in visit order -/
def labelPass (fs : String → Disk) : List Svc → List String → Out
  | [], acc => .ok acc
  | s :: r, acc =>
    match loadLabelFiles fs s.labelFiles [] with
    | .err c p => .err c p
    | .ok l => labelPass fs r (acc ++ l)

/-- both passes, as `modelToProject` chains them: the env files of ALL services first, then the label files -/
def resolveProject (fs : String → Disk) (skipEnv : Bool) (svcs : List Svc) : Out :=
  match (if skipEnv then Out.ok [] else envPass fs svcs []) with
  | .err c p => .err c p
  | .ok l1 => match labelPass fs svcs [] with
    | .err c p => .err c p
    | .ok l2 => .ok (l1 ++ l2)

def Out.isOk : Out → Bool
  | .ok _ => true
  | .err _ _ => false

end CV.C01.Files
