import ComposeVerif.Model.Paths
/-!
# Which directory anchors a path: the per-origin base-directory logic of the loader  (property C12)

* `dir`, `rel`                       `path/filepath.Dir`, `filepath.Rel` on Unix (lexical)
* `absIn`, `loaderDir`               `localResourceLoader.abs / Load / Dir` (loader/loader.go); `isDir` = `os.Stat(..).IsDir()` is a parameter
* `includeLevel`                     one entry of `ApplyInclude` (loader/include.go): the relative working directory the included
                                     model is resolved against, and the project directory that becomes the loader's working directory
* `extendsLevel`                     `getExtendsBaseFromFile` (loader/extends.go): the relative working directory of the extended file
* `stagesOf`, `predict`              a chain of include / extends levels ⇒ the list of bases an attribute is resolved against
                                     (innermost first, the project directory last) ⇒ the value in the loaded project
-/
namespace CV.Paths

/-- everything up to and including the last slash -/
def dirPrefix (p : Str) : Str :=
  match (splitSlash p).reverse with
  | [] => []
  | _ :: restRev => (restRev.reverse.map (· ++ ['/'])).flatten

/-- `filepath.Dir` -/
def dir (p : Str) : Str := clean (dirPrefix p)

/-- the components of the cleaned path (without the root) -/
def comps (p : Str) : List Str := (cleanStack p).reverse

/-- strip the common prefix; what is left of the base becomes `..`s -/
def relC : List Str → List Str → Option (List Str)
  | b :: B, t :: T => if b = t then relC B T else
      if b = dotdot then none else some (List.replicate (B.length + 1) dotdot ++ t :: T)
  | [], T => some T
  | b :: B, [] => if b = dotdot then none else some (List.replicate (B.length + 1) dotdot)

/-- `filepath.Rel(base, targ)`; `none` = "Rel: can't make … relative to …" -/
def rel (base targ : Str) : Option Str :=
  if isAbs base != isAbs targ then none
  else if comps base = comps targ then some dot
  else
    -- Go keeps a relative target that cleans to `.` as the element `.` (only the base `.` becomes empty)
    let T := if !isAbs targ && comps targ = [] then [dot] else comps targ
    (relC (comps base) T).map joinSlash

/-- `localResourceLoader.abs` = `Load` -/
def absIn (lw p : Str) : Str := if isAbs p then p else join lw p

/-- `localResourceLoader.Dir(originalPath)` -/
def loaderDir (isDir : Str → Bool) (lw orig : Str) : Str :=
  let path := absIn lw orig
  let path := if isDir path then path else absIn lw (dir orig)
  match rel lw path with
  | some r => r
  | none => path

/-- the loader state while descending: the local resource loader's working directory and the `workingDir`
(`config.WorkingDir`) of the model being loaded -/
structure Level where
  lw : Str
  cw : Str

/-- one include entry (first path `p`, optional `project_directory`): the relative working directory of the
included model and the state inside it -/
def includeLevel (isDir : Str → Bool) (st : Level) (p : Str) (pd : Option Str) : Str × Level :=
  let path := absIn st.lw p
  match pd with
  | none => let r := loaderDir isDir st.lw path; (r, ⟨dir path, r⟩)
  | some d =>
    if d = [] then let r := loaderDir isDir st.lw path; (r, ⟨dir path, r⟩)
    else if !isAbs d then let r := loaderDir isDir st.lw d; (r, ⟨join st.cw d, r⟩)
    else (d, ⟨d, d⟩)

/-- `getExtendsBaseFromFile(refPath)`: the relative working directory of the extended file -/
def extendsLevel (isDir : Str → Bool) (st : Level) (ref : Str) : Str := loaderDir isDir st.lw ref

inductive Step where
  | incl (p : Str) (pd : Option Str)
  | ext (file : Str)
deriving Repr

/-- bases an attribute at the end of the chain is resolved against, innermost first (without the final project directory).
`rebase` = the base the next `extends.file` reference has already been rewritten with (by `absExtendsPath`). -/
def stagesOf (cfg : Cfg) (isDir : Str → Bool) : Level → Option Str → List Step → List Str
  | _, _, [] => []
  | st, _, .incl p pd :: rest =>
    let (r, st') := includeLevel isDir st p pd
    stagesOf cfg isDir st' none rest ++ [r]
  | st, rb, .ext f :: rest =>
    let f' := match rb with
      | some b => absExtendsStr { cfg with wd := b } f
      | none => f
    let r := extendsLevel isDir st f'
    match rest with
    | .ext _ :: _ => stagesOf cfg isDir st (some r) rest      -- a nested extends: its file is resolved once, at its own directory
    | _ => stagesOf cfg isDir st none rest ++ [r]

/-- the string part of the resolver of an attribute kind (0 local, 1 context, 2 mount) -/
def resolveKind (kind : Nat) (cfg : Cfg) (s : Str) : Out Str :=
  match kind with
  | 0 => .ok (absPathStr cfg s)
  | 1 => .ok (absContextStr cfg s)
  | _ => maybeUnixStr cfg s

def applyStages (kind : Nat) (cfg : Cfg) : List Str → Str → Out Str
  | [], s => .ok s
  | b :: rest, s =>
    match resolveKind kind { cfg with wd := b } s with
    | .ok s' => applyStages kind cfg rest s'
    | .err e => .err e
    | .panic x => .panic x

/-- the value of a path attribute in the loaded project: written `s` at the end of the chain `steps` below the
project directory `cfg.wd`; `final = false` ⇔ `ResolvePaths` off (the last stage is skipped) -/
def predict (kind : Nat) (cfg : Cfg) (isDir : Str → Bool) (steps : List Step) (final : Bool) (s : Str) : Out Str :=
  let stages := stagesOf cfg isDir ⟨cfg.wd, cfg.wd⟩ none steps
  applyStages kind cfg (if final then stages ++ [cfg.wd] else stages) s

end CV.Paths
