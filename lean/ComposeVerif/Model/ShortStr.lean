import ComposeVerif.Model.Str
/-!
# String-level helpers shared by the short-syntax parsers (C03)

`strings.Split` on a one-byte separator, `strconv.ParseUint(s, 10, 16)`, `strconv.FormatUint`,
`path.Clean`, `unicode.IsLetter` (restricted table), `net.SplitHostPort(ip + ":")`, `net.ParseIP` (validity only).
All byte-level tests in the Go code are on ASCII bytes, so code-point level modelling gives the same cuts.
-/
namespace CV.Short

/-- `strings.Split(s, string(c))` -/
def splitOn (c : Char) : Str → List Str
  | [] => [[]]
  | x :: xs =>
    if x = c then [] :: splitOn c xs
    else match splitOn c xs with
      | [] => [[x]]
      | h :: t => (x :: h) :: t

/-- `strings.Join(l, string(c))` -/
def joinWith (c : Char) : List Str → Str
  | [] => []
  | [a] => a
  | a :: b :: r => a ++ c :: joinWith c (b :: r)

/-- `strings.Cut(s, string(c))`: `none` when the separator is absent -/
def cutAt (c : Char) : Str → Option (Str × Str)
  | [] => none
  | x :: xs =>
    if x = c then some ([], xs)
    else match cutAt c xs with
      | none => none
      | some (a, b) => some (x :: a, b)

/-- `len(s)` in bytes (UTF-8) -/
def byteLen (s : Str) : Nat := (s.map Char.utf8Size).sum

/-! ## decimal numbers -/

def parseDecAux (acc : Nat) : Str → Option Nat
  | [] => some acc
  | ch :: r => if ch.isDigit then parseDecAux (acc * 10 + (ch.toNat - 48)) r else none

/-- `strconv.ParseUint(s, 10, 16)`: non-empty, digits only, value ≤ 65535 -/
def parseUint16 (s : Str) : Option Nat :=
  if s = [] then none else
  match parseDecAux 0 s with
  | some n => if n ≤ 65535 then some n else none
  | none => none

def digitChar (d : Nat) : Char := Char.ofNat (48 + d)

/-- `strconv.FormatUint(n, 10)` -/
def natToDec (n : Nat) : Str :=
  if _h : n < 10 then [digitChar n] else natToDec (n / 10) ++ [digitChar (n % 10)]
termination_by n
decreasing_by omega

/-- `strconv.Itoa` -/
def intToDec (i : Int) : Str :=
  match i with
  | .ofNat n => natToDec n
  | .negSucc n => '-' :: natToDec (n + 1)

/-! ## `unicode.IsLetter`, restricted: ASCII plus the few code points the generators use -/

def isLetter (c : Char) : Bool :=
  c.isAlpha || c = 'é' || c = 'É' || c = '世' || c = 'K' || c = 'ſ' || c = 'ß'

def lower (s : Str) : Str := s.map Char.toLower

/-! ## `path.Clean` -/

/-- process the components left to right; `st` is the output stack (reversed) -/
def cleanStep (rooted : Bool) (st : List Str) (comp : Str) : List Str :=
  if comp = [] || comp = ['.'] then st
  else if comp = ['.', '.'] then
    match st with
    | [] => if rooted then [] else [comp]
    | top :: rest => if top = ['.', '.'] then (if rooted then st else comp :: st) else rest
  else comp :: st

def pathClean (p : Str) : Str :=
  match p with
  | [] => ['.']
  | c :: _ =>
    let rooted := c = '/'
    let st := (splitOn '/' p).foldl (cleanStep rooted) []
    let body := joinWith '/' st.reverse
    if rooted then '/' :: body else if body = [] then ['.'] else body

/-- transform/volume.go `cleanTarget` -/
def cleanTarget (t : Str) : Str := if t = [] then [] else pathClean t

/-! ## `net.SplitHostPort(rawIP + ":")` and `net.ParseIP` -/

/-- host part of `net.SplitHostPort(rawIP ++ ":")`, `none` = error -/
def splitHostColon (raw : Str) : Option Str :=
  match raw with
  | '[' :: r =>
    -- the first ']' must be the last character of raw; no other '[' / ']'
    match r.reverse with
    | ']' :: hr =>
      let h := hr.reverse
      if h.contains ']' || h.contains '[' then none else some h
    | _ => none
  | _ => if raw.contains ':' || raw.contains '[' || raw.contains ']' then none else some raw

/-- `parseIPv4Fields`: state (val, digLen, pos, prevDot/atStart) -/
def ipv4Loop : Str → (val digLen pos : Nat) → (first : Bool) → Bool
  | [], _, digLen, pos, _ => pos == 3 && digLen > 0
  | c :: r, val, digLen, pos, first =>
    if c.isDigit then
      if digLen == 1 && val == 0 then false
      else
        let v := val * 10 + (c.toNat - 48)
        if v > 255 then false else ipv4Loop r v (digLen + 1) pos false
    else if c = '.' then
      if first || r = [] || digLen == 0 then false
      else if pos == 3 then false
      else ipv4Loop r 0 0 (pos + 1) false
    else false

def validIPv4 (s : Str) : Bool := ipv4Loop s 0 0 0 true

def isHex (c : Char) : Bool := c.isDigit || ('a' ≤ c && c ≤ 'f') || ('A' ≤ c && c ≤ 'F')

/-- one round of the `for i < 16` loop of `parseIPv6`; result: `none` error, `some (i, ell, rest, stop)` -/
def ipv6Loop : Nat → Str → Nat → Bool → Bool
  | 0, _, _, _ => false
  | fuel + 1, s, i, ell =>
    if i ≥ 16 then
      -- loop exit: must have used the entire string; ellipsis must expand to ≥ 1 group
      s = [] && !ell
    else
      let hex := s.takeWhile isHex
      let rest := s.dropWhile isHex
      if hex.length > 4 then false
      else if hex.length == 0 then false
      else match rest with
        | '.' :: _ =>
          if !ell && i != 12 then false
          else if i + 4 > 16 then false
          else if !validIPv4 s then false
          else finish (i + 4) ell
        | [] => finish (i + 2) ell
        | c :: r1 =>
          if c ≠ ':' then false
          else match r1 with
            | [] => false
            | ':' :: r2 =>
              if ell then false
              else if r2 = [] then finish (i + 2) true
              else ipv6Loop fuel r2 (i + 2) true
            | _ => ipv6Loop fuel r1 (i + 2) ell
where
  /-- after `break` with the string consumed -/
  finish (i : Nat) (ell : Bool) : Bool := if i < 16 then ell else !ell

def validIPv6 (s : Str) : Bool :=
  if s.contains '%' then false
  else match s with
    | ':' :: ':' :: r => if r = [] then true else ipv6Loop 10 r 0 true
    | _ => ipv6Loop 10 s 0 false

/-- `net.ParseIP(s) != nil` -/
def validIP (s : Str) : Bool :=
  match s.find? (fun c => c = '.' || c = ':' || c = '%') with
  | some '.' => validIPv4 s
  | some ':' => validIPv6 s
  | _ => false

end CV.Short
