import ComposeVerif.Model.Extends
import ComposeVerif.Model.Merge
/-!
# `extends` with the real merge step

`Model/Extends.lean` is parametric in the merge step.  Here the parameter is instantiated with the C04
model of `override.ExtendService` (`CV.Merge.extendService`: every special rule of `mergeSpecials`,
regenerated table included), giving the environment the driver runs for the correspondence stream.
-/
namespace CV.Extends
open CV CV.Val

/-- `override.ExtendService(base, override)` through the C04 merge model -/
def mergeExtend (base over : KVs) : Out KVs :=
  match CV.Merge.extendService (.map base) (.map over) with
  | .ok (.map m) => .ok m
  | .ok _ => .panic "override.ExtendService"       -- yaml.(map[string]any)
  | .err e => .err e
  -- the merge model names its panics after Go functions (`override.*`, or its own `fuel`); the guard makes
  -- "never the marker of `applySvc`" hold by construction (it never fires: c05.extend correspondence)
  | .panic s => .panic (if s = fuelMark then "override.ExtendService" else s)

/-- the environment of a real load: main file, file system, real merge -/
def realEnv (mainFile : String) (fs : FS) : Env := { mainFile := mainFile, fs := fs, extend := mergeExtend }

end CV.Extends
