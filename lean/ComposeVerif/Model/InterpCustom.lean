import ComposeVerif.Model.Interp
import ComposeVerif.Model.Marshal
/-!
# The self-decoding numeric types on a *string* source (a value that arrived through a variable)

No cast row and no `cast` hook applies to `DeviceCount`, `NanoCPUs` and `UnitBytes`: their own `DecodeMapstructure`
reads the string.  These are the readings (types/device.go, types/cpus.go, types/bytes.go).  `DeviceCount` and
`UnitBytes` read *decimal*, unlike the repaired casters — which is what the recorded findings
`typed:*:{devicecount,bytes}` are about; `NanoCPUs` reads like the float casters since the round-5 repair
(it calls `utils.ParseYAMLFloat(_, 64)`, the function `toFloat` of loader/interpolate.go calls).
`UnitBytes` reuses C09's model of `units.RAMInBytes` (`CV.Marshal.decode_UnitBytes`, read-only).
-/
namespace CV.Interp
open CV

/-- `DeviceCount.DecodeMapstructure` on a string: `all` in any case is -1, else `strconv.ParseInt(v, 10, 64)` -/
def decodeDeviceCount (s : String) : Option Int :=
  if String.ofList (s.toList.map Char.toLower) = "all" then some (-1) else parseIntDecimal s.toList

/-- `NanoCPUs.DecodeMapstructure` on a string (round 5, after `fix:` 3b56c47 / c708a21): `utils.ParseYAMLFloat(v, 64)` —
    the very call `toFloat` makes (YAML integer spellings first, then `strconv.ParseFloat`; `Model/InterpFloat.lean`), i.e. the
    64-bit component of the opaque float parser; the result is then narrowed to `float32` by the conversion
    `NanoCPUs(f)` (the harness renders both sides through `float32`) -/
def decodeNanoCPUs (fp : FloatParser) (s : String) : Option String := fp.f64 s

/-- `UnitBytes.DecodeMapstructure` on a string: `units.RAMInBytes` (C09's model) -/
def decodeUnitBytes (s : String) : CV.Marshal.Out := CV.Marshal.decode_UnitBytes (.str s)

/-- wire form of the `UnitBytes` outcome: value, error class, or outside the modelled syntax -/
def unitBytesClass (s : String) : String × String :=
  match decodeUnitBytes s with
  | .ok (.int i) => ("ok", ToString.toString i)
  | .ok _ => ("unmodelled", "")
  | .err c => ("err", c)
  | .unmodelled _ => ("unmodelled", "")

/-- a decimal numeral as every reader agrees on it: digits only, no leading zero (or `0` itself) -/
def CanonicalDecimal (ds : List Char) : Prop :=
  allDigits ds = true ∧ ∃ c cs, ds = c :: cs ∧ (c = '0' → cs = [])

end CV.Interp
