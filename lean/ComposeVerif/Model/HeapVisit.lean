import ComposeVerif.Model.Derivations
/-!
# C14 — `Project.ForEachService` / `withServices` on the heap model (core Lean only)

"Visiting services" is one of the operations of the property.  Unlike the nine derivations it does **not** start from a
deep copy of the project: `withServices` walks the *receiver itself* (`p.Services`, every `service.DependsOn`), writes
into two maps (`seen`, made by `ForEachService`, and `dependent`, made by `dependentsForService`), and hands the visitor
`service.deepCopy()`.  With the default policy the local `dependencies` **is the receiver's own `DependsOn` map**
(`utils.MapsAppend(nil, m)` returns `m`), so a store / delete through it would be a write into the receiver (seed C14-5).

`walk` is that recursion, write log included.  State: the content of `seen`, the allocation frontier, the log of heap
writes, the copies handed to the visitor (in visiting order), an error.  `del = true` is the *seeded* variant (it deletes
an optional, not enabled dependency from `dependencies`); the code in the tree is `del = false`.  `Props/C14Visit.lean`
proves the property's clauses for `del = false` and `Neg/C14Visit.lean` refutes them for `del = true`.
-/
namespace CV.Heap.Visit
open CV.Heap CV.Heap.Deriv

def fName := fid "Name"

structure VSt where
  seen : List (Key × GoVal) := []
  next : Nat := 0
  log : List (Nat × Cell) := []
  out : List (String × GoVal) := []
  err : Option String := none
  deriving Inhabited

def kidsOf : GoVal → List (Key × GoVal)
  | .map _ ks => ks
  | _ => []

def nameOf (s : GoVal) : String := decStr (scalarStr (getFld fName s))

/-- `seen[name] = true` -/
def markSeen (seenA : Nat) (name : String) (st : VSt) : VSt :=
  let seen' := setKid (.str name) (.scalar "b:true") st.seen
  { st with seen := seen', log := st.log ++ [(seenA, .kids seen')] }

/-- the stores of `p.dependentsForService(svc)` into the map it made at address `a`: content so far, writes so far -/
def dependentStores (a : Nat) (target : String) :
    List (String × GoVal) → List (Key × GoVal) × List (Nat × Cell) → List (Key × GoVal) × List (Nat × Cell)
  | [], acc => acc
  | (_, s) :: r, acc =>
    match kidOf (.str target) (kidsOf (getFld fDependsOn s)) with
    | some d =>
      let ks := setKid (.str (nameOf s)) d acc.1
      dependentStores a target r (ks, acc.2 ++ [(a, .kids ks)])
    | none => dependentStores a target r acc

/-- the `dependencies` of one service under a policy: the map value, and the state after building it.
`deps` (default): `utils.MapsAppend(nil, service.DependsOn)` = the receiver's map itself. -/
def depsFor (p : GoVal) (policy : String) (svc : GoVal) (st : VSt) : GoVal × VSt :=
  if policy == "dependents" then
    let r := dependentStores st.next (nameOf svc) (mapEntries (getFld fServices p)) ([], [])
    (.map st.next r.1, { st with next := st.next + 1, log := st.log ++ r.2 })
  else if policy == "ignore" then (.nil, st)
  else (getFld fDependsOn svc, st)

/-- `fn(name, service.deepCopy())`: `service` is a local struct value, `&service` a fresh address -/
def handOut (t : Ty) (plan : Plan) (name : String) (svc : GoVal) (st : VSt) : VSt :=
  let src := GoVal.ptr st.next svc
  if hasTy t src then
    let r := exec plan src (st.next + 1)
    { st with next := r.2, out := st.out ++ [(name, r.1)] }
  else { st with err := some "stuck:ill-typed service" }

/-- the seeded `delete(dependencies, serviceNotFound)` -/
def seededDelete (del : Bool) (name : String) (deps : GoVal) (st : VSt) : VSt :=
  if del then
    match deps with
    | .map a ks => { st with log := st.log ++ [(a, .kids (delKid (.str name) ks))] }
    | _ => st
  else st

/-- `p.withServices(names, fn, seen, options, dependencies)`; `t`, `plan`: type and resolved plan of `ServiceConfig.deepCopy` -/
def walk (t : Ty) (plan : Plan) (p : GoVal) (seenA : Nat) (policy : String) (del : Bool) :
    Nat → List String → GoVal → VSt → VSt
  | 0, _, _, st => { st with err := some "stuck:fuel" }
  | _, [], _, st => st
  | fuel+1, name :: rest, deps, st =>
    if st.err.isSome then st else
    match kidOf (.str name) (kidsOf (getFld fServices p)) with
    | none =>
      match kidOf (.str name) (kidsOf deps) with
      | none => { st with err := some "no such service" }
      | some d =>
        if scalarStr (getFld fRequired d) == "b:true" then { st with err := some "no such service" }
        else walk t plan p seenA policy del fuel rest deps (seededDelete del name deps st)
    | some svc =>
      if (kidOf (.str name) st.seen).isSome then walk t plan p seenA policy del fuel rest deps st else
      let r := depsFor p policy svc (markSeen seenA name st)
      let st3 := if (kidsOf r.1).isEmpty then r.2
                 else walk t plan p seenA policy del fuel (sortStrs (keysOf (kidsOf r.1))) r.1 r.2
      if st3.err.isSome then st3 else
      walk t plan p seenA policy del fuel rest deps (handOut t plan name svc st3)

/-- enough fuel for any walk: every level consumes one unit per name, and there are at most `#services` nested levels -/
def fuelFor (p : GoVal) (names : List String) : Nat :=
  let g := depGraph p
  let total := g.foldl (fun n e => n + e.2.length + 1) (names.length + 1)
  total * (g.length + 2) + 8

/-- `p.ForEachService(names, fn, options...)` with the frontier at `n`: `seen` is made at `n`, the empty `dependencies`
of the top level at `n+1`; no names = all enabled services -/
def forEachService (t : Ty) (plan : Plan) (p : GoVal) (policy : String) (del : Bool) (names : List String) (n : Nat) : VSt :=
  let names' := if names.isEmpty then mapKeys (getFld fServices p) else names
  walk t plan p n policy del (fuelFor p names') names' (.map (n+1) []) { next := n + 2 }

end CV.Heap.Visit
