import ComposeVerif.Model.TemplateSites
/-!
# The lookup environment across the *sequence of documents* of a load (property C07, round 6)

`Model/TemplateSites.lean` says in which environment one string value is interpolated, given the env files of the
include entries that *enclose* its document.  A load however walks many documents in order — the files of
`ConfigFiles`, the YAML documents of each file, the files of every include entry, the base files of `extends` — and
the mapping handed to `template.Substitute` is not an argument of that walk: it sits behind a pointer,
`opts.Interpolate.LookupValue` (`*interp.Options`), and `Options.clone()` (loader/loader.go) copies the **pointer**.
So whether a document is interpolated in *its own* environment depends on who writes through which pointer:

* `loader.loadYamlFile` interpolates each document with `*opts.Interpolate` and hands `opts` **and**, separately,
  the `environment` map on to `ApplyInclude` and to `extends`;
* `loader.ApplyInclude`: `loadOptions := options.clone()` (same `Interpolate` pointer), then
  `loadOptions.Interpolate = &interp.Options{…, LookupValue: config.LookupEnv, …}` — a **fresh cell**, whose lookup
  reads `environment.Clone().Merge(envFromFile)`; the files of the entry are walked with it;
* `extends` (`extendsOpts := opts.clone()`) keeps the pointer: the base file is interpolated through the same cell.

The model makes the heap explicit: cells hold the map a `LookupValue` closure reads, `next` is the allocation pointer.
`walkDocs` is the code (a fresh cell per include entry); `walkDocsShared` is the same walk in which the include entry
writes its lookup through the pointer it was given (what `loadOptions.Interpolate.LookupValue = config.LookupEnv`
would do) — `Neg/C07.lean` shows that this variant leaks the include's variables into later documents of the parent.
-/
namespace CV.Template.Docs
open CV.Template CV.Template.Sites

/-- what the walk meets, in order -/
inductive Doc
  /-- a string value of the current document: `interp.Interpolate(cfg, *opts.Interpolate)` -/
  | value (s : Str)
  /-- an include entry with the variables of its env file(s) and the documents of its files, in order -/
  | incl (envFile : GoMap) (docs : List Doc)
  /-- `extends: {file: …}`: the documents of the base file, walked with `opts.clone()` -/
  | ext (docs : List Doc)

/-- the heap of `interp.Options` cells: `cell i` is the map the cell's `LookupValue` reads -/
structure Heap where
  cell : Nat → GoMap
  next : Nat

/-- `&interp.Options{LookupValue: config.LookupEnv}` with `config.Environment = m` -/
def Heap.alloc (h : Heap) (m : GoMap) : Heap :=
  ⟨fun i => if i = h.next then m else h.cell i, h.next + 1⟩

/-- `p.LookupValue = config.LookupEnv`: a write through an existing pointer -/
def Heap.write (h : Heap) (p : Nat) (m : GoMap) : Heap :=
  ⟨fun i => if i = p then m else h.cell i, h.next⟩

mutual
/-- the walk of the code: `p` is `opts.Interpolate`, `env` the `environment` argument -/
def walkDoc (h : Heap) (p : Nat) (env : GoMap) : Doc → Heap × List Out
  | .value s => (h, [subst (lookupEnv (h.cell p)) s])
  | .incl f ds => walkDocs (h.alloc (includeEnv env f)) h.next (includeEnv env f) ds
  | .ext ds => walkDocs h p env ds
def walkDocs (h : Heap) (p : Nat) (env : GoMap) : List Doc → Heap × List Out
  | [] => (h, [])
  | d :: ds =>
    let r := walkDoc h p env d
    let r2 := walkDocs r.1 p env ds
    (r2.1, r.2 ++ r2.2)
end

mutual
/-- the variant in which an include entry writes its lookup through the (cloned, hence shared) pointer -/
def walkDocShared (h : Heap) (p : Nat) (env : GoMap) : Doc → Heap × List Out
  | .value s => (h, [subst (lookupEnv (h.cell p)) s])
  | .incl f ds => walkDocsShared (h.write p (includeEnv env f)) p (includeEnv env f) ds
  | .ext ds => walkDocsShared h p env ds
def walkDocsShared (h : Heap) (p : Nat) (env : GoMap) : List Doc → Heap × List Out
  | [] => (h, [])
  | d :: ds =>
    let r := walkDocShared h p env d
    let r2 := walkDocsShared r.1 p env ds
    (r2.1, r.2 ++ r2.2)
end

mutual
/-- the specification: no state — every value is interpolated in the environment of the entries that enclose it -/
def specDoc (env : GoMap) : Doc → List Out
  | .value s => [subst (lookupEnv env) s]
  | .incl f ds => specDocs (includeEnv env f) ds
  | .ext ds => specDocs env ds
def specDocs (env : GoMap) : List Doc → List Out
  | [] => []
  | d :: ds => specDoc env d ++ specDocs env ds
end

/-- the heap at the start of a load: one cell, `toOptions`' `LookupValue: configDetails.LookupEnv` -/
def Heap.init (env : GoMap) : Heap := ⟨fun _ => env, 1⟩

/-- the values of a whole load, in document order -/
def loadValues (env : GoMap) (ds : List Doc) : List Out := (walkDocs (Heap.init env) 0 env ds).2

def loadValuesShared (env : GoMap) (ds : List Doc) : List Out := (walkDocsShared (Heap.init env) 0 env ds).2

end CV.Template.Docs
