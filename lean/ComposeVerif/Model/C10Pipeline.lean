import ComposeVerif.Model.Pipeline
import ComposeVerif.Model.ConsistencyGlue
import ComposeVerif.Model.NormalizeDeps
/-!
# C10 — the two checks inside the composed loader pipeline (round 6)

`Model/Pipeline.lean` (integrator) composes the stage models in the loader's order up to the dictionary
`loader.LoadModelWithContext` returns; it contains `validateStage` = `if !opts.SkipValidation { validation.Validate(dict) }`.
This wrapper (nothing of `Pipeline` is changed) names what C10's theorems speak about:

* `validatedTree` — the tree the structural stage reads in a load: the merge of all documents after `SetDefaultValues`;
* `loadProject` — `loader.LoadWithContext`: `load`, then `modelToProject` = typed decode (a *parameter*: the decode is
  C03 / C09's, not modelled here; `WithProfiles` is inside it: which services are enabled is part of `Proj`), then
  `if !opts.SkipConsistencyCheck { checkConsistency(project) }` (`Glue.consistencyStage`).
-/
namespace CV.C10Whole
open CV CV.Pipeline CV.Consistency

/-- the tree `validation.Validate` is called on: all documents merged (`processDocs`), default values set -/
def validatedTree (c : Cfg) (docs : List Val.KVs) : Out Val :=
  (processDocs c (.map []) docs).bind (defaultsStage c)

/-- the same for files given as YAML text (`loadY`) -/
def validatedTreeY (c : Cfg) (files : List (List Reset.YNode)) : Out Val :=
  (processFiles c (.map []) files).bind (defaultsStage c)

/-- the option record of the typed tail -/
def tailOpts (c : Cfg) (skipConsistencyCheck : Bool) : Glue.Opts :=
  { skipValidation := c.opts.skipValidation, skipNormalization := c.opts.skipNormalization,
    resolvePaths := c.opts.resolvePaths, skipConsistencyCheck := skipConsistencyCheck,
    skipExtends := c.opts.skipExtends, skipDefaultValues := c.opts.skipDefaultValues }

def ofGlue : Glue.Out → Out Proj
  | .ok p => .ok p
  | .structural _ => .err "validation"
  | .consistency _ => .err "consistency"
  | .panic s => .panic s

/-- `loader.LoadWithContext`: the dictionary pipeline, the typed decode, the consistency check -/
def loadProject (c : Cfg) (skipConsistencyCheck : Bool) (decode : Val.KVs → Proj) (docs : List Val.KVs) : Out Proj :=
  (load c docs).bind fun m => ofGlue (Glue.consistencyStage (tailOpts c skipConsistencyCheck) (decode m))

/-- `depends_on` of a service as the typed project carries it: completed from `links`, the `service:` namespaces and
`volumes_from` by `Normalize` — unless `SkipNormalization` is set, then it is what the files say -/
def depsSeen (skipNormalization : Bool) (r : RawRefs) : List (String × Bool) :=
  if skipNormalization then r.dependsOn else normDeps r

/-! ## concrete values for the non-vacuity examples of `Props/C10Whole.lean` -/

/-- an option set that switches off every stage but the checks (the interpolation / path configurations are then not read) -/
def exCfg : Cfg :=
  { opts := { skipInterpolation := true, skipDefaultValues := true, resolvePaths := false, skipNormalization := true },
    interp := { table := [], fp := { f64 := fun _ => none, f32 := fun _ => none }, env := fun _ => none },
    paths := { wd := [], home := none }, env := [], projectName := "p", clean := id, omitPats := [] }

/-- the seed-shaped model: `external: yes` (a string: the cast has not run) next to a creation parameter -/
def exBadDoc : Val.KVs := [("services", .map [("a", .map [("image", .str "i")])]),
  ("volumes", .map [("data", .map [("external", .str "yes"), ("driver", .str "nfs")])])]

def exGoodDoc : Val.KVs := [("services", .map [("a", .map [("image", .str "i")])]),
  ("volumes", .map [("data", .map [("external", .str "yes"), ("name", .str "nfs")])])]

end CV.C10Whole
