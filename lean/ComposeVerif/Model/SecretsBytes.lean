import ComposeVerif.Model.Val
/-!
# C20 — the byte level of the JSON renderer (`encoding/json`, `MarshalIndent(v, "", "  ")`)

`jsonRender` is an executable model of what `encoding/json` writes for a tree of mappings (keys in the order given:
the harness sends them sorted, as `encoding/json` sorts them), sequences, strings, integers, booleans and null:
string escaping with HTML escaping on (`<`, `>`, `&`), U+2028 / U+2029, control characters, and the indentation of
`MarshalIndent`.  Floats are written by their decimal text.  Strings are valid UTF-8 (Lean strings are).
-/
namespace CV.Bytes
open CV

def hexDigit (n : Nat) : Char :=
  match n % 16 with
  | 0 => '0' | 1 => '1' | 2 => '2' | 3 => '3' | 4 => '4' | 5 => '5' | 6 => '6' | 7 => '7'
  | 8 => '8' | 9 => '9' | 10 => 'a' | 11 => 'b' | 12 => 'c' | 13 => 'd' | 14 => 'e' | _ => 'f'

/-- `\uXXXX` -/
def uEscape (n : Nat) : List Char :=
  ['\\', 'u', hexDigit (n / 4096), hexDigit (n / 256), hexDigit (n / 16), hexDigit n]

/-- `encoding/json` `appendString` with `escapeHTML = true`, one code point -/
def jsonEscChar (ch : Char) : List Char :=
  if ch = '"' then ['\\', '"']
  else if ch = '\\' then ['\\', '\\']
  else if ch = '\n' then ['\\', 'n']
  else if ch = '\r' then ['\\', 'r']
  else if ch = '\t' then ['\\', 't']
  else if ch = '\x08' then ['\\', 'b']
  else if ch = '\x0c' then ['\\', 'f']
  else if ch.toNat < 0x20 ∨ ch = '<' ∨ ch = '>' ∨ ch = '&' ∨ ch.toNat = 0x2028 ∨ ch.toNat = 0x2029 then uEscape ch.toNat
  else [ch]

def jsonString (s : List Char) : List Char := '"' :: (s.flatMap jsonEscChar ++ ['"'])

def indent : Nat → List Char
  | 0 => []
  | n + 1 => ' ' :: ' ' :: indent n

def newline (d : Nat) : List Char := '\n' :: indent d

mutual
def jsonRender (d : Nat) : Val → List Char
  | .null => "null".toList
  | .bool b => if b then "true".toList else "false".toList
  | .int i => (toString i).toList
  | .float r => r.toList
  | .str s => jsonString s.toList
  | .seq [] => ['[', ']']
  | .seq (x :: xs) => '[' :: (newline (d + 1) ++ jsonRender (d + 1) x ++ jsonSeqTail (d + 1) xs ++ newline d ++ [']'])
  | .map [] => ['{', '}']
  | .map ((k, v) :: r) =>
    '{' :: (newline (d + 1) ++ jsonString k.toList ++ [':', ' '] ++ jsonRender (d + 1) v ++ jsonMapTail (d + 1) r ++ newline d ++ ['}'])
def jsonSeqTail (d : Nat) : List Val → List Char
  | [] => []
  | x :: xs => ',' :: (newline d ++ jsonRender d x ++ jsonSeqTail d xs)
def jsonMapTail (d : Nat) : List (String × Val) → List Char
  | [] => []
  | (k, v) :: r => ',' :: (newline d ++ jsonString k.toList ++ [':', ' '] ++ jsonRender d v ++ jsonMapTail d r)
end

/-- every character `encoding/json` writes that is not a verbatim copy of a character of a key or string:
quotes, escapes (lower-case hex), punctuation, indentation, the keywords and number syntax -/
def jsonAlphabet : List Char :=
  ['"', '\\', 'u', 'n', 'r', 't', 'b', 'f', '0', '1', '2', '3', '4', '5', '6', '7', '8', '9', 'a', 'c', 'd', 'e',
   '{', '}', '[', ']', ':', ',', ' ', '\n', 'l', 's', '-', '.', '+', 'E']

end CV.Bytes
