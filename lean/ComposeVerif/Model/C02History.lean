/-!
# C02 — state that survives a load: defaults handed out by reference (round 6)

The property quantifies over "arbitrary sequences of other loads executed before".  A process carries package-level
variables from one load to the next; the result of a load must not read what earlier loads wrote there.  The class of
slip modelled here (seed C02-7): the long form that a short-syntax `depends_on` entry expands to,
`{condition: service_started, required: true}`, is a map literal in `transform/dependson.go` — **a fresh map per entry**.
Hoisted into a package-level variable and assigned as-is, every entry of every load of the process *is* that one map, and
`override.mergeMappings`, which merges a later file's long-form entry into the expanded one **in place**, writes into it.

The model keeps exactly the aliasing that matters: an entry is either its own mapping (`Ref.own`) or a reference to the
single package-level mapping (`Ref.global`); the process state is the content of that mapping.  `load false` is the code as
it is (a fresh copy per entry), `load true` the hoisted variant.  Core Lean only.
-/
namespace CV.Det.History

abbrev KS := List (String × String)

inductive Ref where
  | own (m : KS)
  | global
deriving DecidableEq, Repr

/-- Go `m[k] = v` -/
def putS (k v : String) : KS → KS
  | [] => [(k, v)]
  | (k', v') :: r => if k = k' then (k, v) :: r else (k', v') :: putS k v r

/-- `for k, v := range override { m[k] = v }` (scalar values: assignment) -/
def putAll (kvs : KS) (m : KS) : KS := kvs.foldl (fun m kv => putS kv.1 kv.2 m) m

def lookupR (n : String) : List (String × Ref) → Option Ref
  | [] => none
  | (k, r) :: t => if n = k then some r else lookupR n t

def setR (n : String) (x : Ref) : List (String × Ref) → List (String × Ref)
  | [] => [(n, x)]
  | (k, r) :: t => if n = k then (k, x) :: t else (k, r) :: setR n x t

/-- the literal of `transformDependsOn` -/
def dfltLit : KS := [("condition", "service_started"), ("required", "true")]

/-- one service's `depends_on` over two files: the short list of the first file, the long-form refinements of a later one -/
structure In where
  short : List String
  over : List (String × KS)
deriving Repr

def hasKey (k : String) (m : KS) : Bool := m.any fun kv => kv.1 = k

/-- `transformDependsOn` on a long-form entry (the transform that runs again after the merge): `condition` and `required`
are filled in when absent.  Entries that came from the short list hold both already; this matters for a name that only
the later file declares.  (In the hoisted variant the values filled in here would be read from the package-level mapping
too — a second way for the history to show, not modelled: the literal is used.) -/
def fill (m : KS) : KS :=
  let m := if hasKey "condition" m then m else m ++ [("condition", "service_started")]
  if hasKey "required" m then m else m ++ [("required", "true")]

/-- one iteration of `mergeMappings` at `services.x.depends_on`: the entry that exists is merged into **in place** — if it
is the package-level mapping, that is what is written; a new name is added with the override's own mapping -/
def mergeOne (st : KS × List (String × Ref)) (o : String × KS) : KS × List (String × Ref) :=
  match lookupR o.1 st.2 with
  | some (.own m) => (st.1, setR o.1 (.own (putAll o.2 m)) st.2)
  | some .global => (putAll o.2 st.1, st.2)
  | none => (st.1, st.2 ++ [(o.1, .own (fill o.2))])

def mergeAll (g : KS) (es : List (String × Ref)) (over : List (String × KS)) : KS × List (String × Ref) :=
  over.foldl mergeOne (g, es)

def deref (g : KS) : Ref → KS
  | .own m => m
  | .global => g

/-- what the project holds at the end: every entry read through its reference -/
def readOut (g : KS) (es : List (String × Ref)) : List (String × KS) := es.map fun e => (e.1, deref g e.2)

/-- one load in a process whose package-level mapping currently holds `g`: `transformDependsOn` on the short list
(`shared = false`: a fresh literal per entry — the code; `true`: the package-level mapping itself — the hoisted variant),
then the merge of the later file, then the read-out.  Returns the process state after the load and the result. -/
def load (shared : Bool) (g : KS) (i : In) : KS × List (String × KS) :=
  let es := i.short.map fun n => (n, if shared then Ref.global else Ref.own dfltLit)
  let r := mergeAll g es i.over
  (r.1, readOut r.1 r.2)

/-- a history of loads in one process, then the observed load -/
def runSeq {S I P : Type} (step : S → I → S × P) (s : S) : List I → I → P
  | [], i => (step s i).2
  | h :: t, i => runSeq step (step s h).1 t i

/-! the same merge on plain mappings (no references): what `load false` computes -/

def lookupP (n : String) : List (String × KS) → Option KS
  | [] => none
  | (k, r) :: t => if n = k then some r else lookupP n t

def setP (n : String) (x : KS) : List (String × KS) → List (String × KS)
  | [] => [(n, x)]
  | (k, r) :: t => if n = k then (k, x) :: t else (k, r) :: setP n x t

def mergeOneP (es : List (String × KS)) (o : String × KS) : List (String × KS) :=
  match lookupP o.1 es with
  | some m => setP o.1 (putAll o.2 m) es
  | none => es ++ [(o.1, fill o.2)]

/-- the pure function of the input that a load computes when nothing is shared -/
def loadPure (i : In) : List (String × KS) := i.over.foldl mergeOneP (i.short.map fun n => (n, dfltLit))

end CV.Det.History
