import ComposeVerif.Spec.Template
/-!
# A parser for the Compose interpolation grammar (property C07, round 5)

`Spec/Template.lean` gives the grammar as an AST with `renderL` (concrete syntax) and `WF` (the unambiguous ASTs);
the refinement theorem `subst_render` speaks about *renderings*.  The property's quantifier also runs over *strings*.
This file turns the grammar into a decidable domain of strings: `parse? s = some t` only if `renderL t = s` and
`WF t` (checked, so soundness holds by construction — `Props/C07Parse.lean`), hence `Substitute s` is the grammar's
`evalOut t` for every string the parser accepts.  The recursive-descent part below is *not* trusted by any theorem; its
completeness (every rendering of a `WF` AST is accepted, with the same meaning) is checked differentially by the
harness on every AST it generates, and the share of the exhaustive small-scope strings it accepts is measured.

Nothing here looks at the implementation's scanner (`Model/Template.lean`): names are maximal runs of name characters,
the argument of `${NAME op …}` ends at the `}` that balances the opening brace, literals are maximal runs without `$`.
-/
namespace CV.Template

/-- the operator at the head of the text after `${NAME`, and the text after it -/
def parseOpHead : Str → Option (Op × Str)
  | ':' :: '-' :: r => some (.colonDash, r)
  | ':' :: '+' :: r => some (.colonPlus, r)
  | ':' :: '?' :: r => some (.colonQ, r)
  | '-' :: r => some (.dash, r)
  | '+' :: r => some (.plus, r)
  | '?' :: r => some (.q, r)
  | _ => none

/-- split at the `}` that brings the brace depth `d` (≥ 1) back to zero: (text before it, text after it) -/
def splitClose : Str → Nat → Option (Str × Str)
  | [], _ => none
  | '}' :: cs, d =>
    if d ≤ 1 then some ([], cs)
    else match splitClose cs (d - 1) with
      | some (a, r) => some ('}' :: a, r)
      | none => none
  | '{' :: cs, d =>
    match splitClose cs (d + 1) with
    | some (a, r) => some ('{' :: a, r)
    | none => none
  | c :: cs, d =>
    match splitClose cs d with
    | some (a, r) => some (c :: a, r)
    | none => none

/-- maximal run of characters other than `$` -/
def spanLit : Str → Str × Str
  | [] => ([], [])
  | c :: cs => if c = '$' then ([], c :: cs) else ((spanLit cs).1.cons c, (spanLit cs).2)

/-- recursive descent on explicit fuel (every call is on a strictly shorter text; `s.length + 1` suffices) -/
def parseL : Nat → Str → Option (List Seg)
  | 0, _ => none
  | _ + 1, [] => some []
  | f + 1, '$' :: '$' :: r =>
    match parseL f r with
    | some t => some (Seg.esc :: t)
    | none => none
  | f + 1, '$' :: '{' :: r =>
    let n := (spanName r).1
    let r2 := (spanName r).2
    if validName n then
      match r2 with
      | '}' :: r3 =>
        match parseL f r3 with
        | some t => some (Seg.var n true :: t)
        | none => none
      | _ =>
        match parseOpHead r2 with
        | some (o, r3) =>
          match splitClose r3 1 with
          | some (a, rest) =>
            match parseL f a, parseL f rest with
            | some arg, some t => some (Seg.op n o arg :: t)
            | _, _ => none
          | none => none
        | none => none
    else none
  | f + 1, '$' :: c :: r =>
    if isNameStart c then
      match parseL f (spanName (c :: r)).2 with
      | some t => some (Seg.var (spanName (c :: r)).1 false :: t)
      | none => none
    else none
  | _ + 1, ['$'] => none
  | f + 1, c :: r =>
    match parseL f (spanLit (c :: r)).2 with
    | some t => some (Seg.lit (spanLit (c :: r)).1 :: t)
    | none => none

/-- the decidable grammar domain: the parser's answer, kept only if it is a well-formed AST whose rendering is the text -/
def parse? (s : Str) : Option (List Seg) :=
  match parseL (s.length + 1) s with
  | some t => if renderL t = s ∧ WF t = true then some t else none
  | none => none

end CV.Template
