import ComposeVerif.Model.Include
import ComposeVerif.Model.IncludeResolve
import ComposeVerif.Model.Template
/-!
# An executable world for `Include.applyInclude` (driver side of the C06 correspondence)

`loadYaml` is `loader.loadYamlModel` restricted to the *include fragment* of Compose, the set of
documents on which every stage other than interpolation, include, merge and path resolution is the
identity (checked against the real pipeline by the correspondence stream, not assumed):

* resources: `services.*.{image, labels, build.context, label_file[], env_file[].{path,required}, volumes[] (long bind)}`,
  `volumes|networks.* ∈ {null, {}, {name}, {driver}, {labels}}`, `secrets|configs.*.{file|content|environment}`;
* `${VAR}` templates inside string values (`Template.subst`, the C07 model);
* several documents / override files merged map-wise (later scalar wins, sequences appended);
* relative paths of the attributes above joined to the working directory;
* dotenv files made of `KEY=value` lines whose values are plain text with `${VAR}` templates.

The directory tree is data (`FSData`).  Nothing here is used by the property theorems: they quantify
over every `World`.
-/
namespace CV.Include
open CV CV.Val

structure FSData where
  /-- `os.UserHomeDir()` of the process (`~` expansion); `none` = unset -/
  home : Option String := none
  cwd : String
  dirs : List String
  docs : List (String × List Val)
  envs : List (String × List (String × String))

def assoc {α} (k : String) : List (String × α) → Option α
  | [] => none
  | (k', v) :: r => if k = k' then some v else assoc k r

/-! ### canonical order (the wire carries sorted maps; `reflect.DeepEqual` ignores map order) -/

def insertSorted (k : String) (v : Val) : KVs → KVs
  | [] => [(k, v)]
  | (k', v') :: r => if k < k' then (k, v) :: (k', v') :: r else (k', v') :: insertSorted k v r

mutual
def sortVal : Val → Val
  | .seq xs => .seq (sortList xs)
  | .map kvs => .map (sortKVs' kvs)
  | v => v
def sortList : List Val → List Val
  | [] => []
  | x :: xs => sortVal x :: sortList xs
def sortKVs' : List (String × Val) → List (String × Val)
  | [] => []
  | (k, v) :: r => insertSorted k (sortVal v) (sortKVs' r)
end

/-! ### interpolation of every string value -/

def tmplEnv (f : String → Option String) : CV.Template.Env := fun k => (f (String.ofList k)).map String.toList

def substStr (f : String → Option String) (s : String) : Out String :=
  match CV.Template.subst (tmplEnv f) s.toList with
  | .ok r => .ok (String.ofList r)
  | .err _ => .err "interp"
  | .panic _ => .panic "template"

mutual
def interpVal (f : String → Option String) : Val → Out Val
  | .str s => (substStr f s).bind fun r => .ok (.str r)
  | .seq xs => (interpList f xs).bind fun r => .ok (.seq r)
  | .map kvs => (interpKVs f kvs).bind fun r => .ok (.map r)
  | v => .ok v
def interpList (f : String → Option String) : List Val → Out (List Val)
  | [] => .ok []
  | x :: xs => (interpVal f x).bind fun a => (interpList f xs).bind fun r => .ok (a :: r)
def interpKVs (f : String → Option String) : List (String × Val) → Out (List (String × Val))
  | [] => .ok []
  | (k, v) :: r => (interpVal f v).bind fun a => (interpKVs f r).bind fun r' => .ok ((k, a) :: r')
end

/-! ### `override.Merge` on the fragment: maps key-wise, sequences appended, otherwise the override wins -/

def mergeVal : Nat → Val → Val → Val
  | 0, _, b => b
  | n + 1, .map a, .map b =>
    .map (b.foldl (fun acc kv =>
      match lookup kv.1 acc with
      | some old => insert kv.1 (mergeVal n old kv.2) acc
      | none => acc ++ [kv]) a)
  | _ + 1, .seq a, .seq b => .seq (a ++ b)
  | _ + 1, _, b => b

def mergeKVs (a b : KVs) : KVs :=
  match mergeVal 64 (.map a) (.map b) with
  | .map r => r
  | _ => b

/-! ### `paths.ResolveRelativePaths`: the C12 model (`Paths.resolve`, the regenerated resolver table, the guarded join) -/

/-- the resolver configuration of the default loader: no remote resource loaders, no symbolic links -/
def pathsCfg (home : Option String) (wd : String) : Paths.Cfg :=
  ⟨wd.toList, home.map String.toList, fun _ => false, some⟩

def resolvePaths (home : Option String) (wd : String) (dict : KVs) : Out KVs :=
  match Paths.resolve (pathsCfg home wd) (.map dict) with
  | .ok (.map d) => .ok d
  | .ok _ => .err "pathType"
  | .err _ => .err "pathType"
  | .panic site => .panic site

/-! ### the file system and dotenv files -/

def dAbs (D : FSData) (p : String) : String := if isAbs p then clean p else join D.cwd p

def dIsDir (D : FSData) (a : String) : Bool := D.dirs.contains a
def dIsFile (D : FSData) (a : String) : Bool := (assoc a D.docs).isSome || (assoc a D.envs).isSome

/-- one dotenv file: every value is expanded with the lookup `lk` (current environment, then earlier files) and
then the entries of the same file read so far -/
def parseEnvEntriesL (lk : String → Option String) : List (String × String) → Env → Out Env
  | [], out => .ok out
  | (k, t) :: r, out =>
    (substStr (fun x => match lk x with
        | some v => some v
        | none => out.get x) t).bind fun v => parseEnvEntriesL lk r (envSet k v out)

/-- the file system and the dotenv reader of the driver world, as `GetEnvFromFile` sees them -/
def envWorldOf (D : FSData) : EnvWorld (List (String × String)) :=
  { abs := dAbs D,
    stat := fun a => if dIsDir D a then .dir else if dIsFile D a then .file else .missing,
    read := fun a => match assoc a D.envs with
      | some entries => .ok entries
      | none => .err "outOfDomain",   -- a compose file used as env_file: outside the fragment
    parse := fun entries lk =>
      match parseEnvEntriesL lk entries [] with
      | .ok out => .ok out
      | .err _ => .err "envParse"
      | .panic s => .panic s }

/-- `dotenv.GetEnvFromFile` of the driver world = the model `getEnvLoop` in `envWorldOf D` -/
def envFromFileD (D : FSData) (cur : Env) (files : List String) : Out Env :=
  getEnvFromFile (envWorldOf D) cur files

/-! ### `loadYamlModel` / `loadYamlFile` on the fragment -/

def worldOf (D : FSData) (loadModel : String → String → List String → Env → List String → Out KVs) : World :=
  { cwd := D.cwd, isDir := dIsDir D, isFile := dIsFile D,
    envFromFile := fun cur fs => envFromFileD D cur fs, loadModel := loadModel,
    resolveRes := fun base key v =>
      match resolvePaths D.home base [(key, .map [("x", v)])] with
      | .ok [(_, .map [(_, r)])] => some r
      | _ => none }

def loadDocs (W : World) (wd L : String) (env : Env) (chain : List String) : List Val → KVs → Out KVs
  | [], dict => .ok dict
  | .map doc :: rest, dict =>
    (interpKVs env.get doc).bind fun cfg =>
    (applyInclude W wd L env chain (sortKVs' cfg)).bind fun cfg' =>
    loadDocs W wd L env chain rest (mergeKVs dict cfg')
  | _ :: _, _ => .err "topLevel"

def loadFiles (D : FSData) (W : World) (wd L : String) (env : Env) (chain : List String) : List String → KVs → Out KVs
  | [], dict => .ok dict
  | f :: rest, dict =>
    let a := dAbs D f
    if dIsDir D a then .err "isDir"
    else match assoc a D.docs with
      | none => if (assoc a D.envs).isSome then .err "outOfDomain" else .err "openNotFound"
      | some docs =>
        (loadDocs W wd L env (chain ++ [f]) docs dict).bind fun dict' =>
        loadFiles D W wd L env chain rest dict'

/-- fuel = maximal nesting depth still allowed (the harness passes the number of files + 1: a longer
chain repeats a file and is a cycle error) -/
def loadYaml (D : FSData) : Nat → String → String → List String → Env → List String → Out KVs
  | 0 => fun _ _ _ _ _ => .err "fuel"
  | n + 1 => fun wd L files env chain =>
    let W := worldOf D (loadYaml D n)
    (loadFiles D W wd L env chain files []).bind fun dict =>
    (resolvePaths D.home wd dict).bind fun r =>
    -- the sub-load of `ApplyInclude` always runs with a non-empty chain: the included branch
    .ok (sortKVs' (resolveModelEnv true env r))

def world (D : FSData) (fuel : Nat) : World := worldOf D (loadYaml D fuel)

/-- the same files loaded *on their own* (`len(included) == 0`: `ResolveEnvironment`, all three resolvers); its
includes are included loads (`loadYaml`) -/
def loadYamlOwn (D : FSData) (n : Nat) (wd L : String) (files : List String) (env : Env) : Out KVs :=
  let W := worldOf D (loadYaml D n)
  (loadFiles D W wd L env [] files []).bind fun dict =>
  (resolvePaths D.home wd dict).bind fun r => .ok (sortKVs' (resolveModelEnv false env r))

end CV.Include
