import ComposeVerif.Model.Reset
/-!
# the decode loop of `loadYamlFile` with the `ResetProcessor` as explicit state

```go
decoder := yaml.NewDecoder(r)
for {
    var raw interface{}
    reset := &ResetProcessor{target: &raw}      // a NEW processor for every `---` document
    err := decoder.Decode(reset)                // UnmarshalYAML → resolveReset: only ever APPENDS to reset.paths
    …
    processor = reset
    if err := processRawYaml(raw, processor); err != nil { … }   // processor.Apply(dict) uses reset.paths
}
```
`Model/Reset.lean` gives every document its own recorded paths by construction (`readDoc`).  Here the processor is a
value threaded through the loop — `procDecode` appends to whatever paths it already holds, as `UnmarshalYAML` does — and
*where the processor is created* is a parameter: `fresh = true` is the code (inside the loop), `fresh = false` is one
processor for the whole file.  `Props/C04Docs.lean` proves that the code's choice is `loadDocs` and that the other one
is not (paths of an earlier document are applied again before later documents).
-/
namespace CV.Reset
open CV CV.Val CV.Merge

/-- `decoder.Decode(reset)` on a processor that already holds `paths` -/
def procDecode (paths : List TPath) (doc : YNode) : Val × List TPath :=
  ((readDoc doc).1, paths ++ (readDoc doc).2)

/-- the loop over the documents of one file; the state is the paths held by the processor of the previous iteration -/
def loadDocsP (fresh : Bool) (post : Val → Out Val) : List TPath → Val → List YNode → Out Val
  | _, dict, [] => .ok dict
  | held, dict, d :: r =>
    let dec := procDecode (if fresh then [] else held) d
    ((merge (applyNull dec.2 dict TPath.root) dec.1).bind fun m => (Unicity.enforceTop m).bind post).bind fun dict' =>
      loadDocsP fresh post dec.2 dict' r

end CV.Reset
