/-!
# Mutex-protected critical sections run by any number of goroutines

The shape shared by the two pieces of lock-guarded state of compose-go (see `Gen/LockSource.lean`):

```go
// loader/loader.go                                   // graph/traversal.go  (also `ready`, `enter`)
func (o *Options) warnObsoleteVersion(file string) {   func (t *traversal[S, T]) done(v *vertex[S], result T) {
    versionWarningMu.Lock()                 // lock        t.mu.Lock()
    defer versionWarningMu.Unlock()                        defer t.mu.Unlock()
    if !slices.Contains(versionWarning, file) { … } // rd  t.status[v.key] = vertexVisited        // rd ; wr
    versionWarning = append(versionWarning, file)   // wr  t.results[v.key] = result
}                                           // unlock  }
```

A goroutine `t` runs the critical sections `prog t` in order.  One section is four primitive steps:
`lock t` (blocks while another goroutine holds the mutex), `read t` (copies the guarded state into a local),
`write t` (stores `f local`), `unlock t`.  Between any two of them any other goroutine may be scheduled.
`St.hist` is a ghost field: the goroutines in the order of their `write` steps.

The same steps with `locked := false` (`lock` never blocks) model the code without the mutex; `Neg/C19Locks.lean`
shows the lost update there.

`Tid` is any type with decidable equality: the number of goroutines is not bounded.
Core Lean only (linked into the driver).
-/
namespace CV.Locked

inductive Pc (σ : Type) where
  | out                -- outside a critical section
  | holding            -- `Lock()` returned
  | loaded (x : σ)     -- the guarded state was read into a local
  | written            -- the new value is stored; `Unlock()` (deferred) not yet run

structure St (σ Tid : Type) where
  mem : σ
  holder : Option Tid
  pc : Tid → Pc σ
  rest : Tid → List (σ → σ)
  hist : List Tid

inductive Label (Tid : Type) where
  | lock (t : Tid) | read (t : Tid) | write (t : Tid) | unlock (t : Tid)
deriving DecidableEq, Repr

def upd {α Tid : Type} [DecidableEq Tid] (f : Tid → α) (t : Tid) (x : α) : Tid → α := fun u => if u = t then x else f u

variable {σ Tid : Type} [DecidableEq Tid]

def step? (locked : Bool) (s : St σ Tid) : Label Tid → Option (St σ Tid)
  | .lock t =>
    match s.pc t, s.rest t with
    | .out, _ :: _ =>
      if locked && s.holder.isSome then none
      else some { s with holder := some t, pc := upd s.pc t .holding }
    | _, _ => none
  | .read t =>
    match s.pc t with
    | .holding => some { s with pc := upd s.pc t (.loaded s.mem) }
    | _ => none
  | .write t =>
    match s.pc t, s.rest t with
    | .loaded x, f :: _ => some { s with mem := f x, pc := upd s.pc t .written, hist := s.hist ++ [t] }
    | _, _ => none
  | .unlock t =>
    match s.pc t with
    | .written => some { s with holder := none, pc := upd s.pc t .out, rest := upd s.rest t (s.rest t).tail }
    | _ => none

def init (prog : Tid → List (σ → σ)) (m0 : σ) : St σ Tid :=
  { mem := m0, holder := none, pc := fun _ => .out, rest := prog, hist := [] }

def run (locked : Bool) (s : St σ Tid) : List (Label Tid) → Option (St σ Tid)
  | [] => some s
  | l :: ls => (step? locked s l).bind (fun s' => run locked s' ls)

inductive Reach (locked : Bool) (prog : Tid → List (σ → σ)) (m0 : σ) : St σ Tid → Prop
  | init : Reach locked prog m0 (init prog m0)
  | step {s s' l} : Reach locked prog m0 s → step? locked s l = some s' → Reach locked prog m0 s'

/-- every goroutine has run all its sections -/
def quiescent (s : St σ Tid) : Prop := ∀ t, s.rest t = []

/-! ### the atomic specification: a critical section is ONE step (what `Model/Trav.lean` assumes for `ready`/`enter`/`done`) -/

/-- run the sections in the order `sched` names their goroutines: the k-th occurrence of `t` runs the k-th section of `t`
    (an occurrence of a goroutine that has nothing left is skipped) -/
def serial (prog : Tid → List (σ → σ)) : List Tid → σ → σ × (Tid → List (σ → σ))
  | [], m => (m, prog)
  | t :: sched, m =>
    match prog t with
    | f :: r => serial (upd prog t r) sched (f m)
    | [] => serial prog sched m

/-- the sections of `t` that are complete in `s` (stored, possibly not yet unlocked) -/
def restAbs (s : St σ Tid) (t : Tid) : List (σ → σ) :=
  match s.pc t with
  | .written => (s.rest t).tail
  | _ => s.rest t

/-! ### accesses to the guarded state -/

/-- `some true` = writes the guarded state, `some false` = reads it -/
def access : Label Tid → Option (Tid × Bool)
  | .read t => some (t, false)
  | .write t => some (t, true)
  | _ => none

/-- two steps of different goroutines are enabled together, both touch the guarded state, one writes -/
def RaceAt (locked : Bool) (s : St σ Tid) : Prop :=
  ∃ l₁ l₂ t₁ t₂ w₁ w₂, access l₁ = some (t₁, w₁) ∧ access l₂ = some (t₂, w₂) ∧ t₁ ≠ t₂ ∧ (w₁ = true ∨ w₂ = true) ∧
    (step? locked s l₁).isSome = true ∧ (step? locked s l₂).isSome = true

/-! ### instance 1: `loader.(*Options).warnObsoleteVersion` -/

/-- guarded state of the loader: `versionWarning` and (ghost) the files a warning was logged for, oldest first -/
abbrev VW := List String × List String

/-- body of `warnObsoleteVersion(file)` between `Lock()` and the deferred `Unlock()` -/
def warn (file : String) : VW → VW :=
  fun (w, logged) => (w ++ [file], if w.contains file then logged else logged ++ [file])

/-- a load that meets `version:` in the files `fs` (in this order) -/
def warnProg (fs : List String) : List (VW → VW) := fs.map warn

/-! ### instance 2: `t.status` of `graph.traversal` (`ready` only reads, `enter` and `done` write) -/

inductive Status | absent | entered | visited
deriving DecidableEq, Repr

def setSt (f : Nat → Status) (v : Nat) (x : Status) : Nat → Status := fun u => if u = v then x else f u

/-- `enter(v)`: `if _, ok := t.status[v.key]; ok { return false }; t.status[v.key] = vertexEntered` -/
def enterF (v : Nat) : (Nat → Status) → (Nat → Status) := fun st => if st v = .absent then setSt st v .entered else st
/-- `done(v)`: `t.status[v.key] = vertexVisited` -/
def doneF (v : Nat) : (Nat → Status) → (Nat → Status) := fun st => setSt st v .visited
/-- `ready(v)`: reads only -/
def readyF (_ : Nat) : (Nat → Status) → (Nat → Status) := fun st => st

end CV.Locked
