import ComposeVerif.Model.Interp
import ComposeVerif.Spec.Interp
/-!
# The float casters, structured (round 5)

`utils.ParseYAMLFloat(value, bitSize)` (utils/stringutils.go; called by `toFloat` / `toFloat32` of loader/interpolate.go and by
`NanoCPUs.DecodeMapstructure` of types/cpus.go):

```go
if i, ok := ParseYAMLInt(value); ok { return float64(i), nil }
plain := strings.ReplaceAll(value, "_", "")
if u, err := strconv.ParseUint(plain, 0, 64); err == nil { return float64(u), nil }
if f, err := strconv.ParseFloat(plain, bitSize); err == nil { return f, nil }
return strconv.ParseFloat(value, bitSize)
```

Everything about *which reading applies* is modelled exactly (`parseInt` = `ParseYAMLInt`, `parseUint0` = `ParseUint(_, 0, 64)`);
what stays opaque is `strconv.ParseFloat` itself and the rendering of `float64(i)` (`RawFloat`).  `RawFloat.parser` is the
`FloatParser` the walk takes.
-/
namespace CV.Interp

/-- the opaque part of the float casters: `strconv.ParseFloat(_, 64 | 32)` (canonical rendering of the result, `none` =
    error) and the conversions `float64(i)` / `float32(float64(i))` of an integer, rendered the same way -/
structure RawFloat where
  parse64 : String → Option String
  parse32 : String → Option String
  ofInt64 : Int → String
  ofInt32 : Int → String

/-- `utils.ParseYAMLFloat` for one bit size -/
def parseYAMLFloat (parse : String → Option String) (ofInt : Int → String) (s : String) : Option String :=
  match parseInt s with
  | some i => some (ofInt i)
  | none =>
    match parseUint0 (stripUnderscores s.toList) with
    | some u => some (ofInt u)
    | none =>
      match parse (String.ofList (stripUnderscores s.toList)) with
      | some f => some f
      | none => parse s

/-- the float casters before the round-5 repair: `strconv.ParseInt(plain, 0, 64)` instead of `ParseYAMLInt` (kept for the
    Neg witness `0b+1`) -/
def parseYAMLFloatOld (parse : String → Option String) (ofInt : Int → String) (s : String) : Option String :=
  match parseInt0 (stripUnderscores s.toList) with
  | some i => some (ofInt i)
  | none =>
    match parseUint0 (stripUnderscores s.toList) with
    | some u => some (ofInt u)
    | none =>
      match parse (String.ofList (stripUnderscores s.toList)) with
      | some f => some f
      | none => parse s

/-- `toFloat` / `toFloat32` as the float parser of the walk -/
def RawFloat.parser (rf : RawFloat) : FloatParser :=
  { f64 := parseYAMLFloat rf.parse64 rf.ofInt64, f32 := parseYAMLFloat rf.parse32 rf.ofInt32 }

end CV.Interp
