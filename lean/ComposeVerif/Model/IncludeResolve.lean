import ComposeVerif.Model.Include
/-!
# The last statement of `loader.loadYamlModel`: which resolvers run on an included model

```go
if len(included) == 0 {
    ResolveEnvironment(dict, config.Environment)           // services, secrets, configs
} else {
    resolveServicesEnvironment(dict, config.Environment)   // an included model: configs are left to the including model
    resolveSecretsEnvironment(dict, config.Environment)
}
```
`config.Environment` of an included load is the environment `ApplyInclude` built (`Include.includeEnv`): the parent's
variables plus, for the ones it does not define, the included project's `.env` / declared `env_file`.
Statement-by-statement transcription of loader/environment.go (bodies pinned in `Props/C06Source.lean`).
-/
namespace CV.Include
open CV CV.Val

/-- the loop over `serviceEnv`: a non-string element is skipped (`continue`), a name the environment defines becomes
`NAME=value`, any other string stays -/
def resolveEnvList (env : Env) : List Val → List Val
  | [] => []
  | .str s :: r =>
    (match env.get s with
     | some v => Val.str (s ++ "=" ++ v)
     | none => Val.str s) :: resolveEnvList env r
  | _ :: r => resolveEnvList env r

/-- one iteration of the loop over `services` -/
def resolveService (env : Env) : Val → Val
  | .map cfg =>
    match lookup "environment" cfg with
    | some (.seq l) => .map (insert "environment" (.seq (resolveEnvList env l)) cfg)
    | _ => .map cfg
  | v => v

def mapVals (f : Val → Val) : KVs → KVs
  | [] => []
  | (k, v) :: r => (k, f v) :: mapVals f r

/-- `resolveServicesEnvironment` -/
def resolveServicesEnvironment (env : Env) (dict : KVs) : KVs :=
  match lookup "services" dict with
  | some (.map svcs) => insert "services" (.map (mapVals (resolveService env) svcs)) dict
  | _ => dict

/-- one iteration of the loops of `resolveSecretsEnvironment` (`carrier = "x-#value"`) and
`resolveConfigsEnvironment` (`carrier = "content"`) -/
def resolveSource (carrier : String) (env : Env) : Val → Val
  | .map o =>
    match lookup "environment" o with
    | some (.str e) =>
      if e = "" then .map o
      else match env.get e with
        | some v => .map (insert carrier (.str v) o)
        | none => .map o
    | _ => .map o
  | v => v

def resolveSection (sect carrier : String) (env : Env) (dict : KVs) : KVs :=
  match lookup sect dict with
  | some (.map os) => insert sect (.map (mapVals (resolveSource carrier env) os)) dict
  | _ => dict

/-- `types.SecretConfigXValue` -/
def secretCarrier : String := "x-#value"

def resolveSecretsEnvironment (env : Env) (dict : KVs) : KVs := resolveSection "secrets" secretCarrier env dict
def resolveConfigsEnvironment (env : Env) (dict : KVs) : KVs := resolveSection "configs" "content" env dict

/-- `ResolveEnvironment` -/
def resolveEnvironment (env : Env) (dict : KVs) : KVs :=
  resolveConfigsEnvironment env (resolveSecretsEnvironment env (resolveServicesEnvironment env dict))

/-- the last statement of `loadYamlModel`; `included` = `len(included) != 0` -/
def resolveModelEnv (included : Bool) (env : Env) (dict : KVs) : KVs :=
  if included then resolveSecretsEnvironment env (resolveServicesEnvironment env dict)
  else resolveEnvironment env dict

end CV.Include
