import ComposeVerif.Model.C11Normalize
/-!
# C11 — the three defaulting stages of a load, composed in loader order

`loadYamlFile` runs `transform.Canonical` on every file, `loadYamlModel` runs `transform.SetDefaultValues` on the merged
model and `load` runs `Normalize` last (loader/loader.go).  `pipeline` is that composition on the models of
`Model/C11Defaults.lean` / `Model/C11Normalize.lean`; `svcPipeline` is what it does to the attributes of one service
(the walker of `SetDefaultValues` started at the path of that service).
-/
namespace CV.C11
open CV CV.Val

/-- what `Normalize` does to one service: `normalizeNetworks`, then the body of the loop over `services` -/
def normSvc (clean : String → String) (env : Env) (s : KVs) : KVs := normService clean env (nnService s)

/-- Canonical ; SetDefaultValues ; Normalize on the attributes of one service found at path `p` -/
def svcPipeline (tbl : List (List String × String)) (p : TPath) (clean : String → String) (env : Env) (s : KVs) : Out KVs :=
  match canonSvcAttrs s with
  | .ok c =>
    match setDefaultsKVs tbl p c with
    | .ok d => .ok (normSvc clean env d)
    | .err e => .err e
    | .panic x => .panic x
  | .err e => .err e
  | .panic x => .panic x

/-- Canonical ; SetDefaultValues ; Normalize on a whole model (`result.(map[string]any)` of `SetDefaultValues` cannot
fail: the walker returns a mapping for a mapping unless a row matches the root path, and none does) -/
def pipeline (tbl : List (List String × String)) (clean : String → String) (env : Env) (d : KVs) : Out KVs :=
  match canonicalLite d with
  | .ok (.map c) =>
    match setDefaultValues tbl c with
    | .ok (.map s) => normalize clean env s
    | .ok _ => .panic "transform.SetDefaultValues"
    | .err e => .err e
    | .panic x => .panic x
  | .ok _ => .panic "transform.Canonical"
  | .err e => .err e
  | .panic x => .panic x

end CV.C11
