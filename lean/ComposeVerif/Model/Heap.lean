/-!
# C14 — heap model of Go values and of the statements goderive emits (core Lean only)

`GoVal` is a Go value unfolded into a tree in which every *reference* (pointer, slice backing
array, map header) carries the address it lives at.  Two values share mutable state iff they
contain a common address.  `erase` forgets addresses (= `reflect.DeepEqual`).

`Plan` is the shape of one generated copy statement (`types/derived.gen.go`):

* `assign`      `dst.F = src.F`                               (shares whatever `src.F` references)
* `newPtr p`    `if src.F == nil {dst.F = nil} else {dst.F = new(T); p(*dst.F, *src.F)}`
* `newSlice p`  nil-guarded `make([]T, len)` + `p` on every element (`copy(…)` = `newSlice assign`)
* `newMap p`    nil-guarded `make(map[K]T, len)` + `p` on every entry
* `fields ps`   one statement per struct field
* `call k f`    call of generated function `f` (kind `k`: 0 = pointee, 1 = slice elements, 2 = map entries);
                `Plan.resolve` inlines it

The translator (`translator/copyplan.go`) regenerates the type table and the function table in
`Gen/CopyPlan.lean`; everything here is the semantics and the checks.  All functions recurse
structurally (on fuel or on the value), so they evaluate inside the kernel (`decide`).
-/
namespace CV.Heap

/-- Go type expression; `named` refers to the regenerated type table -/
inductive Ty where
  | scalar                              -- bool, numbers, string: no references inside
  | iface                               -- `any`: opaque payload (extension values)
  | named (id : Nat)
  | ptr (t : Ty)
  | slice (t : Ty)
  | map (t : Ty)                        -- keys are strings
  | struct (fs : List (Nat × Ty))       -- field id (index into `Gen.CopyPlan.fieldNames`) × type
  | unknown (why : String)
  deriving Repr, Inhabited

inductive Plan where
  | assign
  | newPtr (p : Plan)
  | newSlice (p : Plan)
  | newMap (p : Plan)
  | fields (ps : List (Nat × Plan))
  | call (kind : Nat) (f : Nat)
  | unknown (why : String)
  deriving Repr, Inhabited

/-- key of a child: slice index (position is the list position), map key, struct field id -/
inductive Key where
  | idx
  | str (s : String)
  | fld (f : Nat)
  deriving Repr, DecidableEq, Inhabited

inductive GoVal where
  | scalar (s : String)
  | nil                                           -- nil pointer / nil slice / nil map / nil interface
  | opaque (a : Nat) (s : String)                 -- reference held in an interface (extension payload)
  | ptr (a : Nat) (v : GoVal)
  | slice (a : Nat) (ks : List (Key × GoVal))
  | map (a : Nat) (ks : List (Key × GoVal))
  | struct (ks : List (Key × GoVal))              -- a struct value is stored inline: no address of its own
  deriving Repr, Inhabited

/-! ## lookups (written out so that they reduce in the kernel) -/

def lookupTy (f : Nat) : List (Nat × Ty) → Option Ty
  | [] => none
  | (g, t) :: r => if g = f then some t else lookupTy f r

def lookupPlan (f : Nat) : List (Nat × Plan) → Option Plan
  | [] => none
  | (g, p) :: r => if g = f then some p else lookupPlan f r

def lookupFn (f : Nat) : List (Nat × Nat × Plan) → Option (Nat × Plan)
  | [] => none
  | (g, k, p) :: r => if g = f then some (k, p) else lookupFn f r

/-! ## resolution of named types and calls (fuel = nesting depth; structural on the fuel) -/

def Ty.resolve (tbl : List (Nat × Ty)) : Nat → Ty → Ty
  | 0, _ => .unknown "fuel"
  | n+1, .named id => match lookupTy id tbl with
    | some t => Ty.resolve tbl n t
    | none => .unknown "undeclared type"
  | n+1, .ptr t => .ptr (Ty.resolve tbl n t)
  | n+1, .slice t => .slice (Ty.resolve tbl n t)
  | n+1, .map t => .map (Ty.resolve tbl n t)
  | n+1, .struct fs => .struct (fs.map fun ft => (ft.1, Ty.resolve tbl n ft.2))
  | _+1, t => t

def Plan.resolve (fns : List (Nat × Nat × Plan)) : Nat → Plan → Plan
  | 0, _ => .unknown "fuel"
  | n+1, .call k f => match lookupFn f fns with
    | some (k', p) => if k' = k then Plan.resolve fns n p else .unknown "call kind"
    | none => .unknown "undeclared function"
  | n+1, .newPtr p => .newPtr (Plan.resolve fns n p)
  | n+1, .newSlice p => .newSlice (Plan.resolve fns n p)
  | n+1, .newMap p => .newMap (Plan.resolve fns n p)
  | n+1, .fields ps => .fields (ps.map fun fp => (fp.1, Plan.resolve fns n fp.2))
  | _+1, p => p

/-! ## static checks on (type, plan) -/

mutual
/-- no reference inside: a shallow assignment of such a value shares nothing -/
def flat : Ty → Bool
  | .scalar => true
  | .struct fs => flatFields fs
  | _ => false
def flatFields : List (Nat × Ty) → Bool
  | [] => true
  | (_, t) :: r => flat t && flatFields r
end

mutual
/-- **Deep**: a shallow assignment happens only where nothing mutable can be shared
(flat types), the one exception being the opaque payload of an interface. -/
def deep : Ty → Plan → Bool
  | .iface, .assign => true
  | t, .assign => flat t
  | .ptr t, .newPtr p => deep t p
  | .slice t, .newSlice p => deep t p
  | .map t, .newMap p => deep t p
  | .struct fs, .fields ps => deepFields fs ps
  | _, _ => false
def deepFields : List (Nat × Ty) → List (Nat × Plan) → Bool
  | [], _ => true
  | (f, t) :: r, ps =>
    (match lookupPlan f ps with
     | some p => deep t p
     | none => true) && deepFields r ps
end

mutual
/-- **Covers**: the plan has the shape of the type and copies *every* field of every struct. -/
def covers : Ty → Plan → Bool
  | .scalar, .assign => true
  | .iface, .assign => true
  | .ptr _, .assign => true
  | .slice _, .assign => true
  | .map _, .assign => true
  | .struct _, .assign => true
  | .ptr t, .newPtr p => covers t p
  | .slice t, .newSlice p => covers t p
  | .map t, .newMap p => covers t p
  | .struct fs, .fields ps => coversFields fs ps
  | _, _ => false
def coversFields : List (Nat × Ty) → List (Nat × Plan) → Bool
  | [], _ => true
  | (f, t) :: r, ps =>
    (match lookupPlan f ps with
     | some p => covers t p
     | none => false) && coversFields r ps
end

/-! ## values -/

mutual
/-- addresses of the mutable *model* state reachable from a value (opaque payloads excluded) -/
def addrs : GoVal → List Nat
  | .ptr a v => a :: addrs v
  | .slice a ks => a :: addrsKids ks
  | .map a ks => a :: addrsKids ks
  | .struct ks => addrsKids ks
  | _ => []
def addrsKids : List (Key × GoVal) → List Nat
  | [] => []
  | (_, v) :: r => addrs v ++ addrsKids r
end

mutual
/-- addresses of opaque payloads (they may be shared: the documented exception) -/
def oaddrs : GoVal → List Nat
  | .opaque a _ => [a]
  | .ptr _ v => oaddrs v
  | .slice _ ks => oaddrsKids ks
  | .map _ ks => oaddrsKids ks
  | .struct ks => oaddrsKids ks
  | _ => []
def oaddrsKids : List (Key × GoVal) → List Nat
  | [] => []
  | (_, v) :: r => oaddrs v ++ oaddrsKids r
end

mutual
/-- forget addresses: `erase v = erase w` is deep equality -/
def erase : GoVal → GoVal
  | .ptr _ v => .ptr 0 (erase v)
  | .slice _ ks => .slice 0 (eraseKids ks)
  | .map _ ks => .map 0 (eraseKids ks)
  | .struct ks => .struct (eraseKids ks)
  | .opaque _ s => .opaque 0 s
  | v => v
def eraseKids : List (Key × GoVal) → List (Key × GoVal)
  | [] => []
  | (k, v) :: r => (k, erase v) :: eraseKids r
end

mutual
/-- the zero value of the same shape (what a field keeps when no statement assigns it) -/
def zero : GoVal → GoVal
  | .scalar _ => .scalar ""
  | .struct ks => .struct (zeroKids ks)
  | _ => .nil
def zeroKids : List (Key × GoVal) → List (Key × GoVal)
  | [] => []
  | (k, v) :: r => (k, zero v) :: zeroKids r
end

mutual
def hasTy : Ty → GoVal → Bool
  | .scalar, .scalar _ => true
  | .iface, .scalar _ => true
  | .iface, .nil => true
  | .iface, .opaque _ _ => true
  | .ptr _, .nil => true
  | .slice _, .nil => true
  | .map _, .nil => true
  | .ptr t, .ptr _ v => hasTy t v
  | .slice t, .slice _ ks => hasTyAll t ks
  | .map t, .map _ ks => hasTyAll t ks
  | .struct fs, .struct ks => hasTyFields fs ks
  | _, _ => false
def hasTyAll : Ty → List (Key × GoVal) → Bool
  | _, [] => true
  | t, (_, v) :: r => hasTy t v && hasTyAll t r
def hasTyFields : List (Nat × Ty) → List (Key × GoVal) → Bool
  | _, [] => true
  | fs, (.fld f, v) :: r =>
    (match lookupTy f fs with
     | some t => hasTy t v
     | none => false) && hasTyFields fs r
  | _, _ :: _ => false
end

/-! ## execution of a plan: `exec p v n` copies `v`, allocating fresh addresses from `n` upwards;
returns the copy and the next free address.  The destination is fresh (`new(T)` / `&T{}`), so the
"re-use the destination's backing array" branches of the generated slice code are dead. -/

def mismatch : GoVal := .scalar "<plan does not fit the value>"

mutual
def exec : Plan → GoVal → Nat → GoVal × Nat
  | .assign, v, n => (v, n)
  | .newPtr _, .nil, n => (.nil, n)
  | .newSlice _, .nil, n => (.nil, n)
  | .newMap _, .nil, n => (.nil, n)
  | .newPtr p, .ptr _ v, n => let r := exec p v (n+1); (.ptr n r.1, r.2)
  | .newSlice p, .slice _ ks, n => let r := execAll p ks (n+1); (.slice n r.1, r.2)
  | .newMap p, .map _ ks, n => let r := execAll p ks (n+1); (.map n r.1, r.2)
  | .fields ps, .struct ks, n => let r := execFields ps ks n; (.struct r.1, r.2)
  | _, _, n => (mismatch, n)
def execAll : Plan → List (Key × GoVal) → Nat → List (Key × GoVal) × Nat
  | _, [], n => ([], n)
  | p, (k, v) :: r, n =>
    let a := exec p v n
    let b := execAll p r a.2
    ((k, a.1) :: b.1, b.2)
def execFields : List (Nat × Plan) → List (Key × GoVal) → Nat → List (Key × GoVal) × Nat
  | _, [], n => ([], n)
  | ps, (.fld f, v) :: r, n =>
    match lookupPlan f ps with
    | some p =>
      let a := exec p v n
      let b := execFields ps r a.2
      ((.fld f, a.1) :: b.1, b.2)
    | none =>
      let b := execFields ps r n
      ((.fld f, zero v) :: b.1, b.2)
  | ps, (k, v) :: r, n =>
    let b := execFields ps r n
    ((k, zero v) :: b.1, b.2)
end

/-! ## mutation: a write through address `a` replaces the content of *every* occurrence of `a` -/

/-- what is stored at an address: the pointee of a pointer, or the children of a slice / map -/
inductive Cell where
  | pointee (v : GoVal)
  | kids (ks : List (Key × GoVal))
  deriving Inhabited

mutual
def write (a : Nat) (c : Cell) : GoVal → GoVal
  | .ptr b v =>
    if b = a then (match c with | .pointee w => .ptr b w | .kids _ => .ptr b v)
    else .ptr b (write a c v)
  | .slice b ks =>
    if b = a then (match c with | .kids ws => .slice b ws | .pointee _ => .slice b ks)
    else .slice b (writeKids a c ks)
  | .map b ks =>
    if b = a then (match c with | .kids ws => .map b ws | .pointee _ => .map b ks)
    else .map b (writeKids a c ks)
  | .struct ks => .struct (writeKids a c ks)
  | v => v
def writeKids (a : Nat) (c : Cell) : List (Key × GoVal) → List (Key × GoVal)
  | [] => []
  | (k, v) :: r => (k, write a c v) :: writeKids a c r
end

/-- a sequence of writes -/
def writes : List (Nat × Cell) → GoVal → GoVal
  | [], v => v
  | (a, c) :: r, v => writes r (write a c v)

/-- the largest address in a value, plus one (a safe allocation frontier) -/
def frontier (v : GoVal) : Nat := (addrs v).foldl (fun m a => max m (a+1)) 0

end CV.Heap
