import ComposeVerif.Model.Val
import ComposeVerif.Model.Path
import ComposeVerif.Model.Template
/-!
# Model of `interpolation.Interpolate` (interpolation/interpolation.go) and of the casters of
# loader/interpolate.go

Mirrors the code that exists:

* `Interpolate` ranges the top-level mapping and starts every key at `tree.NewPath(key)` — the key is
  *not* escaped, so a top-level key containing dots becomes several path parts (`TPath.next root`);
* `recursiveInterpolate`: strings are substituted (`template.Substitute` = `CV.Template.subst`), then the
  cast table is consulted by first match over the Go map (`TPath.firstMatch`, in list order; order
  independence is the theorem `cast_lookup_perm` given pairwise exclusivity); mappings and lists are rebuilt
  (same keys / same length), list items extend the path with `[]`, nested keys are escaped (`.` ↦ 👻);
  every other value is returned as it is;
* `newPathError`: a failed substitution or cast is an error that carries `path.String()` (👻 ↦ `.`);
* casters: `toInt`/`toInt64` = `strconv.Atoi`/`ParseInt(_,10,64)` (optional sign, ASCII digits, range of
  int64), `toBoolean` = `strings.ToLower` + the eight YAML-1.1 spellings; `toFloat`/`toFloat32` are
  *opaque*: the float parser is a parameter (`FloatParser`), supplied by the harness from the real
  `strconv.ParseFloat` in the correspondence stream and universally quantified in the theorems.

Maps are association lists iterated in list order; the first failing entry in list order is the error.
`errs` is the set of errors reachable under *some* iteration order (DESIGN §2.6, collect mode).
-/
namespace CV.Interp
open CV CV.TPath

inductive Caster
  | toInt | toInt64 | toFloat | toFloat32 | toBoolean
  | unknown (name : String)
deriving Repr, DecidableEq

def Caster.ofName : String → Caster
  | "toInt" => .toInt
  | "toInt64" => .toInt64
  | "toFloat" => .toFloat
  | "toFloat32" => .toFloat32
  | "toBoolean" => .toBoolean
  | n => .unknown n

def Caster.known : Caster → Bool
  | .unknown _ => false
  | _ => true

/-- the two opaque float parsers: text ↦ canonical rendering of the parsed value, `none` = syntax/range error -/
structure FloatParser where
  f64 : String → Option String
  f32 : String → Option String

inductive Err
  | invalid (path : String)                 -- "invalid interpolation format for <path>."
  | required (path : String) (var : String) -- "error while interpolating <path>: required variable … is missing a value"
  | cast (path : String)                    -- "error while interpolating <path>: failed to cast to expected type: …"
deriving Repr, DecidableEq

def Err.path : Err → String
  | .invalid p => p
  | .required p _ => p
  | .cast p => p

inductive Out (α : Type)
  | ok (a : α)
  | err (e : Err)
  | panic (site : String)
deriving Repr

/-! ## casters -/

def digitVal (c : Char) : Nat := c.toNat - '0'.toNat

def allDigits (s : List Char) : Bool := s.all Char.isDigit

def natOfDigits (s : List Char) : Nat := s.foldl (fun n c => 10 * n + digitVal c) 0

/-- `strconv.ParseInt(s, 10, 64)` / `strconv.Atoi` on a 64-bit platform — the casters *before* the repair
    "casts read numbers like YAML does" (kept for the Neg witness and as the last resort of the new casters) -/
def parseIntDecimal (s : List Char) : Option Int :=
  let go (neg : Bool) (ds : List Char) : Option Int :=
    if ds.isEmpty || !allDigits ds then none
    else
      let n := natOfDigits ds
      if neg then (if n ≤ 9223372036854775808 then some (-(n : Int)) else none)
      else (if n ≤ 9223372036854775807 then some (n : Int) else none)
  match s with
  | '+' :: ds => go false ds
  | '-' :: ds => go true ds
  | ds => go false ds

/-- value of a digit in bases up to 36 (`strconv`: `0-9`, `a-z`, `A-Z`) -/
def digitOf (c : Char) : Option Nat :=
  if c.isDigit then some (c.toNat - '0'.toNat)
  else if c.isLower then some (c.toNat - 'a'.toNat + 10)
  else if c.isUpper then some (c.toNat - 'A'.toNat + 10)
  else none

/-- the digit loop of `strconv.ParseUint` for an explicit base (no underscores); `none` = syntax error -/
def digitsVal (base : Nat) : List Char → Nat → Option Nat
  | [], n => some n
  | c :: cs, n =>
    match digitOf c with
    | some d => if d < base then digitsVal base cs (base * n + d) else none
    | none => none

/-- `strconv.ParseUint(s, base, 64)` for base 2/8/10/16: non-empty, all digits below the base, below 2^64 -/
def parseUintBase (base : Nat) (s : List Char) : Option Nat :=
  if s.isEmpty then none else
  match digitsVal base s 0 with
  | some n => if n < 18446744073709551616 then some n else none
  | none => none

/-- `strconv.ParseUint(s, 0, 64)` on a text without underscores: `0b`/`0o`/`0x` (either case, at least one more
    character) select the base, any other leading `0` means octal — and `"0"` itself is 0 -/
def parseUint0 (s : List Char) : Option Nat :=
  match s with
  | [] => none
  | '0' :: c :: d :: r =>
    if c.toLower = 'b' then parseUintBase 2 (d :: r)
    else if c.toLower = 'o' then parseUintBase 8 (d :: r)
    else if c.toLower = 'x' then parseUintBase 16 (d :: r)
    else match digitsVal 8 (c :: d :: r) 0 with
      | some n => if n < 18446744073709551616 then some n else none
      | none => none
  | '0' :: r =>
    match digitsVal 8 r 0 with
    | some n => some n
    | none => none
  | _ => parseUintBase 10 s

/-- the sign and range handling of `strconv.ParseInt(_, _, 64)` around an unsigned parser -/
def signed (pu : List Char → Option Nat) (s : List Char) : Option Int :=
  let fin (neg : Bool) (r : Option Nat) : Option Int :=
    match r with
    | none => none
    | some n =>
      if neg then (if n ≤ 9223372036854775808 then some (-(n : Int)) else none)
      else (if n ≤ 9223372036854775807 then some (n : Int) else none)
  match s with
  | [] => none
  | '+' :: ds => fin false (pu ds)
  | '-' :: ds => fin true (pu ds)
  | ds => fin false (pu ds)

/-- `strconv.ParseInt(s, 0, 64)` -/
def parseInt0 (s : List Char) : Option Int := signed parseUint0 s
/-- `strconv.ParseInt(s, base, 64)` -/
def parseIntBase (base : Nat) (s : List Char) : Option Int := signed (parseUintBase base) s

def stripUnderscores (s : List Char) : List Char := s.filter (· != '_')

/-- how yaml.v3's `resolve` reads an underscore-free text as `!!int` (int64 range): `ParseInt(_, 0, 64)`, else —
    its quirk — a sign *after* a lower-case `0b` / `0o` prefix.  (Larger values become `uint64`, texts matching
    the decimal float syntax become `!!float`: both are `none` here; neither overlaps the prefix branches.) -/
def yamlIntCore (plain : List Char) : Option Int :=
  match parseInt0 plain with
  | some i => some i
  | none =>
    match plain with
    | '0' :: 'b' :: r => parseIntBase 2 r
    | '-' :: '0' :: 'b' :: r => parseIntBase 2 ('-' :: r)
    | '0' :: 'o' :: r => parseIntBase 8 r
    | '-' :: '0' :: 'o' :: r => parseIntBase 8 ('-' :: r)
    | _ => none

/-- `parseYAMLInt` of loader/interpolate.go = `toInt` / `toInt64` (on a 64-bit platform): read like YAML, and a
    text that is not valid octal (`08`) as decimal -/
def parseInt (s : String) : Option Int :=
  match yamlIntCore (stripUnderscores s.toList) with
  | some i => some i
  | none => parseIntDecimal (stripUnderscores s.toList)

/-- `toBoolean`: `strings.ToLower` only matters on ASCII here (no other rune lower-cases to a letter of
    `true false y yes on n no off`) -/
def parseBool (s : String) : Option Bool :=
  let l := String.ofList (s.toList.map Char.toLower)
  if l = "true" then some true
  else if l = "false" then some false
  else if l = "y" || l = "yes" || l = "on" then some true
  else if l = "n" || l = "no" || l = "off" then some false
  else none

/-- a caster applied to the substituted text; `none` = the Go caster returned an error -/
def Caster.apply (fp : FloatParser) : Caster → String → Option Val
  | .toInt, s => (parseInt s).map Val.int
  | .toInt64, s => (parseInt s).map Val.int
  | .toFloat, s => (fp.f64 s).map Val.float
  | .toFloat32, s => (fp.f32 s).map Val.float
  | .toBoolean, s => (parseBool s).map Val.bool
  | .unknown _, _ => none

/-! ## the walk -/

abbrev Table := List (List String × String)

/-- `path.String()` -/
def pathString (p : TPath) : String := (TPath.toString p).replace ghost "."

structure Cfg where
  table : Table
  fp : FloatParser
  env : CV.Template.Env

/-- the `case string:` arm of `recursiveInterpolate` -/
def leaf (c : Cfg) (p : TPath) (s : String) : Out Val :=
  match CV.Template.subst c.env s.toList with
  | .panic .fuel => .panic "fuel"
  | .panic .matchGroups => .panic "template.matchGroups"
  | .err .invalid => .err (.invalid (pathString p))
  | .err (.required v _) => .err (.required (pathString p) (String.ofList v))
  | .ok s' =>
    match firstMatch c.table p with
    | none => .ok (.str (String.ofList s'))
    | some name =>
      match (Caster.ofName name).apply c.fp (String.ofList s') with
      | some v => .ok v
      | none => .err (.cast (pathString p))

mutual
/-- `recursiveInterpolate` -/
def interp (c : Cfg) (p : TPath) : Val → Out Val
  | .str s => leaf c p s
  | .map kvs =>
    match interpKVs c p kvs with
    | .ok kvs' => .ok (.map kvs')
    | .err e => .err e
    | .panic s => .panic s
  | .seq xs =>
    match interpList c p xs with
    | .ok xs' => .ok (.seq xs')
    | .err e => .err e
    | .panic s => .panic s
  | v => .ok v
/-- `for key, elem := range value` in list order -/
def interpKVs (c : Cfg) (p : TPath) : List (String × Val) → Out (List (String × Val))
  | [] => .ok []
  | (k, v) :: r =>
    match interp c (next p k) v with
    | .ok v' =>
      match interpKVs c p r with
      | .ok r' => .ok ((k, v') :: r')
      | .err e => .err e
      | .panic s => .panic s
    | .err e => .err e
    | .panic s => .panic s
/-- `for i, elem := range value` -/
def interpList (c : Cfg) (p : TPath) : List Val → Out (List Val)
  | [] => .ok []
  | v :: r =>
    match interp c (next p "[]") v with
    | .ok v' =>
      match interpList c p r with
      | .ok r' => .ok (v' :: r')
      | .err e => .err e
      | .panic s => .panic s
    | .err e => .err e
    | .panic s => .panic s
end

/-- `Interpolate`: the top-level mapping; each key starts at `tree.NewPath(key)` -/
def interpolate (c : Cfg) (kvs : List (String × Val)) : Out (List (String × Val)) :=
  interpKVs c root kvs

/-! ## collect mode: every error reachable under some iteration order of the Go maps -/

mutual
def errs (c : Cfg) (p : TPath) : Val → List Err
  | .str s => match leaf c p s with
    | .err e => [e]
    | _ => []
  | .map kvs => errsKVs c p kvs
  | .seq xs => errsList c p xs
  | _ => []
/-- a map can be ranged in any order: any failing entry can be the first -/
def errsKVs (c : Cfg) (p : TPath) : List (String × Val) → List Err
  | [] => []
  | (k, v) :: r => errs c (next p k) v ++ errsKVs c p r
/-- a list is ranged in order: only the first failing item is reachable -/
def errsList (c : Cfg) (p : TPath) : List Val → List Err
  | [] => []
  | v :: r => match errs c (next p "[]") v with
    | [] => errsList c p r
    | es => es
end

end CV.Interp
