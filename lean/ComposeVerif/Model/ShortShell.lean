import ComposeVerif.Model.ShortDecode
/-!
# `shellwords.Parse` and the string spelling of `ShellCommand` (C03, round 6)

`types.ShellCommand.DecodeMapstructure` sends the *string* spelling of `command` / `entrypoint` / hook commands through
`github.com/mattn/go-shellwords` `Parse` (package defaults: `ParseEnv = false`, `ParseBacktick = false`).
The model mirrors `(*Parser).Parse` rune by rune for those settings: the five mode flags (`escaped`, `doubleQuoted`,
`singleQuoted`, `backQuote`, `dollarQuote`), `got` (`argNo / argSingle / argQuoted`), the buffer and the arguments.
Left out because they cannot influence the result with `ParseBacktick = false`: the `backtick` text and `Position`.
`isSpace` is the parser's own four-character table (space, tab, CR, LF) — *not* `unicode.IsSpace`.
-/
namespace CV.Short
open CV

inductive Got | no | single | quoted
deriving Repr, DecidableEq

structure Sh where
  args : List Str := []
  buf : Str := []
  esc : Bool := false
  dq : Bool := false
  sq : Bool := false
  bq : Bool := false
  dol : Bool := false
  got : Got := .no
deriving Repr, DecidableEq

/-- `shellwords.isSpace` -/
def shIsSpace (r : Char) : Bool := r = ' ' || r = '\t' || r = '\r' || r = '\n'

def shIsOp (r : Char) : Bool := r = ';' || r = '&' || r = '|' || r = '<' || r = '>'

inductive ShStep
  | cont (s : Sh)      -- `continue` / fall out of the switch
  | stop (s : Sh)      -- `break loop`
  | fail               -- `return nil, errors.New("invalid command line string")`

/-- `got = argSingle; buf += string(r)` — the tail of the loop body -/
def Sh.push (s : Sh) (r : Char) : Sh := { s with got := .single, buf := s.buf ++ [r] }

/-- one iteration of `for _, r := range line` -/
def shStep (s : Sh) (r : Char) : ShStep :=
  if s.esc then .cont { s with buf := s.buf ++ [r], esc := false, got := .single }
  else if r = '\\' then
    (if s.sq then .cont { s with buf := s.buf ++ [r] } else .cont { s with esc := true })
  else if shIsSpace r then
    (if s.sq || s.dq || s.bq || s.dol then .cont { s with buf := s.buf ++ [r] }
     else if s.got ≠ .no then .cont { s with args := s.args ++ [s.buf], buf := [], got := .no }
     else .cont s)
  else if r = '`' then
    (if !s.sq && !s.dq && !s.dol then .cont ({ s with bq := !s.bq }.push r) else .cont (s.push r))
  else if r = ')' then
    (if !s.sq && !s.dq && !s.bq then .cont ({ s with dol := !s.dol }.push r) else .cont (s.push r))
  else if r = '(' then
    (if !s.sq && !s.dq && !s.bq then
       (if !s.dol && s.buf.getLast? = some '$' then .cont { s with dol := true, buf := s.buf ++ ['('] } else .fail)
     else .cont (s.push r))
  else if r = '"' then
    (if !s.sq && !s.dol then .cont { s with got := if s.dq then .quoted else s.got, dq := !s.dq } else .cont (s.push r))
  else if r = '\'' then
    (if !s.dq && !s.dol then .cont { s with got := if s.sq then .quoted else s.got, sq := !s.sq } else .cont (s.push r))
  else if shIsOp r then
    (if !(s.sq || s.dq || s.bq || s.dol) then
       -- `2>file`: a buffer that starts with a digit in front of `>` is a file descriptor, dropped
       .stop (if r = '>' && (match s.buf with | c :: _ => decide ('0' ≤ c) && decide (c ≤ '9') | [] => false) then { s with got := .no } else s)
     else .cont (s.push r))
  else .cont (s.push r)

/-- the loop; `none` = the error return inside the loop -/
def shLoop (s : Sh) : Str → Option Sh
  | [] => some s
  | r :: rest =>
    match shStep s r with
    | .cont s' => shLoop s' rest
    | .stop s' => some s'
    | .fail => none

/-- after the loop: flush the last argument, then reject an open quote / escape / substitution -/
def shFinish (s : Sh) : Option (List Str) :=
  let args := if s.got ≠ .no then s.args ++ [s.buf] else s.args
  if s.esc || s.sq || s.dq || s.bq || s.dol then none else some args

/-- `shellwords.Parse(line)` -/
def shellParse (line : Str) : Option (List Str) := (shLoop {} line).bind shFinish

/-- `ShellCommand.DecodeMapstructure`, both spellings: the string goes through `shellwords.Parse`, a list must be all
strings, any other kind is accepted and leaves the command unset (`.null`) -/
def decodeShellCommand : Val → Option Val
  | .str s => (shellParse s.toList).map fun l => .seq (l.map fun w => .str (String.ofList w))
  | v => decodeShellCommandList v

/-! ### `SSHConfig` (types/ssh.go) — reached with the canonical mapping `transformSSH` builds -/

/-- `sort.Slice(result, ID <)` as insertion into a sorted list (IDs are distinct: they are map keys) -/
def sshInsert (e : String × String) : List (String × String) → List (String × String)
  | [] => [e]
  | x :: r => if e.1 < x.1 then e :: x :: r else x :: sshInsert e r

/-- `SSHConfig.DecodeMapstructure`: only a mapping; `ID ↦ fmt.Sprint(path)` (nil ↦ ""), listed by ID -/
def decodeSSHConfig : Val → Option Val
  | .map m =>
    let keys := m.foldr (fun kv acc => sshInsert (kv.1, match kv.2 with | .null => "" | v => sprint v) acc) []
    some (.seq (keys.map fun e => .map [("id", .str e.1), ("path", .str e.2)]))
  | _ => none

end CV.Short
