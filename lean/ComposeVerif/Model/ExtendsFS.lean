import ComposeVerif.Model.Extends
import ComposeVerif.Model.Paths
/-!
# What the file-system parameter of `Model/Extends.lean` holds, for a file already in canonical form

`getExtendsBaseFromFile` loads the referenced file (yaml, interpolation, canonical form) and then runs
`paths.ResolveRelativePaths(source, relworkingdir, remotes)` with `relworkingdir` = the directory of *that
file* relative to the project directory.  For a document that is already canonical (long syntax), the entry
of the file system is therefore the C12 model of `ResolveRelativePaths` (`CV.Paths.resolve`) applied to the
document with that directory — `anchoredFile`.  Tied to the real function by the `c05.base` correspondence op.
-/
namespace CV.Extends
open CV CV.Val

/-- the file-system entry of a canonical document `doc` stored in directory `relDir` (relative to the project
directory); `$HOME` is irrelevant for paths that do not start with `~` (`home := none`) -/
def anchoredFile (relDir : String) (doc : KVs) : FileRes :=
  match CV.Paths.resolve { wd := relDir.toList, home := none } (.map doc) with
  | .ok (.map d) => .ok d false
  | .ok _ => .ok doc true
  | .err _ => .ok doc true            -- ResolveRelativePaths failed (after the services / base checks)
  | .panic s => .okResolvePanic doc s

/-- the same with the resolver's whole configuration (`$HOME` for `~/…`, the remote-resource test of the loader): the
file-system entry of a document `doc` when `ResolveRelativePaths` runs with configuration `pc` (`pc.wd` = the file's
directory).  `anchoredFile relDir doc = anchoredFileAt { wd := relDir, home := none } doc` (`anchoredFile_eq_at`). -/
def anchoredFileAt (pc : CV.Paths.Cfg) (doc : KVs) : FileRes :=
  match CV.Paths.resolve pc (.map doc) with
  | .ok (.map d) => .ok d false
  | .ok _ => .ok doc true
  | .err _ => .ok doc true
  | .panic s => .okResolvePanic doc s

theorem anchoredFile_eq_at (relDir : String) (doc : KVs) :
    anchoredFile relDir doc = anchoredFileAt { wd := relDir.toList, home := none } doc := rfl

/-- a file system whose files are canonical documents, each anchored at its own directory -/
def anchoredFS (files : List (String × String × KVs)) : FS :=
  files.map fun (ref, relDir, doc) => (ref, anchoredFile relDir doc)

end CV.Extends
