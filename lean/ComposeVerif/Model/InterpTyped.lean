import ComposeVerif.Model.Interp
import ComposeVerif.Model.TypeDesc
/-!
# The decode-time string conversion (loader/mapstructure.go `cast`) and the typed leaves of the model types

* `decodeCast hook fp kind s` — what the mapstructure hook `cast` makes of a *string* source for a target of the given
  `reflect.Kind` name: the caster the regenerated table `Gen.c08_castHook` names for that kind, else the string is
  left alone (and mapstructure then fails with "expected type …, got unconvertible type 'string'" for a numeric target).
* `typedLeaves structs named custom root` — every attribute path (yaml keys; `*` for map values, `[]` for list items)
  of the model types whose Go type is boolean / integer / unsigned / float, or a named type with its own
  `DecodeMapstructure`, together with how a string reaches it at decode time.
-/
namespace CV.Interp
open CV CV.TypeDesc

/-- the hook on a string source: `some (some v)` converted, `some none` = the caster's error, `none` = not a kind the hook converts -/
def decodeCast (hook : List (String × String)) (fp : FloatParser) (kind : String) (s : String) : Option (Option Val) :=
  match hook.find? (fun r => r.1 == kind) with
  | some r => some ((Caster.ofName r.2).apply fp s)
  | none => none

/-- `reflect.Kind` name of a primitive Go type -/
def kindOfPrim : String → String
  | "bool" => "Bool" | "int" => "Int" | "int8" => "Int8" | "int16" => "Int16" | "int32" => "Int32" | "int64" => "Int64"
  | "uint" => "Uint" | "uint8" => "Uint8" | "uint16" => "Uint16" | "uint32" => "Uint32" | "uint64" => "Uint64"
  | "float32" => "Float32" | "float64" => "Float64"
  | n => n

inductive LeafConv
  | hook (kind : String)        -- primitive target: converted iff the `cast` hook has a case for this kind
  | custom (ty : String)        -- named type with `*DecodeMapstructure` (Duration, UnitBytes, NanoCPUs, DeviceCount …): parses strings itself
  | insideCustom (ty : String)  -- field of a struct that decodes itself (UlimitsConfig): no hook runs on its fields
deriving Repr, DecidableEq

structure TypedLeaf where
  path : List String
  goType : String
  conv : LeafConv
deriving Repr, DecidableEq

def numericPrims : List String :=
  ["bool", "int", "int8", "int16", "int32", "int64", "uint", "uint8", "uint16", "uint32", "uint64", "float32", "float64"]

def hasCustomDecode (custom : List (String × List String)) (n : String) : Bool :=
  match custom.find? (fun r => r.1 == n) with
  | some r => r.2.contains "*DecodeMapstructure" || r.2.contains "DecodeMapstructure"
  | none => false

/-- underlying primitive of a named type, following `namedTypes` (bounded) -/
def underlyingPrim (named : List (String × TyExpr)) : Nat → TyExpr → Option String
  | _, .prim n => some n
  | 0, _ => none
  | f + 1, .named n => match findNamed named n with
    | some e => underlyingPrim named f e
    | none => none
  | _, .other src => some src      -- a foreign scalar such as time.Duration
  | _, _ => none

/-- walk a type expression; `inside` = name of the enclosing self-decoding struct, if any -/
def leavesOfTy (structs : List StructDesc) (named : List (String × TyExpr)) (custom : List (String × List String)) :
    Nat → Option String → List String → TyExpr → List TypedLeaf
  | 0, _, _, _ => []
  | fuel + 1, inside, path, ty =>
    match ty with
    | .prim n =>
      if numericPrims.contains n then
        [{ path := path, goType := n, conv := match inside with | some t => .insideCustom t | none => .hook (kindOfPrim n) }]
      else []
    | .ptr e => leavesOfTy structs named custom fuel inside path e
    | .slice e => leavesOfTy structs named custom fuel inside (path ++ ["[]"]) e
    | .map e => leavesOfTy structs named custom fuel inside (path ++ ["*"]) e
    | .other _ => []
    | .named n =>
      match findStruct structs n with
      | some sd =>
        let inside' := if hasCustomDecode custom n then some n else inside
        sd.fields.flatMap fun f =>
          if f.exported && !f.yamlSkip && !f.yamlInline then
            leavesOfTy structs named custom fuel inside' (path ++ [f.yamlKey]) f.ty
          else []
      | none =>
        match findNamed named n with
        | none => []
        | some e =>
          if hasCustomDecode custom n then
            -- a self-decoding named type is a typed leaf when it is a scalar underneath
            match underlyingPrim named 8 e with
            | some u => if numericPrims.contains u || u == "time.Duration" then [{ path := path, goType := n, conv := .custom n }] else []
            | none => []
          else leavesOfTy structs named custom fuel inside path e

/-- the typed leaves reachable from the struct `root` -/
def typedLeaves (structs : List StructDesc) (named : List (String × TyExpr)) (custom : List (String × List String)) (root : String) :
    List TypedLeaf :=
  leavesOfTy structs named custom 40 none [] (.named root)

/-- a string arriving at decode time is converted at this leaf -/
def TypedLeaf.decodeConverts (hook : List (String × String)) (l : TypedLeaf) : Bool :=
  match l.conv with
  | .hook k => (hook.find? (fun r => r.1 == k)).isSome
  | .custom _ => true
  | .insideCustom _ => false

end CV.Interp
