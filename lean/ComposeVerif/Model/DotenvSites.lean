import ComposeVerif.Model.Dotenv
/-!
# The index / slice expressions of `dotenv/parser.go` and how the model accounts for each (round 6)

`Gen.dotenv_indexSites` (regenerated from the syntax tree on every run) lists every `x[i]` and `x[i:j]`
expression of the file.  `siteTable` says, for each of them, which checked access of `Model/Dotenv.lean`
stands for it.  `hasQuotePrefix`'s `src[0]` is the one expression that `Model/Dotenv.lean` mirrors by a
pattern match (`quotePrefix`); `quotePrefixIdx` below is the index-style version with an explicit
out-of-range branch, shown equal to `quotePrefix` in `Props/C18Total.lean`.
-/
namespace CV.Dotenv
open CV

/-- how the model accounts for one index / slice expression of the Go source -/
inductive Guard
  | site (s : Site)     -- a checked access of the model (`sliceFrom`, `sliceTo`, `l[i]?`); `none` = this panic site
  | mapIndex            -- `out[key]` on a Go map: no range to leave; the map is made by `UnmarshalWithLookup`, never nil
  | quoteHead           -- `hasQuotePrefix`: `src[0]` after `if src == "" { return }` — `quotePrefixIdx`
deriving Repr, DecidableEq

/-- (function, kind, expression) of the source ↦ the model's account of it; same order as the source -/
def siteTable : List ((String × String × String) × Guard) := [
  (("parse", "index", "out[key]"), .mapIndex),
  (("parse", "index", "out[key]"), .mapIndex),
  (("getStatementStart", "slice", "src[pos:]"), .site .stmtSlice),
  (("getStatementStart", "index", "src[0]"), .site .stmtIndex0),
  (("getStatementStart", "slice", "src[pos:]"), .site .stmtSlice2),
  (("locateKeyName", "slice", "src[0:i]"), .site .keySlice),
  (("locateKeyName", "index", "strings.Split(src, \"\\n\")[0]"), .site .splitIndex0),
  (("locateKeyName", "slice", "src[offset:]"), .site .keyRest),
  (("extractVarValue", "index", "src[i]"), .site .quoteIndex),
  (("extractVarValue", "slice", "src[i+1:]"), .site .quoteRest),
  (("extractVarValue", "slice", "src[:valEndIndex]"), .site .untermSlice),
  (("hasQuotePrefix", "index", "src[0]"), .quoteHead)]

/-- `hasQuotePrefix` with its index expression as a checked access: outer `none` = index out of range -/
def quotePrefixIdx (src : Str) : Option (Option Char) :=
  if src.isEmpty then some none
  else
    match src[0]? with
    | none => none
    | some c => if c == '"' || c == '\'' then some (some c) else some none

end CV.Dotenv
