/-!
# C15 — model of the selection operations of `types/project.go`

`WithProfiles`, `HasProfile`, `AllServices`, `WithServicesEnabled`, `WithServicesDisabled`,
`ForEachService`/`withServices` (with the `seen` set, the three dependency policies and the
required / optional missing-dependency rule), `WithSelectedServices`,
`WithoutUnnecessaryResources`, on an abstract record of exactly the fields those functions read
or write.  Go maps are association lists iterated in list order (DESIGN §2.2).

Core Lean only (linked into the driver).
-/
namespace CV.Sel

/-! ## association lists (Go `map[string]T`) -/

abbrev AL (α : Type) := List (String × α)

def lookup {α} (k : String) : AL α → Option α
  | [] => none
  | (k', v) :: r => if k = k' then some v else lookup k r

/-- Go `m[k] = v`: replace in place if present, else append -/
def insert {α} (k : String) (v : α) : AL α → AL α
  | [] => [(k, v)]
  | (k', v') :: r => if k = k' then (k, v) :: r else (k', v') :: insert k v r

/-- Go `delete(m, k)` -/
def erase {α} (k : String) : AL α → AL α
  | [] => []
  | (k', v') :: r => if k = k' then erase k r else (k', v') :: erase k r

def keys {α} (m : AL α) : List String := m.map Prod.fst

def has {α} (k : String) (m : AL α) : Bool := (lookup k m).isSome

/-- `for k, v := range src { dst[k] = v }` -/
def insertAll {α} (src : AL α) (dst : AL α) : AL α :=
  src.foldl (fun acc kv => insert kv.1 kv.2 acc) dst

/-! ## the record -/

/-- `types.ServiceDependency` (the fields the selection code reads, plus `condition` as payload) -/
structure Dep where
  required : Bool
  cond : String
deriving DecidableEq, Repr, Inhabited

/-- the part of `types.ServiceConfig` that selection and pruning look at; `image` is an opaque payload
that lets the correspondence see whether the right service value was carried over -/
structure Svc where
  name : String                    -- `ServiceConfig.Name` (the loader sets it to the map key; `dependentsForService` reads it)
  image : String
  profiles : List String
  deps : AL Dep                    -- depends_on
  nets : List String               -- keys of `networks`
  vols : List (String × String)    -- (type, source) of each `volumes` entry
  secrets : List String            -- `secrets[].source`
  build : Option (List String)     -- `build.secrets[].source`; `none` = no build section
  configs : List String            -- `configs[].source`
  env : AL (Option String) := []   -- `environment`; `none` = `KEY` listed without a value
deriving DecidableEq, Repr, Inhabited

structure Proj where
  services : AL Svc
  disabled : AL Svc
  profiles : List String
  networks : AL String             -- name ↦ opaque payload
  volumes : AL String
  secrets : AL String
  configs : AL String
  environment : AL String := []    -- `Project.Environment` (what unset service variables are resolved against)
deriving DecidableEq, Repr, Inhabited

/-! ## profiles -/

/-- `ServiceConfig.HasProfile` -/
def hasProfile (s : Svc) (ps : List String) : Bool :=
  s.profiles.isEmpty || ps.any (fun p => p == "*" || s.profiles.contains p)

/-- `Project.AllServices`: enabled first, then disabled (a disabled entry of the same name wins) -/
def allServices (p : Proj) : AL Svc := insertAll p.disabled (insertAll p.services [])

/-- `Project.WithProfiles` -/
def withProfiles (p : Proj) (ps : List String) : Proj :=
  let all := allServices p
  { p with
    services := all.filter (fun kv => hasProfile kv.2 ps)
    disabled := all.filter (fun kv => !hasProfile kv.2 ps)
    profiles := ps }

/-- the profile list built by `WithServicesEnabled` before it calls `WithProfiles` -/
def enableProfiles (p : Proj) (names : List String) : List String :=
  names.foldl (fun acc n =>
    if has n p.services then acc
    else acc ++ (match lookup n p.disabled with | some s => s.profiles | none => [])) p.profiles

/-- `MappingWithEquals.Resolve(project.Environment.Resolve)` followed by `OverrideBy` onto an empty mapping:
a variable listed without a value takes the project's value if there is one -/
def resolveEnv (penv : AL String) (env : AL (Option String)) : AL (Option String) :=
  env.map fun kv => (kv.1, match kv.2 with | some v => some v | none => lookup kv.1 penv)

def resolveEnvSvc (penv : AL String) (s : Svc) : Svc := { s with env := resolveEnv penv s.env }

/-- `Project.WithServicesEnvironmentResolved(true)` on services without `env_file` (files are C16's subject):
only the *enabled* services are resolved -/
def resolveEnabled (p : Proj) : Proj :=
  { p with services := p.services.map fun kv => (kv.1, resolveEnvSvc p.environment kv.2) }

/-- `Project.WithServicesEnabled`: repartition by the extended profile list, then resolve the environment of the
enabled services.  With no name the receiver's copy is returned before either step. -/
def withServicesEnabled (p : Proj) (names : List String) : Proj :=
  if names.isEmpty then p else resolveEnabled (withProfiles p (enableProfiles p names))

/-! ## disabling -/

def dropDep (name : String) (s : Svc) : Svc := { s with deps := erase name s.deps }

/-- one round of the loop of `WithServicesDisabled` -/
def disableOne (p : Proj) (name : String) : Proj :=
  let svcs := p.services.map (fun kv => (kv.1, dropDep name kv.2))
  match lookup name svcs with
  | some s => { p with services := erase name svcs, disabled := insert name s p.disabled }
  | none => { p with services := svcs }

/-- `Project.WithServicesDisabled` -/
def withServicesDisabled (p : Proj) (names : List String) : Proj :=
  names.foldl disableOne p

/-! ## the dependency walk -/

inductive Policy | deps | dependents | ignore
deriving DecidableEq, Repr, Inhabited

/-- `Project.dependentsForService`: ranges over the services and, for each one that depends on `s.Name`,
does `dependent[service.Name] = dependency` (keyed by the dependent's `Name`, not by its map key) -/
def dependents (svcs : AL Svc) (s : Svc) : AL Dep :=
  insertAll (svcs.filterMap (fun kv => (lookup s.name kv.2.deps).map (fun d => (kv.2.name, d)))) []

/-- the `dependencies` map of one visited service -/
def nextOf (svcs : AL Svc) (pol : Policy) (name : String) (s : Svc) : AL Dep :=
  match pol with
  | .deps => s.deps
  | .dependents => dependents svcs s
  | .ignore => []

inductive Walk where
  | ok (seen : List String)
  | noSuchService
  | outOfFuel
deriving DecidableEq, Repr, Inhabited

/-- the `for name, service := range services` loop of `withServices`; `rec` is the recursive call.
Names that are not services were dealt with before the loop (they are skipped here); duplicates
and already visited names are skipped through `seen`. -/
def walkLoop (rec : List String → AL Dep → List String → Walk) (svcs : AL Svc) (pol : Policy) :
    List String → List String → Walk
  | [], seen => .ok seen
  | n :: ns, seen =>
    match lookup n svcs with
    | none => walkLoop rec svcs pol ns seen
    | some s =>
      if n ∈ seen then walkLoop rec svcs pol ns seen
      else
        let d := nextOf svcs pol n s
        if d.isEmpty then walkLoop rec svcs pol ns (n :: seen)
        else match rec (keys d) d (n :: seen) with
          | .ok seen' => walkLoop rec svcs pol ns seen'
          | e => e

/-- a missing name is fatal unless the caller's `dependencies` map marks it optional -/
def missingFatal (svcs : AL Svc) (parent : AL Dep) (n : String) : Bool :=
  !has n svcs && (match lookup n parent with | none => true | some d => d.required)

/-- `Project.withServices`; `fn` only records the name, so the result is the final `seen` set
(each name is recorded exactly when it is marked).  An empty `names` means "all services"
(`getServicesByNames`). -/
def walk (svcs : AL Svc) (pol : Policy) : Nat → List String → AL Dep → List String → Walk
  | 0, _, _, _ => .outOfFuel
  | fuel + 1, names, parent, seen =>
    let names' := if names.isEmpty then keys svcs else names
    if names'.any (missingFatal svcs parent) then .noSuchService
    else walkLoop (walk svcs pol fuel) svcs pol names' seen

/-- `Project.ForEachService` with a recording `fn` -/
def forEachService (p : Proj) (names : List String) (pol : Policy) : Walk :=
  walk p.services pol (p.services.length + 1) names [] []

/-! ## selection -/

inductive Out where
  | ok (p : Proj)
  | err               -- "no such service"
  | fuel              -- model fuel exhausted (proved unreachable)
deriving DecidableEq, Repr, Inhabited

def pruneDeps (set : List String) (s : Svc) : Svc := { s with deps := s.deps.filter (fun kv => kv.1 ∈ set) }

/-- `sort.Strings` (as insertion sort; every sort returns the same list, `sortNames_eq_of_perm`) -/
def insertName (x : String) : List String → List String
  | [] => [x]
  | y :: ys => if x ≤ y then x :: y :: ys else y :: insertName x ys

def sortNames : List String → List String
  | [] => []
  | x :: xs => insertName x (sortNames xs)

/-- one round of the `for name, s := range newProject.Services` loop of `WithSelectedServices`:
a selected service is pruned and kept, the name of any other is collected -/
def selectStep (set : List String) (acc : List String × AL Svc) (kv : String × Svc) : List String × AL Svc :=
  if kv.1 ∈ set then (acc.1, insert kv.1 (pruneDeps set kv.2) acc.2)
  else (acc.1 ++ [kv.1], acc.2)

/-- `Project.WithSelectedServices` (after the `fix:` commit): the range is over the service map in list order;
the collected names are sorted and disabled with a single `WithServicesDisabled` call. -/
def withSelectedServices (p : Proj) (names : List String) (pol : Policy) : Out :=
  if names.isEmpty then .ok p
  else match forEachService p names pol with
    | .ok set =>
      let r := p.services.foldl (selectStep set) ([], [])
      .ok { withServicesDisabled p (sortNames r.1) with services := r.2 }
    | .noSuchService => .err
    | .outOfFuel => .fuel

/-! ### the loop as it was before the `fix:` commit (kept for `Neg/C15.lean`) -/

/-- pre-fix: every non-selected service was disabled on the spot, in range order -/
def selectStepPre (set : List String) (acc : Proj × AL Svc) (kv : String × Svc) : Proj × AL Svc :=
  if kv.1 ∈ set then (acc.1, insert kv.1 (pruneDeps set kv.2) acc.2)
  else (disableOne acc.1 kv.1, acc.2)

/-- pre-fix `Project.WithSelectedServices`: `newProject` was replaced by a fresh copy on every `WithServicesDisabled` -/
def withSelectedServicesPre (p : Proj) (names : List String) (pol : Policy) : Out :=
  if names.isEmpty then .ok p
  else match forEachService p names pol with
    | .ok set =>
      let r := p.services.foldl (selectStepPre set) (p, [])
      .ok { r.1 with services := r.2 }
    | .noSuchService => .err
    | .outOfFuel => .fuel

/-! ## pruning -/

def volSources (s : Svc) : List String :=
  (s.vols.filter (fun v => v.1 == "volume" && v.2 != "")).map Prod.snd

def secretSources (s : Svc) : List String := s.secrets ++ (s.build.getD [])

/-- `for k := range required { if v, ok := p.X[k]; ok { out[k] = v } }` -/
def pickStep (m : AL String) (acc : AL String) (k : String) : AL String :=
  match lookup k m with | some v => insert k v acc | none => acc

def pick (required : List String) (m : AL String) : AL String := required.foldl (pickStep m) []

/-- `Project.WithoutUnnecessaryResources` (the kept values come from the copy, which equals the receiver as a value) -/
def withoutUnnecessaryResources (p : Proj) : Proj :=
  { p with
    networks := pick (p.services.flatMap (fun kv => kv.2.nets)) p.networks
    volumes := pick (p.services.flatMap (fun kv => volSources kv.2)) p.volumes
    secrets := pick (p.services.flatMap (fun kv => secretSources kv.2)) p.secrets
    configs := pick (p.services.flatMap (fun kv => kv.2.configs)) p.configs }

/-! ## operations and histories -/

inductive Op where
  | profiles (ps : List String)
  | enable (names : List String)
  | disable (names : List String)
  | select (names : List String) (pol : Policy)
  | prune
deriving DecidableEq, Repr, Inhabited

def applyOp (p : Proj) : Op → Out
  | .profiles ps => .ok (withProfiles p ps)
  | .enable ns => .ok (withServicesEnabled p ns)
  | .disable ns => .ok (withServicesDisabled p ns)
  | .select ns pol => withSelectedServices p ns pol
  | .prune => .ok (withoutUnnecessaryResources p)

/-- a history: an operation that fails leaves the project as it was (the caller keeps the receiver) -/
def run (p : Proj) : List Op → Proj
  | [] => p
  | o :: os => match applyOp p o with
    | .ok q => run q os
    | _ => run p os

/-! ## round 5: option handling, the callback sequence of `ForEachService`, accessors -/

/-- `DependencyOption`s are applied in order to `withServicesOptions{dependencyPolicy: includeDependencies}`
(the last one wins); `ForEachService` replaces an empty option list by `[IncludeDependencies]` first, which is
the same default -/
def policyOf (opts : List Policy) : Policy := opts.foldl (fun _ o => o) .deps

inductive WalkC where
  | ok (seen calls : List String)
  | noSuchService
  | outOfFuel
deriving DecidableEq, Repr, Inhabited

/-- forget the callback sequence -/
def WalkC.forget : WalkC → Walk
  | .ok s _ => .ok s
  | .noSuchService => .noSuchService
  | .outOfFuel => .outOfFuel

/-- the loop of `withServices` with the calls of `fn` recorded: a service is *marked* (`seen[name] = true`) before
the recursive call on its dependencies and `fn(name, …)` is *called* after it (post-order) -/
def walkLoopC (rec : List String → AL Dep → List String → List String → WalkC) (svcs : AL Svc) (pol : Policy) :
    List String → List String → List String → WalkC
  | [], seen, calls => .ok seen calls
  | n :: ns, seen, calls =>
    match lookup n svcs with
    | none => walkLoopC rec svcs pol ns seen calls
    | some s =>
      if n ∈ seen then walkLoopC rec svcs pol ns seen calls
      else
        let d := nextOf svcs pol n s
        if d.isEmpty then walkLoopC rec svcs pol ns (n :: seen) (calls ++ [n])
        else match rec (keys d) d (n :: seen) calls with
          | .ok seen' calls' => walkLoopC rec svcs pol ns seen' (calls' ++ [n])
          | e => e

/-- `Project.withServices` with the calls of `fn` recorded (`fn` never fails) -/
def walkC (svcs : AL Svc) (pol : Policy) : Nat → List String → AL Dep → List String → List String → WalkC
  | 0, _, _, _, _ => .outOfFuel
  | fuel + 1, names, parent, seen, calls =>
    let names' := if names.isEmpty then keys svcs else names
    if names'.any (missingFatal svcs parent) then .noSuchService
    else walkLoopC (walkC svcs pol fuel) svcs pol names' seen calls

/-- `Project.ForEachService(names, fn, options...)`: the sequence of names `fn` is called with -/
def forEachCalls (p : Proj) (names : List String) (opts : List Policy) : WalkC :=
  walkC p.services (policyOf opts) (p.services.length + 1) names [] [] []

/-- `Project.ServiceNames` / `DisabledServiceNames`: the keys, `sort.Strings`ed -/
def serviceNames (p : Proj) : List String := sortNames (keys p.services)
def disabledServiceNames (p : Proj) : List String := sortNames (keys p.disabled)

inductive Get where
  | ok (s : Svc)
  | disabled        -- "no such service: …" wrapping `errdefs.ErrDisabled`
  | notFound        -- "no such service: …" wrapping `errdefs.ErrNotFound`
deriving DecidableEq, Repr, Inhabited

/-- `Project.GetService` -/
def getService (p : Proj) (n : String) : Get :=
  match lookup n p.services with
  | some s => .ok s
  | none => if has n p.disabled then .disabled else .notFound

inductive GetMany where
  | ok (m : AL Svc)
  | disabled
  | notFound
deriving DecidableEq, Repr, Inhabited

def getServicesLoop (p : Proj) : List String → AL Svc → GetMany
  | [], acc => .ok acc
  | n :: ns, acc =>
    match getService p n with
    | .ok s => getServicesLoop p ns (insert n s acc)
    | .disabled => .disabled
    | .notFound => .notFound

/-- `Project.GetServices`: no name = the service map itself; else the first failing `GetService` decides the error -/
def getServices (p : Proj) (names : List String) : GetMany :=
  if names.isEmpty then .ok p.services else getServicesLoop p names []

/-- `Project.GetDisabledService` -/
def getDisabledService (p : Proj) (n : String) : Option Svc := lookup n p.disabled

/-- `Project.GetDependentsForService`: `utils.MapKeys` (sorted keys) of `dependentsForService` -/
def getDependentsForService (p : Proj) (s : Svc) : List String := sortNames (keys (dependents p.services s))

/-- `ServiceConfig.GetDependents(p)`: the `Name`s of the services with a `depends_on` entry for `s.Name`, in range order
(a list, not a set: one entry per depending service) -/
def getDependents (p : Proj) (s : Svc) : List String :=
  p.services.filterMap fun kv => if has s.name kv.2.deps then some kv.2.name else none

/-- `Services.GetProfiles`: all profiles named by the services of a map, each once.  The Go function collects them in a map
and lists that map by ranging over it, so the *order* of the slice is Go's map order (here: range order of the services);
callers get an unordered list (a reviewed order-leak site of C02, `Spec/Determinism.lean`) -/
def getProfilesPre (svcs : AL Svc) : List String := (svcs.flatMap fun kv => kv.2.profiles).eraseDups

/-- `Services.GetProfiles` as the set it is: the sorted view (what the harness compares, and the only thing a caller may rely on) -/
def getProfiles (svcs : AL Svc) : List String := sortNames (getProfilesPre svcs)

/-- `WithSelectedServices(names, options...)`: the options are handed to `ForEachService` as they are -/
def withSelectedServicesOpts (p : Proj) (names : List String) (opts : List Policy) : Out :=
  withSelectedServices p names (policyOf opts)

end CV.Sel
