import ComposeVerif.Model.Unicity
/-!
# the `seq` / `keys` loop of `enforceUnicity` as it is written (override/uncity.go)

```go
seq := []any{}
keys := map[string]int{}
for i, entry := range v {
    key, err := indexer(entry, p.Next(fmt.Sprintf("[%d]", i)))
    if err != nil { return nil, err }
    if j, ok := keys[key]; ok {
        seq[j] = entry                 // index expression: panics when j is out of range
    } else {
        seq = append(seq, entry)
        keys[key] = len(seq) - 1
    }
}
return seq, nil
```

`Model/Unicity.lean` states the loop abstractly (`dedupKVs = foldl insert []`).  Here the two Go variables are kept as
they are — the output slice `seq` and the map `keys : string → int` of positions **in the output slice** — and the
index expression `seq[j] = entry` can go out of range (`none`, reported as a panic in `enforceUnicity`).  Which number
is stored by `keys[key] = …` is a parameter (`Slot`), so that the statement "the stored position is the position in the
output" is a theorem about the code's choice (`Slot.outLen`) and not built into the model: with the position in the
*input* (`Slot.inIdx`, a one-token slip) the same loop does run out of range.
`Props/C04Loop.lean` proves that the loop as written refines `dedupKVs` and never goes out of range.
-/
namespace CV.Unicity
open CV CV.Val CV.Merge

/-- the two loop variables -/
structure LoopSt where
  seq : List Val
  keys : List (String × Nat)
deriving Repr

/-- `j, ok := keys[key]` -/
def idxLookup (k : String) : List (String × Nat) → Option Nat
  | [] => none
  | (k', j) :: r => if k = k' then some j else idxLookup k r

/-- the right-hand side of `keys[key] = …` -/
inductive Slot where
  | outLen   -- `len(seq) - 1` (after the append): the code
  | inIdx    -- `i`: the position in the input sequence
deriving Repr, DecidableEq

def Slot.value (s : Slot) (seqAfter : List Val) (i : Nat) : Nat :=
  match s with
  | .outLen => seqAfter.length - 1
  | .inIdx => i

/-- one iteration for input position `i`; `none` = `seq[j]` with `j ≥ len(seq)` -/
def loopStep (s : Slot) (st : LoopSt) (i : Nat) (key : String) (entry : Val) : Option LoopSt :=
  match idxLookup key st.keys with
  | some j => if j < st.seq.length then some { st with seq := st.seq.set j entry } else none
  | none =>
    let seq' := st.seq ++ [entry]
    some { seq := seq', keys := (key, s.value seq' i) :: st.keys }

/-- the loop over already-indexed entries, starting at input position `i` -/
def loopRun (s : Slot) : List (String × Val) → Nat → LoopSt → Option LoopSt
  | [], _, st => some st
  | (k, x) :: r, i, st =>
    match loopStep s st i k x with
    | none => none
    | some st' => loopRun s r (i + 1) st'

/-- the loop as written: the indexer is called inside the loop (first error wins), the index expression may panic -/
def loopGo (s : Slot) (ix : Indexer) : List Val → Nat → LoopSt → Out (List Val)
  | [], _, st => .ok st.seq
  | x :: r, i, st =>
    match index ix x with
    | .ok key =>
      match loopStep s st i key x with
      | none => .panic "override.enforceUnicity"
      | some st' => loopGo s ix r (i + 1) st'
    | .err e => .err e
    | .panic site => .panic site

def LoopSt.empty : LoopSt := { seq := [], keys := [] }

mutual
/-- `enforceUnicity(value, p)` with the loop as written -/
def enforceL (s : Slot) (v : Val) (p : TPath) : Out Val :=
  match v with
  | .map kvs => (enforceKVsL s kvs p).bind fun m => .ok (.map m)
  | .seq xs =>
    match indexerAt p with
    | none => .ok (.seq xs)
    | some ix => (loopGo s ix xs 0 LoopSt.empty).bind fun l => .ok (.seq l)
  | v => .ok v
def enforceKVsL (s : Slot) : KVs → TPath → Out KVs
  | [], _ => .ok []
  | (k, e) :: r, p =>
    (enforceL s e (next p k)).bind fun u => (enforceKVsL s r p).bind fun r' => .ok ((k, u) :: r')
end

/-- `override.EnforceUnicity(value)` with the loop as written -/
def enforceTopL (s : Slot) (v : Val) : Out Val :=
  match v with
  | .map _ => enforceL s v TPath.root
  | _ => .err "top-level"

end CV.Unicity
