import ComposeVerif.Model.Val
import ComposeVerif.Model.Path
/-!
# `validation.Validate` (validation/validation.go, external.go, volume.go) on the untyped tree

`check` walks the merged tree; at the first path that matches a row of the `checks` table the row's
checker decides and the walk does **not** descend further.  Unchecked type assertions of the checkers
are `panic` outcomes (the schema normally runs first; `Validate` itself does not protect them).
-/
namespace CV.Validate
open CV CV.TPath

inductive VErr
  | exclusive | missing | blank | countAndIds | conflictingExternal | expectedVolume | invalidBoolean
deriving DecidableEq, Repr, Inhabited

def VErr.name : VErr → String
  | .exclusive => "exclusive" | .missing => "missing" | .blank => "blank" | .countAndIds => "countAndIds"
  | .conflictingExternal => "conflictingExternal" | .expectedVolume => "expectedVolume" | .invalidBoolean => "invalidBoolean"

inductive VOut
  | ok
  | err (c : VErr)
  | panic (site : String)
deriving DecidableEq, Repr, Inhabited

inductive Checker
  | volume
  | fileObject (keys : List String)
  | path
  | deviceRequest
deriving DecidableEq, Repr

/-- `var checks = map[tree.Path]checkerFunc{…}` -/
def table : List (List String × Checker) :=
  [(["volumes", "*"], .volume),
   (["configs", "*"], .fileObject ["file", "environment", "content"]),
   (["secrets", "*"], .fileObject ["file", "environment"]),
   (["services", "*", "develop", "watch", "*", "path"], .path),
   (["services", "*", "deploy", "resources", "reservations", "devices", "*"], .deviceRequest),
   (["services", "*", "gpus", "*"], .deviceRequest)]

/-- the name the translator prints for a row's checker expression -/
def Checker.goName : Checker → String
  | .volume => "checkVolume"
  | .fileObject ["file", "environment", "content"] => "checkFileObject(\"file\",\"environment\",\"content\")"
  | .fileObject ["file", "environment"] => "checkFileObject(\"file\",\"environment\")"
  | .fileObject _ => "checkFileObject(?)"
  | .path => "checkPath"
  | .deviceRequest => "checkDeviceRequest"

/-- `strings.Split(s, ".")` on code points -/
def splitDots : List Char → List Char → List String
  | acc, [] => [String.ofList acc.reverse]
  | acc, c :: cs => if c = '.' then String.ofList acc.reverse :: splitDots [] cs else splitDots (c :: acc) cs

/-- `strings.ReplaceAll(part, ".", "👻")` on code points -/
def ghostify (s : String) : String :=
  String.ofList (s.toList.flatMap fun c => if c = '.' then TPath.ghost.toList else [c])

/-- `Path.Next` followed by `Parts()` (same function as `TPath.next`, with split and replace spelled out on code points) -/
def next (p : TPath) (part : String) : TPath :=
  if p = TPath.root then splitDots [] part.toList else p ++ [ghostify part]

def has (k : String) (kvs : Val.KVs) : Bool := (Val.lookup k kvs).isSome

/-- keys `checkExternal` tolerates next to `external: true` -/
def externalAllowed (k : String) : Bool :=
  k == "name" || k == "external" || k == "#extensions" || "x-".toList.isPrefixOf k.toList

/-- `asBoolean` (validation/external.go): a boolean, or — interpolation skipped, the cast table has not run — one of the
    YAML 1.1 spellings the loader converts later; anything else is an error (it used to be an unchecked `b.(bool)`) -/
def asBoolean : Val → Option Bool
  | .bool b => some b
  | .str s =>
    let l := String.ofList (s.toList.map Char.toLower)
    if l = "true" || l = "y" || l = "yes" || l = "on" then some true
    else if l = "false" || l = "n" || l = "no" || l = "off" then some false
    else none
  | _ => none

def checkExternal (kvs : Val.KVs) : VOut :=
  match Val.lookup "external" kvs with
  | none => .ok
  | some x =>
    match asBoolean x with
    | some false => .ok
    | some true => if kvs.all (fun e => externalAllowed e.1) then .ok else .err .conflictingExternal
    | none => .err .invalidBoolean

def checkVolume : Val → VOut
  | .null => .ok
  | .map kvs => checkExternal kvs
  | _ => .err .expectedVolume

def countPresent (keys : List String) (kvs : Val.KVs) : Nat := (keys.filter fun k => has k kvs).length

def checkFileObject (keys : List String) : Val → VOut
  | .map kvs =>
    let count := countPresent keys kvs
    if count > 1 then .err .exclusive
    else if count = 0 then
      if has "driver" kvs then .ok
      else if !has "external" kvs then .err .missing
      else .ok
    else .ok
  | _ => .panic "validation.init.checkFileObject"

def checkPath : Val → VOut
  | .str s => if s = "" then .err .blank else .ok
  | _ => .panic "validation.checkPath"

def checkDeviceRequest : Val → VOut
  | .map kvs => if has "count" kvs && has "device_ids" kvs then .err .countAndIds else .ok
  | _ => .panic "validation.checkDeviceRequest"

def run : Checker → Val → VOut
  | .volume => checkVolume
  | .fileObject keys => checkFileObject keys
  | .path => checkPath
  | .deviceRequest => checkDeviceRequest

def runL (c : Checker) (v : Val) : List VOut :=
  match run c v with
  | .ok => []
  | o => [o]

mutual
/-- every failing checked node below `(p, v)`, in iteration (list) order -/
def failuresAt (p : TPath) : Val → List VOut
  | .map kvs =>
    match firstMatch table p with
    | some c => runL c (.map kvs)
    | none => failuresKVs p kvs
  | .seq xs =>
    match firstMatch table p with
    | some c => runL c (.seq xs)
    | none => failuresSeq p xs
  | .null => match firstMatch table p with | some c => runL c .null | none => []
  | .bool b => match firstMatch table p with | some c => runL c (.bool b) | none => []
  | .int i => match firstMatch table p with | some c => runL c (.int i) | none => []
  | .float f => match firstMatch table p with | some c => runL c (.float f) | none => []
  | .str s => match firstMatch table p with | some c => runL c (.str s) | none => []
def failuresKVs (p : TPath) : List (String × Val) → List VOut
  | [] => []
  | (k, v) :: r => failuresAt (next p k) v ++ failuresKVs p r
def failuresSeq (p : TPath) : List Val → List VOut
  | [] => []
  | v :: r => failuresAt (next p "[]") v ++ failuresSeq p r
end

def failures (t : Val) : List VOut := failuresAt TPath.root t

/-- `validation.Validate(dict)`: the first failure met in iteration order -/
def validate (t : Val) : VOut :=
  match failures t with
  | [] => .ok
  | o :: _ => o

def validTreeB (t : Val) : Bool := (failures t).isEmpty

end CV.Validate
