import ComposeVerif.Model.Val
import ComposeVerif.Model.Path
import ComposeVerif.Model.Str
import ComposeVerif.Gen.Tables
/-!
# Model of package `paths` (paths/*.go) and of the Go path functions it calls  (property C12)

Strings are lists of code points (`CV.Str`); every function below only tests ASCII bytes
(`/ \ . : ~` and letters), so byte-level and code-point-level cuts coincide (DESIGN §2.5).

* `clean`, `join`                   `path/filepath.Clean`, `filepath.Join` on Unix (purely lexical)
* `isAbs`                           `filepath.IsAbs` = `path.IsAbs` on Unix
* `expandUser`                      `paths.ExpandUser`; `os.UserHomeDir()` is the parameter `home`
* `isRemoteContext`                 `paths.isRemoteContext`
* `volumeNameLen?`, `isWindowsAbs?` `paths/windows_path.go`, index-faithful: every `path[i]` and the
                                    slice `path[l:]` is a checked access whose failure is `none` (= Go panic)
* `absPathStr`, `maybeUnixStr`, `absContextStr`, `absExtendsStr`   the string part of the resolvers
* `applyResolver`, `walk`           the resolvers on trees and `resolveRelativePaths` (the walker over
                                    the regenerated table `CV.Gen.resolvers`)

`utils.ResolveSymbolicLink` consults the file system: it is the parameter `sym`.
-/
namespace CV.Paths

abbrev Str := CV.Str

/-! ## filepath.Clean / filepath.Join (Unix) -/

/-- `strings.Split(p, "/")` : always at least one component -/
def splitSlash : Str → List Str
  | [] => [[]]
  | c :: cs =>
    if c = '/' then [] :: splitSlash cs
    else match splitSlash cs with
      | [] => [[c]]
      | s :: r => (c :: s) :: r

def dot : Str := ['.']
def dotdot : Str := ['.', '.']

/-- one path element against the output stack (top first).  `rooted`: `..` at the root is dropped,
otherwise it is kept (the `dotdot` barrier of the Go code is "the stack holds only `..`"). -/
def step (rooted : Bool) (stk : List Str) (c : Str) : List Str :=
  if c = [] ∨ c = dot then stk
  else if c = dotdot then
    match stk with
    | [] => if rooted then [] else [dotdot]
    | t :: r => if t = dotdot then dotdot :: t :: r else r
  else c :: stk

/-- `strings.Join(l, "/")` -/
def joinSlash : List Str → Str
  | [] => []
  | [a] => a
  | a :: b :: r => a ++ '/' :: joinSlash (b :: r)

def isAbs (p : Str) : Bool := p.head? = some '/'

/-- output of Clean from the final stack (bottom first) -/
def render (rooted : Bool) (l : List Str) : Str :=
  if rooted then '/' :: joinSlash l
  else if l = [] then dot else joinSlash l

/-- the stack Clean ends with (top first) -/
def cleanStack (p : Str) : List Str := (splitSlash p).foldl (step (isAbs p)) []

/-- `filepath.Clean` on Unix -/
def clean (p : Str) : Str := render (isAbs p) (cleanStack p).reverse

/-- `filepath.Join(a, b)`: empty elements are ignored, the rest is joined with `/` and cleaned -/
def join (a b : Str) : Str :=
  if a ≠ [] then clean (a ++ '/' :: b)
  else if b ≠ [] then clean b
  else []

/-! ## ExpandUser, isRemoteContext -/

/-- `paths.ExpandUser`; `home = none` ⇔ `os.UserHomeDir` fails (`$HOME` empty) -/
def expandUser (home : Option Str) (p : Str) : Str :=
  match p with
  | '~' :: rest =>
    match home with
    | none => p
    | some h => join h rest
  | _ => p

def remotePrefixes : List Str :=
  ["https://".toList, "http://".toList, "git://".toList, "ssh://".toList, "github.com/".toList, "git@".toList]

def isRemoteContext (p : Str) : Bool := remotePrefixes.any (fun pre => pre.isPrefixOf p)

def schemeSep : Str := "://".toList

/-! ## windows_path.go, index-faithful -/

def isSlash (c : Char) : Bool := c = '\\' || c = '/'

def isLetter (c : Char) : Bool := ('a' ≤ c && c ≤ 'z') || ('A' ≤ c && c ≤ 'Z')

/-- inner loop `for ; n < l; n++ { if isSlash(path[n]) { break } }` -/
def scanShare (p : Str) (n : Nat) : Option Nat :=
  if h : n < p.length then
    match p[n]? with
    | none => none
    | some c => if isSlash c then some n else scanShare p (n + 1)
  else some n
termination_by p.length - n

/-- outer loop `for n := 3; n < l-1; n++ { … }` (every exit of the loop falls through to `return 0`) -/
def uncLoop (p : Str) (n : Nat) : Option Nat :=
  if h : n < p.length - 1 then
    match p[n]? with
    | none => none
    | some c =>
      if isSlash c then
        match p[n + 1]? with
        | none => none
        | some d =>
          if !isSlash d then
            if d = '.' then some 0 else scanShare p (n + 1)
          else some 0
      else uncLoop p (n + 1)
  else some 0
termination_by p.length - n

/-- `volumeNameLen`; `none` = index out of range -/
def volumeNameLen? (p : Str) : Option Nat :=
  if p.length < 2 then some 0
  else
    match p[0]?, p[1]? with
    | some c, some c1 =>
      if c1 = ':' && isLetter c then some 2
      else if p.length ≥ 5 then
        -- Go evaluates `&&` left to right; p[0], p[1] exist here, p[2] is read only when both are slashes
        if isSlash c && isSlash c1 then
          match p[2]? with
          | none => none
          | some c2 => if !isSlash c2 && c2 ≠ '.' then uncLoop p 3 else some 0
        else some 0
      else some 0
    | _, _ => none

/-- `isWindowsAbs`; `none` = a panic (index or slice bound out of range) -/
def isWindowsAbs? (p : Str) : Option Bool :=
  match volumeNameLen? p with
  | none => none
  | some 0 => some false
  | some l =>
    if l > p.length then none          -- `path[l:]` slice bounds out of range
    else
      match p.drop l with
      | [] => some false
      | c :: _ => some (isSlash c)

/-- `isWindowsAbs` as a Boolean.  The `none` branch is unreachable: `isWindowsAbs_never_panics` (Props/C12.lean)
proves that the index-faithful `isWindowsAbs?` never returns `none`. -/
def isWindowsAbsT (p : Str) : Bool :=
  match isWindowsAbs? p with
  | some b => b
  | none => false

/-- a relative result that a later resolution stage would read as something else than a local path -/
def ambiguous (j : Str) : Bool := (j.head? = some '~') || isRemoteContext j || isWindowsAbsT j

/-- `relativePathsResolver.join`: `filepath.Join(workingDir, p)`, with a leading `./` kept on a relative result that
would otherwise be re-read as `~`, a remote context or a Windows-absolute path -/
def joinWd (wd p : Str) : Str :=
  let j := join wd p
  if !isAbs j && ambiguous j then '.' :: '/' :: j else j

/-! ## the resolvers on strings -/

structure Cfg where
  /-- `workingDir` -/
  wd : Str
  /-- `os.UserHomeDir()`; `none` = error -/
  home : Option Str
  /-- `isRemoteResource` (the loader's remote resource loaders) -/
  remote : Str → Bool := fun _ => false
  /-- `utils.ResolveSymbolicLink` (file system); `none` = error -/
  sym : Str → Option Str := fun s => some s

/-- `absPath` on a string -/
def absPathStr (cfg : Cfg) (s : Str) : Str :=
  let v := expandUser cfg.home s
  if isAbs v then v
  else if v ≠ [] then joinWd cfg.wd v
  else v

inductive Out (α : Type) where
  | ok (a : α)
  | err (cls : String)
  | panic (site : String)
deriving Repr, BEq, Inhabited, DecidableEq

def Out.map {α β : Type} (f : α → β) : Out α → Out β
  | .ok a => .ok (f a)
  | .err e => .err e
  | .panic s => .panic s

def Out.bind {α β : Type} (x : Out α) (f : α → Out β) : Out β :=
  match x with
  | .ok a => f a
  | .err e => .err e
  | .panic s => .panic s

/-- `maybeUnixPath` on a string (`none` in `isWindowsAbs?` = panic) -/
def maybeUnixStr (cfg : Cfg) (s : Str) : Out Str :=
  let p := expandUser cfg.home s
  if isAbs p then .ok p
  else match isWindowsAbs? p with
    | none => .panic "isWindowsAbs"
    | some true => .ok p
    | some false => .ok (joinWd cfg.wd p)

/-- `absContextPath` on a string -/
def absContextStr (cfg : Cfg) (s : Str) : Str :=
  if containsStr schemeSep s then s
  else if isRemoteContext s then s
  else absPathStr cfg s

/-- `absExtendsPath` on a string -/
def absExtendsStr (cfg : Cfg) (s : Str) : Str :=
  if cfg.remote s then s else absPathStr cfg s

/-! ## the resolvers on trees -/

mutual
/-- `absPath(value any)` -/
def absPath (cfg : Cfg) : Val → Out Val
  | .str s => .ok (.str (String.ofList (absPathStr cfg s.toList)))
  | .seq xs => (absPathList cfg xs).map .seq
  | _ => .err "unexpectedType"
def absPathList (cfg : Cfg) : List Val → Out (List Val)
  | [] => .ok []
  | x :: r =>
    match absPath cfg x with
    | .ok x' => (absPathList cfg r).map (x' :: ·)
    | .err e => .err e
    | .panic s => .panic s
end

def okStr (s : Str) : Out Val := .ok (.str (String.ofList s))

/-- `maybeUnixPath(a any)` -/
def maybeUnixPath (cfg : Cfg) : Val → Out Val
  | .str s => (maybeUnixStr cfg s.toList).map (fun r => .str (String.ofList r))
  | _ => .err "unexpectedType"

def absContextPath (cfg : Cfg) : Val → Out Val
  | .str s => okStr (absContextStr cfg s.toList)
  | _ => .err "unexpectedType"

def absExtendsPath (cfg : Cfg) : Val → Out Val
  | .str s => okStr (absExtendsStr cfg s.toList)
  | _ => .err "unexpectedType"

def absSymbolicLink (cfg : Cfg) (v : Val) : Out Val :=
  match absPath cfg v with
  | .ok (.str s) =>
    match cfg.sym s.toList with
    | some r => okStr r
    | none => .err "symlink"
  | o => o

def absVolumeMount (cfg : Cfg) : Val → Out Val
  | .map kvs =>
    match Val.lookup "type" kvs with
    | some (.str "bind") =>
      match Val.lookup "source" kvs with
      | none => .err "bindNoSource"
      | some (.str s) =>
        (maybeUnixStr cfg s.toList).map (fun r => .map (Val.insert "source" (.str (String.ofList r)) kvs))
      | some _ => .err "unexpectedType"
    | _ => .ok (.map kvs)
  | v => .ok v

def volumeDriverOpts (cfg : Cfg) : Val → Out Val
  | .null => .ok .null
  | .map kvs =>
    match Val.lookup "driver" kvs with
    | some (.str "local") =>
      match Val.lookup "driver_opts" kvs with
      | none => .ok (.map kvs)
      | some .null => .ok (.map kvs)
      | some (.map opts) =>
        match Val.lookup "o" opts, Val.lookup "device" opts with
        | some (.str "bind"), some dev =>
          (maybeUnixPath cfg dev).map
            (fun d => .map (Val.insert "driver_opts" (.map (Val.insert "device" d opts)) kvs))
        | _, _ => .ok (.map kvs)
      | some _ => .err "unexpectedType"
    | _ => .ok (.map kvs)
  | _ => .err "unexpectedType"

/-- dispatch on the handler name of a row of `Gen.resolvers` -/
def applyResolver (cfg : Cfg) (h : String) (v : Val) : Out Val :=
  if h = "absPath" then absPath cfg v
  else if h = "absContextPath" then absContextPath cfg v
  else if h = "absExtendsPath" then absExtendsPath cfg v
  else if h = "absSymbolicLink" then absSymbolicLink cfg v
  else if h = "absVolumeMount" then absVolumeMount cfg v
  else if h = "maybeUnixPath" then maybeUnixPath cfg v
  else if h = "volumeDriverOpts" then volumeDriverOpts cfg v
  else .panic ("unknownResolver:" ++ h)

abbrev Table := List (List String × String)

mutual
/-- `resolveRelativePaths(value, p)`: first matching row wins, otherwise recurse -/
def walk (t : Table) (cfg : Cfg) : TPath → Val → Out Val
  | p, .map kvs =>
    match TPath.firstMatch t p with
    | some h => applyResolver cfg h (.map kvs)
    | none => (walkKVs t cfg p kvs).map .map
  | p, .seq xs =>
    match TPath.firstMatch t p with
    | some h => applyResolver cfg h (.seq xs)
    | none => (walkSeq t cfg p xs).map .seq
  | p, v =>
    match TPath.firstMatch t p with
    | some h => applyResolver cfg h v
    | none => .ok v
def walkKVs (t : Table) (cfg : Cfg) : TPath → List (String × Val) → Out (List (String × Val))
  | _, [] => .ok []
  | p, (k, v) :: r =>
    match walk t cfg (TPath.next p k) v with
    | .ok v' => (walkKVs t cfg p r).map ((k, v') :: ·)
    | .err e => .err e
    | .panic s => .panic s
def walkSeq (t : Table) (cfg : Cfg) : TPath → List Val → Out (List Val)
  | _, [] => .ok []
  | p, x :: r =>
    match walk t cfg (TPath.next p "[]") x with
    | .ok x' => (walkSeq t cfg p r).map (x' :: ·)
    | .err e => .err e
    | .panic s => .panic s
end

/-- `paths.ResolveRelativePaths(project, base, remotes)` -/
def resolve (cfg : Cfg) (v : Val) : Out Val := walk CV.Gen.resolvers cfg TPath.root v

/-! ## collect mode: every failure some map iteration order can report (DESIGN §2.6) -/

def failOf {α : Type} : Out α → List String
  | .ok _ => []
  | .err e => ["err:" ++ e]
  | .panic s => ["panic:" ++ s]

mutual
def fails (t : Table) (cfg : Cfg) : TPath → Val → List String
  | p, .map kvs =>
    match TPath.firstMatch t p with
    | some h => failOf (applyResolver cfg h (.map kvs))
    | none => failsKVs t cfg p kvs
  | p, .seq xs =>
    match TPath.firstMatch t p with
    | some h => failOf (applyResolver cfg h (.seq xs))
    | none => failsSeq t cfg p xs
  | p, v =>
    match TPath.firstMatch t p with
    | some h => failOf (applyResolver cfg h v)
    | none => []
def failsKVs (t : Table) (cfg : Cfg) : TPath → List (String × Val) → List String
  | _, [] => []
  | p, (k, v) :: r => fails t cfg (TPath.next p k) v ++ failsKVs t cfg p r
def failsSeq (t : Table) (cfg : Cfg) : TPath → List Val → List String
  | _, [] => []
  | p, x :: r => fails t cfg (TPath.next p "[]") x ++ failsSeq t cfg p r
end

end CV.Paths
