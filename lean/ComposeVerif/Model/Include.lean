import ComposeVerif.Model.Val
import ComposeVerif.Model.Paths
/-!
# Model of `loader/include.go`  (property C06: include ≡ paste of the resolved included model)

`applyInclude` mirrors `loader.ApplyInclude` statement by statement over a *world* parameter:

* the file system (`isDir`, `isFile`, the process working directory `cwd` against which the
  operating system resolves relative paths),
* `dotenv.GetEnvFromFile` (`envFromFile`),
* the sub-load `loadYamlModel` of the included project (`loadModel`): the included files run through the
  same pipeline with their own working directory, local resource loader and environment.

Maps are association lists (list order = one iteration order of the Go map).  Paths are Go strings
with `filepath.Clean/Join/Dir/Rel/IsAbs` (unix flavour) modelled on `/`-separated segments.
Errors are classes (strings), panics name the Go expression that panics.
-/
namespace CV.Include
open CV CV.Val

/-! ## outcomes -/

inductive Out (α : Type) where
  | ok (a : α)
  | err (cls : String)
  | panic (site : String)
deriving Repr, BEq, DecidableEq

namespace Out
def bind {α β} (x : Out α) (f : α → Out β) : Out β :=
  match x with
  | .ok a => f a
  | .err e => .err e
  | .panic s => .panic s

def map {α β} (f : α → β) (x : Out α) : Out β := x.bind (fun a => .ok (f a))

instance : Monad Out where
  pure := .ok
  bind := bind

def isOk {α} : Out α → Bool
  | .ok _ => true
  | _ => false

/-- the error class, if the outcome is an error -/
def errOf {α} : Out α → Option String
  | .err e => some e
  | _ => none
end Out

/-! ## structural equality of trees (`reflect.DeepEqual` on canonically ordered trees) -/

mutual
def veq : Val → Val → Bool
  | .null, .null => true
  | .bool a, .bool b => a == b
  | .int a, .int b => a == b
  | .float a, .float b => a == b
  | .str a, .str b => a == b
  | .seq a, .seq b => veqL a b
  | .map a, .map b => veqM a b
  | _, _ => false
def veqL : List Val → List Val → Bool
  | [], [] => true
  | x :: xs, y :: ys => veq x y && veqL xs ys
  | _, _ => false
def veqM : List (String × Val) → List (String × Val) → Bool
  | [], [] => true
  | (k, x) :: xs, (k', y) :: ys => k == k' && veq x y && veqM xs ys
  | _, _ => false
end

/-! ## file paths (`path/filepath`, unix)

`Clean`, `Join`, `IsAbs` are the C12 model (`Model/Paths.lean`, on `List Char`, with `clean_idempotent`,
`join_associative` … proved there); `Dir` and `Rel` are added here on the same representation.  The `String`
wrappers keep the rest of the model readable; everything reduces in the kernel (`by decide` witnesses in `Neg/C06.lean`). -/

abbrev Str := CV.Str

def isAbs (p : String) : Bool := Paths.isAbs p.toList

/-- `filepath.Clean` -/
def clean (p : String) : String := String.ofList (Paths.clean p.toList)

/-- `filepath.Join(a, b)`: empty elements are ignored, the result is cleaned -/
def join (a b : String) : String := String.ofList (Paths.join a.toList b.toList)

/-- `filepath.Dir` on characters: `Clean` of everything up to and including the last separator -/
def dirC (p : Str) : Str := Paths.clean ((p.reverse.dropWhile (fun c => c ≠ '/')).reverse)

/-- `filepath.Dir` -/
def dir (p : String) : String := String.ofList (dirC p.toList)

def stripCommon : List Str → List Str → List Str × List Str
  | a :: as, b :: bs => if a = b then stripCommon as bs else (a :: as, b :: bs)
  | as, bs => (as, bs)

def relSegs (c : Str) : List Str :=
  if c = Paths.dot then [] else (Paths.splitSlash c).filter (fun s => s ≠ [])

/-- `filepath.Rel(base, targ)` on characters; `none` = the error "can't make … relative to …" -/
def relC (base targ : Str) : Option Str :=
  let b := Paths.clean base
  let t := Paths.clean targ
  if b = t then some Paths.dot else
  if Paths.isAbs b ≠ Paths.isAbs t then none else
  -- Go normalises a base of "." to "" but leaves a target of "." alone (`Rel("a", ".") = "../."`)
  let st := stripCommon (relSegs b) (if t = Paths.dot then [Paths.dot] else relSegs t)
  if st.1.head? = some Paths.dotdot then none
  else
    let out := st.1.map (fun _ => Paths.dotdot) ++ st.2
    some (if out.isEmpty then Paths.dot else Paths.joinSlash out)

/-- `filepath.Rel(base, targ)` -/
def rel (base targ : String) : Option String := (relC base.toList targ.toList).map String.ofList

/-! ## environments (`types.Mapping`) -/

abbrev Env := List (String × String)

def Env.get (e : Env) (k : String) : Option String :=
  match e with
  | [] => none
  | (k', v) :: r => if k = k' then some v else Env.get r k

/-- `environment.Clone().Merge(o)`: keys of `o` that the environment does not define are added -/
def envMerge (env o : Env) : Env :=
  env ++ o.filter (fun kv => (Env.get env kv.1).isNone)

/-- `m[k] = v` on a `map[string]string` -/
def envSet (k v : String) : Env → Env
  | [] => [(k, v)]
  | (k', v') :: r => if k = k' then (k, v) :: r else (k', v') :: envSet k v r

/-- `for k, v := range env { envMap[k] = v }` -/
def envOverride (acc env : Env) : Env := env.foldl (fun m kv => envSet kv.1 kv.2 m) acc

/-! ## `dotenv.GetEnvFromFile` (dotenv/env.go)

The file system and the parser of one file (`ParseWithLookup`) are parameters; what is modelled is the loop: every
name is made absolute, must exist and be a regular file, is read and parsed with a lookup that asks the *current
environment first* and then the variables of the files read so far; the variables of a file replace those of
earlier files.  `filepath.Abs` fails only when the process has no working directory (not modelled). -/

inductive StatR where
  | missing   -- `fs.ErrNotExist` / `ENOTDIR`
  | other     -- any other error of `os.Stat`
  | dir
  | file
deriving Repr, BEq, DecidableEq

structure EnvWorld (C : Type) where
  /-- `filepath.Abs` -/
  abs : String → String
  /-- `os.Stat` of an absolute path -/
  stat : String → StatR
  /-- `os.ReadFile`; an error is a class -/
  read : String → Out C
  /-- `ParseWithLookup(content, lookup)`; errors are wrapped in "failed to read …" (the class is the parser's) -/
  parse : C → (String → Option String) → Out Env

/-- the lookup function handed to `ParseWithLookup`: `currentEnv[k]` if set, else `envMap[k]` -/
def envLookup (cur acc : Env) : String → Option String := fun k =>
  match Env.get cur k with
  | some v => some v
  | none => Env.get acc k

/-- the loop of `GetEnvFromFile`; `all` is the whole `filenames` argument (the loop body looks at its length) -/
def getEnvLoop {C} (E : EnvWorld C) (cur : Env) (all : List String) : List String → Env → Out Env
  | [], acc => .ok acc
  | f :: rest, acc =>
    let p := E.abs f
    match E.stat p with
    | .missing => .err "envNotFound"
    | .other => .err "envStat"
    | .dir => if all.length = 0 then .ok acc else .err "isDir"
    | .file =>
      match E.read p with
      | .err e => .err e
      | .panic s => .panic s
      | .ok content =>
        match E.parse content (envLookup cur acc) with
        | .ok env => getEnvLoop E cur all rest (envOverride acc env)
        | .err e => .err e
        | .panic s => .panic s

/-- `dotenv.GetEnvFromFile(currentEnv, filenames)` -/
def getEnvFromFile {C} (E : EnvWorld C) (cur : Env) (files : List String) : Out Env :=
  getEnvLoop E cur files files []

/-! ## `loader.Options`, `Options.clone()` and the options of the included load

One field per field of the Go struct (`Props/C06Source.lean`: the field names are the regenerated ones).  The four
fields that are not flags, strings or string lists (`Interpolate`, `ResourceLoaders`, `KnownExtensions`, `Listeners`)
are opaque identities: `clone` copies the reference. -/

structure Opts where
  skipValidation : Bool := false
  skipInterpolation : Bool := false
  skipNormalization : Bool := false
  resolvePaths : Bool := false
  convertWindowsPaths : Bool := false
  skipConsistencyCheck : Bool := false
  skipExtends : Bool := false
  skipInclude : Bool := false
  skipResolveEnvironment : Bool := false
  skipDefaultValues : Bool := false
  interpolate : Nat := 0
  discardEnvFiles : Bool := false
  projectName : String := ""
  projectNameImperativelySet : Bool := false
  profiles : List String := []
  resourceLoaders : Nat := 0
  knownExtensions : Nat := 0
  listeners : Nat := 0
deriving Repr, BEq, DecidableEq

/-- the Go names of the fields of `Opts`, in order -/
def Opts.fieldNames : List String :=
  ["SkipValidation", "SkipInterpolation", "SkipNormalization", "ResolvePaths", "ConvertWindowsPaths",
   "SkipConsistencyCheck", "SkipExtends", "SkipInclude", "SkipResolveEnvironment", "SkipDefaultValues", "Interpolate",
   "discardEnvFiles", "projectName", "projectNameImperativelySet", "Profiles", "ResourceLoaders", "KnownExtensions",
   "Listeners"]

/-- `Options.clone()`: the composite literal, field by field -/
def Opts.clone (o : Opts) : Opts :=
  { skipValidation := o.skipValidation, skipInterpolation := o.skipInterpolation,
    skipNormalization := o.skipNormalization, resolvePaths := o.resolvePaths,
    convertWindowsPaths := o.convertWindowsPaths, skipConsistencyCheck := o.skipConsistencyCheck,
    skipExtends := o.skipExtends, skipInclude := o.skipInclude,
    skipResolveEnvironment := o.skipResolveEnvironment, skipDefaultValues := o.skipDefaultValues,
    interpolate := o.interpolate, discardEnvFiles := o.discardEnvFiles, projectName := o.projectName,
    projectNameImperativelySet := o.projectNameImperativelySet, profiles := o.profiles,
    resourceLoaders := o.resourceLoaders, knownExtensions := o.knownExtensions, listeners := o.listeners }

/-- `loadOptions` of `ApplyInclude`: the clone with `ResolvePaths`, `SkipNormalization`, `SkipConsistencyCheck` forced,
its own resource loaders (`ld`: the remote ones + a local loader of the included project directory) and its own
interpolation (`ip`: same substitution and casts, lookup in the included project's environment) -/
def Opts.forInclude (o : Opts) (ld ip : Nat) : Opts :=
  { o.clone with resolvePaths := true, skipNormalization := true, skipConsistencyCheck := true,
                 resourceLoaders := ld, interpolate := ip }

/-- the value of a flag by its Go name (what the correspondence stream reads back by reflection) -/
def Opts.flag (o : Opts) : String → Option Bool
  | "SkipValidation" => some o.skipValidation
  | "SkipInterpolation" => some o.skipInterpolation
  | "SkipNormalization" => some o.skipNormalization
  | "ResolvePaths" => some o.resolvePaths
  | "ConvertWindowsPaths" => some o.convertWindowsPaths
  | "SkipConsistencyCheck" => some o.skipConsistencyCheck
  | "SkipExtends" => some o.skipExtends
  | "SkipInclude" => some o.skipInclude
  | "SkipResolveEnvironment" => some o.skipResolveEnvironment
  | "SkipDefaultValues" => some o.skipDefaultValues
  | "discardEnvFiles" => some o.discardEnvFiles
  | "projectNameImperativelySet" => some o.projectNameImperativelySet
  | _ => none

/-! ## `types.IncludeConfig` and `loadIncludeConfig` -/

structure IncCfg where
  path : List String := []
  projectDirectory : String := ""
  envFile : List String := []
deriving Repr, BEq, DecidableEq

def allStr : List Val → Option (List String)
  | [] => some []
  | .str s :: r => (allStr r).map (s :: ·)
  | _ :: _ => none

/-- `StringList.DecodeMapstructure` (an absent / null value leaves the zero value) -/
def strList : Option Val → Out (List String)
  | none => .ok []
  | some .null => .ok []
  | some (.str s) => .ok [s]
  | some (.seq xs) => match allStr xs with
    | some l => .ok l
    | none => .err "decode"
  | some _ => .err "decode"

/-- one element of `include:`.  `project_directory` of a non-string scalar kind is decoded weakly by
mapstructure; that corner is outside the modelled domain (`outOfDomain`). -/
def cfgOf : Val → Out IncCfg
  | .null => .ok {}
  | .str s => .ok { path := [s] }
  | .map kvs =>
    match strList (lookup "path" kvs) with
    | .ok p =>
      match lookup "project_directory" kvs with
      | some (.str d) =>
        (strList (lookup "env_file" kvs)).bind fun e => .ok { path := p, projectDirectory := d, envFile := e }
      | none | some .null =>
        (strList (lookup "env_file" kvs)).bind fun e => .ok { path := p, envFile := e }
      | some _ => .err "outOfDomain"
    | .err e => .err e
    | .panic s => .panic s
  | _ => .err "decode"

def cfgsOf : List Val → Out (List IncCfg)
  | [] => .ok []
  | v :: r => (cfgOf v).bind fun c => (cfgsOf r).bind fun cs => .ok (c :: cs)

def loadIncludeConfig : Option Val → Out (List IncCfg)
  | none => .ok []
  | some .null => .ok []
  | some (.seq xs) => cfgsOf xs
  | some _ => .err "notList"

/-! ## `importResources` -/

/-- the loop `for name, a := range from` of `importResource`; `same` is the test that lets an already defined
name pass (`reflect.DeepEqual`, or — inside `ApplyInclude` — `sameResource`) -/
def importEntries (same : Val → Val → Bool) : KVs → KVs → Out KVs
  | [], to => .ok to
  | (name, a) :: rest, to =>
    match lookup name to with
    | some c => if same a c then importEntries same rest to else .err "conflict"
    | none => importEntries same rest (to ++ [(name, a)])

/-- the section of the including model the resources go to: absent or null = empty, a mapping, or neither -/
def targetSection (key : String) (target : KVs) : Option KVs :=
  match lookup key target with
  | none => some []
  | some .null => some []
  | some (.map to) => some to
  | some _ => none

def importResource (same : String → Val → Val → Bool) (source target : KVs) (key : String) : Out KVs :=
  match lookup key source with
  | none => .ok target
  | some .null => .ok target
  | some frm =>
    match targetSection key target with
    | none => .err "notMapping"
    | some to =>
      match frm with
      | .map f => (importEntries (same key) f to).bind fun to' => .ok (insert key (.map to') target)
      | _ => .err "notMapping"

def resourceKinds : List String := ["services", "volumes", "networks", "secrets", "configs"]

def importKinds (same : String → Val → Val → Bool) (source : KVs) : List String → KVs → Out KVs
  | [], target => .ok target
  | k :: ks, target => (importResource same source target k).bind (importKinds same source ks)

def importResources (same : String → Val → Val → Bool) (source target : KVs) : Out KVs :=
  importKinds same source resourceKinds target

/-- `reflect.DeepEqual` in every section: the stand-alone `importResources(source, target)` -/
def deepEqual : String → Val → Val → Bool := fun _ a c => veq a c

/-! ## the world `ApplyInclude` runs in -/

structure World where
  /-- the process working directory: the OS resolves relative paths against it -/
  cwd : String
  /-- `os.Stat(p)` succeeds and reports a directory (absolute clean path) -/
  isDir : String → Bool
  /-- `os.Stat(p)` succeeds and reports a non-directory -/
  isFile : String → Bool
  /-- `dotenv.GetEnvFromFile(currentEnv, files)` -/
  envFromFile : Env → List String → Out Env
  /-- `loadYamlModel` of the included project: working dir, local-loader dir, files, environment, `included` -/
  loadModel : String → String → List String → Env → List String → Out KVs
  /-- `paths.ResolveRelativePaths` of one resource `section.name` against a base directory (`none` = error / panic) -/
  resolveRes : String → String → Val → Option Val := fun _ _ v => some v

def osAbs (W : World) (p : String) : String := if isAbs p then clean p else join W.cwd p
def statDir (W : World) (p : String) : Bool := W.isDir (osAbs W p)
def statFile (W : World) (p : String) : Bool := W.isFile (osAbs W p)

/-- `localResourceLoader{WorkingDir: L}.abs` -/
def localAbs (L p : String) : String := if isAbs p then p else join L p

/-- `localResourceLoader{WorkingDir: L}.Dir` -/
def localDir (W : World) (L p : String) : String :=
  let path := localAbs L p
  let path := if statDir W path then path else localAbs L (dir p)
  match rel L path with
  | some r => r
  | none => path

/-- the `switch` deciding the working directory of the included project (first path only) -/
def resolveFirst (W : World) (wd L pd path0 : String) : String × String :=
  if pd = "" then (localDir W L path0, dir path0)
  else if !isAbs pd then (localDir W L pd, join wd pd)
  else (pd, pd)

structure Plan where
  relwd : String
  projDir : String
  paths : List String
deriving Repr, BEq, DecidableEq

/-- the loop over `r.Path`: resolve every path with the local loader; the first one defines the project
directory; each one is tested against the `included` chain -/
def plan (W : World) (wd L : String) (chain : List String) (r : IncCfg) : Out Plan :=
  match r.path with
  | [] => .ok ⟨"", r.projectDirectory, []⟩
  | p0 :: rest =>
    let path0 := localAbs L p0
    let rp := resolveFirst W wd L r.projectDirectory path0
    let paths := path0 :: rest.map (localAbs L)
    if paths.any (fun p => chain.contains p) then .err "cycle"
    else .ok ⟨rp.1, rp.2, paths⟩

def envFilesExplicit (W : World) (wd : String) : List String → Out (List String)
  | [] => .ok []
  | f :: rest =>
    if isAbs f then (envFilesExplicit W wd rest).bind fun r => .ok (f :: r)
    else
      let f' := join wd f
      if statDir W f' then .err "notFile"
      else if statFile W f' then (envFilesExplicit W wd rest).bind fun r => .ok (f' :: r)
      else .err "statNotFound"

def envFiles (W : World) (wd projDir : String) (ef : List String) : Out (List String) :=
  match ef with
  | [] =>
    let f := join projDir ".env"
    .ok (if statFile W f then [f] else [])
  | _ => envFilesExplicit W wd ef

/-- the environment the included project is interpolated with -/
def includeEnv (W : World) (wd projDir : String) (env : Env) (ef : List String) : Out Env :=
  (envFiles W wd projDir ef).bind fun efs =>
  (W.envFromFile env efs).bind fun fromFile => .ok (envMerge env fromFile)

/-- the directory relative `project_directory` / `env_file` entries are joined to: `workingDir` when it is
absolute; when it is relative (the including file is itself included) the working directory of the local resource
loader, which is the including project's directory in absolute form -/
def baseDir (wd L : String) : String :=
  if isAbs wd then wd else if L = "" then wd else L

/-- `sameResource`: deeply equal, or deeply equal once the relative paths of both definitions are resolved against
the including project's directory (the same file reached through two include routes spells them differently) -/
def sameResource (W : World) (base : String) : String → Val → Val → Bool := fun key a c =>
  veq a c || match W.resolveRes base key a, W.resolveRes base key c with
    | some x, some y => veq x y
    | _, _ => false

/-- body of `for _, r := range includeConfig` -/
def includeOne (W : World) (wd L : String) (env : Env) (chain : List String) (model : KVs) (r : IncCfg) : Out KVs :=
  (plan W (baseDir wd L) L chain r).bind fun pl =>
  (includeEnv W (baseDir wd L) pl.projDir env r.envFile).bind fun env' =>
  (W.loadModel pl.relwd pl.projDir pl.paths env' chain).bind fun imported =>
  importResources (sameResource W (baseDir wd L)) imported model

def includeAll (W : World) (wd L : String) (env : Env) (chain : List String) : List IncCfg → KVs → Out KVs
  | [], model => .ok model
  | r :: rs, model => (includeOne W wd L env chain model r).bind (includeAll W wd L env chain rs)

/-- `loader.ApplyInclude(ctx, workingDir, environment, model, options, included)`; `L` is the working
directory of the local resource loader in `options` -/
def applyInclude (W : World) (wd L : String) (env : Env) (chain : List String) (model : KVs) : Out KVs :=
  (loadIncludeConfig (lookup "include" model)).bind fun cfgs =>
  (includeAll W wd L env chain cfgs model).bind fun m => .ok (erase "include" m)

end CV.Include
