import ComposeVerif.Model.Dotenv
/-!
# The line counter of the env-file parser (`parser.line`; property C18, round 6)

`p.line` starts at 1 and is only read by the three error messages that begin with `line %d:`
(unexpected character, key cannot contain a space, unterminated quoted value).  It is incremented
* by `indexOfNonSpaceChar` for every line feed it steps over (`stmtLines`),
* by `locateKeyName` when the key is inherited and contains no U+0020 (`keyLineDelta`; the key is the
  untrimmed text before the delimiter),
* by `extractVarValue` once for an unquoted value (whether or not a line feed follows) and once per line feed
  the quoted loop steps over — all of the rest of the input when the quote is never closed (`valueLineDelta`).
`parseLoopL` is `parseLoop` with the counter as one more accumulator (same shape as `parseLoopT`);
`Props/C18Line.lean` proves that its outcome IS `parse`.  Quirks are mirrored, not repaired.
-/
namespace CV.Dotenv
open CV CV.Template

def countNL (s : Str) : Nat := (s.filter (· == '\n')).length

/-- line feeds `getStatementStart` steps over: those in the leading white space, and after a comment those of the
    recursive call (which starts AT the line feed that ends the comment) -/
def stmtLines : Nat → Str → Nat
  | 0, _ => 0
  | fuel + 1, src =>
    let d := countNL (src.takeWhile isSpaceU)
    match indexFunc (fun c => !isSpaceU c) src 0 with
    | none => d
    | some pos =>
      match sliceFrom src pos with
      | none => d
      | some s1 =>
        match s1[0]? with
        | none => d
        | some c =>
          if c != '#' then d
          else
            match indexFunc (· == '\n') s1 0 with
            | none => d
            | some p =>
              match sliceFrom s1 p with
              | none => d
              | some s2 => d + stmtLines fuel s2

/-- `if inherited && strings.IndexByte(key, ' ') == -1 { p.line++ }` (key not yet trimmed) -/
def keyLineDelta (cs : Str) : Nat :=
  let src := dropExport cs
  match scanKey src 0 with
  | .bad => 0
  | .noDelim => if src.isEmpty then 0 else if src.contains ' ' then 0 else 1
  | .delim i inh => if src.isEmpty then 0 else if inh && !(src.take i).contains ' ' then 1 else 0

/-- increments inside `extractVarValue` -/
def valueLineDelta (left : Str) : Nat :=
  match quotePrefix left with
  | none => 1
  | some q =>
    match quotedLoop q left (left.length - 1) 1 false [] with
    | .oob => 0
    | .unterminated => countNL left
    | .closed _ i => countNL (left.take i)

/-- `parseLoop` with `p.line` as one more accumulator; the second component is the counter when the loop stops -/
def parseLoopL : Nat → Str → Map → Env → Nat → POut × Nat
  | 0, _, _, _, l => (.panic .fuel, l)
  | fuel + 1, src, out, lookup, l0 =>
    let l1 := l0 + stmtLines (src.length + 1) src
    match stmtStart (src.length + 1) src with
    | .error s => (.panic s, l1)
    | .ok cs =>
      if cs.isEmpty then (.ok out, l1)
      else
        match locateKey cs with
        | .error s => (.panic s, l1)
        | .ok (.error e) => (.err e out, l1)
        | .ok (.ok (key, left, inherited)) =>
          let l2 := l1 + keyLineDelta cs
          if key.any isSpaceU then (.err .keySpace out, l2)
          else if inherited then
            match lookup key with
            | some v => parseLoopL fuel left (put out key v) lookup l2
            | none => parseLoopL fuel left out lookup l2
          else
            let l3 := l2 + valueLineDelta left
            match extractValue left out lookup with
            | .error s => (.panic s, l3)
            | .ok (.error e) => (.err e out, l3)
            | .ok (.ok (v, left')) => parseLoopL fuel left' (put out key v) lookup l3

def parseL (src : Str) (lookup : Env) : POut × Nat := parseLoopL (src.length + 2) src [] lookup 1

/-- the number an error message carries: only the three messages that start with `line %d:` have one -/
def errorLine (r : POut × Nat) : Option Nat :=
  match r.1 with
  | .err .unexpectedChar _ => some r.2
  | .err .keySpace _ => some r.2
  | .err .unterminated _ => some r.2
  | _ => none

end CV.Dotenv
