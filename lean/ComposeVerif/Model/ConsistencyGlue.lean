import ComposeVerif.Model.Consistency
import ComposeVerif.Model.Validate
/-!
# The glue around the two checks of C10 (loader/loader.go, loader/include.go, loader/extends.go)

Which of `validation.Validate` (structural exclusivity on the merged tree, `loadYamlModel`) and `checkConsistency`
(on the typed project, `modelToProject`) a model goes through depends on two fields of `loader.Options` and on the
*copies* of the options that included files and `extends` bases are loaded with:

* `loadYamlModel`:   `if !opts.SkipValidation { validation.Validate(dict) }` — after every file has been merged;
* `modelToProject`:  `if !opts.SkipConsistencyCheck { checkConsistency(project) }` — after `WithProfiles`;
* `ApplyInclude`:    `loadOptions := options.clone()`, then `ResolvePaths = true`, `SkipNormalization = true`,
                     `SkipConsistencyCheck = true`; the included model goes through `loadYamlModel` only;
* `getExtendsBaseFromFile`: `extendsOpts := opts.clone()`, then `ResolvePaths = false`, `SkipNormalization`,
                     `SkipConsistencyCheck`, `SkipInclude`, `SkipExtends`, `SkipValidation`, `SkipDefaultValues = true`
                     ("we validate the merge result"); the base goes through `loadYamlFile` only;
* `(*Options).clone` copies neither `SkipDefaultValues` nor `SkipResolveEnvironment` (a quirk that exists; it does not
  touch the two checks).

The option record is a value here; that the copies are *real* copies on the Go heap (the caller's `Options` is not
written through) is observed by the correspondence stream `c10.glue`, which reads the caller's struct after the load.
-/
namespace CV.Consistency.Glue
open CV CV.Consistency

/-- the boolean fields of `loader.Options` that `clone`, `ApplyInclude` or `getExtendsBaseFromFile` read or write -/
structure Opts where
  skipValidation : Bool := false
  skipNormalization : Bool := false
  resolvePaths : Bool := true
  skipConsistencyCheck : Bool := false
  skipExtends : Bool := false
  skipInclude : Bool := false
  skipDefaultValues : Bool := false
deriving DecidableEq, Repr, Inhabited

/-- `(*Options).clone`: the composite literal lists every boolean field (since `fix: options cloned for an included (or
extended) load keep SkipDefaultValues and SkipResolveEnvironment`; before it `SkipDefaultValues` was left at its zero value) -/
def clone (o : Opts) : Opts := o

/-- boolean writes after the clone, as `(Go field, value)` in source order; `applyWrite` interprets them -/
def includeWrites : List (String × String) :=
  [("ResolvePaths", "true"), ("SkipNormalization", "true"), ("SkipConsistencyCheck", "true")]

def extendsWrites : List (String × String) :=
  [("ResolvePaths", "false"), ("SkipNormalization", "true"), ("SkipConsistencyCheck", "true"), ("SkipInclude", "true"),
   ("SkipExtends", "true"), ("SkipValidation", "true"), ("SkipDefaultValues", "true")]

def applyWrite (o : Opts) (w : String × String) : Opts :=
  let v := w.2 == "true"
  if w.1 == "SkipValidation" then { o with skipValidation := v }
  else if w.1 == "SkipNormalization" then { o with skipNormalization := v }
  else if w.1 == "ResolvePaths" then { o with resolvePaths := v }
  else if w.1 == "SkipConsistencyCheck" then { o with skipConsistencyCheck := v }
  else if w.1 == "SkipExtends" then { o with skipExtends := v }
  else if w.1 == "SkipInclude" then { o with skipInclude := v }
  else if w.1 == "SkipDefaultValues" then { o with skipDefaultValues := v }
  else o

/-- the options an included project is loaded with -/
def includeOpts (o : Opts) : Opts := includeWrites.foldl applyWrite (clone o)
/-- the options the file of an `extends` base is loaded with -/
def extendsOpts (o : Opts) : Opts := extendsWrites.foldl applyWrite (clone o)

/-- where a compose model enters the load -/
inductive Role | main | included | extended
deriving DecidableEq, Repr

def optsFor (o : Opts) : Role → Opts
  | .main => o
  | .included => includeOpts o
  | .extended => extendsOpts o

inductive Check | structural | consistency
deriving DecidableEq, Repr

/-- the functions a model of that role goes through: only the main model reaches `modelToProject`, a base of `extends`
does not even reach the end of `loadYamlModel` (it is read by `loadYamlFile`) -/
def reachesValidate : Role → Bool
  | .main => true | .included => true | .extended => false
def reachesConsistency : Role → Bool
  | .main => true | _ => false

/-- the checks run on the model of a given role *by itself*, in the order of the code -/
def checksRun (o : Opts) (r : Role) : List Check :=
  (if reachesValidate r && !(optsFor o r).skipValidation then [.structural] else []) ++
  (if reachesConsistency r && !(optsFor o r).skipConsistencyCheck then [.consistency] else [])

/-- outcome of the two guarded checks -/
inductive Out
  | ok (p : Proj)
  | structural (c : Validate.VErr)
  | consistency (e : Err)
  | panic (site : String)
deriving Repr, DecidableEq

/-- `if !opts.SkipValidation { validation.Validate(dict) }` -/
def structuralStage (o : Opts) (t : Val) : Validate.VOut :=
  if o.skipValidation then .ok else Validate.validate t

/-- `if !opts.SkipConsistencyCheck { checkConsistency(project) }`: the project is written (`deploy.replicas`) only
when the check runs and passes -/
def consistencyStage (o : Opts) (p : Proj) : Out :=
  if o.skipConsistencyCheck then .ok p
  else match checkConsistency p with
    | none => .ok (postState p)
    | some e => .consistency e

/-- the two checks of the main load in the order of the code: `t` is the merged tree `loadYamlModel` validates,
`p` the typed project after `WithProfiles` -/
def mainChecks (o : Opts) (t : Val) (p : Proj) : Out :=
  match structuralStage o t with
  | .err c => .structural c
  | .panic s => .panic s
  | .ok => consistencyStage o p

/-- the structural check an included model goes through on its own, before it is merged into the including one -/
def includedChecks (o : Opts) (t : Val) : Validate.VOut := structuralStage (includeOpts o) t

/-- a load whose main model includes projects: each included model goes through its own structural check first (under
`includeOpts o`, in the order of the `include` list), then the merged tree and the project through the main checks.
`incs` are the included models as `loadYamlModel` validates them, `t` the merge result of the including model. -/
def incFail (o : Opts) (i : Val) : Option Out :=
  match includedChecks o i with
  | .ok => none
  | .err c => some (Out.structural c)
  | .panic s => some (Out.panic s)

def loadWithIncludes (o : Opts) (incs : List Val) (t : Val) (p : Proj) : Out :=
  match incs.findSome? (incFail o) with
  | some out => out
  | none => mainChecks o t p

/-! ### the same composition on outcome *classes* (what the correspondence stream observes on whole loads) -/

/-- first failure of the two stages: `v` = class of the structural stage alone, `c` = of the consistency stage alone
(`"ok"` or an error class) -/
def combine (o : Opts) (v c : String) : String :=
  if !o.skipValidation && v != "ok" then v
  else if !o.skipConsistencyCheck && c != "ok" then c
  else "ok"

/-- … with included projects: `vInc` = classes of the structural stage of each included model alone -/
def combineIncl (o : Opts) (vInc : List String) (v c : String) : String :=
  match vInc.find? (fun x => !(includeOpts o).skipValidation && x != "ok") with
  | some x => x
  | none => combine o v c

end CV.Consistency.Glue
