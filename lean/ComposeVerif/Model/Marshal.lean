import ComposeVerif.Model.Val
import ComposeVerif.Model.Str
/-!
# Custom marshallers and decoders of package `types` (C09)

Each Go type with a hand-written `MarshalYAML` / `MarshalJSON` / `DecodeMapstructure` gets

* `marshalY X`, `marshalJ X : Val → Out` — the **tree** the loader sees when it reads the rendering back
  (what the marshaller hands to yaml.v3 / encoding/json, after the encoder and the YAML parser; that
  the encoder ∘ parser pair is the identity on such trees is checked by the `c09.marshal` correspondence);
* `canon X` — the canonicalisation the loader applies to that attribute before decoding
  (`transform/*.go`: `transformEnvFile`, `transformSSH`, `transformUlimits`);
* `decode X : Val → Out` — `DecodeMapstructure` (or the plain struct decoding for `EnvFile`).

Typed Go values are written as `Val`s too: `int64`/`Duration` = `.int`, `[]string` = `.null` (nil) or
`.seq` of `.str`, `map[string]string` = `.map`, `*string` = `.null | .str`, a struct = `.map` keyed by the
**Go field names**.  Floats are opaque and not modelled here.
-/
namespace CV.Marshal
open CV

inductive Out where
  | ok (v : Val)
  | err (cls : String)
  | unmodelled (why : String)
deriving Repr, Inhabited, BEq

/-- sequencing: feed a successful rendering to the decoder -/
def Out.bind : Out → (Val → Out) → Out
  | .ok v, f => f v
  | o, _ => o

/-- yaml.v3 writes a nil slice as `[]` and a nil map as `{}` (encoding/json writes `null`) -/
def nilAs (z : Val) (f : Val → Out) : Val → Out
  | .null => .ok z
  | v => f v

/-! ## decimal text (own definitions: structural, so that concrete instances reduce in the kernel) -/

def isDigit (c : Char) : Bool := '0' ≤ c && c ≤ '9'

def digitChar (d : Nat) : Char := Char.ofNat (48 + d)

/-- most significant digit first; `fuel > n` is always enough -/
def natDigitsAux : Nat → Nat → List Char → List Char
  | 0, _, acc => acc
  | f + 1, n, acc => if n < 10 then digitChar n :: acc else natDigitsAux f (n / 10) (digitChar (n % 10) :: acc)

def natDigits (n : Nat) : List Char := natDigitsAux (n + 1) n []

def digitsVal (ds : List Char) : Nat := ds.foldl (fun a c => a * 10 + (c.toNat - 48)) 0

/-- `strconv`-style unsigned decimal: non-empty, digits only (no sign, no underscore) -/
def parseNat? (cs : List Char) : Option Nat :=
  if cs.isEmpty || !cs.all isDigit then none else some (digitsVal cs)

/-- `strconv.ParseInt(s, 10, 64)` without the range check -/
def parseInt? (cs : List Char) : Option Int :=
  match cs with
  | '-' :: r => (parseNat? r).map fun n => -(n : Int)
  | '+' :: r => (parseNat? r).map fun n => (n : Int)
  | r => (parseNat? r).map fun n => (n : Int)

/-- `fmt.Sprintf("%d", n)` -/
def fmtInt : Int → String
  | .ofNat n => String.ofList (natDigits n)
  | .negSucc n => String.ofList ('-' :: natDigits (n + 1))

/-- `fmt.Sprint(e)` for the scalars a YAML tree can hold (strings unchanged) -/
def sprint : Val → String := Val.fmtV

def isScalar : Val → Bool
  | .seq _ => false
  | .map _ => false
  | _ => true

/-- `fmt.Sprint` of a nested list / map is not modelled -/
def guardScalars (xs : List Val) (o : Out) : Out := if xs.all isScalar then o else .unmodelled "fmt.Sprint of a composite"

/-! ## UnitBytes — `types/bytes.go`, `units.RAMInBytes` -/

def two53 : Nat := 9007199254740992

def unitMul : Char → Option Nat
  | 'k' => some 1024 | 'm' => some (1024 ^ 2) | 'g' => some (1024 ^ 3) | 't' => some (1024 ^ 4) | 'p' => some (1024 ^ 5)
  | _ => none

/-- result of `int64(float64 …)` when the float arithmetic is exact (below 2^53) -/
def exactOrUnmodelled (n : Nat) : Out :=
  if n < two53 then .ok (.int n) else .unmodelled "float64 precision"

/-- `units.RAMInBytes` on the inputs whose float64 arithmetic is exact: `[-]digits[ ]?[kmgtp]?[i]?[b]?` -/
def ramInBytes (s : String) : Out :=
  let cs := s.toList
  match parseNat? cs with
  | some n => exactOrUnmodelled n
  | none =>
    match cs with
    | '-' :: ds =>
      match parseNat? ds with
      | some 0 => .ok (.int 0)
      | some _ => .err "invalid-size"
      | none => .unmodelled "size syntax"
    | cs =>
      let num := cs.takeWhile isDigit
      let rest := cs.dropWhile isDigit
      let sfx := (match rest with | ' ' :: r => r | r => r).map Char.toLower
      match parseNat? num, sfx with
      | some n, ['b'] => exactOrUnmodelled n
      | some n, [u] | some n, [u, 'b'] | some n, [u, 'i', 'b'] =>
        match unitMul u with
        | some m => exactOrUnmodelled (n * m)
        | none => if isDigit u || u == '.' || u == ' ' then .unmodelled "size syntax" else .err "invalid-suffix"
      | _, _ => .unmodelled "size syntax"

def marshalY_UnitBytes : Val → Out
  | .int i => .ok (.str (fmtInt i))
  | _ => .unmodelled "not a UnitBytes"

/-- `MarshalJSON` writes `"%d"` in quotes: the reader sees the same string -/
def marshalJ_UnitBytes : Val → Out := marshalY_UnitBytes

def two63 : Nat := 9223372036854775808

/-- `strconv.ParseInt(s, 10, 64)`: optional sign, digits, int64 range -/
def parseInt64? (cs : List Char) : Option Int :=
  match parseInt? cs with
  | some i => if -(two63 : Int) ≤ i ∧ i < (two63 : Int) then some i else none
  | none => none

/-- `UnitBytes.DecodeMapstructure`: an int as it is; a string that is a plain int64 exactly (since the repair of the
    negative / above-2^53 round trip), any other string through `units.RAMInBytes` -/
def decode_UnitBytes : Val → Out
  | .int i => .ok (.int i)
  | .str s => match parseInt64? s.toList with
    | some i => .ok (.int i)
    | none => ramInBytes s
  | _ => .ok (.int 0)      -- any other kind leaves the zero value, without error

/-! ## DeviceCount — `types/device.go` (no custom marshaller: rendered as the integer) -/

def marshal_DeviceCount : Val → Out
  | .int i => .ok (.int i)
  | _ => .unmodelled "not a DeviceCount"

def decode_DeviceCount : Val → Out
  | .null => .ok (.int 0)        -- mapstructure leaves the zero value on a nil input
  | .int i => .ok (.int i)
  | .str s =>
    if s.toList.map Char.toLower == "all".toList then .ok (.int (-1)) else
    match parseInt? s.toList with
    | some i => .ok (.int i)      -- int64 range is not modelled
    | none => .err "invalid-count"
  | _ => .err "invalid-type"

/-! ## string lists — `types/command.go`, `healthcheck.go`, `stringOrList.go` -/

def allStr : List Val → Bool
  | [] => true
  | .str _ :: r => allStr r
  | _ => false

/-- `ShellCommand.MarshalYAML`: nil stays nil (and is omitted), anything else is the list -/
def marshal_StrSlice : Val → Out
  | .null => .ok .null
  | .seq xs => if allStr xs then .ok (.seq xs) else .unmodelled "not a []string"
  | _ => .unmodelled "not a []string"

def decode_ShellCommand : Val → Out
  | .null => .ok .null                 -- mapstructure leaves the zero value on a nil input
  | .str _ => .unmodelled "shellwords"
  | .seq xs => if allStr xs then .ok (.seq xs) else .err "invalid-type"
  | _ => .ok .null

def decode_HealthCheckTest : Val → Out
  | .null => .ok .null
  | .str s => .ok (.seq [.str "CMD-SHELL", .str s])
  | .seq xs => if allStr xs then .ok (.seq xs) else .err "invalid-type"
  | _ => .err "invalid-type"

def decode_StringList : Val → Out
  | .null => .ok .null
  | .str s => .ok (.seq [.str s])
  | .seq xs => if allStr xs then .ok (.seq xs) else .err "invalid-type"
  | _ => .err "invalid-type"

def decode_StringOrNumberList : Val → Out
  | .null => .ok .null
  | .str s => .ok (.seq [.str s])
  | .seq xs => guardScalars xs (.ok (.seq (xs.map fun x => .str (sprint x))))
  | _ => .err "invalid-type"

/-! ## the mapping family — `types/mapping.go`, `labels.go`, `options.go` -/

def allStrVals : List (String × Val) → Bool
  | [] => true
  | (_, .str _) :: r => allStrVals r
  | _ => false

def allStrOrNullVals : List (String × Val) → Bool
  | [] => true
  | (_, .str _) :: r => allStrOrNullVals r
  | (_, .null) :: r => allStrOrNullVals r
  | _ => false

/-- `map[string]string` rendered by the default encoders -/
def marshal_StrMap : Val → Out
  | .null => .ok .null
  | .map kvs => if allStrVals kvs then .ok (.map kvs) else .unmodelled "not a map[string]string"
  | _ => .unmodelled "not a map[string]string"

/-- `map[string]*string` rendered by the default encoders (nil pointer = null) -/
def marshal_StrPtrMap : Val → Out
  | .null => .ok .null
  | .map kvs => if allStrOrNullVals kvs then .ok (.map kvs) else .unmodelled "not a map[string]*string"
  | _ => .unmodelled "not a map[string]*string"

/-- Go `m[k] = v` over a list of assignments: a later assignment to the same key wins, position of the first -/
def assignAll (kvs : List (String × Val)) : List (String × Val) :=
  kvs.foldl (fun acc (kv : String × Val) => Val.insert kv.1 kv.2 acc) []

/-- `k, e, ok := strings.Cut(s, "=")` -/
def cutEq (s : String) : String × String × Bool :=
  let cs := s.toList
  match CV.indexOf ['='] cs with
  | none => (s, "", false)
  | some i => (String.ofList (cs.take i), String.ofList (cs.drop (i + 1)), true)

/-- one map entry of `Mapping` / `Labels` / `Options`: nil → "", scalars through `fmt.Sprint` -/
def entryStr (p : String × Val) : String × Val := (p.1, .str (match p.2 with | .null => "" | e => sprint e))

/-- one map entry of `MappingWithEquals`: nil stays nil -/
def entryPtr (p : String × Val) : String × Val := (p.1, match p.2 with | .null => .null | e => .str (sprint e))

/-- `Mapping.DecodeMapstructure`: nil → "", scalars through `fmt.Sprint`; list entries are cut at the first `=` -/
def decode_Mapping : Val → Out
  | .null => .ok .null
  | .map kvs => guardScalars (kvs.map Prod.snd) (.ok (.map (kvs.map entryStr)))
  | .seq xs => guardScalars xs (.ok (.map (assignAll (xs.map fun x => let (k, e, _) := cutEq (sprint x); (k, .str e)))))
  | _ => .err "invalid-type"

/-- `Labels.DecodeMapstructure` -/
def decode_Labels : Val → Out := decode_Mapping

/-- `Options.DecodeMapstructure` (maps only) -/
def decode_Options : Val → Out
  | .null => .ok .null
  | .map kvs => guardScalars (kvs.map Prod.snd) (.ok (.map (kvs.map entryStr)))
  | _ => .err "invalid-type"

/-- `MappingWithEquals.DecodeMapstructure`: nil stays nil; a list entry without `=` is nil -/
def decode_MappingWithEquals : Val → Out
  | .null => .ok .null
  | .map kvs => guardScalars (kvs.map Prod.snd) (.ok (.map (kvs.map entryPtr)))
  | .seq xs => guardScalars xs (.ok (.map (assignAll (xs.map fun x =>
      let (k, e, ok) := cutEq (sprint x)
      (k, if ok then .str e else .null)))))
  | _ => .err "invalid-type"

/-! ## UlimitsConfig — `types/types.go:632-678`, `transform/ulimits.go` -/

def getInt (kvs : List (String × Val)) (k : String) : Int :=
  match Val.lookup k kvs with
  | some (.int i) => i
  | _ => 0

def mkUlimit (single soft hard : Int) : Val := .map [("Single", .int single), ("Soft", .int soft), ("Hard", .int hard)]

/-- `(*UlimitsConfig).MarshalYAML`: the single value, or an anonymous `{Soft, Hard}` struct (keys lower-cased by yaml.v3) -/
def marshalY_Ulimits : Val → Out
  | .map u =>
    if getInt u "Single" ≠ 0 then .ok (.int (getInt u "Single"))
    else .ok (.map [("soft", .int (getInt u "Soft")), ("hard", .int (getInt u "Hard"))])
  | _ => .unmodelled "not a UlimitsConfig"

/-- `(*UlimitsConfig).MarshalJSON`: the single value, or `{soft, hard}` with both limits always written -/
def marshalJ_Ulimits : Val → Out := marshalY_Ulimits

/-- the pre-repair `MarshalJSON` (the struct itself, whose tags all say `omitempty`) — kept for `Neg/C09.lean` -/
def optInt (k : String) (i : Int) : List (String × Val) := if i = 0 then [] else [(k, .int i)]

def marshalJ_Ulimits_old : Val → Out
  | .map u =>
    if getInt u "Single" ≠ 0 then .ok (.int (getInt u "Single"))
    else .ok (.map (optInt "soft" (getInt u "Soft") ++ optInt "hard" (getInt u "Hard")))
  | _ => .unmodelled "not a UlimitsConfig"

/-- the schema of `ulimits.*`: an integer, or an object with both `soft` and `hard` -/
def schemaOk_Ulimits : Val → Bool
  | .int _ => true
  | .str _ => true
  | .map kvs =>
    let intOrStr : Option Val → Bool := fun o => match o with
      | some (.int _) => true
      | some (.str _) => true
      | _ => false
    intOrStr (Val.lookup "soft" kvs) && intOrStr (Val.lookup "hard" kvs)
      && kvs.all (fun p => p.1 == "soft" || p.1 == "hard" || "x-".isPrefixOf p.1)
  | _ => false

/-- schema + `transformUlimits` + `DecodeMapstructure` on a fresh value -/
def decode_Ulimits (v : Val) : Out :=
  if !schemaOk_Ulimits v then .err "schema" else
  match v with
  | .int i => .ok (mkUlimit i 0 0)
  | .str _ => .err "invalid-type"      -- `transformUlimits` accepts only an int or a mapping
  | .map kvs =>
    match Val.lookup "soft" kvs, Val.lookup "hard" kvs with
    | some (.int s), some (.int h) => .ok (mkUlimit 0 s h)
    | _, _ => .err "invalid-type"
  | _ => .err "invalid-type"

/-- the typed value in the convention of the generic decoder (`Model/Decode.lean`): all four rendered fields of the
    struct, the inlined extension map last (it is never filled by `DecodeMapstructure`) -/
def mkUlimitT (single soft hard : Int) : Val :=
  .map [("Single", .int single), ("Soft", .int soft), ("Hard", .int hard), ("Extensions", .null)]

/-- one limit of the mapping form: an absent key leaves 0, anything but an int is an error (`soft.(int)`) -/
def ulimitKey (kvs : List (String × Val)) (k : String) : Option Int :=
  match Val.lookup k kvs with
  | none => some 0
  | some (.int i) => some i
  | some _ => none

/-- `(*UlimitsConfig).DecodeMapstructure` alone, as `loader.Transform` calls it on a fresh value (no schema, no
    `transformUlimits`): an int is the single limit; a mapping gives soft and hard, each optional, other keys ignored -/
def decodeDM_Ulimits : Val → Out
  | .null => .ok (mkUlimitT 0 0 0)        -- mapstructure leaves the zero value on a nil input
  | .int i => .ok (mkUlimitT i 0 0)
  | .map kvs =>
    match ulimitKey kvs "soft", ulimitKey kvs "hard" with
    | some s, some h => .ok (mkUlimitT 0 s h)
    | _, _ => .err "invalid-type"
  | _ => .err "invalid-type"

/-! ## EnvFile — `types/envfile.go`, `transform/envfile.go` -/

def getStr (kvs : List (String × Val)) (k : String) : String :=
  match Val.lookup k kvs with
  | some (.str s) => s
  | _ => ""

def getBool (kvs : List (String × Val)) (k : String) : Bool :=
  match Val.lookup k kvs with
  | some (.bool b) => b
  | _ => false

def mkEnvFile (path : String) (required : Bool) (format : String) : Val :=
  .map [("Path", .str path), ("Required", .bool required), ("Format", .str format)]

def optStr (k : String) (s : String) : List (String × Val) := if s = "" then [] else [(k, .str s)]

/-- `EnvFile.MarshalYAML`: the bare path when required and without format, else `{path, required[, format]}` -/
def marshalY_EnvFile : Val → Out
  | .map e =>
    if getBool e "Required" && getStr e "Format" == "" then .ok (.str (getStr e "Path"))
    else .ok (.map ([("path", .str (getStr e "Path")), ("required", .bool (getBool e "Required"))] ++ optStr "format" (getStr e "Format")))
  | _ => .unmodelled "not an EnvFile"

/-- `(*EnvFile).MarshalJSON`: the bare path when required and without format, else the struct by its tags -/
def marshalJ_EnvFile : Val → Out
  | .map e =>
    if getBool e "Required" && getStr e "Format" == "" then .ok (.str (getStr e "Path"))
    else .ok (.map (optStr "path" (getStr e "Path") ++ [("required", .bool (getBool e "Required"))] ++ optStr "format" (getStr e "Format")))
  | _ => .unmodelled "not an EnvFile"

/-- the pre-repair marshallers (`format` never written in YAML, nor in JSON for a required file) — kept for `Neg/C09.lean` -/
def marshalY_EnvFile_old : Val → Out
  | .map e =>
    if getBool e "Required" then .ok (.str (getStr e "Path"))
    else .ok (.map [("path", .str (getStr e "Path")), ("required", .bool false)])
  | _ => .unmodelled "not an EnvFile"

def marshalJ_EnvFile_old : Val → Out
  | .map e =>
    if getBool e "Required" then .ok (.str (getStr e "Path"))
    else .ok (.map (optStr "path" (getStr e "Path") ++ [("required", .bool false)] ++ optStr "format" (getStr e "Format")))
  | _ => .unmodelled "not an EnvFile"

/-- `transformEnvFileValue` then the plain struct decoding (yaml tags `path`, `required`, `format`) -/
def decode_EnvFile : Val → Out
  | .str s => .ok (mkEnvFile s true "")
  | .map kvs =>
    let req := match Val.lookup "required" kvs with
      | none => true
      | some (.bool b) => b
      | some _ => false
    .ok (mkEnvFile (getStr kvs "path") req (getStr kvs "format"))
  | _ => .unmodelled "kind"

/-! ## SSHKey / SSHConfig — `types/ssh.go`, `transform/ssh.go` -/

def mkSSHKey (id path : String) : Val := .map [("ID", .str id), ("Path", .str path)]

/-- `SSHKey.shortSyntax`: `default` for the default agent, else `id=path` (`id=` for another agent key) -/
def sshShort (id path : String) : String :=
  if path = "" ∧ id = "default" then id else id ++ "=" ++ path

/-- `SSHKey.MarshalYAML` / `MarshalJSON`: the short syntax as a string (JSON: properly quoted) -/
def marshalY_SSHKey : Val → Out
  | .map k => .ok (.str (sshShort (getStr k "ID") (getStr k "Path")))
  | _ => .unmodelled "not an SSHKey"

def marshalJ_SSHKey : Val → Out := marshalY_SSHKey

/-- the pre-repair marshallers (`id: path` as a YAML string; bytes that are not JSON) — kept for `Neg/C09.lean` -/
def marshalY_SSHKey_old : Val → Out
  | .map k =>
    if getStr k "Path" = "" then .ok (.str (getStr k "ID"))
    else .ok (.str (getStr k "ID" ++ ": " ++ getStr k "Path"))
  | _ => .unmodelled "not an SSHKey"

def marshalJ_SSHKey_old : Val → Out
  | .map k =>
    if getStr k "Path" = "" then .ok (.str (getStr k "ID"))
    else .err "invalid-json"
  | _ => .unmodelled "not an SSHKey"

def mapOut (f : Val → Out) : List Val → Except Out (List Val)
  | [] => .ok []
  | x :: r =>
    match f x with
    | .ok v => match mapOut f r with
      | .ok vs => .ok (v :: vs)
      | .error e => .error e
    | e => .error e

def marshalY_SSHConfig : Val → Out
  | .null => .ok .null
  | .seq ks => match mapOut marshalY_SSHKey ks with
    | .ok vs => .ok (.seq vs)
    | .error e => e
  | _ => .unmodelled "not an SSHConfig"

def marshalJ_SSHConfig : Val → Out
  | .null => .ok .null
  | .seq ks => match mapOut marshalJ_SSHKey ks with
    | .ok vs => .ok (.seq vs)
    | .error e => e
  | _ => .unmodelled "not an SSHConfig"

def marshal_SSHConfig_with (f : Val → Out) : Val → Out
  | .null => .ok .null
  | .seq ks => match mapOut f ks with
    | .ok vs => .ok (.seq vs)
    | .error e => e
  | _ => .unmodelled "not an SSHConfig"

/-- one entry of the list form in `transformSSH`: `id=path`, or the bare word `default` -/
def sshEntry : Val → Except String (String × Val)
  | .str s =>
    let (id, path, ok) := cutEq s
    if ok then .ok (id, .str path)
    else if id = "default" then .ok (id, .null)
    else .error "invalid-ssh-key"
  | _ => .error "invalid-ssh-key"

def sshEntries : List Val → Except String (List (String × Val))
  | [] => .ok []
  | x :: r => do
    let e ← sshEntry x
    let es ← sshEntries r
    pure (e :: es)

/-- `transformSSH` + `SSHConfig.DecodeMapstructure`; the result is listed in map (= insertion) order,
    the harness compares it as a set because Go ranges the map in random order (DESIGN §10 #6) -/
def decode_SSHConfig : Val → Out
  | .null => .ok .null
  | .map kvs => guardScalars (kvs.map Prod.snd) (.ok (.seq (kvs.map fun (id, p) => mkSSHKey id (match p with | .null => "" | p => sprint p))))
  | .seq xs =>
    match sshEntries xs with
    | .ok es => .ok (.seq ((assignAll es).map fun (id, p) => mkSSHKey id (match p with | .null => "" | p => sprint p)))
    | .error e => .err e
  | _ => .err "invalid-type"

/-! ## Duration — `types/duration.go`, `time.Duration.String`, `time.ParseDuration` -/

/-- `fmtFrac`: the low `prec` decimal digits of `v` without trailing zeros, with the point if any is printed -/
def fracLoop : Nat → Nat → Bool → List Char → List Char × Nat
  | 0, v, pr, acc => (if pr then '.' :: acc else acc, v)
  | n + 1, v, pr, acc =>
    let d := v % 10
    let pr' := pr || d != 0
    fracLoop n (v / 10) pr' (if pr' then digitChar d :: acc else acc)

def natStr (n : Nat) : List Char := natDigits n

/-- `time.Duration.String` for the magnitude `u` (nanoseconds) -/
def durBody (u : Nat) : List Char :=
  if u = 0 then ['0', 's']
  else if u < 1000 then natStr (fracLoop 0 u false []).2 ++ (fracLoop 0 u false []).1 ++ ['n', 's']
  else if u < 1000000 then natStr (fracLoop 3 u false []).2 ++ (fracLoop 3 u false []).1 ++ ['µ', 's']
  else if u < 1000000000 then natStr (fracLoop 6 u false []).2 ++ (fracLoop 6 u false []).1 ++ ['m', 's']
  else
    let frac := (fracLoop 9 u false []).1
    let secs := (fracLoop 9 u false []).2
    let tail := natStr (secs % 60) ++ frac ++ ['s']
    let m := secs / 60
    if m = 0 then tail else
      let tail := natStr (m % 60) ++ ['m'] ++ tail
      let h := m / 60
      if h = 0 then tail else natStr h ++ ['h'] ++ tail

/-- `time.Duration.String` -/
def durString (d : Int) : String :=
  String.ofList (if d < 0 ∧ d.natAbs ≠ 0 then '-' :: durBody d.natAbs else durBody d.natAbs)

def durUnit : List Char → Option Nat
  | ['n', 's'] => some 1
  | ['u', 's'] => some 1000
  | ['µ', 's'] => some 1000
  | ['μ', 's'] => some 1000
  | ['m', 's'] => some 1000000
  | ['s'] => some 1000000000
  | ['m'] => some 60000000000
  | ['h'] => some 3600000000000
  | _ => none

inductive DurRes where
  | ok (n : Nat)
  | err
  | unmodelled

/-- the optional fraction after the integer digits: its digits, and what follows -/
def splitFrac : List Char → List Char × List Char
  | '.' :: r => (r.takeWhile isDigit, r.dropWhile isDigit)
  | r => ([], r)

/-- the characters of a unit: neither digits nor the point -/
def unitChar (c : Char) : Bool := !(isDigit c) && c != '.'

/-- one segment `[0-9]*(\.[0-9]*)?[a-zµμ]+` of `time.ParseDuration`: its value and the rest of the input -/
def parseSeg (cs : List Char) : DurRes × List Char :=
  let ip := cs.takeWhile isDigit
  let r1 := cs.dropWhile isDigit
  let fp := (splitFrac r1).1
  let r2 := (splitFrac r1).2
  if ip.isEmpty && fp.isEmpty then (.err, []) else
  let us := r2.takeWhile unitChar
  let r3 := r2.dropWhile unitChar
  match durUnit us with
  | none => (.err, [])
  | some unit =>
    let v := digitsVal ip
    if v > two63 then (.err, []) else
    if v > two63 / unit then (.err, []) else
    let scale := 10 ^ fp.length
    let f := digitsVal fp
    if f ≥ two63 / 10 then (.unmodelled, []) else
    if f ≠ 0 ∧ unit % scale ≠ 0 then (.unmodelled, []) else
    let v := v * unit + f * (unit / scale)
    if v > two63 then (.err, []) else (.ok v, r3)

/-- the segment loop of `time.ParseDuration`; `fuel` ≥ length of the input -/
def parseDurSegs : Nat → List Char → Nat → DurRes
  | 0, _, _ => .unmodelled
  | _ + 1, [], acc => .ok acc
  | fuel + 1, c :: cs, acc =>
    match parseSeg (c :: cs) with
    | (.ok v, r3) => if acc + v > two63 then .err else parseDurSegs fuel r3 (acc + v)
    | (.err, _) => .err
    | (.unmodelled, _) => .unmodelled

/-- the optional sign -/
def splitSign : List Char → Bool × List Char
  | '-' :: r => (true, r)
  | '+' :: r => (false, r)
  | r => (false, r)

/-- `time.ParseDuration` -/
def parseDuration (s : String) : Out :=
  let neg := (splitSign s.toList).1
  let cs := (splitSign s.toList).2
  if cs = ['0'] then .ok (.int 0) else
  if cs.isEmpty then .err "invalid-duration" else
  match parseDurSegs (cs.length + 1) cs 0 with
  | .ok n =>
    if neg then .ok (.int (-(n : Int)))
    else if n > two63 - 1 then .err "invalid-duration" else .ok (.int n)
  | .err => .err "invalid-duration"
  | .unmodelled => .unmodelled "float64 fraction"

def marshal_Duration : Val → Out
  | .int d => .ok (.str (durString d))
  | _ => .unmodelled "not a Duration"

/-- `Duration.DecodeMapstructure`: `time.ParseDuration(fmt.Sprint(value))` -/
def decode_Duration : Val → Out
  | .null => .ok (.int 0)        -- mapstructure leaves the zero value on a nil input
  | .seq _ => .unmodelled "composite"
  | .map _ => .unmodelled "composite"
  | .float _ => .unmodelled "float text"
  | v => parseDuration (sprint v)

/-! ## HostsList — `types/hostList.go` -/

def joinHost (h ip : String) : String := h ++ "=" ++ ip

/-- insertion sort (the marshaller sorts the `host=ip` lines with `sort.Strings`) -/
def insertSorted (s : String) : List String → List String
  | [] => [s]
  | x :: r => if s ≤ x then s :: x :: r else x :: insertSorted s r

def sortStrings (l : List String) : List String := l.foldr insertSorted []

def strsOf : List Val → List String
  | [] => []
  | .str s :: r => s :: strsOf r
  | _ :: r => strsOf r

def hostLines : List (String × Val) → List String
  | [] => []
  | (h, .seq ips) :: r => (strsOf ips).map (joinHost h) ++ hostLines r
  | _ :: r => hostLines r

/-- insertion sort of the entries by `host=` (the hosts of a map are distinct, so stability plays no role) -/
def insertEntry (e : String × Val) : List (String × Val) → List (String × Val)
  | [] => [e]
  | x :: r => if e.1 ++ "=" ≤ x.1 ++ "=" then e :: x :: r else x :: insertEntry e r

def sortEntries (l : List (String × Val)) : List (String × Val) := l.foldr insertEntry []

/-- `HostsList.MarshalYAML/JSON` (`sortedList`): host by host in the order of `host=`, each host's addresses in their order -/
def marshal_HostsList : Val → Out
  | .null => .ok .null
  | .map kvs => .ok (.seq ((hostLines (sortEntries kvs)).map .str))
  | _ => .unmodelled "not a HostsList"

/-- the pre-repair marshaller sorted whole `host=ip` lines — kept for `Neg/C09.lean` -/
def marshal_HostsList_old : Val → Out
  | .null => .ok .null
  | .map kvs => .ok (.seq ((sortStrings (hostLines kvs)).map .str))
  | _ => .unmodelled "not a HostsList"

def splitOnChar (c : Char) (cs : List Char) : List (List Char) :=
  cs.foldr (fun x acc => if x = c then [] :: acc else match acc with
    | [] => [[x]]
    | a :: r => (x :: a) :: r) [[]]

def splitComma (s : String) : List String := (splitOnChar ',' s.toList).map String.ofList

/-- `strings.Cut` at the first `=`, else at the first `:` -/
def cutHost (s : String) : Option (String × String) :=
  let cs := s.toList
  match CV.indexOf ['='] cs with
  | some i => some (String.ofList (cs.take i), String.ofList (cs.drop (i + 1)))
  | none =>
    match CV.indexOf [':'] cs with
    | some i => some (String.ofList (cs.take i), String.ofList (cs.drop (i + 1)))
    | none => none

def stripBrackets (ip : String) : String :=
  let cs := ip.toList
  if cs.length > 2 && cs.head? == some '[' && cs.getLast? == some ']' then String.ofList ((cs.drop 1).dropLast) else ip

def badHost (h : String) : Bool := h == "" || h.toList.any (fun c => c == ':' || c == '=')

/-- append `ips` to the entry of `h` (creating it at the end) -/
def addHost (h : String) (ips : List String) (acc : List (String × List String)) : List (String × List String) :=
  match acc with
  | [] => [(h, ips)]
  | (h', l) :: r => if h = h' then (h', l ++ ips) :: r else (h', l) :: addHost h ips r

def hostsFromLines : List String → List (String × List String) → Except String (List (String × List String))
  | [], acc => .ok acc
  | s :: r, acc =>
    match cutHost s with
    | none => .error "missing-ip"
    | some (h, ip) => hostsFromLines r (addHost h (splitComma ip) acc)

def cleanupHosts (l : List (String × List String)) : Out :=
  if l.any (fun p => badHost p.1) then .err "bad-host"
  else .ok (.map (l.map fun (h, ips) => (h, .seq (ips.map fun ip => .str (stripBrackets ip)))))

def decode_HostsList : Val → Out
  | .null => .ok .null
  | .seq xs =>
    if !xs.all isScalar then .unmodelled "fmt.Sprint of a composite" else
    match hostsFromLines (xs.map sprint) [] with
    | .ok l => cleanupHosts l
    | .error e => .err e
  | .map kvs =>
    if !(kvs.all fun p => match p.2 with | .seq l => l.all isScalar | _ => true) then .unmodelled "fmt.Sprint of a composite" else
    let conv : List (String × Val) → Option (List (String × List String))
      := fun kvs => kvs.mapM fun (h, e) => match e with
        | .null => some (h, [""])
        | .str s => some (h, [s])
        | .seq l => some (h, l.map sprint)
        | _ => none
    match conv kvs with
    | some l => cleanupHosts l
    | none => .err "invalid-type"
  | _ => .err "invalid-type"

end CV.Marshal
