import ComposeVerif.Model.Val
import ComposeVerif.Model.Path
import ComposeVerif.Gen.Tables
/-!
# `override.Merge` / `override.ExtendService` (override/merge.go, override/extends.go)

The model mirrors the Go code function by function, quirks included:

* the rule applied at a path is the first row of the *regenerated* table `CV.Gen.mergeSpecials`
  whose pattern matches (`ruleAt`); the handler name is mapped to a `Rule` by `ruleOfName`
  (an unknown Go function becomes `Rule.unknown`, which no theorem accepts);
* a special rule is consulted *before* the `o == nil` test, so `mergeToSequence x nil = x`-as-list,
  `override x nil = nil`, `mergeLogging x nil` panics, …;
* since the round-2 `fix:` commits no special merger panics any more: a value of the wrong kind is the error
  "cannot override" / "unexpected type", a null value is an empty mapping, mappings and sequences are never
  compared with `==` (`sameScalar`); the only `panic` outcome left in the model is running out of fuel;
* `mergeUlimit` merges the override mapping *with itself* (so a list inside it is doubled);
* `mergeIPAMConfig` (rewritten by a `fix:` commit) merges pools by subnet: `ipamFold`.
  The pre-fix behaviours are kept as witnesses in `Neg/C04.lean`.

Go maps are association lists iterated in list order (DESIGN §2.2).  Recursion takes a depth fuel
because `mergeDependsOn` / `mergeNetworks` / `mergeIPAMConfig` first *convert* a list into a mapping
(not a sub-term of the override); `mergeYaml` is structurally recursive on that fuel and hands
`mergeYaml fuel` to the (structurally recursive) loops, so everything reduces in the kernel.
Every theorem in `Props/C04.lean` holds for every fuel.
-/
namespace CV.Merge
open CV CV.Val

/-- outcome of a modelled Go function: value, error class, or panic at a named Go function -/
inductive Out (α : Type) where
  | ok (a : α)
  | err (e : String)
  | panic (site : String)
deriving Repr, BEq

namespace Out
def bind {α β : Type} (x : Out α) (f : α → Out β) : Out β :=
  match x with
  | .ok a => f a
  | .err e => .err e
  | .panic s => .panic s
def isOk {α : Type} : Out α → Bool
  | .ok _ => true
  | _ => false
end Out

instance : Monad Out where
  pure := .ok
  bind := Out.bind

/-! ## `tree.Path.Next`, kernel-reducible (the shared `TPath.next` uses `String.replace`/`splitOn`,
which `decide` cannot evaluate); tied to the real `tree.Path` by the `pathNext` correspondence op. -/

def ghostChars : List Char := ['👻']

def escChars : List Char → List Char
  | [] => []
  | c :: r => if c = '.' then ghostChars ++ escChars r else c :: escChars r

/-- `strings.ReplaceAll(part, ".", "👻")` -/
def esc (s : String) : String := String.ofList (escChars s.toList)

/-- `strings.Split(s, ".")` on code points -/
def splitDotsAux : List Char → List Char → List String
  | [], cur => [String.ofList cur.reverse]
  | c :: r, cur => if c = '.' then String.ofList cur.reverse :: splitDotsAux r [] else splitDotsAux r (c :: cur)

def splitDots (s : String) : List String := splitDotsAux s.toList []

/-- `p.Next(part)`: at the root the part is not escaped (and is later split on dots by `Parts()`) -/
def next (p : TPath) (part : String) : TPath :=
  if p = TPath.root then splitDots part else p ++ [esc part]

/-! ## rules -/

inductive Rule where
  | toSeq | override | dependsOn | networks | build | logging | ulimit | extraHosts | ipam
  | unknown
deriving Repr, BEq, DecidableEq

/-- Go function name (as extracted by the translator) ↦ modelled merger -/
def ruleOfName : String → Option Rule
  | "mergeToSequence" => some .toSeq
  | "override" => some .override
  | "mergeDependsOn" => some .dependsOn
  | "mergeNetworks" => some .networks
  | "mergeBuild" => some .build
  | "mergeLogging" => some .logging
  | "mergeUlimit" => some .ulimit
  | "mergeExtraHosts" => some .extraHosts
  | "mergeIPAMConfig" => some .ipam
  | _ => none

/-- `for pattern, merger := range mergeSpecials { if p.Matches(pattern) {…} }` -/
def ruleAtIn (table : List (List String × String)) (p : TPath) : Option Rule :=
  match TPath.firstMatch table p with
  | none => none
  | some n => some ((ruleOfName n).getD .unknown)

def ruleAt (p : TPath) : Option Rule := ruleAtIn CV.Gen.mergeSpecials p

/-! ## `fmt.Sprintf("%v", x)` on trees -/

def insertStr (s : String) : List String → List String
  | [] => [s]
  | t :: r => if s ≤ t then s :: t :: r else t :: insertStr s r

/-- `slices.SortFunc(seq, cmp.Compare)` on strings -/
def sortStrs : List String → List String
  | [] => []
  | s :: r => insertStr s (sortStrs r)

def insertKS (e : String × String) : List (String × String) → List (String × String)
  | [] => [e]
  | t :: r => if e.1 ≤ t.1 then e :: t :: r else t :: insertKS e r

def sortKS : List (String × String) → List (String × String)
  | [] => []
  | s :: r => insertKS s (sortKS r)

mutual
/-- `%v` (maps print with sorted keys, as `fmt` does) -/
def fmtV : Val → String
  | .null => "<nil>"
  | .bool b => if b then "true" else "false"
  | .int i => toString i
  | .float s => s
  | .str s => s
  | .seq xs => "[" ++ " ".intercalate (fmtVs xs) ++ "]"
  | .map kvs => "map[" ++ " ".intercalate ((sortKS (fmtKVs kvs)).map fun e => e.1 ++ ":" ++ e.2) ++ "]"
def fmtVs : List Val → List String
  | [] => []
  | x :: r => fmtV x :: fmtVs r
def fmtKVs : List (String × Val) → List (String × String)
  | [] => []
  | (k, v) :: r => (k, fmtV v) :: fmtKVs r
end

/-! ## conversions -/

/-- the strings one mapping entry contributes in `convertIntoSequence` -/
def entryStrs (k : String) : Val → List String
  | .null => [k]
  | .seq xs => xs.map fun x => k ++ "=" ++ fmtV x
  | v => [k ++ "=" ++ fmtV v]

def mapStrs : KVs → List String
  | [] => []
  | (k, v) :: r => entryStrs k v ++ mapStrs r

/-- `convertIntoSequence`; `none` = Go `nil` slice (appends like the empty list) -/
def intoSeq : Val → Option (List Val)
  | .map kvs => some ((sortStrs (mapStrs kvs)).map Val.str)
  | .seq xs => some xs
  | .str s => some [.str s]
  | _ => none

def seqOf (v : Val) : List Val := (intoSeq v).getD []

/-- the `[]any` branch of `convertIntoMapping`: a non-string item is an error -/
def listIntoMap (dflt : Val) : List Val → KVs → Out KVs
  | [], acc => .ok acc
  | .str s :: r, acc => listIntoMap dflt r (insert s dflt acc)
  | _ :: _, _ => .err "unexpectedType"

/-- `convertIntoMapping(a, defaultValue, p)`: null is the empty mapping, a list of names becomes a mapping whose
values are `dflt` (`nil`, or a fresh copy of the default mapping), anything else is "cannot override" -/
def intoMap (dflt : Val) : Val → Out KVs
  | .null => .ok []
  | .map kvs => .ok kvs
  | .seq xs => listIntoMap dflt xs []
  | _ => .err "cannotOverride"

/-- `sameScalar(d, o)`: Go `==` on two interface values, except that a mapping or a sequence is never "the same" -/
def sameScalar : Val → Val → Bool
  | .null, .null => true
  | .bool a, .bool b => a == b
  | .int a, .int b => a == b
  | .float a, .float b => a == b
  | .str a, .str b => a == b
  | _, _ => false

/-- the filtering loop of `mergeExtraHosts`: the override's entries that the base does not already have -/
def keepNew (right : List Val) : List Val → List Val
  | [] => []
  | v :: r => if right.any (fun x => sameScalar x v) then keepNew right r else v :: keepNew right r

def dependsOnDefault : Val := .map [("condition", .str "service_started"), ("required", .bool true)]

/-- `toBuild` of `mergeBuild` -/
def toBuild : Val → Out KVs
  | .null => .ok []
  | .str s => .ok [("context", .str s)]
  | .map kvs => .ok kvs
  | _ => .err "cannotOverride"

def hasXPrefix (k : String) : Bool :=
  match k.toList with
  | 'x' :: '-' :: _ => true
  | _ => false

def subnetOf (m : KVs) : Val := (lookup "subnet" m).getD .null

def poolsOf : List Val → Out (List KVs)
  | [] => .ok []
  | x :: r => (intoMap .null x).bind fun m => (poolsOf r).bind fun ms => .ok (m :: ms)

/-- `ipamPools(v, path)` -/
def ipamPools : Val → Out (List KVs)
  | .null => .ok []
  | .seq xs => poolsOf xs
  | _ => .err "cannotOverride"

/-- `slices.IndexFunc(ipamConfigs, func(a) bool { return sameScalar(a["subnet"], s) })` -/
def ipamIndex (s : Val) : List KVs → Nat → Option Nat
  | [], _ => none
  | m :: r, i => if sameScalar (subnetOf m) s then some i else ipamIndex s r (i + 1)

def listSet {α : Type} : List α → Nat → α → List α
  | [], _, _ => []
  | _ :: r, 0, x => x :: r
  | a :: r, n + 1, x => a :: listSet r n x

/-- `mergeMappings(mapping, other, p)`: `for k, v := range other {…}` in list order; `f` is the recursive
`mergeYaml` call (one level less fuel) -/
def mergeKVsWith (f : Val → Val → TPath → Out Val) : KVs → KVs → TPath → Out KVs
  | a, [], _ => .ok a
  | a, (k, v) :: r, p =>
    match lookup k a with
    | none => mergeKVsWith f (insert k v a) r p
    | some e =>
      if hasXPrefix k then mergeKVsWith f (insert k v a) r p
      else (f e v (next p k)).bind fun m => mergeKVsWith f (insert k m a) r p

/-- the override loop of `mergeIPAMConfig`: a pool with the subnet of an existing pool is merged into it, any
other pool is appended -/
def ipamFold (mk : KVs → KVs → TPath → Out KVs) : List KVs → List KVs → TPath → Out (List KVs)
  | cfgs, [], _ => .ok cfgs
  | cfgs, left :: rest, p =>
    match ipamIndex (subnetOf left) cfgs 0 with
    | none => ipamFold mk (cfgs ++ [left]) rest p
    | some i => (mk (cfgs[i]?.getD []) left p).bind fun m => ipamFold mk (listSet cfgs i m) rest p

/-- `mergeIPAMConfig` -/
def ipamStep (mk : KVs → KVs → TPath → Out KVs) (e o : Val) (p : TPath) : Out Val :=
  (ipamPools e).bind fun base =>
  (ipamPools o).bind fun other =>
  (ipamFold mk base other p).bind fun cfgs => .ok (.seq (cfgs.map Val.map))

/-- `mergeLogging` -/
def loggingStep (mk : KVs → KVs → TPath → Out KVs) (e o : Val) (p : TPath) : Out Val :=
  match e, o with
  | .null, _ => .ok o
  | _, .null => .ok e
  | .map config, .map other =>
    let d := lookup "driver" other
    let c := lookup "driver" config
    if sameScalar (d.getD .null) (c.getD .null) || d.isNone || c.isNone then (mk config other p).bind fun m => .ok (.map m)
    else .ok o
  | _, _ => .err "cannotOverride"

/-- the default rules of `mergeYaml` (no special merger at the path) -/
def defaultStep (mk : KVs → KVs → TPath → Out KVs) (e o : Val) (p : TPath) : Out Val :=
  match o with
  | .null => .ok e
  | _ =>
    match e, o with
    | .map a, .map b => (mk a b p).bind fun m => .ok (.map m)
    | .map _, _ => .err "cannotOverride"
    | .seq a, .seq b => .ok (.seq (a ++ b))
    | .seq _, _ => .err "cannotOverride"
    | _, _ => .ok o

/-- both sides converted to mappings (first the base, then the override), then `mergeMappings` -/
def convMerge (mk : KVs → KVs → TPath → Out KVs) (conv : Val → Out KVs) (e o : Val) (p : TPath) : Out Val :=
  (conv e).bind fun r => (conv o).bind fun l => (mk r l p).bind fun m => .ok (.map m)

/-- one application of a special merger -/
def specialStep (mk : KVs → KVs → TPath → Out KVs) (r : Rule) (e o : Val) (p : TPath) : Out Val :=
  match r with
  | .toSeq => .ok (.seq (seqOf e ++ seqOf o))
  | .override => .ok o
  | .ulimit =>
    match o with
    | .map kvs => (mk kvs kvs p).bind fun m => .ok (.map m)
    | _ => .ok o
  | .extraHosts => .ok (.seq (seqOf e ++ keepNew (seqOf e) (seqOf o)))
  | .dependsOn => convMerge mk (intoMap dependsOnDefault) e o p
  | .networks => convMerge mk (intoMap .null) e o p
  | .build => convMerge mk toBuild e o p
  | .logging => loggingStep mk e o p
  | .ipam => ipamStep mk e o p
  | .unknown => .err "unknown-merger"

/-- the body of `mergeYaml`: a special merger if a row of the table matches the path, else the default rules;
`mk` is `mergeMappings` with the recursive call inside -/
def mergeStep (mk : KVs → KVs → TPath → Out KVs) (e o : Val) (p : TPath) : Out Val :=
  match ruleAt p with
  | some r => specialStep mk r e o p
  | none => defaultStep mk e o p

/-- `mergeYaml(e, o, p)`; structural recursion on the fuel -/
def mergeYaml : Nat → Val → Val → TPath → Out Val
  | 0, _, _, _ => .panic "fuel"
  | fuel + 1, e, o, p => mergeStep (mergeKVsWith (mergeYaml fuel)) e o p

/-- `mergeMappings(mapping, other, p)` with `fuel` levels of recursion left below it -/
def mergeKVs (fuel : Nat) : KVs → KVs → TPath → Out KVs := mergeKVsWith (mergeYaml fuel)

/-! nesting depth of a tree (used only to pick a fuel) -/
mutual
def depth : Val → Nat
  | .seq xs => 1 + depthL xs
  | .map kvs => 1 + depthKV kvs
  | _ => 0
def depthL : List Val → Nat
  | [] => 0
  | x :: r => max (depth x) (depthL r)
def depthKV : List (String × Val) → Nat
  | [] => 0
  | (_, v) :: r => max (depth v) (depthKV r)
end

/-- enough fuel for the override `o`: every recursive call descends one level of `o`, except that a
converted `depends_on` / `networks` / ipam entry adds at most three levels -/
def fuelFor (o : Val) : Nat := depth o + 8

/-- `override.Merge(right, left)` -/
def merge (base over : Val) : Out Val :=
  match base, over with
  | .map _, .map _ => mergeYaml (fuelFor over) base over TPath.root
  | _, _ => .err "top-level"

/-- `override.ExtendService(base, override)`: the same merge, rooted at `services.x` -/
def extendService (base over : Val) : Out Val :=
  match base, over with
  | .map _, .map _ => mergeYaml (fuelFor over) base over ["services", "x"]
  | _, _ => .err "top-level"

end CV.Merge
