import ComposeVerif.Model.Val
import ComposeVerif.Model.Path
import ComposeVerif.Gen.Tables
/-!
# `override.Merge` / `override.ExtendService` (override/merge.go, override/extends.go)

The model mirrors the Go code function by function, quirks included:

* the rule applied at a path is the first row of the *regenerated* table `CV.Gen.mergeSpecials`
  whose pattern matches (`ruleAt`); the handler name is mapped to a `Rule` by `ruleOfName`
  (an unknown Go function becomes `Rule.unknown`, which no theorem accepts);
* a special rule is consulted *before* the `o == nil` test, so `mergeToSequence x nil = x`-as-list,
  `override x nil = nil`, `mergeLogging x nil` panics, …;
* unchecked type assertions, the nil-map store of `mergeMappings(nil, non-empty)` and `==` on two
  slices / two maps are explicit `panic site` outcomes (`site` = the Go function that panics);
* `mergeUlimit` merges the override mapping *with itself* (so a list inside it is doubled);
* `mergeIPAMConfig` keeps mutating the same `right` map across the inner loop, and the entries it
  appended as `merged` alias that map: modelled with `none` = "alias of the current `right`".

Go maps are association lists iterated in list order (DESIGN §2.2).  Recursion takes a depth fuel
because `mergeDependsOn` / `mergeNetworks` / `mergeIPAMConfig` first *convert* a list into a mapping
(not a sub-term of the override); `mergeYaml` is structurally recursive on that fuel and hands
`mergeYaml fuel` to the (structurally recursive) loops, so everything reduces in the kernel.
Every theorem in `Props/C04.lean` holds for every fuel.
-/
namespace CV.Merge
open CV CV.Val

/-- outcome of a modelled Go function: value, error class, or panic at a named Go function -/
inductive Out (α : Type) where
  | ok (a : α)
  | err (e : String)
  | panic (site : String)
deriving Repr, BEq

namespace Out
def bind {α β : Type} (x : Out α) (f : α → Out β) : Out β :=
  match x with
  | .ok a => f a
  | .err e => .err e
  | .panic s => .panic s
def isOk {α : Type} : Out α → Bool
  | .ok _ => true
  | _ => false
end Out

instance : Monad Out where
  pure := .ok
  bind := Out.bind

/-! ## `tree.Path.Next`, kernel-reducible (the shared `TPath.next` uses `String.replace`/`splitOn`,
which `decide` cannot evaluate); tied to the real `tree.Path` by the `pathNext` correspondence op. -/

def ghostChars : List Char := ['👻']

def escChars : List Char → List Char
  | [] => []
  | c :: r => if c = '.' then ghostChars ++ escChars r else c :: escChars r

/-- `strings.ReplaceAll(part, ".", "👻")` -/
def esc (s : String) : String := String.ofList (escChars s.toList)

/-- `strings.Split(s, ".")` on code points -/
def splitDotsAux : List Char → List Char → List String
  | [], cur => [String.ofList cur.reverse]
  | c :: r, cur => if c = '.' then String.ofList cur.reverse :: splitDotsAux r [] else splitDotsAux r (c :: cur)

def splitDots (s : String) : List String := splitDotsAux s.toList []

/-- `p.Next(part)`: at the root the part is not escaped (and is later split on dots by `Parts()`) -/
def next (p : TPath) (part : String) : TPath :=
  if p = TPath.root then splitDots part else p ++ [esc part]

/-! ## rules -/

inductive Rule where
  | toSeq | override | dependsOn | networks | build | logging | ulimit | extraHosts | ipam
  | unknown
deriving Repr, BEq, DecidableEq

/-- Go function name (as extracted by the translator) ↦ modelled merger -/
def ruleOfName : String → Option Rule
  | "mergeToSequence" => some .toSeq
  | "override" => some .override
  | "mergeDependsOn" => some .dependsOn
  | "mergeNetworks" => some .networks
  | "mergeBuild" => some .build
  | "mergeLogging" => some .logging
  | "mergeUlimit" => some .ulimit
  | "mergeExtraHosts" => some .extraHosts
  | "mergeIPAMConfig" => some .ipam
  | _ => none

/-- `for pattern, merger := range mergeSpecials { if p.Matches(pattern) {…} }` -/
def ruleAtIn (table : List (List String × String)) (p : TPath) : Option Rule :=
  match TPath.firstMatch table p with
  | none => none
  | some n => some ((ruleOfName n).getD .unknown)

def ruleAt (p : TPath) : Option Rule := ruleAtIn CV.Gen.mergeSpecials p

/-! ## `fmt.Sprintf("%v", x)` on trees -/

def insertStr (s : String) : List String → List String
  | [] => [s]
  | t :: r => if s ≤ t then s :: t :: r else t :: insertStr s r

/-- `slices.SortFunc(seq, cmp.Compare)` on strings -/
def sortStrs : List String → List String
  | [] => []
  | s :: r => insertStr s (sortStrs r)

def insertKS (e : String × String) : List (String × String) → List (String × String)
  | [] => [e]
  | t :: r => if e.1 ≤ t.1 then e :: t :: r else t :: insertKS e r

def sortKS : List (String × String) → List (String × String)
  | [] => []
  | s :: r => insertKS s (sortKS r)

mutual
/-- `%v` (maps print with sorted keys, as `fmt` does) -/
def fmtV : Val → String
  | .null => "<nil>"
  | .bool b => if b then "true" else "false"
  | .int i => toString i
  | .float s => s
  | .str s => s
  | .seq xs => "[" ++ " ".intercalate (fmtVs xs) ++ "]"
  | .map kvs => "map[" ++ " ".intercalate ((sortKS (fmtKVs kvs)).map fun e => e.1 ++ ":" ++ e.2) ++ "]"
def fmtVs : List Val → List String
  | [] => []
  | x :: r => fmtV x :: fmtVs r
def fmtKVs : List (String × Val) → List (String × String)
  | [] => []
  | (k, v) :: r => (k, fmtV v) :: fmtKVs r
end

/-! ## conversions -/

/-- the strings one mapping entry contributes in `convertIntoSequence` -/
def entryStrs (k : String) : Val → List String
  | .null => [k]
  | .seq xs => xs.map fun x => k ++ "=" ++ fmtV x
  | v => [k ++ "=" ++ fmtV v]

def mapStrs : KVs → List String
  | [] => []
  | (k, v) :: r => entryStrs k v ++ mapStrs r

/-- `convertIntoSequence`; `none` = Go `nil` slice (appends like the empty list) -/
def intoSeq : Val → Option (List Val)
  | .map kvs => some ((sortStrs (mapStrs kvs)).map Val.str)
  | .seq xs => some xs
  | .str s => some [.str s]
  | _ => none

def seqOf (v : Val) : List Val := (intoSeq v).getD []

/-- the `[]any` branch of `convertIntoMapping` -/
def listIntoMap (dflt : Val) : List Val → KVs → Out KVs
  | [], acc => .ok acc
  | .str s :: r, acc => listIntoMap dflt r (insert s dflt acc)
  | _ :: _, _ => .panic "override.convertIntoMapping"

/-- `convertIntoMapping(a, defaultValue)`; `ok none` = Go `nil` map. `dflt` is the value stored per key
(`nil`, or a fresh copy of the default mapping) -/
def intoMap (dflt : Val) : Val → Out (Option KVs)
  | .map kvs => .ok (some kvs)
  | .seq xs => (listIntoMap dflt xs []).bind fun m => .ok (some m)
  | _ => .ok none

/-- Go `==` on two interface values; `none` = run-time panic (both operands of the same uncomparable type) -/
def ifaceEq : Val → Val → Option Bool
  | .seq _, .seq _ => none
  | .map _, .map _ => none
  | .null, .null => some true
  | .bool a, .bool b => some (a == b)
  | .int a, .int b => some (a == b)
  | .float a, .float b => some (a == b)
  | .str a, .str b => some (a == b)
  | _, _ => some false

/-- `slices.Contains(xs, v)` with interface `==` (stops at the first hit) -/
def containsIface (v : Val) : List Val → Option Bool
  | [] => some false
  | x :: xs =>
    match ifaceEq x v with
    | none => none
    | some true => some true
    | some false => containsIface v xs

/-- the filtering loop of `mergeExtraHosts` -/
def keepNew (right : List Val) : List Val → Option (List Val)
  | [] => some []
  | v :: r =>
    match containsIface v right with
    | none => none
    | some true => keepNew right r
    | some false => (keepNew right r).map (v :: ·)

def dependsOnDefault : Val := .map [("condition", .str "service_started"), ("required", .bool true)]

/-- `toBuild` of `mergeBuild` -/
def toBuild : Val → Option KVs
  | .str s => some [("context", .str s)]
  | .map kvs => some kvs
  | _ => none

def hasXPrefix (k : String) : Bool :=
  match k.toList with
  | 'x' :: '-' :: _ => true
  | _ => false

/-- `m["subnet"]` on a possibly-nil map -/
def subnetOf (m : Option KVs) : Val :=
  match m with
  | none => .null
  | some kvs => (lookup "subnet" kvs).getD .null

/-- state of `mergeIPAMConfig`: `ipamConfigs` (entry `none` = the very map object `right`, which later
merges keep mutating) and the current `right` (`none` = nil map) -/
structure IpamSt where
  configs : List (Option KVs)
  right : Option KVs

def IpamSt.entry (st : IpamSt) (e : Option KVs) : KVs :=
  match e with
  | some m => m
  | none => st.right.getD []

/-- `slices.IndexFunc(ipamConfigs, func(a) bool { return a["subnet"] == s })`; outer `none` = panic -/
def ipamIndex (st : IpamSt) (s : Val) : List (Option KVs) → Nat → Option (Option Nat)
  | [], _ => some none
  | e :: r, i =>
    match ifaceEq ((lookup "subnet" (st.entry e)).getD .null) s with
    | none => none
    | some true => some (some i)
    | some false => ipamIndex st s r (i + 1)

def listSet {α : Type} : List α → Nat → α → List α
  | [], _, _ => []
  | _ :: r, 0, x => x :: r
  | a :: r, n + 1, x => a :: listSet r n x

/-- `mergeMappings(mapping, other, p)`: `for k, v := range other {…}` in list order; `f` is the recursive
`mergeYaml` call (one level less fuel) -/
def mergeKVsWith (f : Val → Val → TPath → Out Val) : KVs → KVs → TPath → Out KVs
  | a, [], _ => .ok a
  | a, (k, v) :: r, p =>
    match lookup k a with
    | none => mergeKVsWith f (insert k v a) r p
    | some e =>
      if hasXPrefix k then mergeKVsWith f (insert k v a) r p
      else (f e v (next p k)).bind fun m => mergeKVsWith f (insert k m a) r p

/-- `mergeMappings` on possibly-nil maps: a store into a nil map panics -/
def mergeOptMapsWith (mk : KVs → KVs → TPath → Out KVs) : Option KVs → Option KVs → TPath → Out Val
  | some a, some b, p => (mk a b p).bind fun m => .ok (.map m)
  | some a, none, _ => .ok (.map a)
  | none, some (_ :: _), _ => .panic "override.mergeMappings"
  | none, _, _ => .ok (.map [])

/-- inner loop of `mergeIPAMConfig`: `for _, override := range o.([]any)` -/
def ipamInnerWith (mk : KVs → KVs → TPath → Out KVs) : List Val → IpamSt → TPath → Out IpamSt
  | [], st, _ => .ok st
  | ov :: rest, st, p =>
    (intoMap .null ov).bind fun left =>
    match ifaceEq (subnetOf left) (subnetOf st.right) with
    | none => .panic "override.mergeIPAMConfig"
    | some same =>
      let doMerge : Unit → Out IpamSt := fun _ =>
        (match st.right, left with
          | some a, some b => (mk a b p).bind fun m => .ok (some m)
          | some a, none => .ok (some a)
          | none, some (_ :: _) => .panic "override.mergeMappings"
          | none, _ => .ok none : Out (Option KVs)).bind fun merged =>
        let st1 : IpamSt := ⟨st.configs, merged⟩
        -- a nil `right` stays nil; `merged` is the same object as `right` otherwise
        let entry : Option KVs := match merged with | none => some [] | some _ => none
        match ipamIndex st1 (subnetOf merged) st1.configs 0 with
        | none => .panic "override.mergeIPAMConfig"
        | some (some i) => ipamInnerWith mk rest ⟨listSet st1.configs i entry, merged⟩ p
        | some none => ipamInnerWith mk rest ⟨st1.configs ++ [entry], merged⟩ p
      if same then doMerge ()
      else
        match ipamIndex st (subnetOf left) st.configs 0 with
        | none => .panic "override.mergeIPAMConfig"
        | some none => ipamInnerWith mk rest ⟨st.configs ++ [some (left.getD [])], st.right⟩ p
        | some (some _) => doMerge ()

/-- outer loop of `mergeIPAMConfig`: `for _, original := range c.([]any)` -/
def ipamOuterWith (mk : KVs → KVs → TPath → Out KVs) : List Val → Val → IpamSt → TPath → Out Val
  | [], _, st, _ => .ok (.seq (st.configs.map fun e => .map (st.entry e)))
  | original :: rest, o, st, p =>
    (intoMap .null original).bind fun right =>
    match o with
    | .seq os =>
      (ipamInnerWith mk os ⟨st.configs, right⟩ p).bind fun st' =>
      -- `right` goes out of scope: the entries aliasing it are frozen
      ipamOuterWith mk rest o ⟨st'.configs.map fun e => some (st'.entry e), none⟩ p
    | _ => .panic "override.mergeIPAMConfig"

/-- `mergeLogging` -/
def loggingStep (mk : KVs → KVs → TPath → Out KVs) (e o : Val) (p : TPath) : Out Val :=
  match e, o with
  | .map config, .map other =>
    let d := lookup "driver" other
    let c := lookup "driver" config
    match ifaceEq (d.getD .null) (c.getD .null) with
    | none => .panic "override.mergeLogging"
    | some eq =>
      if eq || d.isNone || c.isNone then (mk config other p).bind fun m => .ok (.map m)
      else .ok o
  | _, _ => .panic "override.mergeLogging"

/-- the default rules of `mergeYaml` (no special merger at the path) -/
def defaultStep (mk : KVs → KVs → TPath → Out KVs) (e o : Val) (p : TPath) : Out Val :=
  match o with
  | .null => .ok e
  | _ =>
    match e, o with
    | .map a, .map b => (mk a b p).bind fun m => .ok (.map m)
    | .map _, _ => .err "cannotOverride"
    | .seq a, .seq b => .ok (.seq (a ++ b))
    | .seq _, _ => .err "cannotOverride"
    | _, _ => .ok o

/-- one application of a special merger -/
def specialStep (mk : KVs → KVs → TPath → Out KVs) (r : Rule) (e o : Val) (p : TPath) : Out Val :=
  match r with
  | .toSeq => .ok (.seq (seqOf e ++ seqOf o))
  | .override => .ok o
  | .ulimit =>
    match o with
    | .map kvs => (mk kvs kvs p).bind fun m => .ok (.map m)
    | _ => .ok o
  | .extraHosts =>
    match keepNew (seqOf e) (seqOf o) with
    | none => .panic "override.mergeExtraHosts"
    | some l => .ok (.seq (seqOf e ++ l))
  | .dependsOn =>
    (intoMap dependsOnDefault e).bind fun r =>
    (intoMap dependsOnDefault o).bind fun l =>
    mergeOptMapsWith mk r l p
  | .networks =>
    (intoMap .null e).bind fun r =>
    (intoMap .null o).bind fun l =>
    mergeOptMapsWith mk r l p
  | .build => mergeOptMapsWith mk (toBuild e) (toBuild o) p
  | .logging => loggingStep mk e o p
  | .ipam =>
    match e with
    | .seq cs => ipamOuterWith mk cs o ⟨[], none⟩ p
    | _ => .panic "override.mergeIPAMConfig"
  | .unknown => .err "unknown-merger"

/-- the body of `mergeYaml`: a special merger if a row of the table matches the path, else the default rules;
`mk` is `mergeMappings` with the recursive call inside -/
def mergeStep (mk : KVs → KVs → TPath → Out KVs) (e o : Val) (p : TPath) : Out Val :=
  match ruleAt p with
  | some r => specialStep mk r e o p
  | none => defaultStep mk e o p

/-- `mergeYaml(e, o, p)`; structural recursion on the fuel -/
def mergeYaml : Nat → Val → Val → TPath → Out Val
  | 0, _, _, _ => .panic "fuel"
  | fuel + 1, e, o, p => mergeStep (mergeKVsWith (mergeYaml fuel)) e o p

/-- `mergeMappings(mapping, other, p)` with `fuel` levels of recursion left below it -/
def mergeKVs (fuel : Nat) : KVs → KVs → TPath → Out KVs := mergeKVsWith (mergeYaml fuel)

/-! nesting depth of a tree (used only to pick a fuel) -/
mutual
def depth : Val → Nat
  | .seq xs => 1 + depthL xs
  | .map kvs => 1 + depthKV kvs
  | _ => 0
def depthL : List Val → Nat
  | [] => 0
  | x :: r => max (depth x) (depthL r)
def depthKV : List (String × Val) → Nat
  | [] => 0
  | (_, v) :: r => max (depth v) (depthKV r)
end

/-- enough fuel for the override `o`: every recursive call descends one level of `o`, except that a
converted `depends_on` / `networks` / ipam entry adds at most three levels -/
def fuelFor (o : Val) : Nat := depth o + 8

/-- `override.Merge(right, left)` -/
def merge (base over : Val) : Out Val :=
  match base, over with
  | .map _, .map _ => mergeYaml (fuelFor over) base over TPath.root
  | _, _ => .err "top-level"

/-- `override.ExtendService(base, override)`: the same merge, rooted at `services.x` -/
def extendService (base over : Val) : Out Val :=
  match base, over with
  | .map _, .map _ => mergeYaml (fuelFor over) base over ["services", "x"]
  | _, _ => .err "top-level"

end CV.Merge
