import ComposeVerif.Model.Name
/-!
# Model of the loader-level entry of the project-name decision (C17, round 5)

`Model/Name.lean` follows the name through `cli.NewProjectOptions … LoadProject`, where `loader.projectName` is
always entered with what `withNamePrecedenceLoad` computed.  The loader has its own public entry
(`loader.LoadWithContext` / `LoadModelWithContext` with `Options.SetProjectName(name, imperativelySet)`,
`Options.SkipInterpolation`, a `ConfigDetails.Environment` that may be nil).  This file models that entry in full:

* `projectNameL` is `loader.projectName` with **all** of its inputs: any `(name, imperativelySet)` pair (not only the
  pairs the cli produces), `SkipInterpolation` (the `name:` of the files is then taken as written), and — since the
  round-5 `fix:` — the normalisation of a name that was not set imperatively;
* `loadL` is `loader.LoadWithContext` observed at `Project.Name`, `Project.Environment` and one interpolated string;
  `env = none` is a nil `ConfigDetails.Environment` (the deferred export allocates the map);
* `loadX` / `runX` put the cli in front of it again, with `cli.WithInterpolation(b)` (an option that only appends a
  load option: the last call decides, whatever its position among the other options).
-/
namespace CV.Name
open CV

/-- the fields of `loader.Options` that `loader.projectName` reads -/
structure LOpts where
  /-- `projectName` -/
  name : Str := []
  /-- `projectNameImperativelySet` -/
  imperative : Bool := false
  /-- `SkipInterpolation` -/
  skipInterp : Bool := false
deriving Repr, DecidableEq

/-- `interp.Interpolate({"name": raw}, *opts.Interpolate)` unless `SkipInterpolation` -/
def interpName (env : Env) (skip : Bool) (raw : Str) : Except Err Str :=
  if skip then .ok raw else
    match Template.subst env.get raw with
    | .ok s => .ok s
    | .err _ => .error .interp
    | .panic _ => .error .panic

/-- `loader.projectName` (the value left in `opts.projectName`) -/
def projectNameL (files : List (List (Option Str))) (env : Env) (lo : LOpts) : Except Err Str :=
  if lo.imperative then
    if normalize lo.name ≠ lo.name then .error .invalidName else .ok lo.name
  else
    match interpName env lo.skipInterp (lastName files []) with
    | .error e => .error e
    | .ok s => if normalize s ≠ [] then .ok (normalize s) else .ok (normalize lo.name)

/-- what the load pipeline does to the strings of the model: nothing under `SkipInterpolation` -/
def pipeline (env : Env) (skip : Bool) (names : List Str) (probe : Str) : Except Err Str :=
  if skip then .ok probe else
    match interpAll env names with
    | .error e => .error e
    | .ok _ =>
      match Template.subst env.get probe with
      | .err _ => .error .interp
      | .panic _ => .error .panic
      | .ok p => .ok p

/-- `loader.LoadWithContext(ConfigDetails{files, Environment: env}, SetProjectName(lo.name, lo.imperative), …)` -/
def loadL (files : List (List (Option Str))) (env : Option Env) (lo : LOpts) (probe : Str) : Except Err Loaded :=
  match projectNameL files (env.getD []) lo with
  | .error e => .error e
  | .ok name =>
    match pipeline ((cpn, name) :: env.getD []) lo.skipInterp (allNames files) probe with
    | .error e => .error e
    | .ok p => if name = [] then .error .emptyName else .ok { name := name, env := (cpn, name) :: env.getD [], probe := p }

/-! ## the cli in front of it -/

/-- `cli.WithInterpolation(b)` appends `func(o){ o.SkipInterpolation = !b }` to the load options: the last call decides -/
def interpFlag (calls : List Bool) : Bool := calls.getLast?.getD true

/-- what `withNamePrecedenceLoad` + the `WithInterpolation` calls leave in `loader.Options` -/
def loptsOf (w : World) (o : PO) (skip : Bool) : LOpts :=
  { name := (cliName w o).1, imperative := (cliName w o).2, skipInterp := skip }

/-- `ProjectOptions.LoadProject` with the interpolation switch -/
def loadX (w : World) (o : PO) (skip : Bool) : Except Err Loaded :=
  match o.configs with
  | [] => .error .noConfig
  | _ :: _ =>
    match readConfigs w o.configs with
    | .error e => .error e
    | .ok files => loadL files (some o.env) (loptsOf w o skip) w.probe

/-- `NewProjectOptions(given, opts… ∪ WithInterpolation(b)…)` then `LoadProject` -/
def runX (w : World) (opts : List Opt) (interps : List Bool) : Except Err Loaded :=
  match runOpts w opts { configs := w.given } with
  | .ok o => loadX w o (!interpFlag interps)
  | .error e => .error e

/-- `cli.WithEnvFile(file)` (deprecated): `WithEnvFiles(file)`, and `WithEnvFiles()` for the empty path -/
def withEnvFileOpt (f : Str) : Opt := .withEnvFiles (if f = [] then [] else [f])

end CV.Name
