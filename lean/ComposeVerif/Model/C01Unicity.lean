import ComposeVerif.Model.Val
/-!
# C01 — the `seq` / `keys` loop of `override.enforceUnicity` with its index bookkeeping (round 5)

```go
seq := []any{}
keys := map[string]int{}
for i, entry := range v {
    key, err := indexer(entry, …)            // errors: C04's `Unicity.index`
    if j, ok := keys[key]; ok {
        seq[j] = entry                        // ← unchecked index: runtime panic when j ≥ len(seq)
    } else {
        seq = append(seq, entry)
        keys[key] = len(seq) - 1
    }
}
```

C04's model (`Unicity.dedup`) states the *result* of this loop as `foldl insert` on an association list, where the
store `seq[j] = entry` cannot go wrong by construction.  C01's clause — never a crash — is about exactly that store:
here the loop is modelled as the code runs it, with the recorded indices and a `panic` outcome for an index outside
the slice.  `Props/C01Unicity.lean` proves the panic unreachable (invariant: every recorded index is inside `seq`) and
that the result is C04's `dedup` (so the two models describe the same function).  The position written by the
`else` branch is a parameter (`recordedIndex`) so that the statement "the index recorded is the index of the appended
element" is visible: the code's choice is `len(seq) - 1` after the append.
-/
namespace CV.C01.Uniq
open CV

/-- `seq`, and `keys` as the list of stores in reverse order (a Go map written once per key) -/
structure St where
  seq : List Val
  keys : List (String × Nat)
deriving Repr

def lookupIdx (k : String) : List (String × Nat) → Option Nat
  | [] => none
  | (k', j) :: r => if k = k' then some j else lookupIdx k r

/-- one iteration, the index to record given as a function of (iteration number, `seq` after the append);
`none` = `seq[j] = entry` with `j` out of range (runtime panic in `override.enforceUnicity`) -/
def stepWith (recorded : Nat → List Val → Nat) (i : Nat) (st : St) (key : String) (entry : Val) : Option St :=
  match lookupIdx key st.keys with
  | some j => if j < st.seq.length then some { st with seq := st.seq.set j entry } else none
  | none =>
    let seq' := st.seq ++ [entry]
    some { seq := seq', keys := (key, recorded i seq') :: st.keys }

def loopWith (recorded : Nat → List Val → Nat) : Nat → St → List (String × Val) → Option St
  | _, st, [] => some st
  | i, st, (k, e) :: r =>
    match stepWith recorded i st k e with
    | some st' => loopWith recorded (i + 1) st' r
    | none => none

/-- the code: `keys[key] = len(seq) - 1` -/
def recordedIndex (_ : Nat) (seq : List Val) : Nat := seq.length - 1

def step := stepWith recordedIndex
def loop (kes : List (String × Val)) : Option St := loopWith recordedIndex 0 ⟨[], []⟩ kes

inductive Out where
  | ok (seq : List Val)
  | panic (site : String)
deriving Repr

/-- the sequence case of `enforceUnicity` once the keys have been computed -/
def run (kes : List (String × Val)) : Out :=
  match loop kes with
  | some st => .ok st.seq
  | none => .panic "override.enforceUnicity"

/-- the slip of seeded change C01-6 (`keys[key] = i`), kept to show that the model can tell the difference -/
def recordedInputIndex (i : Nat) (_ : List Val) : Nat := i

def runInputIndex (kes : List (String × Val)) : Out :=
  match loopWith recordedInputIndex 0 ⟨[], []⟩ kes with
  | some st => .ok st.seq
  | none => .panic "override.enforceUnicity"

end CV.C01.Uniq
