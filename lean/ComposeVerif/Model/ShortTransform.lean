import ComposeVerif.Model.ShortParse
import ComposeVerif.Model.Val
import ComposeVerif.Model.PathK
import ComposeVerif.Gen.Tables
/-!
# `transform.Canonical` and its transformers on the untyped tree (C03)

Each Go transformer is one function on `Val`; `transform` dispatches on the regenerated table
`CV.Gen.transformers` by first match (list order; the table is pairwise exclusive, see Props/C03).
Unchecked type assertions of the Go code are `panic` outcomes.
-/
namespace CV.Short
open CV

inductive Out (α : Type) where
  | ok (a : α)
  | err (cls : String)      -- "parse": a short form that does not parse · "type": wrong node kind · "conflict"
  | panic (site : String)
deriving Repr, BEq

def sv (x : Str) : Val := .str (String.ofList x)

/-! ### encodings (`transform.encode`: mapstructure struct → map with `omitempty`) -/

def optStr (k : String) (x : Str) : List (String × Val) := if x = [] then [] else [(k, sv x)]
def optTrue (k : String) (b : Bool) : List (String × Val) := if b then [(k, .bool true)] else []

def encodeBind (b : Bind) : Val :=
  .map (optStr "selinux" b.selinux ++ optStr "propagation" b.propagation ++ optTrue "create_host_path" b.createHostPath)

def encodeVol (v : Vol) : Val :=
  .map (optStr "type" v.type ++ optStr "source" v.source ++ optStr "target" v.target ++ optTrue "read_only" v.readOnly
    ++ (match v.bind with | some b => [("bind", encodeBind b)] | none => [])
    ++ (match v.volume with | some nc => [("volume", Val.map (optTrue "nocopy" nc))] | none => []))

def encodePort (p : PortCfg) : Val :=
  .map ([("mode", Val.str "ingress")] ++ optStr "host_ip" p.hostIP
    ++ (if p.target = 0 then [] else [("target", Val.int p.target)])
    ++ optStr "published" p.published ++ optStr "protocol" p.protocol)

/-! ### leaf transformers -/

def transformStringOrList : Val → Out Val
  | .str s => .ok (.seq [.str s])
  | v => .ok v

def transformFileMount : Val → Out Val
  | .map m => .ok (.map m)
  | .str s => .ok (.map [("source", .str s)])
  | _ => .err "type"

def transformInclude : Val → Out Val
  | .map m => .ok (.map m)
  | .str s => .ok (.map [("path", .str s)])
  | _ => .err "type"

def transformUlimits : Val → Out Val
  | .map m => .ok (.map m)
  | .int i => .ok (.int i)
  | _ => .err "type"

def transformVolumeMount (ign : Bool) : Val → Out Val
  | .map m => .ok (.map m)
  | .str s =>
    match parseVolume s.toList with
    | none => if ign then .ok (.str s) else .err "parse"
    | some v => .ok (encodeVol { v with target := cleanTarget v.target })
  | _ => .err "type"

def transformDeviceMapping (ign : Bool) : Val → Out Val
  | .map m => .ok (.map m)
  | .str s =>
    let dev (src dst perm : Str) : Val :=
      .map [("source", sv src), ("target", sv (if dst = [] then src else dst)), ("permissions", sv perm)]
    match splitOn ':' s.toList with
    | [a] => .ok (dev a [] ['r', 'w', 'm'])
    | [a, b] => .ok (dev a b ['r', 'w', 'm'])
    | [a, b, c] => .ok (dev a b c)
    | _ => if ign then .ok (dev [] [] ['r', 'w', 'm']) else .err "parse"
  | _ => .err "type"

def portEntries (ign : Bool) : List Val → List Val → Option (Out (List Val))   -- `none` = "return data, nil"
  | [], acc => some (.ok acc)
  | .int i :: r, acc =>
    match parsePort (intToDec i) with
    | none => some (.err "parse")
    | some l => portEntries ign r (acc ++ l.map encodePort)
  | .str s :: r, acc =>
    match parsePort s.toList with
    | none => if ign then none else some (.err "parse")
    | some l => portEntries ign r (acc ++ l.map encodePort)
  | .map m :: r, acc => portEntries ign r (acc ++ [.map m])
  | _ :: _, _ => some (.err "type")

def transformPorts (ign : Bool) : Val → Out Val
  | .seq l =>
    match portEntries ign l [] with
    | none => .ok (.seq l)
    | some (.ok r) => .ok (.seq r)
    | some (.err e) => .err e
    | some (.panic e) => .panic e
  | _ => .err "type"

def hasKey (k : String) (m : Val.KVs) : Bool := (Val.lookup k m).isSome

def dependsDefaults (m : Val.KVs) : Val.KVs :=
  let m := if hasKey "condition" m then m else m ++ [("condition", .str "service_started")]
  if hasKey "required" m then m else m ++ [("required", .bool true)]

def dependsMap : Val.KVs → Out Val.KVs
  | [] => .ok []
  | (k, .map d) :: r =>
    match dependsMap r with
    | .ok r' => .ok ((k, .map (dependsDefaults d)) :: r')
    | e => e
  | _ :: _ => .err "type"

def dependsList : List Val → Val.KVs → Out Val.KVs
  | [], acc => .ok acc
  | .str k :: r, acc => dependsList r (Val.insert k (.map [("condition", .str "service_started"), ("required", .bool true)]) acc)
  | _ :: _, _ => .err "type"

def transformDependsOn : Val → Out Val
  | .map m => match dependsMap m with | .ok r => .ok (.map r) | .err e => .err e | .panic e => .panic e
  | .seq l => match dependsList l [] with | .ok r => .ok (.map r) | .err e => .err e | .panic e => .panic e
  | _ => .err "type"

def envFileValue : Val → Val
  | .str s => .map [("path", .str s), ("required", .bool true)]
  | .map m => .map (if hasKey "required" m then m else m ++ [("required", .bool true)])
  | _ => .null

def transformEnvFile : Val → Out Val
  | .str s => .ok (.seq [envFileValue (.str s)])
  | .seq l => .ok (.seq (l.map envFileValue))
  | _ => .err "type"

def networksList : List Val → Val.KVs → Out Val.KVs
  | [], acc => .ok acc
  | .str k :: r, acc => networksList r (Val.insert k .null acc)
  | _ :: _, _ => .err "type"

def transformServiceNetworks : Val → Out Val
  | .seq l => match networksList l [] with | .ok r => .ok (.map r) | .err e => .err e | .panic e => .panic e
  | v => .ok v

def sshList : List Val → Val.KVs → Out Val.KVs
  | [], acc => .ok acc
  | .str s :: r, acc =>
    match cutAt '=' s.toList with
    | none => if s = "default" then sshList r (Val.insert s .null acc) else .err "parse"
    | some (id, path) => sshList r (Val.insert (String.ofList id) (sv path) acc)
  | _ :: _, _ => .err "type"

def transformSSH : Val → Out Val
  | .map m => .ok (.map m)
  | .seq l => match sshList l [] with | .ok r => .ok (.map r) | .err e => .err e | .panic e => .panic e
  | _ => .err "type"

/-- `none` = "return data, nil" (ignoreParseError) -/
def kvList (ign : Bool) : List Val → Val.KVs → Option (Out Val.KVs)
  | [], acc => some (.ok acc)
  | .str s :: r, acc =>
    match cutAt '=' s.toList with
    | none => if ign then none else some (.err "parse")
    | some (k, v) => kvList ign r (Val.insert (String.ofList k) (sv v) acc)
  | _ :: _, _ => some (.err "type")   -- `e.(string)` checked since the C01 round-5 repair (was: panic transform.transformKeyValue)

def transformKeyValue (ign : Bool) : Val → Out Val
  | .map m => .ok (.map m)
  | .seq l =>
    match kvList ign l [] with
    | none => .ok (.seq l)
    | some (.ok r) => .ok (.map r)
    | some (.err e) => .err e
    | some (.panic e) => .panic e
  | _ => .err "type"

/-- the part of `transformMaybeExternal` after the recursive `transformMapping` -/
def externalFix (res : Val.KVs) : Out Val.KVs :=
  match Val.lookup "external" res with
  | some (.map ext) =>
    let res1 := Val.insert "external" (.bool true) res
    match Val.lookup "name" ext with
    | some extname =>
      match Val.lookup "name" res with
      | some name => if extname != name then .err "conflict" else .ok res1
      | none => .ok (Val.insert "name" extname res1)
    | none => .ok res1
  | _ => .ok res

/-! ### the recursive walk -/

def bindOut {α β : Type} (o : Out α) (f : α → Out β) : Out β :=
  match o with
  | .ok a => f a
  | .err e => .err e
  | .panic e => .panic e

/-- which handlers walk into the children of a mapping (`transformMapping`) -/
def recursesOnMap (h : Option String) : Bool :=
  h = none || h = some "transformService" || h = some "transformBuild" || h = some "transformExtends"
    || h = some "transformMaybeExternal"

/-- what the handler does with the already transformed children of a mapping -/
def postMap (h : Option String) (r : Val.KVs) : Out Val :=
  if h = some "transformMaybeExternal" then bindOut (externalFix r) (fun r' => .ok (.map r')) else .ok (.map r)

/-- every case of every handler that does not recurse -/
def leaf (h : Option String) (ign : Bool) (v : Val) : Out Val :=
  match h with
  | none => .ok v
  | some h =>
    if h = "transformService" then .ok v
    else if h = "transformBuild" then
      match v with
      | .str s => .ok (.map [("context", .str s)])
      | _ => .err "type"
    else if h = "transformExtends" then
      match v with
      | .str s => .ok (.map [("service", .str s)])
      | _ => .err "type"
    else if h = "transformMaybeExternal" then
      match v with
      | .null => .ok .null
      | _ => .err "type"
    else if h = "transformFileMount" then transformFileMount v
    else if h = "transformKeyValue" then transformKeyValue ign v
    else if h = "transformDependsOn" then transformDependsOn v
    else if h = "transformEnvFile" then transformEnvFile v
    else if h = "transformServiceNetworks" then transformServiceNetworks v
    else if h = "transformVolumeMount" then transformVolumeMount ign v
    else if h = "transformStringOrList" then transformStringOrList v
    else if h = "transformDeviceMapping" then transformDeviceMapping ign v
    else if h = "transformPorts" then transformPorts ign v
    else if h = "transformSSH" then transformSSH v
    else if h = "transformUlimits" then transformUlimits v
    else if h = "transformInclude" then transformInclude v
    else .err ("unknownHandler:" ++ h)

mutual
/-- `transform.transform` -/
def transform (ign : Bool) (p : TPath) : Val → Out Val
  | .map m =>
    if recursesOnMap (TPath.firstMatch CV.Gen.transformers p) then
      bindOut (transformKVs ign p m) (postMap (TPath.firstMatch CV.Gen.transformers p))
    else leaf (TPath.firstMatch CV.Gen.transformers p) ign (.map m)
  | .seq l =>
    if TPath.firstMatch CV.Gen.transformers p = none then
      bindOut (transformSeq ign p l) (fun r => .ok (.seq r))
    else leaf (TPath.firstMatch CV.Gen.transformers p) ign (.seq l)
  | .null => leaf (TPath.firstMatch CV.Gen.transformers p) ign .null
  | .bool b => leaf (TPath.firstMatch CV.Gen.transformers p) ign (.bool b)
  | .int i => leaf (TPath.firstMatch CV.Gen.transformers p) ign (.int i)
  | .float f => leaf (TPath.firstMatch CV.Gen.transformers p) ign (.float f)
  | .str s => leaf (TPath.firstMatch CV.Gen.transformers p) ign (.str s)
/-- `transformMapping` -/
def transformKVs (ign : Bool) (p : TPath) : Val.KVs → Out Val.KVs
  | [] => .ok []
  | (k, e) :: r =>
    match transform ign (TPath.nextK p k) e with
    | .ok t =>
      match transformKVs ign p r with
      | .ok r' => .ok ((k, t) :: r')
      | .err x => .err x
      | .panic x => .panic x
    | .err x => .err x
    | .panic x => .panic x
/-- `transformSequence` -/
def transformSeq (ign : Bool) (p : TPath) : List Val → Out (List Val)
  | [] => .ok []
  | e :: r =>
    match transform ign (TPath.nextK p "[]") e with
    | .ok t =>
      match transformSeq ign p r with
      | .ok r' => .ok (t :: r')
      | .err x => .err x
      | .panic x => .panic x
    | .err x => .err x
    | .panic x => .panic x
end


/-! ### collect mode (DESIGN §2.6): every failure some map iteration order can report first -/

def outFails {α : Type} : Out α → List String
  | .ok _ => []
  | .err e => ["err:" ++ e]
  | .panic s => ["panic:" ++ s]

mutual
def fails (ign : Bool) (p : TPath) : Val → List String
  | .map m =>
    if recursesOnMap (TPath.firstMatch CV.Gen.transformers p) then
      match failsKVs ign p m with
      | [] => outFails (bindOut (transformKVs ign p m) (postMap (TPath.firstMatch CV.Gen.transformers p)))
      | fs => fs
    else outFails (leaf (TPath.firstMatch CV.Gen.transformers p) ign (.map m))
  | .seq l =>
    if TPath.firstMatch CV.Gen.transformers p = none then failsSeq ign p l
    else outFails (leaf (TPath.firstMatch CV.Gen.transformers p) ign (.seq l))
  | .null => outFails (leaf (TPath.firstMatch CV.Gen.transformers p) ign .null)
  | .bool b => outFails (leaf (TPath.firstMatch CV.Gen.transformers p) ign (.bool b))
  | .int i => outFails (leaf (TPath.firstMatch CV.Gen.transformers p) ign (.int i))
  | .float f => outFails (leaf (TPath.firstMatch CV.Gen.transformers p) ign (.float f))
  | .str s => outFails (leaf (TPath.firstMatch CV.Gen.transformers p) ign (.str s))
def failsKVs (ign : Bool) (p : TPath) : Val.KVs → List String
  | [] => []
  | (k, e) :: r => fails ign (TPath.nextK p k) e ++ failsKVs ign p r
/-- a sequence is walked in index order: only the first failing element can be reported -/
def failsSeq (ign : Bool) (p : TPath) : List Val → List String
  | [] => []
  | e :: r => match fails ign (TPath.nextK p "[]") e with
    | [] => failsSeq ign p r
    | fs => fs
end

/-- `transform.Canonical` -/
def canonical (ign : Bool) (v : Val) : Out Val := transform ign TPath.root v

end CV.Short
