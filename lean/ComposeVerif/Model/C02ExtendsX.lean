import ComposeVerif.Model.MapOrder
/-!
# C02 — `loader.ApplyExtends` with references into another file (`extends: {file: f, service: s}`)

What `applyServiceExtends` does when the base lives in another file (loader/extends.go):

```go
if file != nil {                                   // extends.file
    services, processor, err = getExtendsBaseFromFile(…)   // the other file is LOADED AFRESH: a new services map
    …
}
base, err = applyServiceExtends(ctx, ref, services, …)     // recursion inside that map (memoising into it)
…
merged := ExtendService(deepClone(base), service)
services[name] = merged                            // `services` is now the OTHER file's map: the memo entry is thrown away
return merged, nil
```

So a service of the main file that extends another file is **not memoised in the main file's map** when it is reached
through the recursion started from a sibling (`extends: thatService`); it is resolved again (from a fresh load of the
other file) when `ApplyExtends` visits it itself.  The result is the same — as long as its raw definition in the main
map is untouched in between, which is exactly what seeds C02-3 / C02-6 break (`applyOneXSeed`, `Neg/C02ExtendsX.lean`).

Scope: one level of files (the services of the other files use same-file references only: `CV.Det.applyOne`).
-/
namespace CV.Det.ExtX
open CV CV.Det

/-- the `extends` attribute of a main-file service -/
inductive Ref
  | none
  | same (ref : String)
  | file (f ref : String)
deriving Repr, DecidableEq

abbrev XS (β : Type) := Ref × β

/-- `getExtendsBaseFromFile` + the recursion inside the freshly loaded file: what `ref` of file `f` denotes; the map
the recursion memoises into is dropped.  `none` = file or service not found / circular reference inside the file -/
def fileBase {β : Type} (mrg : β → β → β) (files : AL (AL (XSvc β))) (f ref : String) : Option β :=
  match find f files with
  | none => none
  | some m2 => (applyOne mrg (m2.length + 1) m2 ref).map (·.2)

/-- `applyServiceExtends` on the main file's map -/
def applyOneX {β : Type} (mrg : β → β → β) (files : AL (AL (XSvc β))) : Nat → AL (XS β) → String → Option (AL (XS β) × β)
  | 0, _, _ => none
  | n + 1, m, name =>
    match find name m with
    | none => none
    | some (.none, b) => some (m, b)
    | some (.same ref, b) =>
      match applyOneX mrg files n m ref with
      | none => none
      | some (m1, base) => some (put name (.none, mrg base b) m1, mrg base b)
    | some (.file f ref, b) =>
      match fileBase mrg files f ref with
      | none => none
      | some base => some (m, mrg base b)     -- the memo entry went into the other file's map: `m` is unchanged

/-- `ApplyExtends`: the services ranged in the order `order` -/
def applyAllX {β : Type} (mrg : β → β → β) (files : AL (AL (XSvc β))) (n : Nat) : List String → AL (XS β) → Option (AL (XS β))
  | [], m => some m
  | name :: r, m =>
    match applyOneX mrg files n m name with
    | none => none
    | some (m1, b) => applyAllX mrg files n r (put name (.none, b) m1)

/-! ## the closest wrong program (seeds C02-3 / C02-6): `delete(service, "extends")` *before* the merge

`service` is the very map stored in the main file's services map, so the raw definition loses its reference; in the
same-file case `services[name] = merged` overwrites it right away, in the cross-file case it does not. -/
def applyOneXSeed {β : Type} (mrg : β → β → β) (files : AL (AL (XSvc β))) : Nat → AL (XS β) → String → Option (AL (XS β) × β)
  | 0, _, _ => none
  | n + 1, m, name =>
    match find name m with
    | none => none
    | some (.none, b) => some (m, b)
    | some (.same ref, b) =>
      match applyOneXSeed mrg files n m ref with
      | none => none
      | some (m1, base) => some (put name (.none, mrg base b) m1, mrg base b)
    | some (.file f ref, b) =>
      match fileBase mrg files f ref with
      | none => none
      | some base => some (put name (.none, b) m, mrg base b)   -- the raw definition, now without `extends`

def applyAllXSeed {β : Type} (mrg : β → β → β) (files : AL (AL (XSvc β))) (n : Nat) : List String → AL (XS β) → Option (AL (XS β))
  | [], m => some m
  | name :: r, m =>
    match applyOneXSeed mrg files n m name with
    | none => none
    | some (m1, b) => applyAllXSeed mrg files n r (put name (.none, b) m1)

end CV.Det.ExtX
