import ComposeVerif.Model.Merge
/-!
# `override.EnforceUnicity` (override/uncity.go) and the target of `format.ParseVolume` (format/volume.go)

`enforceUnicity` walks mappings only; at a *sequence* whose path matches a row of the regenerated table
`CV.Gen.unique` it keeps one entry per index key: a later entry with the same key replaces the earlier
one **at the earlier position**.  That loop is exactly `foldl (insert key entry) []` on an association
list (`dedup`).  Sequences are not descended into.  Indexers are modelled with their error classes and
(since the round-2 `fix:` commits `mountIndexer` / `envFileIndexer` report a non-string target / path as an error).
`fmt.Sprintf` with `%s` / `%d` on arbitrary `any` values (port and mount keys) is modelled, including the
`%!s(int=80)` forms — the keys are only compared with one another, but they must collide exactly when
Go's do.
-/
namespace CV.Unicity
open CV CV.Val CV.Merge

/-! ## fmt verbs on trees -/

def typeName : Val → String
  | .null => "<nil>" | .bool _ => "bool" | .int _ => "int" | .float _ => "float64" | .str _ => "string"
  | .seq _ => "[]interface {}" | .map _ => "map[string]interface {}"

mutual
/-- `fmt.Sprintf("%<verb>", x)` for verb ∈ {s, d}; `top` = the value is the operand itself (a nil operand
prints `%!s(<nil>)`, a nil element prints `<nil>`) -/
def sprintArg (verb : Char) (top : Bool) : Val → String
  | .null => if top then "%!" ++ String.singleton verb ++ "(<nil>)" else "<nil>"
  | .str s => if verb = 's' then s else "%!" ++ String.singleton verb ++ "(string=" ++ s ++ ")"
  | .int i => if verb = 'd' then toString i else "%!" ++ String.singleton verb ++ "(int=" ++ toString i ++ ")"
  | .bool b => "%!" ++ String.singleton verb ++ "(bool=" ++ (if b then "true" else "false") ++ ")"
  | .float s => "%!" ++ String.singleton verb ++ "(float64=" ++ s ++ ")"
  | .seq xs => "[" ++ " ".intercalate (sprintArgs verb xs) ++ "]"
  | .map kvs => "map[" ++ " ".intercalate ((sortKS (sprintKVs verb kvs)).map fun e =>
      (if verb = 's' then e.1 else "%!" ++ String.singleton verb ++ "(string=" ++ e.1 ++ ")") ++ ":" ++ e.2) ++ "]"
def sprintArgs (verb : Char) : List Val → List String
  | [] => []
  | x :: r => sprintArg verb false x :: sprintArgs verb r
def sprintKVs (verb : Char) : List (String × Val) → List (String × String)
  | [] => []
  | (k, v) :: r => (k, sprintArg verb false v) :: sprintKVs verb r
end

/-! ## `format.ParseVolume(spec).Target` -/

/-- `unicode.IsLetter` on ASCII plus the fixed non-ASCII code points the generators use (DESIGN §2.5) -/
def isLetter (c : Char) : Bool := c.isAlpha || c = 'é' || c = 'ſ' || c = 'K' || c = '世'

structure VolSt where
  source : List Char := []
  target : List Char := []
  buffer : List Char := []   -- reversed

/-- one iteration of the rune loop; `none` = `populateFieldFromBuffer` returned an error -/
def volStep (st : VolSt) (c : Char) : Option VolSt :=
  if c = ':' && st.buffer.length = 1 && (st.buffer.all isLetter) then some { st with buffer := c :: st.buffer }
  else if c = ':' || c = Char.ofNat 0 then
    let buf := st.buffer.reverse
    if buf.isEmpty then none
    else if st.source.isEmpty && c = Char.ofNat 0 then some { st with target := buf, buffer := [] }
    else if st.source.isEmpty then some { st with source := buf, buffer := [] }
    else if st.target.isEmpty then some { st with target := buf, buffer := [] }
    else if c = ':' then none
    else some { st with buffer := [] }
  else some { st with buffer := c :: st.buffer }

def volLoop : List Char → VolSt → Option VolSt
  | [], st => some st
  | c :: r, st =>
    match volStep st c with
    | none => none
    | some st' => volLoop r st'

/-- the `Target` of `format.ParseVolume(spec)`, or `none` when it returns an error -/
def parseVolumeTarget (spec : String) : Option String :=
  if spec.utf8ByteSize = 0 then none
  else if spec.utf8ByteSize ≤ 2 then some spec
  else (volLoop (spec.toList ++ [Char.ofNat 0]) {}).map fun st => String.ofList st.target

/-! ## indexers -/

inductive Indexer where
  | keyValue | volume | deviceMapping | expose | mount (dflt : String) | port | envFile | unknown
deriving Repr, BEq, DecidableEq

def indexerOfName : String → Option Indexer
  | "keyValueIndexer" => some .keyValue
  | "volumeIndexer" => some .volume
  | "deviceMappingIndexer" => some .deviceMapping
  | "exposeIndexer" => some .expose
  | "mountIndexer(\"\")" => some (.mount "")
  | "mountIndexer(\"/run/secrets\")" => some (.mount "/run/secrets")
  | "portIndexer" => some .port
  | "envFileIndexer" => some .envFile
  | _ => none

def indexerAtIn (table : List (List String × String)) (p : TPath) : Option Indexer :=
  match TPath.firstMatch table p with
  | none => none
  | some n => some ((indexerOfName n).getD .unknown)

def indexerAt (p : TPath) : Option Indexer := indexerAtIn CV.Gen.unique p

/-- `strings.Cut(value, "=")`: the key of a `KEY=VALUE` / `KEY` entry -/
def kvKey (s : String) : String := String.ofList (s.toList.takeWhile (· ≠ '='))

def splitColonAux : List Char → List Char → List String
  | [], cur => [String.ofList cur.reverse]
  | c :: r, cur => if c = ':' then String.ofList cur.reverse :: splitColonAux r [] else splitColonAux r (c :: cur)

/-- `strings.Split(s, ":")` -/
def splitColon (s : String) : List String := splitColonAux s.toList []

/-- the index key of one sequence entry -/
def index : Indexer → Val → Out String
  | .keyValue, .str s => .ok (kvKey s)
  | .keyValue, _ => .err "unexpectedType"
  | .volume, .map kvs =>
    match lookup "target" kvs with
    | some (.str t) => .ok t
    | _ => .err "missingTarget"
  | .volume, .str s =>
    match parseVolumeTarget s with
    | some t => .ok t
    | none => .err "invalidVolume"
  | .volume, _ => .ok ""
  | .deviceMapping, .map kvs =>
    match lookup "target" kvs with
    | some (.str t) => .ok t
    | _ => .err "missingTarget"
  | .deviceMapping, .str s =>
    match splitColon s with
    | [a] => .ok a
    | _ :: b :: _ => .ok b
    | [] => .ok ""
  | .deviceMapping, _ => .ok ""
  | .expose, .str s => .ok s
  | .expose, .int i => .ok (toString i)
  | .expose, _ => .err "unsupportedValue"
  | .mount d, .str s => .ok (d ++ "/" ++ s)
  | .mount d, .map kvs =>
    match lookup "target" kvs with
    | some (.str t) => .ok t
    | some _ => .err "unexpectedType"
    | none => .ok (d ++ "/" ++ sprintArg 's' true ((lookup "source" kvs).getD .null))
  | .mount _, _ => .err "unsupportedValue"
  | .port, .int i => .ok (toString i)
  | .port, .map kvs =>
    match lookup "target" kvs with
    | none => .err "missingTargetPort"
    | some target =>
      let published := (lookup "published" kvs).getD .null
      let host := (lookup "host_ip" kvs).getD (.str "0.0.0.0")
      let protocol := (lookup "protocol" kvs).getD (.str "tcp")
      -- `%s:%v:%v/%s`: published and target print alike whether written as a number or as a string
      .ok (sprintArg 's' true host ++ ":" ++ Merge.fmtV published ++ ":" ++ Merge.fmtV target
            ++ "/" ++ sprintArg 's' true protocol)
  | .port, .str s => .ok s
  | .port, _ => .ok ""
  | .envFile, .str s => .ok s
  | .envFile, .map kvs =>
    match lookup "path" kvs with
    | some (.str s) => .ok s
    | some _ => .err "unexpectedType"
    | none => .err "missingPath"
  | .envFile, _ => .ok ""
  | .unknown, _ => .err "unknown-indexer"

/-- keys of all entries, first failure (in sequence order) wins -/
def indexAll (ix : Indexer) : List Val → Out (List String)
  | [] => .ok []
  | x :: r => (index ix x).bind fun k => (indexAll ix r).bind fun ks => .ok (k :: ks)

/-- the `seq` / `keys` loop: one entry per key, a later entry replaces the earlier one in place -/
def dedupKVs (l : List (String × Val)) : KVs := l.foldl (fun acc e => insert e.1 e.2 acc) []

def dedup (ks : List String) (xs : List Val) : List Val := (dedupKVs (ks.zip xs)).map Prod.snd

mutual
/-- `enforceUnicity(value, p)` -/
def enforce (v : Val) (p : TPath) : Out Val :=
  match v with
  | .map kvs => (enforceKVs kvs p).bind fun m => .ok (.map m)
  | .seq xs =>
    match indexerAt p with
    | none => .ok (.seq xs)
    | some ix => (indexAll ix xs).bind fun ks => .ok (.seq (dedup ks xs))
  | v => .ok v
def enforceKVs : KVs → TPath → Out KVs
  | [], _ => .ok []
  | (k, e) :: r, p =>
    (enforce e (next p k)).bind fun u => (enforceKVs r p).bind fun r' => .ok ((k, u) :: r')
end

/-- `override.EnforceUnicity(value)` -/
def enforceTop (v : Val) : Out Val :=
  match v with
  | .map _ => enforce v TPath.root
  | _ => .err "top-level"

end CV.Unicity
