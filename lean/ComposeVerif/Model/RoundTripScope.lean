import ComposeVerif.Spec.GenericF
/-!
# C09 — an executable classifier for the scope of the generic round-trip theorem

`stableB` mirrors `GenericF.Stable` (and `leafOKB` the leaf domains of `Props/C09Leaves.lean`) as a Boolean function, so that
the harness can **measure** which of its reflection-populated values fall inside the theorem (`c09.rt`: every in-scope
value must reload to itself on the real code).  It is a classifier, not a theorem: it is deliberately conservative
(host lists and values whose struct mappings lack a field are classified out of scope) and compares struct mappings up to
field order (the wire format sorts keys; `encode` reads fields by name).
-/
namespace CV.RoundTripScope
open CV CV.TypeDesc CV.Marshal CV.Encode CV.Decode CV.Generic CV.GenericF

def two63i : Int := 9223372036854775808

def leafOKB (n : String) (v : Val) : Bool :=
  if n == "UnitBytes" || n == "Duration" then (match v with | .int i => decide (-two63i ≤ i) && decide (i < two63i) | _ => false)
  else if n == "DeviceCount" then (match v with | .int _ => true | _ => false)
  else if n == "ShellCommand" || n == "HealthCheckTest" || n == "StringList" || n == "StringOrNumberList" then
    (match v with | .seq xs => allStr xs | _ => false)
  else if n == "Mapping" || n == "Labels" || n == "Options" then (match v with | .map kvs => allStrVals kvs | _ => false)
  else if n == "MappingWithEquals" then (match v with | .map kvs => allStrOrNullVals kvs | _ => false)
  else if n == "NanoCPUs" then (match v with | .int _ => true | .float _ => true | _ => false)
  else if n == "UlimitsConfig" then
    (match v with
      | .map u => (match Val.lookup "Single" u, Val.lookup "Soft" u, Val.lookup "Hard" u with
        | some (.int s), some (.int so), some (.int h) => s == 0 || (so == 0 && h == 0)
        | _, _, _ => false)
      | _ => false)
  else false      -- HostsList (order of a Go map), EnvFile, SSHConfig: classified out of scope

/-- names and depth of `C09.leavesNoEnvSSH` -/
def leafNames : List String :=
  ["UnitBytes", "Duration", "DeviceCount", "ShellCommand", "HealthCheckTest", "StringList", "StringOrNumberList",
   "Mapping", "Labels", "Options", "MappingWithEquals", "HostsList", "NanoCPUs", "UlimitsConfig", "EnvFile", "SSHConfig"]

def leafDepth : Nat := 3

def stableB (env : Env) (fmt : Fmt) : Nat → TyExpr → Val → Bool
  | 0, _, _ => false
  | _ + 1, .prim _, v => isScalar v && !isNull v
  | _ + 1, .other _, _ => false
  | f + 1, .ptr e, v => isNull v || stableB env fmt f e v
  | f + 1, .slice e, v => (match v with
    | .seq xs => !xs.isEmpty && xs.all (stableB env fmt f e)
    | _ => false)
  | f + 1, .map e, v => (match v with
    | .map kvs => !kvs.isEmpty && kvs.all fun p => stableB env fmt f e p.2
    | _ => false)
  | f + 1, .named n, v =>
    if leafNames.contains n then decide (leafDepth ≤ f) && leafOKB n v && !isNull v else
    match findStruct env.structs n with
    | some s =>
      (match custom fmt n v with
        | none => true
        | some (.inr (n', v')) => n' == n && v' == v
        | some (.inl _) => false)
      && (match v with
        | .map fs =>
          fs.length == (s.fields.filter rendered).length &&
          (s.fields.filter rendered).all fun fd =>
            match Val.lookup fd.goName fs with
            | none => false
            | some x =>
              if fd.yamlInline then isNull x
              else if omittedF env fmt fd x then x == zeroVal env f fd.ty
              else stableB env fmt f fd.ty x
        | _ => false)
    | none => match findNamed env.named n with
      | some e => stableB env fmt f e v
      | none => false

end CV.RoundTripScope
