import ComposeVerif.Model.EnvLayers
/-!
# C02 — `Project.WithServicesEnvironmentResolved` / `WithServicesLabelsResolved` as *loops over a Go map*

C16's model (`CV.EnvLayers`) owns the loop *bodies* (`resolveServiceEnv`, `resolveServiceLabels`, tied to the real
methods by C16's correspondence) and represents the loop itself as a `map` over the services (`resolveProjectEnv` =
`collect ∘ map`).  For C02 the loop is the object of study:

```go
for i, service := range newProject.Services {      // Go map: iteration order chosen at random
    …body(service)…;  if err != nil { return nil, err }
    newProject.Services[i] = service
}
```

* `rangeServices body` — exactly that loop in the iteration (= list) order: the error of the first failing service in
  that order, else every service replaced by its body's result;
* `rangeServicesCached` / `loadEnvFilesCached` — the same loop **with a cache of parsed env files carried from one
  iteration to the next** (keyed by path: seed C02-4; keyed by the whole entry: seed C02-5).  It is *not* the code; it
  is the closest wrong program, and `Neg/C02Env.lean` proves that it depends on the iteration order.
-/
namespace CV.Det.EnvLoop
open CV CV.EnvLayers

/-- `for i, s := range services { r, err := body(s); if err != nil { return err }; services[i] = r }` -/
def rangeServices (body : Service → Except Err Service) : List (Str × Service) → Except Err (List (Str × Service))
  | [] => .ok []
  | (n, s) :: r =>
    match body s with
    | .error e => .error e
    | .ok s' =>
      match rangeServices body r with
      | .error e => .error e
      | .ok r' => .ok ((n, s') :: r')

/-- `Project.WithServicesEnvironmentResolved(discard)` over the services in iteration order -/
def withServicesEnvironmentResolved (penv : List (Key × Str)) (fs : FS) (discard : Bool) :=
  rangeServices (resolveServiceEnv penv fs discard)

/-- `Project.WithServicesLabelsResolved(discard)` over the services in iteration order -/
def withServicesLabelsResolved (fs : FS) (discard : Bool) := rangeServices (resolveServiceLabels fs discard)

/-! ## the closest wrong program: a cache of parsed env files shared by the iterations -/

abbrev Cache := List (EnvFile × List (Key × Str))

/-- cache lookup; `byPath` = keyed by `envFile.Path` only (seed C02-4), else by the whole entry (seed C02-5) -/
def cacheFind (byPath : Bool) (f : EnvFile) : Cache → Option (List (Key × Str))
  | [] => none
  | (g, vars) :: r => if (if byPath then g.path = f.path else g = f) then some vars else cacheFind byPath f r

/-- the loop over `service.EnvFiles` with `vars, ok := parsed[key]; if !ok { vars = loadEnvFile(…); parsed[key] = vars }` -/
def loadEnvFilesCached (byPath : Bool) (penv : List (Key × Str)) (fs : FS) :
    List EnvFile → List (Key × Str) → Cache → Except Err (List (Key × Str) × Cache)
  | [], acc, c => .ok (acc, c)
  | f :: r, acc, c =>
    match cacheFind byPath f c with
    | some vars => loadEnvFilesCached byPath penv fs r (overrideBy acc vars) c
    | none =>
      match loadEnvFile fs f (envChain penv acc) with
      | .error e => .error e
      | .ok vars => loadEnvFilesCached byPath penv fs r (overrideBy acc vars) (c ++ [(f, vars)])

/-- the body of the loop, threading the cache -/
def resolveServiceEnvCached (byPath : Bool) (penv : List (Key × Str)) (fs : FS) (discard : Bool) (s : Service) (c : Cache) :
    Except Err (Service × Cache) :=
  let env1 := resolveMWE (fun k => lookup k penv) s.environment
  match loadEnvFilesCached byPath penv fs s.envFiles [] c with
  | .error e => .error e
  | .ok (acc, c') => .ok ({ s with
      environment := overrideBy (toMWE acc) env1
      envFiles := if discard then [] else s.envFiles }, c')

/-- the services loop with the cache declared outside it -/
def rangeServicesCached (byPath : Bool) (penv : List (Key × Str)) (fs : FS) (discard : Bool) :
    List (Str × Service) → Cache → Except Err (List (Str × Service))
  | [], _ => .ok []
  | (n, s) :: r, c =>
    match resolveServiceEnvCached byPath penv fs discard s c with
    | .error e => .error e
    | .ok (s', c') =>
      match rangeServicesCached byPath penv fs discard r c' with
      | .error e => .error e
      | .ok r' => .ok ((n, s') :: r')

end CV.Det.EnvLoop
