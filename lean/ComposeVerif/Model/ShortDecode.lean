import ComposeVerif.Model.ShortStr
import ComposeVerif.Model.Val
/-!
# The list-vs-map (and string-vs-list) decoders of package `types` (C03)

`DecodeMapstructure` of `Mapping`, `MappingWithEquals`, `Labels`, `HostsList`, `StringList`,
`StringOrNumberList`, `HealthCheckTest`, `Options`, `DeviceCount`, `UlimitsConfig`.
The typed results are rendered as `Val`s: a Go `map[string]string` is a `.map` of `.str`,
`map[string]*string` a `.map` of `.str | .null`, `[]string` a `.seq` of `.str`.
A Go map built by successive `m[k] = v` is `Val.insert` (replace in place, else append).
`none` = the decoder returns an error.
-/
namespace CV.Short
open CV

/-- `fmt.Sprint(x)` for a YAML node -/
def sprint : Val → String
  | .null => "<nil>"
  | .bool b => if b then "true" else "false"
  | .int i => ToString.toString i
  | .float s => s
  | .str s => s
  | .seq l => "[" ++ " ".intercalate (sprintL l) ++ "]"
  | .map m => "map[" ++ " ".intercalate (sprintM m) ++ "]"
where
  sprintL : List Val → List String
    | [] => []
    | v :: r => sprint v :: sprintL r
  sprintM : List (String × Val) → List String
    | [] => []
    | (k, v) :: r => (k ++ ":" ++ sprint v) :: sprintM r

def cutStr (c : Char) (s : String) : Option (String × String) :=
  (cutAt c s.toList).map fun (a, b) => (String.ofList a, String.ofList b)

/-! ### Mapping -/

/-- the list form shared by `Mapping`, `MappingWithEquals` and `Labels`: `KEY=VALUE` → `KEY ↦ VALUE`,
a bare `KEY` ↦ `dflt` (`""` for `Mapping`/`Labels`, nil for `MappingWithEquals`) -/
def kvOfList (dflt : Val) : List Val → Val.KVs → Val.KVs
  | [], acc => acc
  | e :: r, acc =>
    match cutStr '=' (sprint e) with
    | some (k, v) => kvOfList dflt r (Val.insert k (.str v) acc)
    | none => kvOfList dflt r (Val.insert (sprint e) dflt acc)

def mappingOfList : List Val → Val.KVs → Val.KVs := kvOfList (.str "")

def mappingOfMap (m : Val.KVs) : Val.KVs :=
  m.map fun (k, e) => (k, match e with | .null => .str "" | e => .str (sprint e))

def decodeMapping : Val → Option Val
  | .map m => some (.map (mappingOfMap m))
  | .seq l => some (.map (mappingOfList l []))
  | _ => none

/-! ### MappingWithEquals -/

def mappingValue : Val → Val
  | .null => .null
  | .str s => .str s
  | e => .str (sprint e)

def mweOfList : List Val → Val.KVs → Val.KVs := kvOfList .null

def decodeMWE : Val → Option Val
  | .map m => some (.map (m.map fun (k, e) => (k, mappingValue e)))
  | .seq l => some (.map (mweOfList l []))
  | _ => none

/-! ### Labels -/

def labelValue : Val → Val
  | .null => .str ""
  | .str s => .str s
  | e => .str (sprint e)

def decodeLabels : Val → Option Val
  | .map m => some (.map (m.map fun (k, e) => (k, labelValue e)))
  | .seq l => some (.map (mappingOfList l []))     -- `k, e, _ := strings.Cut(...)`: same as Mapping's list form
  | _ => none

/-! ### Options -/

def decodeOptions : Val → Option Val
  | .map m => some (.map (mappingOfMap m))
  | _ => none

/-! ### HostsList -/

def stripBrackets (ip : Str) : Str :=
  if byteLen ip > 2 && ip.head? = some '[' && ip.getLast? = some ']' then (ip.drop 1).dropLast else ip

def badHost (h : String) : Bool := h = "" || h.toList.contains ':' || h.toList.contains '='

/-- `cleanup`: `none` when some host name is bad -/
def hostsCleanup (m : List (String × List Str)) : Option Val :=
  if m.any (fun (h, _) => badHost h) then none
  else some (.map (m.map fun (h, ips) => (h, .seq (ips.map fun ip => .str (String.ofList (stripBrackets ip))))))

def hostsAppend (h : String) (ips : List Str) : List (String × List Str) → List (String × List Str)
  | [] => [(h, ips)]
  | (h', l) :: r => if h = h' then (h', l ++ ips) :: r else (h', l) :: hostsAppend h ips r

def hostsOfList : List Val → List (String × List Str) → Option (List (String × List Str))
  | [], acc => some acc
  | e :: r, acc =>
    let s := (sprint e).toList
    match cutAt '=' s with
    | some (h, ip) => hostsOfList r (hostsAppend (String.ofList h) (splitOn ',' ip) acc)
    | none =>
      match cutAt ':' s with
      | some (h, ip) => hostsOfList r (hostsAppend (String.ofList h) (splitOn ',' ip) acc)
      | none => none

def hostsOfMap : Val.KVs → Option (List (String × List Str))
  | [] => some []
  | (h, e) :: r =>
    match hostsOfMap r with
    | none => none
    | some r' =>
      match e with
      | .null => some ((h, [[]]) :: r')
      | .str s => some ((h, [s.toList]) :: r')
      | .seq l => some ((h, l.map fun x => (sprint x).toList) :: r')
      | _ => none

def decodeHosts : Val → Option Val
  | .map m => (hostsOfMap m).bind hostsCleanup
  | .seq l => (hostsOfList l []).bind hostsCleanup
  | _ => none

/-! ### string-or-list types -/

def allStrs : List Val → Option (List Val)
  | [] => some []
  | .str s :: r => (allStrs r).map (Val.str s :: ·)
  | _ :: _ => none

def decodeStringList : Val → Option Val
  | .str s => some (.seq [.str s])
  | .seq l => (allStrs l).map .seq
  | _ => none

def decodeStringOrNumberList : Val → Option Val
  | .str s => some (.seq [.str s])
  | .seq l => some (.seq (l.map fun e => .str (sprint e)))
  | _ => none

/-- `HealthCheckTest`: a non-string list element is an error -/
def decodeHealthTest : Val → Option Val
  | .str s => some (.seq [.str "CMD-SHELL", .str s])
  | .seq l => (allStrs l).map .seq
  | _ => none

/-- `ShellCommand`, list form (the string form goes through go-shellwords, outside the model): a non-string element is
an error; any other kind is accepted and leaves the command unset (`.null`) -/
def decodeShellCommandList : Val → Option Val
  | .seq l => (allStrs l).map .seq
  | _ => some .null

def decodeDeviceCount : Val → Option Val
  | .int i => some (.int i)
  | .str s =>
    if (lower s.toList) = ['a', 'l', 'l'] then some (.int (-1))
    else
      -- strconv.ParseInt(v, 10, 64): optional sign, digits; the model covers |n| < 2^63
      let (neg, ds) := match s.toList with
        | '-' :: r => (true, r)
        | '+' :: r => (false, r)
        | r => (false, r)
      if ds = [] then none else
      match parseDecAux 0 ds with
      | some n => if neg then (if n ≤ 9223372036854775808 then some (.int (-(n : Int))) else none)
                  else (if n ≤ 9223372036854775807 then some (.int n) else none)
      | none => none
  | _ => none

/-- `UlimitsConfig`: soft / hard of a non-integer kind is an error -/
def decodeUlimit : Val → Option Val
  | .int i => some (.map [("single", .int i), ("soft", .int 0), ("hard", .int 0)])
  | .map m =>
    let get (k : String) : Option Val := match Val.lookup k m with
      | none => some (.int 0)
      | some (.int i) => some (.int i)
      | some _ => none
    match get "soft", get "hard" with
    | some s, some h => some (.map [("single", .int 0), ("soft", s), ("hard", h)])
    | _, _ => none
  | _ => none

end CV.Short
