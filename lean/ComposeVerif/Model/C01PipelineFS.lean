import ComposeVerif.Model.Pipeline
/-!
# C01 — the composed pipeline WITH `extends` from other files (round 6)

`Model/Pipeline.lean` (the integrator's composition of the stage models) runs `ApplyExtends` on the empty file system:
only same-file bases can resolve.  This module wraps it (it does not edit it) with the part of `loader/extends.go`
that reads another file, `getExtendsBaseFromFile`:

```go
extendsOpts := opts.clone()
extendsOpts.ResolvePaths = false; extendsOpts.SkipNormalization = true; extendsOpts.SkipConsistencyCheck = true
extendsOpts.SkipInclude = true;   extendsOpts.SkipExtends = true;       extendsOpts.SkipValidation = true
extendsOpts.SkipDefaultValues = true
source, processor, err := loadYamlFile(ctx, types.ConfigFile{Filename: local}, extendsOpts, relworkingdir, nil, ct, map[string]any{}, nil)
… services / base-present checks …
err = paths.ResolveRelativePaths(source, relworkingdir, remotes)
```

i.e. the referenced file goes through the SAME per-document pipeline (`Pipeline.processDocs`: interpolate → merge → unicity →
canonical → omitEmpty → unicity) under the cloned option set, starting from an empty model, and then through C12's
`Paths.resolve` anchored at the file's own directory.  What C05's world model takes as a parameter (`Extends.FS`: for each
reference string the outcome of loading that file) is therefore COMPUTED here from the documents of the files (`fsOf`),
and the composed function `loadFS` has no file-system parameter left besides the raw documents.

Out of scope (as in `Model/Pipeline.lean`): `ApplyInclude`, `!reset` post-processors of the extended file, remote loaders.
-/
namespace CV.C01PipeFS
open CV CV.Val CV.Pipeline

/-- the option set `getExtendsBaseFromFile` loads the referenced file with (`opts.clone()` + seven assignments);
`SkipInterpolation` and the interpolation settings are inherited -/
def extendsOpts (o : Opts) : Opts :=
  { o with resolvePaths := false, skipNormalization := true, skipExtends := true, skipValidation := true,
           skipDefaultValues := true }

/-- a file that `extends.file` may name -/
structure BaseFile where
  /-- the reference string, as `extends.file` spells it (after `ResolveRelativePaths` of an extended file: absolute) -/
  ref : String
  /-- `loader.Dir(refPath)`: the directory relative paths inside the file are anchored at — for the local resource loader the
  file's directory RELATIVE to the loader's working directory (`.`, `sub`): the paths of an extended file come out
  relative and it is the main pipeline's `ResolveRelativePaths` (if on) that makes them absolute -/
  relDir : String
  /-- its `---` documents -/
  docs : List KVs

/-- `getExtendsBaseFromFile` up to the `services` lookup: `loadYamlFile` under `extendsOpts` into an empty model, then
`ResolveRelativePaths` at the file's directory (whose failure is reported only after the services / base checks:
`FileRes.ok _ true`, as in `Extends.anchoredFile`) -/
def loadBase (c : Cfg) (b : BaseFile) : Extends.FileRes :=
  match processDocs { c with opts := extendsOpts c.opts } (.map []) b.docs with
  | .err e => .err e
  | .panic s => .panic s
  | .ok (.map d) =>
    match Paths.resolve { c.paths with wd := b.relDir.toList } (.map d) with
    | .ok (.map d') => .ok d' false
    | .ok _ => .ok d true
    | .err _ => .ok d true
    | .panic s => .okResolvePanic d s
  | .ok _ => .err "model"

/-- the file system C05's model is parametric in, computed from the raw files -/
def fsOf (c : Cfg) (bs : List BaseFile) : Extends.FS := bs.map fun b => (b.ref, loadBase c b)

/-- the stages of the per-document pipeline: an error of the referenced file's own load is returned unwrapped by
`getExtendsBaseFromFile`, so it keeps its stage; every other error class of C05's model is an `extends` error -/
def innerStages : List String := ["interpolate", "merge", "unicity", "schema", "canonical", "omitEmpty", "unicity2", "model"]

def ofExtendsFS {α : Type} : Extends.Out α → Out α
  | .ok a => .ok a
  | .err cls => .err (if cls ∈ innerStages then cls else "extends")
  | .panic s => .panic s

/-- `if !opts.SkipExtends { err = ApplyExtends(ctx, cfg, opts, ct, processors...) }` with the files `bs` reachable -/
def extendsStageFS (c : Cfg) (bs : List BaseFile) (cfg : KVs) : Out KVs :=
  if c.opts.skipExtends then .ok cfg
  else ofExtendsFS (Extends.applyExtends (Extends.realEnv c.mainFile (fsOf c bs)) cfg)

/-- `processRawYaml` of a main-model document -/
def processDocFS (c : Cfg) (bs : List BaseFile) (dict : Val) (cfg : KVs) : Out Val :=
  (interpStage c cfg).bind fun cfg => (extendsStageFS c bs cfg).bind (mergeStages c dict)

def processDocsFS (c : Cfg) (bs : List BaseFile) : Val → List KVs → Out Val
  | dict, [] => .ok dict
  | dict, d :: r =>
    match processDocFS c bs dict d with
    | .ok dict' => processDocsFS c bs dict' r
    | .err e => .err e
    | .panic s => .panic s

def loadYamlModelFS (c : Cfg) (bs : List BaseFile) (docs : List KVs) : Out KVs :=
  (processDocsFS c bs (.map []) docs).bind (finishModel c)

/-- `loader.LoadModelWithContext` on the documents `docs` with the files `bs` on disk -/
def loadFS (c : Cfg) (bs : List BaseFile) (docs : List KVs) : Out KVs :=
  if docs.isEmpty then .err "nofiles" else (loadYamlModelFS c bs docs).bind (finishLoad c)

end CV.C01PipeFS
