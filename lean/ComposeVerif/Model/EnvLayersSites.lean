import ComposeVerif.Model.EnvLayersLoad
import ComposeVerif.Model.Val
/-!
# C16 — the second call site of the resolution and services defined in another directory (round 6)

* **second call site.**  `loader.modelToProject` calls `WithServicesEnvironmentResolved(opts.discardEnvFiles)` itself
  unless `SkipResolveEnvironment` is set (`cli.WithoutEnvironmentResolution`); a caller that set the option calls
  `project.WithServicesEnvironmentResolved(discard)` on the loaded project later.  The two orders differ: inside the
  loader the environments of all services are resolved *before* the labels, at the second site *after* them.
  `loadThenResolve` is the second order.
* **relocation.**  A service written in an included file or inherited with `extends.file` from another directory lists
  its env / label files relative to *that* directory; the loader rewrites the references (C12) and the files are found
  where they are.  `FS.Relocates`, `Service.reloc`: the same service with every reference renamed by `ρ` in a world
  where `ρ p` holds what `p` held.
-/
namespace CV.EnvLayers

/-- load with `SkipResolveEnvironment` (the loader still resolves labels), then `WithServicesEnvironmentResolved(discard)`
    on the loaded project -/
def loadThenResolve (cfg : LoadCfg) (penv : List (Key × Str)) (fs : FS) (svcs : List (Str × YEnv × Service)) :
    Except (List Err) (List (Str × Service)) :=
  match loadProject { cfg with skipResolveEnvironment := true } penv fs svcs with
  | .error es => .error es
  | .ok p => resolveProjectEnv penv fs cfg.discard p

def loadThenResolveY (cfg : LoadCfg) (penv : List (Key × Str)) (fs : FS) (svcs : List (Str × YService)) :
    Except (List Err) (List (Str × Service)) :=
  loadThenResolve cfg penv fs (svcs.map fun p => (p.1, p.2.yenv, p.2.decoded))

/-! ## value-less entries of a service written in an *included* file

`ApplyInclude` loads the included file with `loadYamlModel` (not `load`: no `Normalize`) and the include's own
environment `ienv` = the project environment, then the include's `env_file` (default `<dir>/.env`) for the variables the
project environment does not have.  `loadYamlModel` ends with `resolveServicesEnvironment(dict, ienv)` — the **sequence
form only**.  The imported services then go through the main model's stages with the project environment. -/

/-- the include's environment: the project environment wins over the include's env file -/
def includeEnv (penv ifile : List (Key × Str)) : List (Key × Str) := penv ++ ifile

/-- the `environment` of a service of an included file as decoded by a whole load -/
def loadedEnvIncluded (cfg : LoadCfg) (penv ifile : List (Key × Str)) (y : YEnv) : List (Key × Option Str) :=
  loadedEnv cfg penv (resolveSeqEnv (includeEnv penv ifile) y)

/-- the same entries in the other YAML form -/
def YEnv.asList (kvs : List (Key × Option Str)) : YEnv :=
  .list (kvs.map fun kv => match kv.2 with | some v => Item.kv kv.1 v | none => Item.bare kv.1)

/-! ## relocation -/

def EnvFile.reloc (ρ : Str → Str) (f : EnvFile) : EnvFile := { f with path := ρ f.path }

/-- the service with every file reference renamed -/
def Service.reloc (ρ : Str → Str) (s : Service) : Service :=
  { s with envFiles := s.envFiles.map (EnvFile.reloc ρ), labelFiles := s.labelFiles.map ρ }

/-- `fs'` holds at `ρ p` what `fs` holds at `p` (same registry of formats) -/
def FS.Relocates (ρ : Str → Str) (fs fs' : FS) : Prop :=
  (∀ p, fs'.node (ρ p) = fs.node p) ∧ fs'.formats = fs.formats

/-! ## the trees of the composed pipeline (`Model/Pipeline.lean`) read as C16's tokenised forms -/
open CV CV.Val

/-- the project environment of the pipeline (`configDetails.Environment`) as C16's model has it -/
def penvOf (env : List (String × String)) : List (Key × Str) := env.map fun p => (p.1.toList, p.2.toList)

/-- an element of the YAML `environment` sequence as the leaf of the tree the pipeline works on -/
def Item.val (it : Item) : Val := .str (String.ofList it.text)

/-- the sequence form of `environment` as a tree -/
def seqVal (items : List Item) : Val := .seq (items.map Item.val)

/-- the key of an element of the sequence form -/
def Item.key : Item → Key
  | .kv k _ => k
  | .bare k => k

/-- the mapping form of `environment` as a tree: `k:` (null) is the entry without value -/
def mapVal (kvs : List (Key × Option Str)) : KVs :=
  kvs.map fun kv => (String.ofList kv.1, match kv.2 with | none => Val.null | some v => Val.str (String.ofList v))

end CV.EnvLayers
