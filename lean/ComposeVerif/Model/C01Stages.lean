import ComposeVerif.Model.Path
/-!
# C01 — the tree walkers that run before JSON-schema validation (core Lean only)

* `convert`       `convertToStringKeysRecursive` (+ the top-level test of `loadYamlFile` / `parseYAML`)
* `fixEmpty`      `fixEmptyNotNull`              (loader/fix.go)
* `omitEmpty`     `omitEmpty` / `OmitEmpty`      (loader/omitEmpty.go)

They are walked over what yaml.v3 hands to the loader, which is richer than `CV.Val`: a mapping with a
non-string key arrives as `map[interface{}]interface{}` and an empty sequence as a *nil* slice — the two
things these functions exist to repair.  `GoVal` keeps both.
-/
namespace CV.C01

inductive GoVal where
  | null
  | bool (b : Bool)
  | int (i : Int)
  | float (repr : String)
  | str (s : String)
  | nilseq                                   -- `[]interface{}(nil)`
  | seq (xs : List GoVal)                    -- a non-nil slice (possibly empty)
  | map (kvs : List (String × GoVal))        -- `map[string]interface{}`
  | imap (kvs : List (GoVal × GoVal))        -- `map[interface{}]interface{}`
deriving Repr, Inhabited

/-- outcome of a stage -/
inductive Out (α : Type) where
  | ok (a : α)
  | err (cls : String)
  | panic (site : String)
deriving Repr, Inhabited

/-! ## `convertToStringKeysRecursive` -/

mutual
def convert : GoVal → Except String GoVal
  | .map kvs => do let kvs' ← convertKVs kvs; pure (.map kvs')
  | .imap kvs => do let kvs' ← convertIKVs kvs; pure (.map kvs')
  | .seq xs => do
      let ys ← convertList xs
      -- `var convertedList []interface{}` + append: an empty list comes back as a nil slice
      pure (match ys with | [] => .nilseq | _ => .seq ys)
  | v => pure v
def convertKVs : List (String × GoVal) → Except String (List (String × GoVal))
  | [] => pure []
  | (k, v) :: r => do
      let v' ← convert v
      let r' ← convertKVs r
      pure ((k, v') :: r')
def convertIKVs : List (GoVal × GoVal) → Except String (List (String × GoVal))
  | [] => pure []
  | (k, v) :: r =>
      match k with
      | .str s => do
          let v' ← convert v
          let r' ← convertIKVs r
          pure ((s, v') :: r')
      | _ => .error "nonStringKey"
def convertList : List GoVal → Except String (List GoVal)
  | [] => pure []
  | v :: r => do
      let v' ← convert v
      let r' ← convertList r
      pure (v' :: r')
end

/-- the head of `processRawYaml`: convert, then `converted.(map[string]interface{})` with `, ok` -/
def convertTop (raw : GoVal) : Out (List (String × GoVal)) :=
  match convert raw with
  | .error c => .err c
  | .ok (.map kvs) => .ok kvs
  | .ok _ => .err "topLevelNotMapping"

/-- `parseYAML`: the same conversion, but the result is asserted *without* `, ok` on both branches -/
def assertMap : Except String GoVal → Out (List (String × GoVal))
  | .error c => .err c
  | .ok (.map kvs) => .ok kvs
  | .ok _ => .panic "parseYAML:converted.(map[string]interface{})"

def parseYAMLTop (raw : GoVal) : Out (List (String × GoVal)) :=
  match raw with
  | .map _ | .imap _ => assertMap (convert raw)
  | _ => .err "topLevelNotMapping"

/-! ## `fixEmptyNotNull` -/

mutual
def fixEmpty : GoVal → GoVal
  | .nilseq => .seq []
  | .seq xs => .seq (fixEmptyList xs)
  | .map kvs => .map (fixEmptyKVs kvs)
  | v => v                                   -- scalars; `map[interface{}]interface{}` is not in the type switch
def fixEmptyList : List GoVal → List GoVal
  | [] => []
  | v :: r => fixEmpty v :: fixEmptyList r
def fixEmptyKVs : List (String × GoVal) → List (String × GoVal)
  | [] => []
  | (k, v) :: r => (k, fixEmpty v) :: fixEmptyKVs r
end

/-! ## `omitEmpty` -/

def isEmpty : GoVal → Bool
  | .null => true
  | .str s => s = ""
  | _ => false

/-- `mustOmit(p)`: some pattern of the `omitempty` table matches -/
def mustOmit (patterns : List (List String)) (p : TPath) : Bool :=
  patterns.any (fun pat => TPath.pmatch pat p)

mutual
def omitEmpty (pats : List (List String)) : GoVal → TPath → GoVal
  | .map kvs, p => .map (omitKVs pats kvs p)
  | .seq xs, p =>
      -- `c := make([]any, 0, len(v))` + append (since "fix: OmitEmpty keeps an empty sequence empty"): never a nil slice
      .seq (omitList pats xs p)
  | .nilseq, _ => .seq []
  | v, _ => v
def omitKVs (pats : List (List String)) : List (String × GoVal) → TPath → List (String × GoVal)
  | [], _ => []
  | (k, v) :: r, p =>
      if isEmpty v && mustOmit pats p then omitKVs pats r p
      else (k, omitEmpty pats v (p.next k)) :: omitKVs pats r p
def omitList (pats : List (List String)) : List GoVal → TPath → List GoVal
  | [], _ => []
  | v :: r, p =>
      if isEmpty v && mustOmit pats p then omitList pats r p
      else omitEmpty pats v (p.next "[]") :: omitList pats r p
end

/-- `OmitEmpty(yaml map[string]any)`: `cleaned.(map[string]any)` is asserted without `, ok` -/
def omitEmptyTop (pats : List (List String)) (m : List (String × GoVal)) : Out (List (String × GoVal)) :=
  match omitEmpty pats (.map m) TPath.root with
  | .map kvs => .ok kvs
  | _ => .panic "OmitEmpty:cleaned.(map[string]any)"

/-! ## shape predicates used by the theorems -/

mutual
/-- no nil slice anywhere (what gojsonschema needs) -/
def noNil : GoVal → Bool
  | .nilseq => false
  | .seq xs => noNilList xs
  | .map kvs => noNilKVs kvs
  | .imap _ => true
  | _ => true
def noNilList : List GoVal → Bool
  | [] => true
  | v :: r => noNil v && noNilList r
def noNilKVs : List (String × GoVal) → Bool
  | [] => true
  | (_, v) :: r => noNil v && noNilKVs r
end

mutual
/-- no `map[interface{}]interface{}` anywhere -/
def stringKeyed : GoVal → Bool
  | .imap _ => false
  | .seq xs => stringKeyedList xs
  | .map kvs => stringKeyedKVs kvs
  | _ => true
def stringKeyedList : List GoVal → Bool
  | [] => true
  | v :: r => stringKeyed v && stringKeyedList r
def stringKeyedKVs : List (String × GoVal) → Bool
  | [] => true
  | (_, v) :: r => stringKeyed v && stringKeyedKVs r
end

end CV.C01
