import ComposeVerif.Model.Str
import ComposeVerif.Model.Template
import ComposeVerif.Spec.Template
/-!
# Model of the service environment / label layering (C16)

Mirrors the code that exists:

* `types.MappingWithEquals.OverrideBy / Resolve`, `types.Mapping.Resolve` (types/mapping.go),
* `types.Project.WithServicesEnvironmentResolved`, `WithServicesLabelsResolved`,
  `loadEnvFile`, `loadLabelFile`, `loadMappingFile` (types/project.go),
* `dotenv.ParseWithLookup` on *tokenised lines*: `KEY=<template>` where the value is an AST of the Compose
  interpolation grammar (C07: literals, `$$`, `$NAME`, `${NAME}`, `${NAME<op>arg}`) evaluated by C07's model of
  `template.Substitute` on its rendering, bare `KEY`, one rejected line.  The lexical grammar is C18's
  (`Props/C16.parseLines_is_dotenv_parse` ties the tokens to C18's model run on the rendered text);
  what is modelled here is the **lookup chain**: `expandVariables` asks the caller's lookup
  first and the lines already parsed in this file second; a bare `KEY` asks the lookup only,
* `dotenv.ParseWithFormat` with the (empty) format registry of the library,
* the two loader stages that pre-resolve value-less `environment` entries
  (`loader.Normalize`'s `resolve(…, keepEmpty = true)` and `loader.resolveServicesEnvironment`)
  followed by `MappingWithEquals.DecodeMapstructure`.

Go maps are association lists (first binding of a key is the binding); `m[k] = v` is `insert`
(replace in place, else append).  The file system and the registry of env_file formats are a parameter `FS`.
-/
namespace CV.EnvLayers

abbrev Key := Str

/-! ## Go maps -/

def lookup {β : Type} (k : Key) : List (Key × β) → Option β
  | [] => none
  | (k', v) :: r => if k' = k then some v else lookup k r

/-- `m[k] = v` -/
def insert {β : Type} (k : Key) (v : β) : List (Key × β) → List (Key × β)
  | [] => [(k, v)]
  | (k', v') :: r => if k' = k then (k, v) :: r else (k', v') :: insert k v r

/-- `OverrideBy`: `for k, v := range other { m[k] = v }` (iteration in list order) -/
def overrideBy {β : Type} (m other : List (Key × β)) : List (Key × β) :=
  other.foldl (fun acc kv => insert kv.1 kv.2 acc) m

/-- `MappingWithEquals.Resolve`: a key without value takes the looked-up value when there is one -/
def resolveMWE (look : Key → Option Str) (m : List (Key × Option Str)) : List (Key × Option Str) :=
  m.map fun kv => match kv.2 with
    | none => (kv.1, look kv.1)
    | some x => (kv.1, some x)

/-- `Mapping.ToMappingWithEquals` / `Labels.ToMappingWithEquals` -/
def toMWE (m : List (Key × Str)) : List (Key × Option Str) := m.map fun kv => (kv.1, some kv.2)

/-- `NewLabelsFromMappingWithEquals` -/
def ofMWE (m : List (Key × Option Str)) : List (Key × Str) :=
  m.filterMap fun kv => match kv.2 with
    | some v => some (kv.1, v)
    | none => none

/-! ## env / label files as tokenised lines -/

/-- the value of an assignment: a template of the Compose interpolation grammar (C07's AST: literals, `$$`, `$NAME`,
    `${NAME}`, `${NAME<op>arg}`); the text the dotenv parser hands to `template.Substitute` is its rendering.
    Literals contain no quote, `#`, backslash, white space or newline (dotenv lexing is C18's). -/
abbrev Seg := CV.Template.Seg

inductive Line
  | assign (k : Key) (v : List Seg)   -- `k=<rendering of v>`
  | bare (k : Key)                    -- `k`      (inherited from the lookup)
  | bad                               -- a line the dotenv parser rejects (`A B=1`)
deriving Repr

inductive Err
  | notFound   -- "env file … not found" / "label file … not found"
  | format     -- "unsupported env_file format"
  | parse      -- dotenv syntax error
  | read       -- the path exists but cannot be read as a file (a directory)
  | template   -- `template.Substitute` failed on a value: invalid template or `${X:?msg}` / `${X?msg}` unsatisfied
  | panic      -- `template.Substitute` would panic (shown unreachable: `Props/C16.no_panic`)
deriving Repr, DecidableEq

abbrev Look := Key → Option Str

/-- `expandVariables`: `template.Substitute` (C07's model) on the text of the value -/
def evalValue (look : Look) (v : List Seg) : Except Err Str :=
  match CV.Template.subst look (CV.Template.renderL v) with
  | .ok s => .ok s
  | .err _ => .error .template
  | .panic _ => .error .panic

/-- the mapping `expandVariables` hands to `template.Substitute`: caller's lookup first,
    then the lines of this file parsed so far -/
def withFile (look : Look) (out : List (Key × Str)) : Look :=
  fun n => match look n with
    | some v => some v
    | none => lookup n out

/-- `parser.parse` over tokenised lines, `out` = the map filled so far -/
def parseLines (look : Look) : List Line → List (Key × Str) → Except Err (List (Key × Str))
  | [], out => .ok out
  | .assign k v :: r, out =>
    match evalValue (withFile look out) v with
    | .ok val => parseLines look r (insert k val out)
    | .error e => .error e
  | .bare k :: r, out =>
    match look k with
    | some v => parseLines look r (insert k v out)
    | none => parseLines look r out
  | .bad :: _, _ => .error .parse

inductive Node
  | file (ls : List Line)
  | dir
  | notdir   -- nothing exists at the path because a *parent* is a regular file: `os.Stat` fails with ENOTDIR
             -- (`fileIsMissing` treats it like ENOENT since the `fix:` commit; before, `os.IsNotExist` did not)
deriving Repr

/-- a parser registered with `dotenv.RegisterFormat`: it is handed the opened file (here: the node) and the lookup -/
abbrev FormatParser := Node → Look → Except Err (List (Key × Str))

/-- the world outside the project: the file system and the process-global registry of `env_file` formats
    (`dotenv.RegisterFormat`; the library itself registers none) -/
structure FS where
  node : Str → Option Node
  formats : Str → Option FormatParser := fun _ => none

instance : CoeFun FS (fun _ => Str → Option Node) := ⟨FS.node⟩

/-- `dotenv.ParseWithFormat`: an unregistered format is an error, a registered parser decides everything else -/
def parseWithFormat (fs : FS) (format : Str) (nd : Node) (look : Look) : Except Err (List (Key × Str)) :=
  match fs.formats format with
  | none => .error .format
  | some p => p nd look

structure EnvFile where
  path : Str
  required : Bool
  format : Str
deriving Repr, DecidableEq

/-- the parser the harness registers under the private name `c16kv` (to exercise registered formats on the real code):
    every line `K=V` is taken literally at its first `=` (no interpolation), a line without `=` is inherited from the lookup -/
def kvParser : FormatParser
  | .file ls, look => .ok (ls.foldl (fun out l => match l with
      | .assign k v => insert k (CV.Template.renderL v) out
      | .bare k => match look k with
        | some x => insert k x out
        | none => out
      | .bad => insert ['A', ' ', 'B'] ['1'] out) [])
  | .dir, _ => .error .read
  | .notdir, _ => .error .read

/-- `loadMappingFile` (reached only when `os.Stat` did not say "not exist") -/
def loadMappingFile (fs : FS) (path format : Str) (look : Look) : Except Err (List (Key × Str)) :=
  match fs path with
  | none => .error .read                       -- os.Open fails
  | some .notdir => .error .read               -- os.Open fails: "not a directory"
  | some .dir =>
    if format ≠ [] then parseWithFormat fs format .dir look
    else .error .read                          -- io.ReadAll: "is a directory"
  | some (.file ls) =>
    if format ≠ [] then parseWithFormat fs format (.file ls) look
    else parseLines look ls []

/-- `loadEnvFile`: a missing file (`fileIsMissing`: ENOENT or ENOTDIR) is an error only when required -/
def loadEnvFile (fs : FS) (f : EnvFile) (look : Look) : Except Err (List (Key × Str)) :=
  match fs f.path with
  | none => if f.required then .error .notFound else .ok []
  | some .notdir => if f.required then .error .notFound else .ok []
  | some _ => loadMappingFile fs f.path f.format look

/-- `loadLabelFile`: a missing file is always an error -/
def loadLabelFile (fs : FS) (path : Str) (look : Look) : Except Err (List (Key × Str)) :=
  match fs path with
  | none => .error .notFound
  | some .notdir => .error .notFound
  | some _ => loadMappingFile fs path [] look

/-- the `resolve` closure of `WithServicesEnvironmentResolved`: files parsed so far, then the project environment -/
def envChain (penv acc : List (Key × Str)) : Look :=
  fun n => match lookup n acc with
    | some v => some v
    | none => lookup n penv

/-- the `resolve` closure of `WithServicesLabelsResolved`: files parsed so far only -/
def labelChain (acc : List (Key × Str)) : Look := fun n => lookup n acc

/-- the loop over `service.EnvFiles` -/
def loadEnvFiles (penv : List (Key × Str)) (fs : FS) : List EnvFile → List (Key × Str) → Except Err (List (Key × Str))
  | [], acc => .ok acc
  | f :: r, acc =>
    match loadEnvFile fs f (envChain penv acc) with
    | .error e => .error e
    | .ok vars => loadEnvFiles penv fs r (overrideBy acc vars)

/-- the loop over `service.LabelFiles` -/
def loadLabelFiles (fs : FS) : List Str → List (Key × Str) → Except Err (List (Key × Str))
  | [], acc => .ok acc
  | f :: r, acc =>
    match loadLabelFile fs f (labelChain acc) with
    | .error e => .error e
    | .ok vars => loadLabelFiles fs r (overrideBy acc vars)

structure Service where
  environment : List (Key × Option Str)
  envFiles : List EnvFile
  labels : List (Key × Str)
  labelFiles : List Str
deriving Repr, DecidableEq

/-- body of the loop of `WithServicesEnvironmentResolved` for one service -/
def resolveServiceEnv (penv : List (Key × Str)) (fs : FS) (discard : Bool) (s : Service) : Except Err Service :=
  let env1 := resolveMWE (fun k => lookup k penv) s.environment
  match loadEnvFiles penv fs s.envFiles [] with
  | .error e => .error e
  | .ok acc => .ok { s with
      environment := overrideBy (toMWE acc) env1
      envFiles := if discard then [] else s.envFiles }

/-- body of the loop of `WithServicesLabelsResolved` for one service -/
def resolveServiceLabels (fs : FS) (discard : Bool) (s : Service) : Except Err Service :=
  match loadLabelFiles fs s.labelFiles [] with
  | .error e => .error e
  | .ok acc =>
    let l := overrideBy (toMWE acc) (toMWE s.labels)
    .ok { s with
      labels := if l.isEmpty then s.labels else ofMWE l
      labelFiles := if discard then [] else s.labelFiles }

/-- every service, or the errors of the failing services
    (which one Go reports depends on its map iteration order) -/
def collect {α : Type} (rs : List (Str × Except Err α)) : Except (List Err) (List (Str × α)) :=
  let errs := rs.filterMap fun p => match p.2 with | .error e => some e | .ok _ => none
  if errs.isEmpty then
    .ok (rs.filterMap fun p => match p.2 with | .ok s => some (p.1, s) | .error _ => none)
  else .error errs

def mapServices (f : Service → Except Err Service) (svcs : List (Str × Service)) : Except (List Err) (List (Str × Service)) :=
  collect (svcs.map fun p => (p.1, f p.2))

def resolveProjectEnv (penv : List (Key × Str)) (fs : FS) (discard : Bool) (svcs : List (Str × Service)) :=
  mapServices (resolveServiceEnv penv fs discard) svcs

def resolveProjectLabels (fs : FS) (discard : Bool) (svcs : List (Str × Service)) :=
  mapServices (resolveServiceLabels fs discard) svcs

/-! ## value-less entries resolved while loading (loader/normalize.go, loader/environment.go) -/

/-- one element of the YAML `environment:` sequence, tokenised at its first `=`
    (`k` contains no `=`) -/
inductive Item
  | kv (k : Key) (v : Str)   -- "k=v"
  | bare (k : Key)           -- "k"
deriving Repr, DecidableEq

def Item.text : Item → Str
  | .kv k v => k ++ '=' :: v
  | .bare k => k

inductive YEnv
  | absent
  | list (items : List Item)
  | map (kvs : List (Key × Option Str))   -- `k: null` = without value
deriving Repr, DecidableEq

/-- Normalize's `resolve` on one element of the sequence form (`keepEmpty = true`) -/
def normalizeItem (penv : List (Key × Str)) : Item → Item
  | .kv k v => .kv k v
  | .bare k => match lookup k penv with
    | some val => .kv k val
    | none => .bare k

/-- Normalize's `resolve` on one entry of the mapping form (`keepEmpty = true`) -/
def normalizePair (penv : List (Key × Str)) (kv : Key × Option Str) : Key × Option Str :=
  match kv.2 with
  | some v => (kv.1, some v)
  | none => (kv.1, lookup kv.1 penv)

/-- Normalize's `resolve(e, fn, keepEmpty = true)` on `environment` -/
def normalizeEnv (penv : List (Key × Str)) : YEnv → YEnv
  | .absent => .absent
  | .list items => .list (items.map (normalizeItem penv))
  | .map kvs => .map (kvs.map (normalizePair penv))

/-- `resolveServicesEnvironment` on one element: the *whole* element text is looked up -/
def resolveSeqItem (penv : List (Key × Str)) (it : Item) : Item :=
  match lookup it.text penv with
  | some found => match it with
    | .kv k v => .kv k (v ++ '=' :: found)
    | .bare k => .kv k found
  | none => it

/-- `resolveServicesEnvironment`: only the sequence form -/
def resolveSeqEnv (penv : List (Key × Str)) : YEnv → YEnv
  | .list items => .list (items.map (resolveSeqItem penv))
  | y => y

def Item.pair : Item → Key × Option Str
  | .kv k v => (k, some v)
  | .bare k => (k, none)

/-- `MappingWithEquals.DecodeMapstructure`: `mapping[k] = …` for every element / entry in order -/
def decodeEnv : YEnv → List (Key × Option Str)
  | .absent => []
  | .list items => overrideBy [] (items.map Item.pair)
  | .map kvs => overrideBy [] kvs

structure LoadCfg where
  skipNormalization : Bool
  skipResolveEnvironment : Bool
  discard : Bool
deriving Repr, DecidableEq

/-- the `environment` of a service as decoded by a whole load, before the Project methods run -/
def loadedEnv (cfg : LoadCfg) (penv : List (Key × Str)) (y : YEnv) : List (Key × Option Str) :=
  let y1 := resolveSeqEnv penv y          -- loader.ResolveEnvironment, at the end of loadYamlModel
  decodeEnv (if cfg.skipNormalization then y1 else normalizeEnv penv y1)

/-- environment part of a whole load of one service -/
def loadServiceEnv (cfg : LoadCfg) (penv : List (Key × Str)) (fs : FS) (y : YEnv) (s : Service) : Except Err Service :=
  let s1 := { s with environment := loadedEnv cfg penv y }
  if cfg.skipResolveEnvironment then .ok s1 else resolveServiceEnv penv fs cfg.discard s1

/-- environment and label part of a whole load (`modelToProject`): all services' environments, then all labels -/
def loadProject (cfg : LoadCfg) (penv : List (Key × Str)) (fs : FS) (svcs : List (Str × YEnv × Service)) :
    Except (List Err) (List (Str × Service)) :=
  match collect (svcs.map fun p => (p.1, loadServiceEnv cfg penv fs p.2.1 p.2.2)) with
  | .error es => .error es
  | .ok s1 => resolveProjectLabels fs cfg.discard s1

end CV.EnvLayers
