import ComposeVerif.Model.C01Stages
import ComposeVerif.Model.Interp
import ComposeVerif.Model.Merge
import ComposeVerif.Model.Unicity
import ComposeVerif.Model.ShortTransform
import ComposeVerif.Model.C11Defaults
import ComposeVerif.Model.C11Normalize
import ComposeVerif.Model.Validate
import ComposeVerif.Model.Paths
/-!
# C01 — the stages COMPOSED: `processRawYaml` / `loadYamlFile` / `loadYamlModel` / `load` as one function (round 5)

The stage models of the owners (C01 walkers, C08 `Interp`, C04 `Merge` / `Unicity`, C03 `Short`, C11 defaults and
normalisation, C10 `Validate`, C12 `Paths`) chained in the order and under the option tests of loader/loader.go:

```go
processRawYaml:  convertToStringKeysRecursive → top-level test → [Interpolate] → fixEmptyNotNull → [ApplyExtends]
                 → processors → [ApplyInclude] → Merge(dict, cfg) → EnforceUnicity → [schema.Validate; delete version]
                 → Canonical(dict, SkipInterpolation) → OmitEmpty → EnforceUnicity
loadYamlModel:   for each file, each document: processRawYaml;  [SetDefaultValues] → [validation.Validate]
                 → [ResolveRelativePaths] → ResolveEnvironment
load:            "empty compose file" → "project name must not be empty" → [dict["name"] = projectName; Normalize]
```

What is a parameter here and not a model (each has its own theorems or only the oracle):
* `extInc` — `ApplyExtends`, the reset processors and `ApplyInclude` on the file's tree: their C01 models
  (`Ext.resolve`, `Inc.loadModel`, `Reset.run`) work on abstractions of the tree (reference graph, file system, node
  arena) and have their own never-panics / termination theorems; here any function into `Out`;
* `schemaOK` — the verdict of gojsonschema (model: `Schema.conforms composeSchema`, tie: stream `schemaValidate`);
* `resolveEnv` — `ResolveEnvironment` (a total function: it cannot contribute a panic outcome by type; oracle only).

`Val` has no nil slice and no `map[interface{}]interface{}`: `toVal` (after `convert` + `fixEmpty`, which remove both —
`walkers_establish_schema_input`) identifies a nil slice with the empty list, which is what `fixEmptyNotNull` does;
so `fixEmpty` is applied before the C08 model of `Interpolate` (which only rewrites strings) rather than after it.
-/
namespace CV.C01.Pipe
open CV

inductive Out (α : Type) where
  | ok (a : α)
  | err (stage : String)
  | panic (site : String)
deriving Repr

def Out.bind {α β : Type} (o : Out α) (f : α → Out β) : Out β :=
  match o with
  | .ok a => f a
  | .err e => .err e
  | .panic s => .panic s

/-! conversions between the walkers' `GoVal` and `Val` -/

mutual
def ofVal : Val → GoVal
  | .null => .null
  | .bool b => .bool b
  | .int i => .int i
  | .float f => .float f
  | .str s => .str s
  | .seq xs => .seq (ofVals xs)
  | .map kvs => .map (ofKVs kvs)
def ofVals : List Val → List GoVal
  | [] => []
  | v :: r => ofVal v :: ofVals r
def ofKVs : List (String × Val) → List (String × GoVal)
  | [] => []
  | (k, v) :: r => (k, ofVal v) :: ofKVs r
end

mutual
def toVal : GoVal → Val
  | .null => .null
  | .bool b => .bool b
  | .int i => .int i
  | .float f => .float f
  | .str s => .str s
  | .nilseq => .seq []
  | .seq xs => .seq (toVals xs)
  | .map kvs => .map (toKVs kvs)
  | .imap _ => .map []          -- not reachable after `convert` (`walkers_establish_schema_input`)
def toVals : List GoVal → List Val
  | [] => []
  | v :: r => toVal v :: toVals r
def toKVs : List (String × GoVal) → List (String × Val)
  | [] => []
  | (k, v) :: r => (k, toVal v) :: toKVs r
end

/-! lifting the owners' outcome types (the error class is replaced by the name of the stage) -/

def ofWalker {α : Type} (stage : String) : C01.Out α → Out α
  | .ok a => .ok a | .err _ => .err stage | .panic s => .panic s
def ofInterp {α : Type} : Interp.Out α → Out α
  | .ok a => .ok a | .err _ => .err "Interpolate" | .panic s => .panic s
def ofMerge {α : Type} (stage : String) : Merge.Out α → Out α
  | .ok a => .ok a | .err _ => .err stage | .panic s => .panic s
def ofShort {α : Type} : Short.Out α → Out α
  | .ok a => .ok a | .err _ => .err "Canonical" | .panic s => .panic s
def ofC11 {α : Type} (stage : String) : C11.Out α → Out α
  | .ok a => .ok a | .err _ => .err stage | .panic s => .panic s
def ofPaths {α : Type} : Paths.Out α → Out α
  | .ok a => .ok a | .err _ => .err "ResolveRelativePaths" | .panic s => .panic s
def ofValidate (v : Val) : Validate.VOut → Out Val
  | .ok => .ok v | .err _ => .err "validation.Validate" | .panic s => .panic s

structure Opts where
  skipInterpolation : Bool
  skipValidation : Bool
  skipDefaultValues : Bool
  skipNormalization : Bool
  resolvePaths : Bool
deriving Repr

structure Params where
  interp : Interp.Cfg
  omitPats : List (List String)
  defaults : List (List String × String)
  paths : Paths.Cfg
  clean : String → String
  env : C11.Env
  /-- `opts.projectName` (set before the call; "project name must not be empty" otherwise) -/
  projectName : String
  /-- gojsonschema's verdict on the merged tree -/
  schemaOK : Val → Bool
  /-- `ApplyExtends` + reset processors + `ApplyInclude` on one document's tree -/
  extInc : Val → Out Val
  /-- `ResolveEnvironment` -/
  resolveEnv : Val → Val

def kvsOf : Val → Val.KVs
  | .map kvs => kvs
  | _ => []

/-- `processRawYaml(raw)` with the accumulated `dict` -/
def processRawYaml (o : Opts) (P : Params) (dict : Val) (raw : GoVal) : Out Val :=
  (ofWalker "convert" (convertTop raw)).bind fun kvs0 =>
  let cfg0 := toKVs (fixEmptyKVs kvs0)
  (if o.skipInterpolation then Out.ok cfg0 else ofInterp (Interp.interpolate P.interp cfg0)).bind fun cfg1 =>
  (P.extInc (.map cfg1)).bind fun cfg2 =>
  (ofMerge "Merge" (Merge.merge dict cfg2)).bind fun d1 =>
  (ofMerge "EnforceUnicity" (Unicity.enforceTop d1)).bind fun d2 =>
  (if o.skipValidation then Out.ok d2
   else if P.schemaOK d2 then Out.ok (.map (Val.erase "version" (kvsOf d2))) else .err "schema.Validate").bind fun d3 =>
  (ofShort (Short.canonical o.skipInterpolation d3)).bind fun d4 =>
  (ofWalker "OmitEmpty" (omitEmptyTop P.omitPats (ofKVs (kvsOf d4)))).bind fun d5 =>
  ofMerge "EnforceUnicity" (Unicity.enforceTop (.map (toKVs d5)))

/-- the loop of `loadYamlModel` / `loadYamlFile` over all documents of all files, in order -/
def loadFiles (o : Opts) (P : Params) : Val → List GoVal → Out Val
  | dict, [] => .ok dict
  | dict, raw :: rest => (processRawYaml o P dict raw).bind fun d => loadFiles o P d rest

/-- `loadYamlModel` after the loop, and the tail of `load` -/
def loadModel (o : Opts) (P : Params) (raws : List GoVal) : Out Val :=
  (loadFiles o P (.map []) raws).bind fun d0 =>
  (if o.skipDefaultValues then Out.ok d0 else ofC11 "SetDefaultValues" (C11.setDefaultValues P.defaults (kvsOf d0))).bind fun d1 =>
  (if o.skipValidation then Out.ok d1 else ofValidate d1 (Validate.validate d1)).bind fun d2 =>
  (if o.resolvePaths then ofPaths (Paths.resolve P.paths d2) else Out.ok d2).bind fun d3 =>
  let d4 := P.resolveEnv d3
  if (kvsOf d4).isEmpty then .err "empty compose file"
  else if P.projectName = "" then .err "project name must not be empty"
  else if o.skipNormalization then .ok d4
  else (ofC11 "Normalize" (C11.normalize P.clean P.env (Val.insert "name" (.str P.projectName) (kvsOf d4)))).bind fun kvs =>
    .ok (.map kvs)

end CV.C01.Pipe
