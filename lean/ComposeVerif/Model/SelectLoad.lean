import ComposeVerif.Model.Select
/-!
# C15 (round 6) — the loader side of profile selection

`loader.modelToProject` ends with

```
project.WithProfiles(opts.Profiles)                          -- always, also with no profile
if !opts.SkipConsistencyCheck { checkConsistency(project) }  -- here: its `depends_on` loop
if !opts.SkipResolveEnvironment { project.WithServicesEnvironmentResolved(opts.discardEnvFiles) }
```

on the project `Transform` has just filled: every declared service in `Services`, `DisabledServices` nil, no profile.
`cli.WithDefaultProfiles` produces `opts.Profiles` from the caller's list or from `COMPOSE_PROFILES`.

Core Lean only (linked into the driver).
-/
namespace CV.Sel

/-- `strings.TrimSpace` on the characters the generators use (space, tab, CR, LF) -/
def trimSpace (l : List Char) : String :=
  String.ofList ((l.dropWhile Char.isWhitespace).reverse.dropWhile Char.isWhitespace).reverse

/-- `strings.Split(s, ",")` on the characters of `s` (structural, so that `decide` evaluates it): never empty,
`Split("", ",") = [""]` -/
def splitComma : List Char → List (List Char)
  | [] => [[]]
  | x :: xs => match splitComma xs with
    | [] => [[]]
    | h :: t => if x = ',' then [] :: h :: t else (x :: h) :: t

/-- `cli.WithDefaultProfiles(profiles...)`: the caller's profiles if any, else `COMPOSE_PROFILES` split at `,` with every
piece trimmed (an unset or empty variable gives the one-element list `[""]`: `strings.Split("", ",")`) -/
def defaultProfiles (given : List String) (env : AL String) : List String :=
  if given.isEmpty then (splitComma ((lookup "COMPOSE_PROFILES" env).getD "").toList).map trimSpace else given

/-- what `Transform` hands to the tail of `modelToProject`: all declared services enabled, nothing disabled, no profile -/
def Declared (p : Proj) : Prop := p.disabled = [] ∧ p.profiles = []
instance (p : Proj) : Decidable (Declared p) := by unfold Declared; exact inferInstance

/-- the `depends_on` loop of `loader.checkConsistency`: `GetService(dep)` must succeed, or fail with `ErrDisabled` on an
optional dependency.  `some (service, dependency)` = the first offending pair in list order (the error names one pair; which
one Go reports depends on map order, the *outcome* does not) -/
def depOffence (p : Proj) (d : String × Dep) : Bool :=
  match getService p d.1 with
  | .ok _ => false
  | .disabled => d.2.required
  | .notFound => true

def checkDeps (p : Proj) : Option (String × String) :=
  (p.services.flatMap fun kv => (kv.2.deps.filter (depOffence p)).map fun d => (kv.1, d.1)).head?

inductive LoadOut where
  | ok (p : Proj)
  | undefinedDependency      -- "service %q depends on undefined service %q"
deriving DecidableEq, Repr, Inhabited

/-- the tail of `loader.modelToProject` (services without `env_file`) -/
def loadApply (p0 : Proj) (profiles : List String) (skipConsistency skipResolve : Bool) : LoadOut :=
  let p1 := withProfiles p0 profiles
  if !skipConsistency && (checkDeps p1).isSome then .undefinedDependency
  else .ok (if skipResolve then p1 else resolveEnabled p1)

/-- `cli.ProjectOptions` with `WithDefaultProfiles(given...)` in front of the loader -/
def loadApplyCli (p0 : Proj) (given : List String) (env : AL String) (skipConsistency skipResolve : Bool) : LoadOut :=
  loadApply p0 (defaultProfiles given env) skipConsistency skipResolve

end CV.Sel
