import ComposeVerif.Model.Str
/-!
# Model of `template.Substitute` (template/template.go)

Mirrors the code that exists, quirks included:

* `DefaultPattern` as a hand-written leftmost-first matcher (`matchDollar`):
  `\$(?i:(?P<escaped>\$)|(?P<named>[_a-z][_a-z0-9]*)|{(?:(?P<braced>[_a-z][_a-z0-9]*(?::?[-+?](.*))?)}|(?P<invalid>)))`
  — the greedy `.*` stops at a newline and backtracks to the *last* `}` of the line;
  under `(?i)` the class `[a-z]` also matches U+017F and U+212A (Go case folding);
* `ReplaceAllStringFunc`'s scan (`scan`), first error wins, replacement `""` on error;
* `getFirstBraceClosingIndex` (`firstClose`);
* `getSubstitutionFunctionForTemplate` (`selectOp`): earliest occurrence, `:?` when none;
* `DefaultReplacementAppliedFunc` (`repl`): re-match of the truncated text — a failed
  re-match is the `panic` outcome (`matchGroups` would index a nil slice);
* the six operator functions, `partition`, nested `Substitute` on the argument and on `rest`.

Recursion is on explicit fuel; `Out.panic .fuel` is distinguished from the real
panic site so that fuel-sufficiency is a theorem, not an assumption.
-/
namespace CV.Template

abbrev Env := Str → Option Str

inductive Err
  | invalid
  | required (var : Str) (msg : Str)
deriving Repr, DecidableEq

inductive PanicSite
  | fuel          -- model artefact: not enough fuel
  | matchGroups   -- template.go: matchGroups indexes `matches[i+1]` on a nil match
deriving Repr, DecidableEq

inductive Out
  | ok (s : Str)
  | err (e : Err)
  | panic (site : PanicSite)
deriving Repr, DecidableEq

/-- `[a-z]` under `(?i)`: ASCII letters plus the two runes Go's simple case folding adds. -/
def isAlphaFold (c : Char) : Bool := c.isAlpha || c == 'ſ' || c == 'K'
def isNameStart (c : Char) : Bool := c == '_' || isAlphaFold c
def isNameChar (c : Char) : Bool := c == '_' || isAlphaFold c || c.isDigit

def spanName : Str → Str × Str
  | [] => ([], [])
  | c :: cs => if isNameChar c then ((spanName cs).1.cons c, (spanName cs).2) else ([], c :: cs)

def isOpChar (c : Char) : Bool := c == '-' || c == '+' || c == '?'

/-- length of the prefix of `s` that ends with the last `}` before any newline -/
def lastCloseLen (s : Str) : Option Nat :=
  match ((s.takeWhile (· != '\n')).reverse.dropWhile (· != '}')) with
  | [] => none
  | r => some r.length

inductive M
  | escaped
  | named (n : Str)
  | braced (body : Str)
  | invalid
deriving Repr, DecidableEq

/-- body of a `${` match given the text after `${`: returns (kind, matched-after-`${`, rest) -/
def matchBraced (r : Str) : M × Str × Str :=
  match r with
  | [] => (.invalid, [], r)
  | c :: _ =>
    if isNameStart c then
      let n := (spanName r).1
      let r2 := (spanName r).2
      match r2 with
      | '}' :: r3 => (.braced n, n ++ ['}'], r3)
      | ':' :: o :: r3 =>
        if isOpChar o then
          match lastCloseLen r3 with
          | some k => (.braced (n ++ ':' :: o :: (r3.take (k - 1))), n ++ ':' :: o :: r3.take k, r3.drop k)
          | none => (.invalid, [], r)
        else (.invalid, [], r)
      | o :: r3 =>
        if isOpChar o then
          match lastCloseLen r3 with
          | some k => (.braced (n ++ o :: (r3.take (k - 1))), n ++ o :: r3.take k, r3.drop k)
          | none => (.invalid, [], r)
        else (.invalid, [], r)
      | [] => (.invalid, [], r)
    else (.invalid, [], r)

/-- regex match attempt anchored at a `$`: (kind, matched text, remainder) -/
def matchDollar : Str → Option (M × Str × Str)
  | '$' :: '$' :: r => some (.escaped, ['$', '$'], r)
  | '$' :: '{' :: r =>
    let m := matchBraced r
    some (m.1, '$' :: '{' :: m.2.1, m.2.2)
  | '$' :: c :: r =>
    if isNameStart c then some (.named (spanName (c :: r)).1, '$' :: (spanName (c :: r)).1, (spanName (c :: r)).2)
    else none
  | _ => none

/-- `getFirstBraceClosingIndex`; `open_` may go negative exactly as the Go `int` does.
    (Before the `fix:` commit recorded in findings/C07.txt the character after every `{` was
    skipped; that variant is kept as `firstCloseGoOld` in Neg/C07.lean.) -/
def firstCloseGo : Str → Nat → Int → Option Nat
  | [], _, _ => none
  | '}' :: cs, i, o => if o - 1 == 0 then some i else firstCloseGo cs (i + 1) (o - 1)
  | '{' :: cs, i, o => firstCloseGo cs (i + 1) (o + 1)
  | _ :: cs, i, o => firstCloseGo cs (i + 1) o

def firstClose (s : Str) : Option Nat := firstCloseGo s 0 0

inductive Op | colonQ | q | colonDash | dash | colonPlus | plus
deriving Repr, DecidableEq

def Op.str : Op → Str
  | .colonQ => [':', '?'] | .q => ['?'] | .colonDash => [':', '-']
  | .dash => ['-'] | .colonPlus => [':', '+'] | .plus => ['+']

/-- the operator table in source order (regenerated copy: `Gen.Consts.opTable`) -/
def opTable : List Op := [.colonQ, .q, .colonDash, .dash, .colonPlus, .plus]

def pickEarlier (s : Str) (acc : Option (Nat × Op)) (o : Op) : Option (Nat × Op) :=
  match indexOf o.str s, acc with
  | none, a => a
  | some i, none => some (i, o)
  | some i, some (j, p) => if i < j then some (i, o) else some (j, p)

/-- `getSubstitutionFunctionForTemplate`: the operator whose first occurrence is earliest;
    with none present the sort leaves the table untouched and `:?` is chosen -/
def selectOp (s : Str) : Op :=
  match opTable.foldl (pickEarlier s) none with
  | some (_, o) => o
  | none => .colonQ

/-- the six operator functions, after the argument has been substituted -/
def applyOp (op : Op) (name : Str) (v : Option Str) (d : Str) : Out :=
  match op with
  | .colonDash => match v with
    | some x => if x.isEmpty then .ok d else .ok x
    | none => .ok d
  | .dash => match v with
    | some x => .ok x
    | none => .ok d
  | .colonPlus => match v with
    | some x => if x.isEmpty then .ok x else .ok d
    | none => .ok []
  | .plus => match v with
    | some _ => .ok d
    | none => .ok []
  | .colonQ => match v with
    | some x => if x.isEmpty then .err (.required name d) else .ok x
    | none => .err (.required name d)
  | .q => match v with
    | some x => .ok x
    | none => .err (.required name d)

mutual
/-- `ReplaceAllStringFunc` + first-error bookkeeping -/
def scan (fuel : Nat) (env : Env) (s : Str) (acc : Str) (firstErr : Option Err) : Out :=
  match fuel with
  | 0 => .panic .fuel
  | fuel + 1 =>
    match s with
    | [] => match firstErr with
      | none => .ok acc
      | some e => .err e
    | c :: cs =>
      if c == '$' then
        match matchDollar (c :: cs) with
        | none => scan fuel env cs (acc ++ [c]) firstErr
        | some (_, m, rest) =>
          match repl fuel env m with
          | .ok v => scan fuel env rest (acc ++ v) firstErr
          | .err e => scan fuel env rest acc (match firstErr with | none => some e | some e0 => some e0)
          | .panic p => .panic p
      else scan fuel env cs (acc ++ [c]) firstErr
/-- `DefaultReplacementAppliedFunc` on one matched substring -/
def repl (fuel : Nat) (env : Env) (m : Str) : Out :=
  match fuel with
  | 0 => .panic .fuel
  | f + 1 =>
    let op := selectOp m
    let sub := match firstClose m with
      | some i => m.take (i + 1)
      | none => m
    let rest := match firstClose m with
      | some i => m.drop (i + 1)
      | none => []
    match matchDollar sub with
    | none => .panic .matchGroups
    | some (.escaped, _, _) => .ok ['$']
    | some (.invalid, _, _) => .err .invalid
    | some (.named n, _, _) => .ok ((env n).getD [])
    | some (.braced body, _, _) =>
      if containsStr op.str body then
        match scan f env (cut op.str body).2 [] none with
        | .panic p => .panic p
        | .err e => .err e
        | .ok d =>
          match applyOp op (cut op.str body).1 (env (cut op.str body).1) d with
          | .ok x =>
            match scan f env rest [] none with
            | .ok r => .ok (x ++ r)
            | o => o
          | o => o
      else .ok ((env body).getD [])
end

/-- fuel that is always sufficient (`fuel_sufficient` in Props/C07) -/
def fuelFor (s : Str) : Nat := 2 * s.length + 4

def subst (env : Env) (s : Str) : Out := scan (fuelFor s) env s [] none

end CV.Template
