import ComposeVerif.Model.Secrets
/-!
# C20 — the secrets / configs pipeline under loader options (round 6)

`Model/Secrets.lean` models the default load.  Two loader options change what the stages after them see:

* `Options.KnownExtensions` — `processExtensions(dict, p, extensions)` ends with

  ```go
  for name, val := range extras {
      if name == types.SecretConfigXValue { continue }          // repo fix of round 6
      if typ, ok := extensions[name]; ok {
          target := reflect.New(reflect.TypeOf(typ)).Elem().Interface()
          err = Transform(val, &target)
          if err != nil { return nil, err }
          extras[name] = target
      }
  }
  if len(extras) > 0 { dict[consts.Extensions] = extras }
  ```

  so the value of a registered `x-` attribute is replaced by *whatever the caller's Go type decodes it to* — a value of
  another dynamic type (a struct, a pointer, a number) that the later stages (`secretConfigDecoderHook`'s type
  assertions, the encoders) see instead of the raw one.  The caller's decoder is a parameter here
  (`KnownExt.dec : name → raw value → decoded value as the encoders render it, or a failure`).

* `Options.SkipNormalization` — `Normalize` (and with it `setNameFromKey`) does not run.

`carrierGuard = false` is the pipeline before the fix (the carrier key itself goes through the caller's decoder).
Options that do not touch the secrets / configs sections of a valid model (`SkipInterpolation`, `SkipValidation`,
`SkipConsistencyCheck`, `ResolvePaths`, `Profiles`) are the default model; the `c20.flow` correspondence runs them
against it.
-/
namespace CV.Secrets
open CV CV.Val

/-- the caller's `KnownExtensions`: the registered names and what their Go types make of a raw value -/
structure KnownExt where
  names : List String := []
  dec : String → Val → Option Val := fun _ v => some v

structure LoadOpts where
  known : KnownExt := {}
  skipNormalization : Bool := false
  /-- the `name == types.SecretConfigXValue` test of `processExtensions` (absent before the fix) -/
  carrierGuard : Bool := true

/-- the loop over `extras` at the end of `processExtensions` -/
def decodeKnown (guard : Bool) (k : KnownExt) : KVs → Out KVs
  | [] => .ok []
  | (n, v) :: r =>
    if (guard && n == xValue) || !k.names.contains n then
      (decodeKnown guard k r).bind fun r' => .ok ((n, v) :: r')
    else
      match k.dec n v with
      | none => .err "transform"
      | some v' => (decodeKnown guard k r).bind fun r' => .ok ((n, v') :: r')

/-- `processExtensions(obj, p, known)` on one resource object (the attributes of the object itself; the mappings
nested in a resource — labels, driver options — are processed as in the default model) -/
def pxObjK (guard : Bool) (k : KnownExt) (p : TPath) (kvs : KVs) : Out Val :=
  (decodeKnown guard k (extrasOf (isUserDefined p) kvs)).bind fun ex =>
    .ok (.map (withExtras ex (pxKVs p (isUserDefined p) kvs)))

/-- what `processExtensions` makes of the value stored under `n` in the section at path `p` -/
def pxEntryK (guard : Bool) (k : KnownExt) (p : TPath) (n : String) : Val → Out Val
  | .map kvs => pxObjK guard k (pnext p n) kvs
  | v => .ok (pxVal (childPath p n v) v)

/-- decode of a whole section: `processExtensions` with the known extensions, then `Transform` -/
def decodeObjsK (guard : Bool) (k : KnownExt) (f : Val → Out FileObj) (p : TPath) : KVs → Out (List (String × FileObj))
  | [] => .ok []
  | (n, v) :: r =>
    match (pxEntryK guard k p n v).bind f, decodeObjsK guard k f p r with
    | .ok o, .ok r' => .ok ((n, o) :: r')
    | .panic s, _ => .panic s
    | _, .panic s => .panic s
    | .err e, _ => .err e
    | _, .err e => .err e

/-- `Normalize` on the objects of a section, or nothing with `SkipNormalization` -/
def normObjs (skip : Bool) (pname : String) (objs : KVs) : Out KVs :=
  if skip then .ok objs else setNameObjs pname objs

def loadSectionK (o : LoadOpts) (isSecret : Bool) (env : Env) (pname : String) (dict : KVs) : Out (List (String × FileObj)) :=
  match lookup (if isSecret then "secrets" else "configs") dict with
  | none => .ok []
  | some (.map objs) =>
    (normObjs o.skipNormalization pname (resolveObjs (if isSecret then xValue else "content") env objs)).bind fun objs2 =>
      decodeObjsK o.carrierGuard o.known (if isSecret then decodeSecret else decodeConfig)
        [if isSecret then "secrets" else "configs"] objs2
  | some _ => .err "setNameFromKey"

/-- the load under options -/
def loadK (o : LoadOpts) (env : Env) (pname : String) (dict : KVs) : Out Proj :=
  (loadSectionK o true env pname dict).bind fun ss =>
  (loadSectionK o false env pname dict).bind fun cs =>
  .ok { secrets := ss, configs := cs }

end CV.Secrets
