import ComposeVerif.Model.Marshal
import ComposeVerif.Model.TypeDesc
/-!
# Tag-driven encoding of the model types (C09): yaml.v3 / encoding/json over the regenerated descriptors

`encode env fmt fuel ty v` is the **tree** the loader reads back from the rendering of the typed value `v : ty`
(typed values are `Val`s: a struct is a `.map` keyed by Go field names, `nil` is `.null`).  It follows the two
encoders' documented rules:

* field key / skip / inline / omitempty from the struct tags (`Gen.Types`);
* yaml.v3 `omitempty`: zero scalar, nil pointer, empty slice/map, `IsZero()` if the type has it, a struct all of whose
  exported fields are zero; a nil slice / map that is *not* omitted is written `[]` / `{}`;
* encoding/json `omitempty`: false, 0, "", nil pointer, empty slice/map — never a struct; nil is written `null`;
* a type with a hand-written marshaller is rendered by its model in `Model/Marshal.lean`.
-/
namespace CV.Encode
open CV CV.TypeDesc CV.Marshal

inductive Fmt where
  | yaml
  | json
deriving DecidableEq, Repr

structure Env where
  structs : List StructDesc
  named : List (String × TyExpr)
  customs : List (String × List String)

def hasMethod (env : Env) (ty m : String) : Bool :=
  match env.customs.find? (·.1 == ty) with
  | some (_, ms) => ms.contains m || ms.contains ("*" ++ m)
  | none => false

def primZero : Val → Bool
  | .str s => s == ""
  | .int i => i == 0
  | .bool b => !b
  | .float r => r == "0"
  | .null => true
  | _ => false

def field (fs : List (String × Val)) (k : String) : Val := (Val.lookup k fs).getD .null

/-- yaml.v3 `isZero` -/
def isZeroY (env : Env) : Nat → TyExpr → Val → Bool
  | 0, _, _ => false
  | f + 1, ty, v =>
    match ty with
    | .prim _ => primZero v
    | .other _ => primZero v
    | .ptr _ => match v with | .null => true | _ => false
    | .slice _ => match v with | .null => true | .seq [] => true | _ => false
    | .map _ => match v with | .null => true | .map [] => true | _ => false
    | .named n =>
      if hasMethod env n "IsZero" then (match v with | .null => true | _ => false)   -- ShellCommand.IsZero: nil only
      else match findStruct env.structs n with
        | some s => match v with
          | .map fs => s.fields.all fun fd => !fd.exported || isZeroY env f fd.ty (field fs fd.goName)
          | _ => false
        | none => match findNamed env.named n with
          | some e => isZeroY env f e v
          | none => false

/-- encoding/json `isEmptyValue` -/
def isEmptyJ (env : Env) : Nat → TyExpr → Val → Bool
  | 0, _, _ => false
  | f + 1, ty, v =>
    match ty with
    | .prim _ => primZero v
    | .other _ => primZero v
    | .ptr _ => match v with | .null => true | _ => false
    | .slice _ => match v with | .null => true | .seq [] => true | _ => false
    | .map _ => match v with | .null => true | .map [] => true | _ => false
    | .named n =>
      match findStruct env.structs n with
      | some _ => false
      | none => match findNamed env.named n with
        | some e => isEmptyJ env f e v
        | none => false

def mapKVs (g : Val → Out) : List (String × Val) → Except Out (List (String × Val))
  | [] => .ok []
  | (k, x) :: r =>
    match g x with
    | .ok v => match mapKVs g r with
      | .ok vs => .ok ((k, v) :: vs)
      | .error e => .error e
    | e => .error e

def setField (k : String) (v : Val) (fs : List (String × Val)) : List (String × Val) :=
  fs.map fun p => if p.1 == k then (k, v) else p

/-- the hand-written marshaller of a named type, if any: either a complete rendering (`.inl`), or a pre-processing
    of the value followed by the tag-driven encoding as another type (`.inr`) -/
def custom (fmt : Fmt) (n : String) (v : Val) : Option (Out ⊕ (String × Val)) :=
  match n, fmt with
  | "UnitBytes", .yaml => some (.inl (marshalY_UnitBytes v))
  | "UnitBytes", .json => some (.inl (marshalJ_UnitBytes v))
  | "Duration", _ => some (.inl (marshal_Duration v))
  | "EnvFile", .yaml => some (.inl (marshalY_EnvFile v))
  | "EnvFile", .json => some (.inl (marshalJ_EnvFile v))
  | "HostsList", _ => some (.inl (nilAs (.seq []) marshal_HostsList v))
  | "SSHKey", .yaml => some (.inl (marshalY_SSHKey v))
  | "SSHKey", .json => some (.inl (marshalJ_SSHKey v))
  | "UlimitsConfig", .yaml => some (.inl (marshalY_Ulimits v))
  | "UlimitsConfig", .json => some (.inl (marshalJ_Ulimits v))
  | "ShellCommand", .yaml => some (.inl (marshal_StrSlice v))
  | "ServiceConfig", .yaml =>
    match v with
    | .map fs => some (.inr ("ServiceConfig", .map (setField "Name" (.str "") fs)))
    | _ => none
  | "SecretConfig", _ =>
    match v with
    | .map fs => some (.inr ("FileObjectConfig", .map (setField "Content" (.str "") fs)))   -- marshallContent is off by default
    | _ => none
  | "ConfigObjConfig", _ =>
    match v with
    | .map fs => some (.inr ("FileObjectConfig", .map (if getStr fs "Environment" = "" then fs else setField "Content" (.str "") fs)))
    | _ => none
  | _, _ => none

def keyOf (fmt : Fmt) (fd : FieldDesc) : String := match fmt with | .yaml => fd.yamlKey | .json => fd.jsonKey
def skipOf (fmt : Fmt) (fd : FieldDesc) : Bool := !fd.exported || (match fmt with | .yaml => fd.yamlSkip | .json => fd.jsonSkip)
def omitOf (fmt : Fmt) (fd : FieldDesc) : Bool := match fmt with | .yaml => fd.yamlOmit | .json => fd.jsonOmit

/-- the fields of a struct, in declaration order; `enc` renders a field value, `zero` is the format's omitempty test -/
def encodeFieldsWith (fmt : Fmt) (enc : TyExpr → Val → Out) (zero : TyExpr → Val → Bool) :
    List FieldDesc → List (String × Val) → Out
  | [], _ => .ok (.map [])
  | fd :: rest, fs =>
    let v := field fs fd.goName
    let restOut := encodeFieldsWith fmt enc zero rest fs
    if skipOf fmt fd then restOut else
    if fmt = .yaml ∧ fd.yamlInline then
      -- an inlined map[string]any: its entries become entries of the enclosing mapping, values unchanged
      match restOut, v with
      | .ok (.map out), .map ext => .ok (.map (ext ++ out))
      | .ok (.map out), .null => .ok (.map out)
      | o, _ => o
    else
    if omitOf fmt fd && zero fd.ty v then restOut else
    match enc fd.ty v, restOut with
    | .ok t, .ok (.map out) => .ok (.map ((keyOf fmt fd, t) :: out))
    | .ok _, o => o
    | o, _ => o

def zeroOf (env : Env) (fmt : Fmt) (ty : TyExpr) (v : Val) : Bool :=
  match fmt with
  | .yaml => isZeroY env 60 ty v
  | .json => isEmptyJ env 60 ty v

/-- rendering of a typed value; one unit of fuel per nesting level -/
def encode (env : Env) (fmt : Fmt) : Nat → TyExpr → Val → Out
  | 0, _, _ => .unmodelled "fuel"
  | f + 1, ty, v =>
    match ty with
    | .prim _ => .ok v
    | .other _ => .ok v
    | .ptr e => match v with
      | .null => .ok .null
      | v => encode env fmt f e v
    | .slice e => match v with
      | .null => .ok (match fmt with | .yaml => .seq [] | .json => .null)
      | .seq xs => match mapOut (encode env fmt f e) xs with
        | .ok ys => .ok (.seq ys)
        | .error o => o
      | _ => .unmodelled "not a slice"
    | .map e => match v with
      | .null => .ok (match fmt with | .yaml => .map [] | .json => .null)
      | .map kvs => match mapKVs (encode env fmt f e) kvs with
        | .ok ys => .ok (.map ys)
        | .error o => o
      | _ => .unmodelled "not a map"
    | .named n =>
      match custom fmt n v with
      | some (.inl o) => o
      | some (.inr (n', v')) =>
        (match findStruct env.structs n', v' with
          | some s, .map fs => encodeFieldsWith fmt (encode env fmt f) (zeroOf env fmt) s.fields fs
          | _, _ => .unmodelled "custom delegate")
      | none =>
        match findStruct env.structs n with
        | some s => (match v with
          | .map fs => encodeFieldsWith fmt (encode env fmt f) (zeroOf env fmt) s.fields fs
          | _ => .unmodelled "not a struct")
        | none => match findNamed env.named n with
          | some e => encode env fmt f e v
          | none => .unmodelled ("unknown type " ++ n)

/-- `Project.MarshalJSON` builds its own map: name and services always, the other sections when non-empty,
    top-level extensions spliced in -/
def encodeProjectJson (env : Env) (fuel : Nat) (v : Val) : Out :=
  match v with
  | .map fs =>
    let sect (k : String) (ty : String) : Except Out (List (String × Val)) :=
      let x := field fs k
      match x with
      | .null => .ok []
      | .map [] => .ok []
      | _ => match encode env .json fuel (.named ty) x with
        | .ok t => .ok [((k.map Char.toLower), t)]
        | o => .error o
    match encode env .json fuel (.named "Services") (field fs "Services"),
          sect "Networks" "Networks", sect "Volumes" "Volumes", sect "Secrets" "Secrets", sect "Configs" "Configs" with
    | .ok svc, .ok n, .ok vo, .ok se, .ok co =>
      let ext := match field fs "Extensions" with | .map e => e | _ => []
      .ok (.map ([("name", field fs "Name"), ("services", svc)] ++ n ++ vo ++ se ++ co ++ ext))
    | .ok _, .error o, _, _, _ => o
    | .ok _, _, .error o, _, _ => o
    | .ok _, _, _, .error o, _ => o
    | .ok _, _, _, _, .error o => o
    | o, _, _, _, _ => o
  | _ => .unmodelled "not a Project"

/-- entry point: render a value of the named type -/
def render (env : Env) (fmt : Fmt) (ty : String) (v : Val) : Out :=
  if ty == "Project" ∧ fmt = .json then encodeProjectJson env 60 v
  else encode env fmt 60 (.named ty) v

end CV.Encode
