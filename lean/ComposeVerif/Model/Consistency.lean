/-!
# `loader.checkConsistency` (loader/validate.go), `graph.newGraph` (graph/services.go) and
# `graph.checkCycle / searchCycle` (graph/cycle.go) on an abstract project record

`Proj` carries exactly the fields the rules read.  Go maps are association lists iterated in
list order (`services`, `dependsOn`, `secrets`); theorems quantify over reorderings.
Error *texts* are not modelled: every `return fmt.Errorf(…)` of the Go function is one `Err` class.

Quirks that are modelled because they exist in the code:
* `newGraph` turns an *optional* dependency on a service that is not enabled into no edge and leaves the
  project alone (since the `fix:` commit 3143716; the earlier `delete(s.DependsOn, name)` is kept as
  `newGraphOld` in `Neg/C10.lean`);
* `checkConsistency` writes `s.Deploy.Replicas = s.Scale` (post state, `normalizeSvc`);
* `network_mode: service:x` is looked up with `GetServices`, so a *disabled* `x` is an error, while a
  `depends_on` entry with `required: false` on a disabled service is accepted.
-/
namespace CV.Consistency

inductive Err
  | noImage | dockerfileExclusive | platformMismatch | networkModeExclusive | undefinedNetwork
  | healthcheck | undefinedDependency | networkModeService | undefinedVolume | undefinedBuildSecret
  | undefinedConfig | undefinedSecret | scaleReplicas | cpus | memLimit | memReservation | pidsLimit
  | containerNameScale | watchTarget | secretSource
  | requiredDisabled | unknownService | cycle
deriving DecidableEq, Repr, Inhabited

def Err.name : Err → String
  | .noImage => "noImage" | .dockerfileExclusive => "dockerfileExclusive" | .platformMismatch => "platformMismatch"
  | .networkModeExclusive => "networkModeExclusive" | .undefinedNetwork => "undefinedNetwork"
  | .healthcheck => "healthcheck" | .undefinedDependency => "undefinedDependency"
  | .networkModeService => "networkModeService" | .undefinedVolume => "undefinedVolume"
  | .undefinedBuildSecret => "undefinedBuildSecret" | .undefinedConfig => "undefinedConfig"
  | .undefinedSecret => "undefinedSecret" | .scaleReplicas => "scaleReplicas" | .cpus => "cpus"
  | .memLimit => "memLimit" | .memReservation => "memReservation" | .pidsLimit => "pidsLimit"
  | .containerNameScale => "containerNameScale" | .watchTarget => "watchTarget" | .secretSource => "secretSource"
  | .requiredDisabled => "requiredDisabled" | .unknownService => "unknownService" | .cycle => "cycle"

/-- the format string of the Go error return that the class stands for -/
def Err.site : Err → String
  | .noImage => "service %q has neither an image nor a build context specified: %w"
  | .dockerfileExclusive => "service %q declares mutualy exclusive dockerfile and dockerfile_inline: %w"
  | .platformMismatch => "service.build.platforms MUST include service.platform %q: %w"
  | .networkModeExclusive => "service %s declares mutually exclusive `network_mode` and `networks`: %w"
  | .undefinedNetwork => "service %q refers to undefined network %s: %w"
  | .healthcheck => "healthcheck.test must start either by \"CMD\", \"CMD-SHELL\" or \"NONE\""
  | .undefinedDependency => "service %q depends on undefined service %q: %w"
  | .networkModeService => "service %q not found for network_mode 'service:%s'"
  | .undefinedVolume => "service %q refers to undefined volume %s: %w"
  | .undefinedBuildSecret => "service %q refers to undefined build secret %s: %w"
  | .undefinedConfig => "service %q refers to undefined config %s: %w"
  | .undefinedSecret => "service %q refers to undefined secret %s: %w"
  | .scaleReplicas => "services.%s: can't set distinct values on 'scale' and 'deploy.replicas': %w"
  | .cpus => "services.%s: can't set distinct values on 'cpus' and 'deploy.resources.limits.cpus': %w"
  | .memLimit => "services.%s: can't set distinct values on 'mem_limit' and 'deploy.resources.limits.memory': %w"
  | .memReservation => "services.%s: can't set distinct values on 'mem_reservation' and 'deploy.resources.reservations.memory': %w"
  | .pidsLimit => "services.%s: can't set distinct values on 'pids_limit' and 'deploy.resources.limits.pids': %w"
  | .containerNameScale => "services.%s: can't set container_name and %s as container name must be unique: %w"
  | .watchTarget => "services.%s.develop.watch: target is required for non-rebuild actions: %w"
  | .secretSource => "secret %q must declare either `file` or `environment`: %w"
  | .requiredDisabled => "service %q is required by %q but is disabled. Can be enabled by profiles %s"
  | .unknownService => "service %q depends on unknown service %q"
  | .cycle => "dependency cycle detected: %s -> %s"

structure Build where
  dockerfile : String := ""
  inline : String := ""
  platforms : List String := []
  secrets : List String := []
deriving Repr, DecidableEq, Inhabited

structure Limits where
  cpus : String := "0"
  mem : Int := 0
  pids : Int := 0
deriving Repr, DecidableEq, Inhabited

structure Deploy where
  replicas : Option Int := none
  limits : Option Limits := none
  /-- `Resources.Reservations.MemoryBytes`, `none` when `Reservations == nil` -/
  reservationsMem : Option Int := none
deriving Repr, DecidableEq, Inhabited

structure Svc where
  image : String := ""
  build : Option Build := none
  platform : String := ""
  networkMode : String := ""
  /-- keys of `s.Networks` -/
  networks : List String := []
  /-- `none` = `HealthCheck == nil`; otherwise `HealthCheck.Test` -/
  hc : Option (List String) := none
  /-- `s.DependsOn` : name ↦ `Required` -/
  dependsOn : List (String × Bool) := []
  /-- `(Type, Source)` of `s.Volumes` -/
  volumes : List (String × String) := []
  configs : List String := []
  secrets : List String := []
  scale : Option Int := none
  deploy : Option Deploy := none
  /-- shortest decimal text of the float32, `"0"` for zero -/
  cpus : String := "0"
  memLimit : Int := 0
  memReservation : Int := 0
  pidsLimit : Int := 0
  containerName : String := ""
  /-- `(Action, Target)` of `s.Develop.Watch` (empty when `Develop == nil`) -/
  watch : List (String × String) := []
deriving Repr, DecidableEq, Inhabited

structure Secret where
  external : Bool := false
  file : String := ""
  environment : String := ""
deriving Repr, DecidableEq, Inhabited

structure Proj where
  services : List (String × Svc) := []
  /-- keys of `DisabledServices` -/
  disabled : List String := []
  networks : List String := []
  volumes : List String := []
  secrets : List (String × Secret) := []
  configs : List String := []
deriving Repr, DecidableEq, Inhabited

def Proj.enabled (p : Proj) : List String := p.services.map Prod.fst
def Proj.secretNames (p : Proj) : List String := p.secrets.map Prod.fst

/-! ## constants of the Go source the rules compare against -/
def servicePrefix : String := "service:"
def volumeTypeVolume : String := "volume"
def watchActionRebuild : String := "rebuild"
def hcKinds : List String := ["CMD", "CMD-SHELL", "NONE"]

/-- `strings.HasPrefix(s, "service:")` and the rest of the string -/
def serviceRef (nm : String) : Option String :=
  let cs := nm.toList
  if servicePrefix.toList.isPrefixOf cs then some (String.ofList (cs.drop servicePrefix.toList.length)) else none

/-- `ServiceConfig.GetScale` -/
def getScale (s : Svc) : Int :=
  match s.scale with
  | some n => n
  | none =>
    match s.deploy with
    | some d => match d.replicas with
      | some r => r
      | none => 1
    | none => 1

/-- first failure wins (sequential `if … return err`) -/
def orE (a b : Option Err) : Option Err :=
  match a with
  | some e => some e
  | none => b

def guard (c : Bool) (e : Err) : Option Err := if c then some e else none

/-! ## the rules of the per-service loop body, in source order -/

def rImage (s : Svc) : Option Err := guard (s.build.isNone && s.image == "") .noImage

def rDockerfile (s : Svc) : Option Err :=
  match s.build with
  | none => none
  | some b => guard (b.inline != "" && b.dockerfile != "") .dockerfileExclusive

def rPlatform (s : Svc) : Option Err :=
  match s.build with
  | none => none
  | some b => guard (!b.platforms.isEmpty && s.platform != "" && !b.platforms.contains s.platform) .platformMismatch

def rNetworkMode (s : Svc) : Option Err := guard (s.networkMode != "" && !s.networks.isEmpty) .networkModeExclusive

def rNetworks (p : Proj) (s : Svc) : Option Err := guard (!s.networks.all (p.networks.contains ·)) .undefinedNetwork

def rHealthcheck (s : Svc) : Option Err :=
  match s.hc with
  | some (t :: _) => guard (!hcKinds.contains t) .healthcheck
  | _ => none

/-- `project.GetService(dep)` succeeds, or fails with ErrDisabled and the dependency is optional -/
def depOK (p : Proj) (d : String × Bool) : Bool :=
  p.enabled.contains d.1 || (p.disabled.contains d.1 && !d.2)

def rDependsOn (p : Proj) (s : Svc) : Option Err := guard (!s.dependsOn.all (depOK p)) .undefinedDependency

def rServiceRef (p : Proj) (s : Svc) : Option Err :=
  match serviceRef s.networkMode with
  | some x => guard (!p.enabled.contains x) .networkModeService
  | none => none

def volOK (p : Proj) (v : String × String) : Bool :=
  !(v.1 == volumeTypeVolume && v.2 != "") || p.volumes.contains v.2

def rVolumes (p : Proj) (s : Svc) : Option Err := guard (!s.volumes.all (volOK p)) .undefinedVolume

def rBuildSecrets (p : Proj) (s : Svc) : Option Err :=
  match s.build with
  | some b => guard (!b.secrets.all (p.secretNames.contains ·)) .undefinedBuildSecret
  | none => none

def rConfigs (p : Proj) (s : Svc) : Option Err := guard (!s.configs.all (p.configs.contains ·)) .undefinedConfig
def rSecrets (p : Proj) (s : Svc) : Option Err := guard (!s.secrets.all (p.secretNames.contains ·)) .undefinedSecret

def rScale (s : Svc) : Option Err :=
  match s.scale, s.deploy with
  | some sc, some d =>
    match d.replicas with
    | some r => guard (sc != r) .scaleReplicas
    | none => none
  | _, _ => none

def rCpus (s : Svc) : Option Err :=
  match s.deploy with
  | some d => match d.limits with
    | some l => guard (s.cpus != "0" && l.cpus != s.cpus) .cpus
    | none => none
  | none => none

def rMemLimit (s : Svc) : Option Err :=
  match s.deploy with
  | some d => match d.limits with
    | some l => guard (s.memLimit != 0 && l.mem != s.memLimit) .memLimit
    | none => none
  | none => none

def rMemReservation (s : Svc) : Option Err :=
  match s.deploy with
  | some d => match d.reservationsMem with
    | some m => guard (s.memReservation != 0 && m != s.memReservation) .memReservation
    | none => none
  | none => none

def rPids (s : Svc) : Option Err :=
  match s.deploy with
  | some d => match d.limits with
    | some l => guard (s.pidsLimit != 0 && l.pids != s.pidsLimit) .pidsLimit
    | none => none
  | none => none

def rContainerName (s : Svc) : Option Err := guard (decide (getScale s > 1) && s.containerName != "") .containerNameScale

def watchOK (w : String × String) : Bool := w.1 == watchActionRebuild || w.2 != ""
def rWatch (s : Svc) : Option Err := guard (!s.watch.all watchOK) .watchTarget

/-- the body of `for _, s := range project.Services` -/
def checkSvc (p : Proj) (s : Svc) : Option Err :=
  orE (rImage s) <| orE (rDockerfile s) <| orE (rPlatform s) <| orE (rNetworkMode s) <| orE (rNetworks p s) <| orE (rHealthcheck s) <|
  orE (rDependsOn p s) <| orE (rServiceRef p s) <| orE (rVolumes p s) <| orE (rBuildSecrets p s) <|
  orE (rConfigs p s) <| orE (rSecrets p s) <| orE (rScale s) <| orE (rCpus s) <| orE (rMemLimit s) <|
  orE (rMemReservation s) <| orE (rPids s) <| orE (rContainerName s) (rWatch s)

def checkSecret (s : Secret) : Option Err := guard (!s.external && s.file == "" && s.environment == "") .secretSource

/-! ## the dependency graph -/

/-- vertex ↦ children (insertion order) -/
abbrev Graph := List (String × List String)

def Graph.children (g : Graph) (v : String) : List String :=
  match g.lookup v with
  | some cs => cs
  | none => []

/-- inner loop of `newGraph` for one service: the dependencies that become edges, or the error of the first
required dependency that is not an enabled service -/
def edgesOf (verts disabled : List String) : List (String × Bool) → Except Err (List String)
  | [] => .ok []
  | (dep, req) :: rest =>
    if verts.contains dep then
      match edgesOf verts disabled rest with
      | .ok es => .ok (dep :: es)
      | .error e => .error e
    else if req then .error (if disabled.contains dep then .requiredDisabled else .unknownService)
    else edgesOf verts disabled rest                                       -- optional, not enabled: no edge

def buildGraph (verts disabled : List String) : List (String × Svc) → Except Err Graph
  | [] => .ok []
  | (n, s) :: r =>
    match edgesOf verts disabled s.dependsOn with
    | .error e => .error e
    | .ok es =>
      match buildGraph verts disabled r with
      | .error e => .error e
      | .ok g => .ok ((n, es) :: g)

def newGraph (p : Proj) : Except Err Graph := buildGraph p.enabled p.disabled p.services

/-- `searchCycle(path, v)`: `true` = "dependency cycle detected".  The recursion depth is bounded by the
number of vertices (every level appends a vertex that is not on the path), hence the fuel. -/
def search (g : Graph) : Nat → List String → String → Bool
  | 0, _, _ => false
  | fuel + 1, path, v => (g.children v).any fun c => path.contains c || search g fuel (path ++ [c]) c

/-- `g.checkCycle()` (the iteration order over the start vertices only selects *which* cycle is reported) -/
def hasCycle (g : Graph) : Bool := g.any fun e => search g g.length [e.1] e.1

/-! ### the cycle that is reported

`checkCycle` and `searchCycle` range over `utils.MapKeys(…)`, i.e. over the *sorted* names, "to render a predictable
error message".  `cyclePath` is the list printed after "dependency cycle detected:" (`path[i:]` followed by the name
that closes the cycle). -/

def insertSorted (x : String) : List String → List String
  | [] => [x]
  | y :: r => if x < y then x :: y :: r else y :: insertSorted x r

/-- `slices.Sort` of a list of distinct names -/
def sortStr (l : List String) : List String := l.foldr insertSorted []

/-- `searchCycle(path, v)` with its result: `none` = nil, `some cyc` = the cycle in the error message -/
def searchPath (g : Graph) : Nat → List String → String → Option (List String)
  | 0, _, _ => none
  | fuel + 1, path, v => (sortStr (g.children v)).findSome? fun c =>
      if path.contains c then some (path.dropWhile (fun x => x != c) ++ [c]) else searchPath g fuel (path ++ [c]) c

/-- `g.checkCycle()` with the cycle it reports -/
def cyclePath (g : Graph) : Option (List String) :=
  (sortStr (g.map Prod.fst)).findSome? fun v => searchPath g g.length [v] v

/-- `graph.CheckCycle(project)` -/
def checkCycleProj (p : Proj) : Option Err :=
  match newGraph p with
  | .error e => some e
  | .ok g => guard (hasCycle g) .cycle

/-- `loader.checkConsistency(project)`: `none` = `nil` -/
def checkConsistency (p : Proj) : Option Err :=
  orE (p.services.findSome? fun e => checkSvc p e.2) <|
  orE (p.secrets.findSome? fun e => checkSecret e.2) <|
  checkCycleProj p

/-! ## post state (only compared when the call returns `nil`) -/

/-- `s.Deploy.Replicas = s.Scale` -/
def normalizeSvc (s : Svc) : Svc :=
  match s.scale, s.deploy with
  | some sc, some d => { s with deploy := some { d with replicas := some sc } }
  | _, _ => s

/-- the project as `checkConsistency` leaves it (`newGraph` does not write any more) -/
def postState (p : Proj) : Proj := { p with services := p.services.map fun e => (e.1, normalizeSvc e.2) }

/-! ## every outcome reachable under *some* iteration order (collect mode, DESIGN §2.6) -/

def dedup (l : List Err) : List Err := l.foldr (fun e acc => if acc.contains e then acc else e :: acc) []

/-- error classes `newGraph` can return: one per required dependency that is not an enabled service -/
def graphErrs (p : Proj) : List Err :=
  p.services.flatMap fun e => e.2.dependsOn.filterMap fun d =>
    if p.enabled.contains d.1 then none
    else if d.2 then some (if p.disabled.contains d.1 then Err.requiredDisabled else Err.unknownService)
    else none

/-- outcomes of `graph.CheckCycle` over all iteration orders (`none` = nil): the class of any required dependency
that is not an enabled service; if there is none the outcome does not depend on the order -/
def cycleAlts (p : Proj) : List (Option Err) :=
  match graphErrs p with
  | [] => [checkCycleProj p]
  | es => (dedup es).map some

/-- outcomes of `checkConsistency` over all iteration orders -/
def consistencyAlts (p : Proj) : List (Option Err) :=
  match p.services.filterMap fun e => checkSvc p e.2 with
  | [] =>
    match p.secrets.findSome? fun e => checkSecret e.2 with
    | some e => [some e]
    | none => cycleAlts p
  | es => (dedup es).map some

end CV.Consistency
