import ComposeVerif.Model.HeapProg
import ComposeVerif.Gen.CopyPlan
/-!
# C14 — the derivations of `types/project.go` as heap programs (core Lean only)

One program per public method of `Project` that returns a `*Project`, statement by statement for everything that
touches model state; name / set / boolean computations are pure functions.  Pure arguments (`St.pvars`):
`names`, `profiles`, `policy` (`deps | dependents | ignore`), `discard` (`["1"]` = true), `images` (name, new image, …),
`variant` (transform: `identity | label | error`), `errnames`.

Domain of the correspondence (`c14.deriv`): services without env files / label files that exist (reading files is
C16's model; the loops over them are `opaque` statements); everything else is as in the code, with Go's variable names.
A call of another modelled function is a `block` tagged with the source text of the calling statement and expanded in
place.  `render` prints the statement skeleton of a program; `translator/c14prog.go` prints the same skeleton from the Go
source (`Gen/C14Progs.lean`) and `Props/C14Deriv.lean` obliges the two to be equal.
-/
namespace CV.Heap.Deriv
open CV.Heap

def fid (name : String) : Nat := CV.Gen.CopyPlan.fieldNames.idxOf name

def fServices := fid "Services"
def fDisabled := fid "DisabledServices"
def fProfiles := fid "Profiles"
def fDependsOn := fid "DependsOn"
def fNetworks := fid "Networks"
def fVolumes := fid "Volumes"
def fSecrets := fid "Secrets"
def fConfigs := fid "Configs"
def fBuild := fid "Build"
def fEnvironment := fid "Environment"
def fEnvFiles := fid "EnvFiles"
def fLabels := fid "Labels"
def fLabelFiles := fid "LabelFiles"
def fImage := fid "Image"
def fSource := fid "Source"
def fType := fid "Type"
def fRequired := fid "Required"

/-! ## pure helpers -/

def v (st : St) (x : String) : GoVal := getVar x st.vars

def sliceKids : GoVal → List GoVal
  | .slice _ ks => ks.map (·.2)
  | _ => []

def mapEntries : GoVal → List (String × GoVal)
  | .map _ ks => ks.filterMap fun kv => match kv.1 with | .str s => some (s, kv.2) | _ => none
  | _ => []

def isNil : GoVal → Bool
  | .nil => true
  | _ => false

/-- `ServiceConfig.HasProfile(profiles)`; `profiles` raw, the service's in scalar encoding -/
def hasProfile (svc : GoVal) (profiles : List String) : Bool :=
  let sp := (sliceStrs (getFld fProfiles svc)).map decStr
  sp.isEmpty || profiles.any (fun p => p == "*" || sp.contains p)

/-- the dependency graph of the enabled services: service ↦ [(dependency, required)] -/
def depGraph (proj : GoVal) : List (String × List (String × Bool)) :=
  (mapEntries (getFld fServices proj)).map fun (n, s) =>
    (n, (mapEntries (getFld fDependsOn s)).map fun (d, dv) => (d, scalarStr (getFld fRequired dv) == "b:true"))

def dependents (g : List (String × List (String × Bool))) (name : String) : List (String × Bool) :=
  g.filterMap fun (n, ds) => match ds.find? (·.1 == name) with | some d => some (n, d.2) | none => none

/-- `Project.withServices`: the services visited (in some order) or `none` when a required name is missing.
`todo` = names still to visit with the dependency map they came from (`none` = top level: every name is required). -/
def visit (g : List (String × List (String × Bool))) (policy : String) :
    Nat → List (String × Bool) → List String → Option (List String)
  | 0, _, seen => some seen
  | _, [], seen => some seen
  | fuel+1, (name, required) :: rest, seen =>
    match g.find? (·.1 == name) with
    | none => if required then none else visit g policy fuel rest seen
    | some (_, ds) =>
      if seen.contains name then visit g policy fuel rest seen else
      let next : List (String × Bool) :=
        if policy == "dependents" then dependents g name
        else if policy == "ignore" then []
        else ds
      -- depth first, as the recursion in the code; the result is a set, so the order is immaterial
      match visit g policy fuel next (name :: seen) with
      | none => none
      | some seen' => visit g policy fuel rest seen'

def selected (proj : GoVal) (names : List String) (policy : String) : Option (List String) :=
  let g := depGraph proj
  let total := g.foldl (fun n e => n + e.2.length + 1) (names.length + 1)
  visit g policy (total * (g.length + 2) + 8) (names.map fun n => (n, true)) []

/-- names of the networks / volumes / secrets / configs the enabled services refer to -/
def required (proj : GoVal) (kind : String) : List String :=
  let svcs := (mapEntries (getFld fServices proj)).map (·.2)
  let l := svcs.flatMap fun s =>
    if kind == "networks" then mapKeys (getFld fNetworks s)
    else if kind == "volumes" then
      (sliceKids (getFld fVolumes s)).filterMap fun vol =>
        let src := decStr (scalarStr (getFld fSource vol))
        if scalarStr (getFld fType vol) == "s:volume" && src != "" then some src else none
    else if kind == "secrets" then
      ((sliceKids (getFld fSecrets s)) ++ (sliceKids (getFld fSecrets (getFld fBuild s)))).map fun x => decStr (scalarStr (getFld fSource x))
    else (sliceKids (getFld fConfigs s)).map fun x => decStr (scalarStr (getFld fSource x))
  l.eraseDups

def lookupPair (k : String) : List String → Option String
  | a :: b :: r => if a == k then some b else lookupPair k r
  | _ => none

/-! ## statement blocks -/

/-- `self.AllServices()` → `all` -/
def allServices (self : String) : List Stmt := [
  .allocMap "all",
  .rangeMap "name" "service" (.fld (.var self) fServices) [.mapStore (.var "all") (·.pstr "name") (.var "service")],
  .rangeMap "name" "service" (.fld (.var self) fDisabled) [.mapStore (.var "all") (·.pstr "name") (.var "service")]]

/-- the body of `WithProfiles` after `newProject := p.deepCopy()`; `np` = the copy -/
def withProfilesBody (np : String) : List Stmt := [
  .allocMap "enabled",
  .allocMap "disabled",
  .block (np ++ ".AllServices()") (allServices np),
  .rangeMap "name" "service" (.var "all") [
    .ite (fun st => hasProfile (v st "service") (st.plist "profiles"))
      [.mapStore (.var "enabled") (·.pstr "name") (.var "service")]
      [.mapStore (.var "disabled") (·.pstr "name") (.var "service")]],
  .setPtrFld (.var np) fServices (.var "enabled"),
  .setPtrFld (.var np) fDisabled (.var "disabled"),
  -- newProject.Profiles = slices.Clone(profiles)
  .allocSlice "tmpProfiles" (fun st => (getP "profiles" st.pvars).map (·.map encStr)),
  .setPtrFld (.var np) fProfiles (.var "tmpProfiles")]

def withProfiles : List Stmt :=
  .deepCopy "newProject" (.var "p") :: withProfilesBody "newProject" ++ [.assign "result" (.var "newProject")]

/-- `m.Resolve(np.Environment.Resolve)` in place on the map held by `service.Environment` -/
def resolveEnv (np : String) : List Stmt := [
  .assign "m" (.fld (.var "service") fEnvironment),
  .rangeMap "k" "val" (.var "m") [
    .ite (fun st => isNil (v st "val") && hasIdx (st.pstr "k") (getFld (fid "Environment") (v st np)))
      [.allocPtr "value" (.idx (.fld (.var np) (fid "Environment")) (·.pstr "k")),
       .mapStore (.var "m") (·.pstr "k") (.var "value")] []]]

/-- `environment.OverrideBy(service.Environment)`; the method returns its receiver -/
def overrideEnv : List Stmt := [
  .assign "other" (.fld (.var "service") fEnvironment),
  .rangeMap "k" "val" (.var "other") [.mapStore (.var "environment") (·.pstr "k") (.var "val")],
  .assign "service" (.withFld (.var "service") fEnvironment (.var "environment"))]

/-- the body of `WithServicesEnvironmentResolved` after the copy -/
def envResolvedBody (np : String) : List Stmt := [
  .rangeMap "i" "service" (.fld (.var np) fServices) [
    .block "service.Environment = service.Environment.Resolve(newProject.Environment.Resolve)" (resolveEnv np),
    .allocMap "environment",
    .opaque "service.EnvFiles",
    .block "service.Environment = environment.OverrideBy(service.Environment)" overrideEnv,
    .ite (fun st => st.plist "discard" == ["1"])
      [.assign "service" (.withFld (.var "service") fEnvFiles .nilv)] [],
    .mapStore (.fld (.var np) fServices) (·.pstr "i") (.var "service")]]

def envResolved : List Stmt :=
  .deepCopy "newProject" (.var "p") :: envResolvedBody "newProject" ++ [.assign "result" (.var "newProject")]

/-- `labels = labels.OverrideBy(service.Labels.ToMappingWithEquals())`: a fresh pointer per label -/
def overrideLabels : List Stmt := [
  .assign "l" (.fld (.var "service") fLabels),
  .rangeMap "k" "val" (.var "l") [
    .allocPtr "ptr" (.var "val"),
    .mapStore (.var "labels") (·.pstr "k") (.var "ptr")]]

/-- `service.Labels = NewLabelsFromMappingWithEquals(labels)` (every value of `labels` is non-nil here) -/
def newLabels : List Stmt := [
  .allocMap "fresh",
  .assign "l" (.fld (.var "service") fLabels),
  .rangeMap "k" "val" (.var "l") [.mapStore (.var "fresh") (·.pstr "k") (.var "val")],
  .assign "service" (.withFld (.var "service") fLabels (.var "fresh"))]

def labelsResolvedBody (np : String) : List Stmt := [
  .rangeMap "i" "service" (.fld (.var np) fServices) [
    .allocMap "labels",
    .opaque "service.LabelFiles",
    .block "labels = labels.OverrideBy(service.Labels.ToMappingWithEquals())" overrideLabels,
    .ite (fun st => (mapKeys (v st "labels")).isEmpty)
      [.assign "labels" .nilv]
      [.block "service.Labels = NewLabelsFromMappingWithEquals(labels)" newLabels],
    .ite (fun st => st.plist "discard" == ["1"])
      [.assign "service" (.withFld (.var "service") fLabelFiles .nilv)] [],
    .mapStore (.fld (.var np) fServices) (·.pstr "i") (.var "service")]]

def labelsResolved : List Stmt :=
  .deepCopy "newProject" (.var "p") :: labelsResolvedBody "newProject" ++ [.assign "result" (.var "newProject")]

/-- `WithServicesEnabled(names...)` -/
def withServicesEnabled : List Stmt := [
  .deepCopy "newProject" (.var "p"),
  .ite (fun st => (st.plist "names").isEmpty) [.assign "result" (.var "newProject")] [
    -- profiles := append([]string{}, p.Profiles...); for the names not enabled: append(profiles, p.DisabledServices[name].Profiles...)
    .pset "profiles" (fun st =>
      let p := v st "p"
      let base := (sliceStrs (getFld fProfiles p)).map decStr
      some ((st.plist "names").foldl (fun acc n =>
        if hasIdx n (getFld fServices (v st "newProject")) then acc
        else acc ++ (sliceStrs (getFld fProfiles (getIdx n (getFld fDisabled p)))).map decStr) base)),
    .block "newProject, err := newProject.WithProfiles(profiles)"
      (.deepCopy "np2" (.var "newProject") :: withProfilesBody "np2" ++ [.assign "newProject" (.var "np2")]),
    .ite (fun _ => false) [.assign "result" (.var "newProject")] [
      .block "return newProject.WithServicesEnvironmentResolved(true)"
        ([.deepCopy "np3" (.var "newProject"), .pset "discard" (fun _ => some ["1"])] ++ envResolvedBody "np3" ++
         [.assign "result" (.var "np3")])]]]

/-- the body of `WithServicesDisabled(names...)` after the copy `np`, for the names in the pure variable `dnames` -/
def disabledBody (np : String) : List Stmt := [
  .ite (fun st => isNil (getFld fDisabled (v st np)))
    [.allocMap "tmpDisabledServices", .setPtrFld (.var np) fDisabled (.var "tmpDisabledServices")] [],
  .rangePure "name" (fun st => getP "dnames" st.pvars) [
    .rangeMap "i" "s" (.fld (.var np) fServices) [
      .ite (fun st => hasIdx (st.pstr "name") (getFld fDependsOn (v st "s")))
        [.mapDelete (.fld (.var "s") fDependsOn) (·.pstr "name"),
         .mapStore (.fld (.var np) fServices) (·.pstr "i") (.var "s")] []],
    .ite (fun st => hasIdx (st.pstr "name") (getFld fServices (v st np)))
      [.assign "service" (.idx (.fld (.var np) fServices) (·.pstr "name")),
       .mapStore (.fld (.var np) fDisabled) (·.pstr "name") (.var "service"),
       .mapDelete (.fld (.var np) fServices) (·.pstr "name")] []]]

def withServicesDisabled : List Stmt := [
  .deepCopy "newProject" (.var "p"),
  .pset "dnames" (fun st => getP "names" st.pvars),
  .ite (fun st => (st.plist "names").isEmpty) [.assign "result" (.var "newProject")]
    (disabledBody "newProject" ++ [.assign "result" (.var "newProject")])]

/-- insertion sort of names (Go: `sort.Strings`) -/
def sortStrs (l : List String) : List String :=
  l.foldl (fun acc x => (acc.takeWhile (· < x)) ++ [x] ++ (acc.dropWhile (· < x))) []

/-- `WithSelectedServices(names, options...)` (after C15's repair: the unselected services are disabled by one call, in name order) -/
def withSelectedServices : List Stmt := [
  .deepCopy "newProject" (.var "p"),
  .ite (fun st => (st.plist "names").isEmpty) [.assign "result" (.var "newProject")] [
    -- p.ForEachService(names, set.Add, options...)
    .pset "set" (fun st => selected (v st "p") (st.plist "names") (st.pstr "policy")),
    .fail (fun st => (getP "set" st.pvars).isNone) "no such service",
    .allocMap "enabled",
    .pset "unselected" (fun st =>
      some (sortStrs ((mapKeys (getFld fServices (v st "newProject"))).filter fun n => !(st.plist "set").contains n))),
    .rangeMap "name" "s" (.fld (.var "newProject") fServices) [
      .ite (fun st => (st.plist "set").contains (st.pstr "name"))
        [.assign "dependencies" (.fld (.var "s") fDependsOn),
         .rangeMap "d" "_" (.var "dependencies") [
           .ite (fun st => !(st.plist "set").contains (st.pstr "d")) [.mapDelete (.var "dependencies") (·.pstr "d")] []],
         .assign "s" (.withFld (.var "s") fDependsOn (.var "dependencies")),
         .mapStore (.var "enabled") (·.pstr "name") (.var "s")]
        []],
    .block "newProject = newProject.WithServicesDisabled(unselected...)"
      ([.deepCopy "np2" (.var "newProject"), .pset "dnames" (fun st => getP "unselected" st.pvars),
        .ite (fun st => (st.plist "dnames").isEmpty) [] (disabledBody "np2"),
        .assign "newProject" (.var "np2")]),
    .setPtrFld (.var "newProject") fServices (.var "enabled"),
    .assign "result" (.var "newProject")]]

/-- one resource kind of `WithoutUnnecessaryResources()` (after the round-1 repair: the kept values come from the copy) -/
def keep (np : String) (x : String) (kind : String) (f : Nat) : List Stmt := [
  .allocMap x,
  .rangePure "k" (fun st => some (required (v st np) kind)) [
    .ite (fun st => hasIdx (st.pstr "k") (getFld f (v st np)))
      [.assign "value" (.idx (.fld (.var np) f) (·.pstr "k")),
       .mapStore (.var x) (·.pstr "k") (.var "value")] []],
  .setPtrFld (.var np) f (.var x)]

def withoutUnnecessaryResources : List Stmt :=
  [.deepCopy "newProject" (.var "p")] ++ keep "newProject" "networks" "networks" fNetworks ++
  keep "newProject" "volumes" "volumes" fVolumes ++ keep "newProject" "secrets" "secrets" fSecrets ++
  keep "newProject" "configs" "configs" fConfigs ++ [.assign "result" (.var "newProject")]

/-- the defect repaired in round 1, kept as a program: the kept values are read from the receiver -/
def keepFromReceiver (np : String) (kind : String) (f : Nat) : List Stmt := [
  .allocMap "kept",
  .rangePure "k" (fun st => some (required (v st np) kind)) [
    .ite (fun st => hasIdx (st.pstr "k") (getFld f (v st "p")))
      [.mapStore (.var "kept") (·.pstr "k") (.idx (.fld (.var "p") f) (·.pstr "k"))] []],
  .setPtrFld (.var np) f (.var "kept")]

def withoutUnnecessaryResourcesOld : List Stmt :=
  [.deepCopy "np" (.var "p")] ++ keepFromReceiver "np" "networks" fNetworks ++ [.assign "result" (.var "np")]

/-- `WithServicesTransform(fn)`: the result assembly (sequentialised: C19 models the fan-out), for the transforms the
harness uses (`identity`; `label` = `s.Labels = s.Labels.Add(key, name)`; `image` = replace `Image` from the pure table
`images`; a transform that fails for the names in `errnames` makes the method return the untouched copy and the error) -/
def withServicesTransform : List Stmt := [
  .deepCopy "newProject" (.var "p"),
  .assign "services" (.fld (.var "newProject") fServices),
  .ite (fun st => (mapKeys (v st "services")).any fun n => (st.plist "errnames").contains n)
    [.assign "result" (.var "newProject"), .fail (fun _ => true) "transform failed"] [],
  .allocMap "s",
  .rangeMap "name" "service" (.var "services") [
    .block "updated, err := fn(name, service)" [
      .ite (fun st => st.pstr "variant" == "label")
        [.ite (fun st => isNil (getFld fLabels (v st "service")))
          [.allocMap "lm", .assign "service" (.withFld (.var "service") fLabels (.var "lm"))] [],
         .mapStore (.fld (.var "service") fLabels) (fun _ => "c14.transformed") (.str fun st => encStr (st.pstr "name"))] [],
      .ite (fun st => st.pstr "variant" == "image" && (lookupPair (st.pstr "name") (st.plist "images")).isSome)
        [.assign "service" (.withFld (.var "service") fImage (.str fun st => encStr ((lookupPair (st.pstr "name") (st.plist "images")).getD "")))] [],
      .assign "updated" (.var "service")],
    .mapStore (.var "s") (·.pstr "name") (.var "updated")],
  .setPtrFld (.var "newProject") fServices (.var "s"),
  .assign "result" (.var "newProject")]

/-- the nine derivations (WithImagesResolved = WithServicesTransform with the `image` transform) -/
def programs : List (String × List Stmt) := [
  ("WithProfiles", withProfiles),
  ("WithServicesEnabled", withServicesEnabled),
  ("WithServicesDisabled", withServicesDisabled),
  ("WithSelectedServices", withSelectedServices),
  ("WithoutUnnecessaryResources", withoutUnnecessaryResources),
  ("WithServicesTransform", withServicesTransform),
  ("WithImagesResolved", withServicesTransform),
  ("WithServicesEnvironmentResolved", envResolved),
  ("WithServicesLabelsResolved", labelsResolved)]

/-! ## the statement skeleton of a program, as text (what `translator/c14prog.go` prints from the Go source) -/

def fname (f : Nat) : String := CV.Gen.CopyPlan.fieldNames.getD f "?"

def renderE : Expr → String
  | .var x => x
  | .fld e f => renderE e ++ "." ++ fname f
  | .idx e _ => renderE e ++ "[_]"
  | .str _ => "<pure>"
  | .nilv => "nil"
  | .withFld e f w => "with(" ++ renderE e ++ "." ++ fname f ++ "=" ++ renderE w ++ ")"

mutual
def renderS : Stmt → String
  | .assign x e => x ++ "=" ++ renderE e ++ ";"
  | .pset _ _ => ""
  | .allocMap x => x ++ "=make;"
  | .allocSlice x _ => x ++ "=slice;"
  | .allocPtr x e => x ++ "=&" ++ renderE e ++ ";"
  | .deepCopy x e => x ++ "=copy(" ++ renderE e ++ ");"
  | .setPtrFld tgt f e => renderE tgt ++ "." ++ fname f ++ ":=" ++ renderE e ++ ";"
  | .mapStore m _ e => renderE m ++ "[_]:=" ++ renderE e ++ ";"
  | .mapDelete m _ => "delete(" ++ renderE m ++ ");"
  | .rangeMap kx vx m body => "for " ++ kx ++ "," ++ vx ++ " in " ++ renderE m ++ "{" ++ renderL body ++ "}"
  | .rangePure kx _ body => "for " ++ kx ++ " in pure{" ++ renderL body ++ "}"
  | .ite _ a b => "if{" ++ renderL a ++ "}else{" ++ renderL b ++ "}"
  | .fail _ _ => "fail;"
  | .block tag _ => "call(" ++ tag ++ ");"
  | .opaque tag => "opaque(" ++ tag ++ ");"
def renderL : List Stmt → String
  | [] => ""
  | s :: r => renderS s ++ renderL r
end

/-- the functions whose statement skeleton is regenerated from the source and compared -/
def skeletons : List (String × String) := [
  ("AllServices", renderL (allServices "p" ++ [.assign "result" (.var "all")])),
  ("WithProfiles", renderL withProfiles),
  ("WithServicesEnabled", renderL withServicesEnabled),
  ("WithServicesDisabled", renderL withServicesDisabled),
  ("WithSelectedServices", renderL withSelectedServices),
  ("WithoutUnnecessaryResources", renderL withoutUnnecessaryResources),
  ("WithServicesEnvironmentResolved", renderL envResolved),
  ("WithServicesLabelsResolved", renderL labelsResolved)]

end CV.Heap.Deriv
