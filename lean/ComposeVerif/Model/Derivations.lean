import ComposeVerif.Model.HeapProg
import ComposeVerif.Gen.CopyPlan
/-!
# C14 — the derivations of `types/project.go` as heap programs (core Lean only)

One program per public method of `Project` that returns a `*Project`, statement by statement for everything that
touches model state; name / set / boolean computations are pure functions.  Pure arguments (`St.pvars`):
`names`, `profiles`, `policy` (`deps | dependents | ignore`), `discard` (`["1"]` = true), `images` (name, new image, …),
`variant` (transform: `identity | label | error`), `errnames`.

Domain of the correspondence (`c14.deriv`): services without env files / label files that exist (reading files is
C16's model); everything else is as in the code, including the intermediate deep copies of
`WithServicesEnabled` and `WithSelectedServices`.
-/
namespace CV.Heap.Deriv
open CV.Heap

def fid (name : String) : Nat := CV.Gen.CopyPlan.fieldNames.idxOf name

def fServices := fid "Services"
def fDisabled := fid "DisabledServices"
def fProfiles := fid "Profiles"
def fDependsOn := fid "DependsOn"
def fNetworks := fid "Networks"
def fVolumes := fid "Volumes"
def fSecrets := fid "Secrets"
def fConfigs := fid "Configs"
def fBuild := fid "Build"
def fEnvironment := fid "Environment"
def fEnvFiles := fid "EnvFiles"
def fLabels := fid "Labels"
def fLabelFiles := fid "LabelFiles"
def fImage := fid "Image"
def fSource := fid "Source"
def fType := fid "Type"
def fRequired := fid "Required"

/-! ## pure helpers -/

def v (st : St) (x : String) : GoVal := getVar x st.vars

def sliceKids : GoVal → List GoVal
  | .slice _ ks => ks.map (·.2)
  | _ => []

def mapEntries : GoVal → List (String × GoVal)
  | .map _ ks => ks.filterMap fun kv => match kv.1 with | .str s => some (s, kv.2) | _ => none
  | _ => []

def isNil : GoVal → Bool
  | .nil => true
  | _ => false

/-- `ServiceConfig.HasProfile(profiles)`; `profiles` raw, the service's in scalar encoding -/
def hasProfile (svc : GoVal) (profiles : List String) : Bool :=
  let sp := (sliceStrs (getFld fProfiles svc)).map decStr
  sp.isEmpty || profiles.any (fun p => p == "*" || sp.contains p)

/-- the dependency graph of the enabled services: service ↦ [(dependency, required)] -/
def depGraph (proj : GoVal) : List (String × List (String × Bool)) :=
  (mapEntries (getFld fServices proj)).map fun (n, s) =>
    (n, (mapEntries (getFld fDependsOn s)).map fun (d, dv) => (d, scalarStr (getFld fRequired dv) == "b:true"))

def dependents (g : List (String × List (String × Bool))) (name : String) : List (String × Bool) :=
  g.filterMap fun (n, ds) => match ds.find? (·.1 == name) with | some d => some (n, d.2) | none => none

/-- `Project.withServices`: the services visited (in some order) or `none` when a required name is missing.
`todo` = names still to visit with the dependency map they came from (`none` = top level: every name is required). -/
def visit (g : List (String × List (String × Bool))) (policy : String) :
    Nat → List (String × Bool) → List String → Option (List String)
  | 0, _, seen => some seen
  | _, [], seen => some seen
  | fuel+1, (name, required) :: rest, seen =>
    match g.find? (·.1 == name) with
    | none => if required then none else visit g policy fuel rest seen
    | some (_, ds) =>
      if seen.contains name then visit g policy fuel rest seen else
      let next : List (String × Bool) :=
        if policy == "dependents" then dependents g name
        else if policy == "ignore" then []
        else ds
      -- depth first, as the recursion in the code; the result is a set, so the order is immaterial
      match visit g policy fuel next (name :: seen) with
      | none => none
      | some seen' => visit g policy fuel rest seen'

def selected (proj : GoVal) (names : List String) (policy : String) : Option (List String) :=
  let g := depGraph proj
  let total := g.foldl (fun n e => n + e.2.length + 1) (names.length + 1)
  visit g policy (total * (g.length + 2) + 8) (names.map fun n => (n, true)) []

/-- names of the networks / volumes / secrets / configs the enabled services refer to -/
def required (proj : GoVal) (kind : String) : List String :=
  let svcs := (mapEntries (getFld fServices proj)).map (·.2)
  let l := svcs.flatMap fun s =>
    if kind == "networks" then mapKeys (getFld fNetworks s)
    else if kind == "volumes" then
      (sliceKids (getFld fVolumes s)).filterMap fun vol =>
        let src := decStr (scalarStr (getFld fSource vol))
        if scalarStr (getFld fType vol) == "s:volume" && src != "" then some src else none
    else if kind == "secrets" then
      ((sliceKids (getFld fSecrets s)) ++ (sliceKids (getFld fSecrets (getFld fBuild s)))).map fun x => decStr (scalarStr (getFld fSource x))
    else (sliceKids (getFld fConfigs s)).map fun x => decStr (scalarStr (getFld fSource x))
  l.eraseDups

def lookupPair (k : String) : List String → Option String
  | a :: b :: r => if a == k then some b else lookupPair k r
  | _ => none

/-! ## statement blocks -/

/-- `np.WithProfiles(profiles)` after `np` has been bound to the copy -/
def withProfilesBody (np : String) : List Stmt := [
  .allocMap "enabled",
  .allocMap "disabled",
  -- all := np.AllServices()
  .allocMap "all",
  .assign "m" (.fld (.var np) fServices),
  .rangeMap "k" "s" (.var "m") [.mapStore (.var "all") (·.pstr "k") (.var "s")],
  .assign "m" (.fld (.var np) fDisabled),
  .rangeMap "k" "s" (.var "m") [.mapStore (.var "all") (·.pstr "k") (.var "s")],
  .rangeMap "k" "s" (.var "all") [
    .ite (fun st => hasProfile (v st "s") (st.plist "profiles"))
      [.mapStore (.var "enabled") (·.pstr "k") (.var "s")]
      [.mapStore (.var "disabled") (·.pstr "k") (.var "s")]],
  .setPtrFld (.var np) fServices (.var "enabled"),
  .setPtrFld (.var np) fDisabled (.var "disabled"),
  -- newProject.Profiles = slices.Clone(profiles)
  .allocSlice "prof" (fun st => (getP "profiles" st.pvars).map (·.map encStr)),
  .setPtrFld (.var np) fProfiles (.var "prof")]

def withProfiles : List Stmt := .deepCopy "np" (.var "p") :: withProfilesBody "np"

/-- `WithServicesEnvironmentResolved(discard)` on the copy `np` (services whose env files do not exist and are optional) -/
def envResolvedBody (np : String) : List Stmt := [
  .assign "svcs" (.fld (.var np) fServices),
  .rangeMap "i" "service" (.var "svcs") [
    -- service.Environment = service.Environment.Resolve(newProject.Environment.Resolve): in place
    .assign "env" (.fld (.var "service") fEnvironment),
    .rangeMap "k" "val" (.var "env") [
      .ite (fun st => isNil (v st "val") && hasIdx (st.pstr "k") (getFld (fid "Environment") (v st np)))
        [.allocPtr "ptr" (.idx (.fld (.var np) (fid "Environment")) (·.pstr "k")),
         .mapStore (.var "env") (·.pstr "k") (.var "ptr")]
        []],
    .allocMap "environment",
    -- environment.OverrideBy(service.Environment)
    .assign "env" (.fld (.var "service") fEnvironment),
    .rangeMap "k" "val" (.var "env") [.mapStore (.var "environment") (·.pstr "k") (.var "val")],
    .assign "service" (.withFld (.var "service") fEnvironment (.var "environment")),
    .ite (fun st => st.plist "discard" == ["1"])
      [.assign "service" (.withFld (.var "service") fEnvFiles .nilv)] [],
    .mapStore (.fld (.var np) fServices) (·.pstr "i") (.var "service")]]

def envResolved : List Stmt := .deepCopy "np" (.var "p") :: envResolvedBody "np"

/-- `WithServicesLabelsResolved(discard)` on the copy (services without label files) -/
def labelsResolvedBody (np : String) : List Stmt := [
  .assign "svcs" (.fld (.var np) fServices),
  .rangeMap "i" "service" (.var "svcs") [
    .assign "old" (.fld (.var "service") fLabels),
    .ite (fun st => !(mapKeys (v st "old")).isEmpty)
      [.allocMap "labels",
       .rangeMap "k" "val" (.var "old") [.mapStore (.var "labels") (·.pstr "k") (.var "val")],
       .assign "service" (.withFld (.var "service") fLabels (.var "labels"))] [],
    .ite (fun st => st.plist "discard" == ["1"])
      [.assign "service" (.withFld (.var "service") fLabelFiles .nilv)] [],
    .mapStore (.fld (.var np) fServices) (·.pstr "i") (.var "service")]]

def labelsResolved : List Stmt := .deepCopy "np" (.var "p") :: labelsResolvedBody "np"

/-- `WithServicesEnabled(names...)` -/
def withServicesEnabled : List Stmt := [
  .deepCopy "np" (.var "p"),
  .ite (fun st => (st.plist "names").isEmpty) [.assign "result" (.var "np")] ([
    -- profiles := append([]string{}, p.Profiles...); for the names not enabled: append(profiles, p.DisabledServices[name].Profiles...)
    .pset "profiles" (fun st =>
      let p := v st "p"
      let base := (sliceStrs (getFld fProfiles p)).map decStr
      some ((st.plist "names").foldl (fun acc n =>
        if hasIdx n (getFld fServices (v st "np")) then acc
        else acc ++ (sliceStrs (getFld fProfiles (getIdx n (getFld fDisabled p)))).map decStr) base)),
    .deepCopy "np2" (.var "np")] ++ withProfilesBody "np2" ++ [
    .deepCopy "np3" (.var "np2"),
    .pset "discard" (fun _ => some ["1"])] ++ envResolvedBody "np3" ++ [
    .assign "result" (.var "np3")])]

/-- the body of `np.WithServicesDisabled(names)` for names in the pure variable `dnames` -/
def disabledBody (np : String) : List Stmt := [
  .ite (fun st => isNil (getFld fDisabled (v st np)))
    [.allocMap "dm", .setPtrFld (.var np) fDisabled (.var "dm")] [],
  .rangePure "name" (fun st => getP "dnames" st.pvars) [
    .assign "svcs" (.fld (.var np) fServices),
    .rangeMap "i" "s" (.var "svcs") [
      .ite (fun st => hasIdx (st.pstr "name") (getFld fDependsOn (v st "s")))
        [.mapDelete (.fld (.var "s") fDependsOn) (·.pstr "name"),
         .mapStore (.fld (.var np) fServices) (·.pstr "i") (.var "s")] []],
    .ite (fun st => hasIdx (st.pstr "name") (getFld fServices (v st np)))
      [.mapStore (.fld (.var np) fDisabled) (·.pstr "name") (.idx (.fld (.var np) fServices) (·.pstr "name")),
       .mapDelete (.fld (.var np) fServices) (·.pstr "name")] []]]

def withServicesDisabled : List Stmt := [
  .deepCopy "np" (.var "p"),
  .pset "dnames" (fun st => getP "names" st.pvars),
  .ite (fun st => (st.plist "names").isEmpty) [] (disabledBody "np"),
  .assign "result" (.var "np")]

/-- `WithSelectedServices(names, options...)` -/
def withSelectedServices : List Stmt := [
  .deepCopy "np" (.var "p"),
  .ite (fun st => (st.plist "names").isEmpty) [.assign "result" (.var "np")] [
    -- p.ForEachService(names, set.Add, options...)
    .pset "set" (fun st => selected (v st "p") (st.plist "names") (st.pstr "policy")),
    .fail (fun st => (getP "set" st.pvars).isNone) "no such service",
    .allocMap "enabled",
    .assign "svcs" (.fld (.var "np") fServices),
    .rangeMap "name" "s" (.var "svcs") [
      .ite (fun st => (st.plist "set").contains (st.pstr "name"))
        [.assign "dependencies" (.fld (.var "s") fDependsOn),
         .rangeMap "d" "dv" (.var "dependencies") [
           .ite (fun st => !(st.plist "set").contains (st.pstr "d")) [.mapDelete (.var "dependencies") (·.pstr "d")] []],
         .assign "s" (.withFld (.var "s") fDependsOn (.var "dependencies")),
         .mapStore (.var "enabled") (·.pstr "name") (.var "s")]
        -- newProject = newProject.WithServicesDisabled(name)
        ([.deepCopy "np2" (.var "np"),
          .pset "dnames" (fun st => some [st.pstr "name"])] ++ disabledBody "np2" ++
         [.assign "np" (.var "np2")])],
    .setPtrFld (.var "np") fServices (.var "enabled"),
    .assign "result" (.var "np")]]

/-- `WithoutUnnecessaryResources()` (after the repair: the kept values come from the copy) -/
def keep (np : String) (kind : String) (f : Nat) : List Stmt := [
  .allocMap "kept",
  .rangePure "k" (fun st => some (required (v st np) kind)) [
    .ite (fun st => hasIdx (st.pstr "k") (getFld f (v st np)))
      [.mapStore (.var "kept") (·.pstr "k") (.idx (.fld (.var np) f) (·.pstr "k"))] []],
  .setPtrFld (.var np) f (.var "kept")]

def withoutUnnecessaryResources : List Stmt :=
  [.deepCopy "np" (.var "p")] ++ keep "np" "networks" fNetworks ++ keep "np" "volumes" fVolumes ++
  keep "np" "secrets" fSecrets ++ keep "np" "configs" fConfigs ++ [.assign "result" (.var "np")]

/-- the defect repaired in round 1, kept as a program: the kept values are read from the receiver -/
def keepFromReceiver (np : String) (kind : String) (f : Nat) : List Stmt := [
  .allocMap "kept",
  .rangePure "k" (fun st => some (required (v st np) kind)) [
    .ite (fun st => hasIdx (st.pstr "k") (getFld f (v st "p")))
      [.mapStore (.var "kept") (·.pstr "k") (.idx (.fld (.var "p") f) (·.pstr "k"))] []],
  .setPtrFld (.var np) f (.var "kept")]

def withoutUnnecessaryResourcesOld : List Stmt :=
  [.deepCopy "np" (.var "p")] ++ keepFromReceiver "np" "networks" fNetworks ++ [.assign "result" (.var "np")]

/-- `WithServicesTransform(fn)`: the result assembly, for the transforms the harness uses
(`identity`; `label` = `s.Labels = s.Labels.Add(key, name)`; `image` = replace `Image` from the pure table `images`;
a transform that fails for the names in `errnames` makes the method return the untouched copy and the error) -/
def withServicesTransform : List Stmt := [
  .deepCopy "np" (.var "p"),
  .assign "services" (.fld (.var "np") fServices),
  .ite (fun st => (mapKeys (v st "services")).any fun n => (st.plist "errnames").contains n)
    [.assign "result" (.var "np"), .fail (fun _ => true) "transform failed"] [],
  .allocMap "collected",
  .rangeMap "name" "service" (.var "services") [
    .ite (fun st => st.pstr "variant" == "label")
      [.ite (fun st => isNil (getFld fLabels (v st "service")))
        [.allocMap "lm", .assign "service" (.withFld (.var "service") fLabels (.var "lm"))] [],
       .mapStore (.fld (.var "service") fLabels) (fun _ => "c14.transformed") (.str fun st => encStr (st.pstr "name"))] [],
    .ite (fun st => st.pstr "variant" == "image" && (lookupPair (st.pstr "name") (st.plist "images")).isSome)
      [.assign "service" (.withFld (.var "service") fImage (.str fun st => encStr ((lookupPair (st.pstr "name") (st.plist "images")).getD "")))] [],
    .mapStore (.var "collected") (·.pstr "name") (.var "service")],
  .setPtrFld (.var "np") fServices (.var "collected"),
  .assign "result" (.var "np")]

/-- the nine derivations (WithImagesResolved = WithServicesTransform with the `image` transform) -/
def programs : List (String × List Stmt) := [
  ("WithProfiles", withProfiles ++ [.assign "result" (.var "np")]),
  ("WithServicesEnabled", withServicesEnabled),
  ("WithServicesDisabled", withServicesDisabled),
  ("WithSelectedServices", withSelectedServices),
  ("WithoutUnnecessaryResources", withoutUnnecessaryResources),
  ("WithServicesTransform", withServicesTransform),
  ("WithImagesResolved", withServicesTransform),
  ("WithServicesEnvironmentResolved", envResolved ++ [.assign "result" (.var "np")]),
  ("WithServicesLabelsResolved", labelsResolved ++ [.assign "result" (.var "np")])]

end CV.Heap.Deriv
