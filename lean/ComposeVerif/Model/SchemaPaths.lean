import ComposeVerif.Model.Schema
/-!
# Which schemas / node kinds can occur at an attribute path of a conforming document

`schemasAt s step` over-approximates the schemas a child of a value conforming to `s` must conform to;
`kindsAt` follows a whole path (`*` = any key, `[]` = any list item).  Soundness: `Lemmas/Schema.lean`.
-/
namespace CV.Schema
open CV

inductive Step | key (k : String) | anyKey | item
deriving Repr, DecidableEq

def stepOfPart (p : String) : Step :=
  if p = "*" then .anyKey else if p = "[]" then .item else .key p

/-- the children of a value selected by a step -/
def children : Val → Step → List Val
  | .map kvs, .key k => match Val.lookup k kvs with
    | some v => [v]
    | none => []
  | .map kvs, .anyKey => kvs.map Prod.snd
  | .seq xs, .item => xs
  | _, _ => []

/-- the schema every value conforms to -/
def anyS : S := .node [] [] [] .allow none [] [] none [] false none none none

def patsFor (pats : List (Pat × S)) (k : String) : List S :=
  (pats.filter (fun p => p.1.matches k)).map Prod.snd

mutual
def schemasAt : S → Step → List S
  | .unknown _, _ => []
  | .node types props patProps addl items oneOf anyOf _ _ _ _ _ _, step =>
    match step with
    | .key k =>
      if !types.isEmpty && !types.contains .object then []      -- a value with keys is an object
      else if propDefined props k then (props.filter (fun p => p.1 = k)).map Prod.snd
      else if patDefined patProps k then patsFor patProps k
      else if props.isEmpty && patProps.isEmpty && !oneOf.isEmpty then schemasAtL oneOf step
      else if props.isEmpty && patProps.isEmpty && !anyOf.isEmpty then schemasAtL anyOf step
      else if addl == .allow then [anyS] else []
    | .anyKey =>
      if !types.isEmpty && !types.contains .object then []
      else if props.isEmpty && patProps.isEmpty && !oneOf.isEmpty then schemasAtL oneOf step
      else if props.isEmpty && patProps.isEmpty && !anyOf.isEmpty then schemasAtL anyOf step
      else props.map Prod.snd ++ patProps.map Prod.snd ++ (if addl == .allow then [anyS] else [])
    | .item =>
      if !types.isEmpty && !types.contains .array then [] else
      match items with
      | some it => [it]
      | none =>
        if !oneOf.isEmpty then schemasAtL oneOf step
        else if !anyOf.isEmpty then schemasAtL anyOf step
        else [anyS]
def schemasAtL : List S → Step → List S
  | [], _ => []
  | s :: r, step => schemasAt s step ++ schemasAtL r step
end

def schemasAtPath (ss : List S) : List Step → List S
  | [] => ss
  | st :: r => schemasAtPath (ss.flatMap (fun s => schemasAt s st)) r

def allTys : List Ty := [.string, .object, .array, .boolean, .number, .integer, .null]

mutual
/-- the JSON types a value conforming to `s` can have -/
def tysOf : S → List Ty
  | .unknown _ => []
  | .node types _ _ _ _ oneOf anyOf _ _ _ _ _ _ =>
    if !types.isEmpty then types
    else if !oneOf.isEmpty then tysOfL oneOf
    else if !anyOf.isEmpty then tysOfL anyOf
    else allTys
def tysOfL : List S → List Ty
  | [] => []
  | s :: r => tysOf s ++ tysOfL r
end

/-- every descendant of `v` along the path -/
def descendants (vs : List Val) : List Step → List Val
  | [] => vs
  | st :: r => descendants (vs.flatMap (fun v => children v st)) r

/-- the JSON types that can occur at a path (given as pattern parts, e.g. `["services","*","pid"]`) -/
def kindsAt (s : S) (path : List String) : List Ty :=
  ((schemasAtPath [s] (path.map stepOfPart)).flatMap tysOf).eraseDups

end CV.Schema
