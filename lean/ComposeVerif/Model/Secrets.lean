import ComposeVerif.Model.Val
import ComposeVerif.Model.Path
/-!
# C20 — the path of a secret / config value taken from the environment

Executable models (core Lean only) of

* `loader/environment.go`  `resolveSecretsEnvironment`, `resolveConfigsEnvironment`
* `loader/normalize.go`    `setNameFromKey`
* `loader/loader.go`       `processExtensions` (no `KnownExtensions`), `secretConfigDecoderHook`,
                           the struct decode of `types.FileObjectConfig` (well-kinded domain)
* `types/types.go`         `SecretConfig` / `ConfigObjConfig` `.MarshalYAML` / `.MarshalJSON`
                           (as the *tree* handed to the encoder: field order, `omitempty`, inline extensions)
* `types/project.go`       `marshallOptions.apply` (on a small heap: Go maps are references)

Go maps are association lists iterated in list order (DESIGN §2.2).  Panics are outcomes.
-/
namespace CV.Secrets
open CV CV.Val

/-- `types.Mapping` -/
abbrev Env := List (String × String)

inductive Out (α : Type) where
  | ok (a : α)
  | err (cls : String)
  | panic (site : String)
deriving Repr

def Out.bind {α β : Type} : Out α → (α → Out β) → Out β
  | .ok a, f => f a
  | .err e, _ => .err e
  | .panic s, _ => .panic s

/-! ## constants of the Go source (re-checked against the regenerated facts in `Props/C20.lean`) -/

/-- `types.SecretConfigXValue` -/
def xValue : String := "x-#value"
/-- `consts.Extensions` -/
def extKey : String := "#extensions"
/-- `loader.userDefinedKeys` -/
def userDefinedKeys : List (List String) :=
  [["services"], ["services", "*", "depends_on"], ["volumes"], ["networks"], ["secrets"], ["configs"]]

/-! ## `resolveSecretsEnvironment` / `resolveConfigsEnvironment` -/

/-- body of the loop: `carrier` is `x-#value` for secrets, `content` for configs -/
def resolveObj (carrier : String) (env : Env) : Val → Val
  | .map kvs =>
    match lookup "environment" kvs with
    | some (.str e) =>
      if e = "" then .map kvs      -- `if !ok || env == "" { continue }` (since the fix of `leak:config:empty-variable-name`)
      else match env.lookup e with
        | some found => .map (insert carrier (.str found) kvs)
        | none => .map kvs
    | _ => .map kvs
  | v => v

def resolveObjs (carrier : String) (env : Env) : KVs → KVs
  | [] => []
  | (n, cfg) :: r => (n, resolveObj carrier env cfg) :: resolveObjs carrier env r

def resolveSection (sect carrier : String) (env : Env) (dict : KVs) : KVs :=
  match lookup sect dict with
  | some (.map objs) => insert sect (.map (resolveObjs carrier env objs)) dict
  | _ => dict

def resolveSecretsEnv (env : Env) (dict : KVs) : KVs := resolveSection "secrets" xValue env dict
def resolveConfigsEnv (env : Env) (dict : KVs) : KVs := resolveSection "configs" "content" env dict

/-! ## `setNameFromKey` -/

/-- `isTrue` (loader/normalize.go): booleans as they are, strings by the YAML 1.1 spellings `toBoolean` converts later,
    anything else as `strconv.ParseBool(fmt.Sprint(x))` without the error -/
def isTrue (x : Val) : Bool :=
  match x with
  | .bool b => b
  | .str s => ["true", "y", "yes", "on"].contains (String.ofList (s.toList.map Char.toLower))
  | x => ["1", "t", "T", "TRUE", "true", "True"].contains (fmtV x)

/-- `resource["name"] == nil` -/
def nameIsNil (kvs : KVs) : Bool :=
  match lookup "name" kvs with
  | none => true
  | some .null => true
  | _ => false

def isExternal (kvs : KVs) : Bool :=
  match lookup "external" kvs with
  | some x => isTrue x
  | none => false

def setNameKVs (pname key : String) (kvs : KVs) : KVs :=
  if nameIsNil kvs then
    insert "name" (.str (if isExternal kvs then key else pname ++ "_" ++ key)) kvs
  else kvs

def setNameObj (pname key : String) : Val → Out Val
  | .null => .ok (.map (setNameKVs pname key []))
  | .map kvs => .ok (.map (setNameKVs pname key kvs))
  | _ => .err "setNameFromKey"

def setNameObjs (pname : String) : KVs → Out KVs
  | [] => .ok []
  | (k, r) :: rest =>
    match setNameObj pname k r, setNameObjs pname rest with
    | .ok r', .ok rest' => .ok ((k, r') :: rest')
    | .panic s, _ => .panic s
    | _, .panic s => .panic s
    | .err e, _ => .err e
    | _, .err e => .err e

def setNameSection (pname sect : String) (dict : KVs) : Out KVs :=
  match lookup sect dict with
  | none => .ok dict
  | some (.map objs) =>
    match setNameObjs pname objs with
    | .ok objs' => .ok (insert sect (.map objs') dict)
    | .err e => .err e
    | .panic s => .panic s
  | some _ => .err "setNameFromKey"

/-- `fmt.Sprintf("%s", dict["name"])` for the kinds that reach it -/
def pnameOf (dict : KVs) : Option String :=
  match lookup "name" dict with
  | none => some "%!s(<nil>)"
  | some .null => some "%!s(<nil>)"
  | some (.str s) => some s
  | _ => none

def setNameSections (pname : String) : List String → KVs → Out KVs
  | [], dict => .ok dict
  | s :: r, dict => (setNameSection pname s dict).bind (setNameSections pname r)

def nameSections : List String := ["networks", "volumes", "configs", "secrets"]

def setNameFromKey (dict : KVs) : Out KVs :=
  match pnameOf dict with
  | some pname => setNameSections pname nameSections dict
  | none => .err "outOfDomain"

/-! ## `processExtensions` (with `extensions == nil`) -/

def isExtKey (k : String) : Bool := "x-".toList.isPrefixOf k.toList

/-- `strings.Split(part, ".")` on code points (kernel-reducible, unlike `String.splitOn`) -/
def splitDots : List Char → List Char → List String
  | [], cur => [String.ofList cur.reverse]
  | c :: cs, cur => if c = '.' then String.ofList cur.reverse :: splitDots cs [] else splitDots cs (c :: cur)

/-- `strings.ReplaceAll(part, ".", "👻")` -/
def escDots (s : String) : String :=
  String.ofList (s.toList.flatMap fun c => if c = '.' then TPath.ghost.toList else [c])

/-- `tree.Path.Next` (same function as `TPath.next`, written so that the kernel can evaluate it):
at the root the part is not escaped, elsewhere dots become 👻 -/
def pnext (p : TPath) (part : String) : TPath :=
  if p = TPath.root then splitDots part.toList [] else p ++ [escDots part]

def isUserDefined (p : TPath) : Bool := userDefinedKeys.any (fun uk => TPath.pmatch uk p)

/-- the `extras` map: the `x-` entries, unless the keys at this path are user defined -/
def extrasOf (skip : Bool) (kvs : KVs) : KVs :=
  if skip then [] else kvs.filter (fun kv => isExtKey kv.1)

/-- `dict[consts.Extensions] = extras` when `len(extras) > 0` -/
def withExtras (ex keep : KVs) : KVs :=
  if ex.isEmpty then keep else insert extKey (.map ex) keep

/-- the path `processExtensions` works with for the child stored under `k` of a mapping at `p`: a mapping child is
processed at `p.Next(k)`, but the mapping elements of a *sequence* child at `p.Next(strconv.Itoa(i))` — the key of
the sequence itself is not part of their path (a quirk of the Go code, found by the correspondence) -/
def childPath (p : TPath) (k : String) : Val → TPath
  | .seq _ => p
  | _ => pnext p k

mutual
/-- what `dict[key]` becomes for a child value; `p` = `childPath` of it (a mapping: `processExtensions(v, p, nil)`) -/
def pxVal (p : TPath) : Val → Val
  | .map kvs => .map (withExtras (extrasOf (isUserDefined p) kvs) (pxKVs p (isUserDefined p) kvs))
  | .seq xs => .seq (pxSeq p 0 xs)
  | v => v
def pxKVs (p : TPath) (skip : Bool) : KVs → KVs
  | [] => []
  | (k, v) :: r =>
    if !skip && isExtKey k then pxKVs p skip r
    else (k, pxVal (childPath p k v) v) :: pxKVs p skip r
/-- only mapping elements of a sequence are visited -/
def pxSeq (p : TPath) (i : Nat) : List Val → List Val
  | [] => []
  | .map kvs :: xs =>
    .map (withExtras (extrasOf (isUserDefined (pnext p (toString i))) kvs)
            (pxKVs (pnext p (toString i)) (isUserDefined (pnext p (toString i))) kvs)) :: pxSeq p (i + 1) xs
  | x :: xs => x :: pxSeq p (i + 1) xs
end

/-- `processExtensions(dict, p, nil)` -/
def pxMap (p : TPath) (kvs : KVs) : Val := pxVal p (.map kvs)

def processExtensions (dict : KVs) : Val := pxMap TPath.root dict

/-! ## typed layer: `types.FileObjectConfig` -/

structure FileObj where
  name : String := ""
  file : String := ""
  environment : String := ""
  content : String := ""
  marshallContent : Bool := false
  external : Bool := false
  labels : List (String × String) := []
  driver : String := ""
  driverOpts : List (String × String) := []
  templateDriver : String := ""
  extensions : KVs := []
deriving Repr, Inhabited

/-- `secretConfigDecoderHook` on the raw mapping of one secret -/
def hook (kvs : KVs) : KVs :=
  match lookup extKey kvs with
  | some (.map ext) =>
    match lookup xValue ext with
    | some (.str val) =>
      let kvs1 := insert "Content" (.str val) kvs
      let ext' := erase xValue ext
      if ext'.isEmpty then erase extKey kvs1 else insert extKey (.map ext') kvs1
    | _ => kvs
  | _ => kvs

/-- a string field: absent / null = zero value; an integer is turned into its decimal text by the `cast` hook;
every other kind is rejected by mapstructure (see `strRejects`) -/
def strField (k : String) (kvs : KVs) : Option String :=
  match lookup k kvs with
  | none => some ""
  | some .null => some ""
  | some (.str s) => some s
  | some (.int i) => some (fmtV (.int i))
  | _ => none

/-- the kinds mapstructure refuses for a string field (no weak typing; `cast` only knows int → string) -/
def strRejects (k : String) (kvs : KVs) : Bool :=
  match lookup k kvs with
  | some (.bool _) => true
  | some (.float _) => true
  | some (.seq _) => true
  | some (.map _) => true
  | _ => false

/-- mapstructure looks for the exact tag first, then case-insensitively; the only
case-variant the pipeline itself creates is `Content` (written by the hook) -/
def contentField (kvs : KVs) : Option String :=
  match lookup "content" kvs with
  | some _ => strField "content" kvs
  | none => strField "Content" kvs

def contentRejects (kvs : KVs) : Bool :=
  match lookup "content" kvs with
  | some _ => strRejects "content" kvs
  | none => strRejects "Content" kvs

def isAscii (s : String) : Bool := s.toList.all fun c => c.toNat < 128

def lower (s : String) : String := String.ofList (s.toList.map Char.toLower)

/-- `loader.toBoolean` (through the `cast` hook): `none` = invalid boolean -/
def toBoolean (s : String) : Option Bool :=
  if ["true", "y", "yes", "on"].contains (lower s) then some true
  else if ["false", "n", "no", "off"].contains (lower s) then some false
  else none

def boolField (k : String) (kvs : KVs) : Option Bool :=
  match lookup k kvs with
  | none => some false
  | some .null => some false
  | some (.bool b) => some b
  | some (.str s) => if isAscii s then toBoolean s else none     -- `strings.ToLower` beyond ASCII is outside the model
  | _ => none

def boolRejects (k : String) (kvs : KVs) : Bool :=
  match lookup k kvs with
  | some (.str s) => !isAscii s || (toBoolean s).isNone   -- a non-ASCII text is never a boolean: `strings.ToLower`
      -- sends a non-ASCII rune to ASCII only for U+212A (k) and U+0130 (i), and no accepted word has a k or an i
  | some (.int _) => true
  | some (.float _) => true
  | some (.seq _) => true
  | some (.map _) => true
  | _ => false

/-- a `map[string]string` (driver_opts): string values, integers through `cast`, null = "" -/
def strMapEntries : KVs → Option (List (String × String))
  | [] => some []
  | (k, .str s) :: r => (strMapEntries r).map ((k, s) :: ·)
  | (k, .int i) :: r => (strMapEntries r).map ((k, fmtV (.int i)) :: ·)
  | (k, .null) :: r => (strMapEntries r).map ((k, "") :: ·)
  | _ => none

def strMapField (k : String) (kvs : KVs) : Option (List (String × String)) :=
  match lookup k kvs with
  | none => some []
  | some .null => some []
  | some (.map m) => strMapEntries m
  | _ => none

def strMapRejects (k : String) (kvs : KVs) : Bool :=
  match lookup k kvs with
  | none => false
  | some .null => false
  | some (.map m) => m.any fun kv => match kv.2 with
    | .bool _ => true | .float _ => true | .seq _ => true | .map _ => true | _ => false
  | _ => true

/-- `types.labelValue` on scalars; composite values are outside the model -/
def labelVal : Val → Option String
  | .null => some ""
  | .str s => some s
  | .int i => some (fmtV (.int i))
  | .bool b => some (fmtV (.bool b))
  | .float s => some s
  | _ => none

def labelEntries : KVs → Option (List (String × String))
  | [] => some []
  | (k, v) :: r =>
    match labelVal v, labelEntries r with
    | some s, some l => some ((k, s) :: l)
    | _, _ => none

/-- `strings.Cut(s, "=")` on code points -/
def cutEqL : List Char → List Char × List Char
  | [] => ([], [])
  | c :: cs => if c = '=' then ([], cs) else ((c :: (cutEqL cs).1), (cutEqL cs).2)

def cutEq (s : String) : String × String := (String.ofList (cutEqL s.toList).1, String.ofList (cutEqL s.toList).2)

/-- Go `m[k] = v` on a string map -/
def putStr (k v : String) : List (String × String) → List (String × String)
  | [] => [(k, v)]
  | (k', v') :: r => if k = k' then (k, v) :: r else (k', v') :: putStr k v r

/-- the text `fmt.Sprint` gives for a scalar element of a label list -/
def sprintScalar : Val → Option String
  | .seq _ => none
  | .map _ => none
  | v => some (fmtV v)

/-- `Labels.DecodeMapstructure` on the list form: `k, v, _ := strings.Cut(fmt.Sprint(e), "=")`, later entries win -/
def labelList : List Val → List (String × String) → Option (List (String × String))
  | [], acc => some acc
  | x :: xs, acc =>
    match sprintScalar x with
    | some s => labelList xs (putStr (cutEq s).1 (cutEq s).2 acc)
    | none => none

def labelsField (kvs : KVs) : Option (List (String × String)) :=
  match lookup "labels" kvs with
  | none => some []
  | some .null => some []
  | some (.map m) => labelEntries m
  | some (.seq xs) => labelList xs []
  | _ => none

/-- `unexpected value type %T for labels` -/
def labelsRejects (kvs : KVs) : Bool :=
  match lookup "labels" kvs with
  | some (.str _) => true
  | some (.int _) => true
  | some (.bool _) => true
  | some (.float _) => true
  | _ => false

def extField (kvs : KVs) : Option KVs :=
  match lookup extKey kvs with
  | none => some []
  | some .null => some []
  | some (.map m) => some m
  | _ => none

def extRejects (kvs : KVs) : Bool :=
  match lookup extKey kvs with
  | none => false
  | some .null => false
  | some (.map _) => false
  | _ => true

/-- keys that the struct decode understands exactly (everything else is ignored by mapstructure,
provided it does not case-fold to one of these — checked by `keysInDomain`) -/
def fieldKeys : List String :=
  ["name", "file", "environment", "content", "external", "labels", "driver", "driver_opts", "template_driver", extKey]

/-- no key is a case-variant of a field tag, except `Content`, and at most one of `content`/`Content` semantics is modelled -/
def keysInDomain (kvs : KVs) : Bool :=
  kvs.all fun kv => fieldKeys.contains kv.1 || kv.1 == "Content" || !(fieldKeys.contains (lower kv.1) || lower kv.1 == "marshallcontent")

/-- some modelled field holds a kind the real decode refuses: the decode fails whatever the other fields are -/
def rejects (kvs : KVs) : Bool :=
  strRejects "name" kvs || strRejects "file" kvs || strRejects "environment" kvs || contentRejects kvs ||
  boolRejects "external" kvs || labelsRejects kvs || strRejects "driver" kvs || strMapRejects "driver_opts" kvs ||
  strRejects "template_driver" kvs || extRejects kvs

def failClass (kvs : KVs) : String := if rejects kvs then "decode" else "outOfDomain"

def decodeFields (kvs : KVs) : Out FileObj :=
  match strField "name" kvs, strField "file" kvs, strField "environment" kvs, contentField kvs,
        boolField "external" kvs, labelsField kvs, strField "driver" kvs,
        strMapField "driver_opts" kvs, strField "template_driver" kvs, extField kvs with
  | some name, some file, some environment, some content, some external, some labels, some driver,
    some driverOpts, some templateDriver, some extensions =>
    if keysInDomain kvs then
      .ok { name, file, environment, content, external, labels, driver, driverOpts, templateDriver, extensions }
    else .err (failClass kvs)
  | _, _, _, _, _, _, _, _, _, _ => .err (failClass kvs)

/-- `Transform(v, &types.SecretConfig{})`: hook, then the struct decode -/
def decodeSecret : Val → Out FileObj
  | .map kvs => decodeFields (hook kvs)
  | .null => .ok {}
  | _ => .err "decode"

/-- `Transform(v, &types.ConfigObjConfig{})`: the hook does not fire for configs -/
def decodeConfig : Val → Out FileObj
  | .map kvs => decodeFields kvs
  | .null => .ok {}
  | _ => .err "decode"

def decodeObjs (f : Val → Out FileObj) : KVs → Out (List (String × FileObj))
  | [] => .ok []
  | (k, v) :: r =>
    match f v, decodeObjs f r with
    | .ok o, .ok r' => .ok ((k, o) :: r')
    | .panic s, _ => .panic s
    | _, .panic s => .panic s
    | .err e, _ => .err e
    | _, .err e => .err e

def decodeSection (f : Val → Out FileObj) (sect : String) (dict : KVs) : Out (List (String × FileObj)) :=
  match lookup sect dict with
  | none => .ok []
  | some .null => .ok []
  | some (.map objs) => decodeObjs f objs
  | _ => .err "outOfDomain"

/-! ## rendering: the tree handed to the YAML / JSON encoder -/

def optStr (k s : String) : KVs := if s = "" then [] else [(k, .str s)]
def optBool (k : String) (b : Bool) : KVs := if b then [(k, .bool true)] else []
def optStrMap (k : String) (m : List (String × String)) : KVs :=
  if m.isEmpty then [] else [(k, .map (m.map fun kv => (kv.1, .str kv.2)))]

/-- struct fields of `FileObjectConfig` in declaration order, all `omitempty` (the json tags are the same) -/
def FileObj.fields (o : FileObj) : KVs :=
  optStr "name" o.name ++ optStr "file" o.file ++ optStr "environment" o.environment ++
  optStr "content" o.content ++ optBool "external" o.external ++ optStrMap "labels" o.labels ++
  optStr "driver" o.driver ++ optStrMap "driver_opts" o.driverOpts ++ optStr "template_driver" o.templateDriver

/-- yaml: `Extensions` is `inline` -/
def FileObj.toYaml (o : FileObj) : Val := .map (o.fields ++ o.extensions)
/-- json: `Extensions` has `json:"-"` -/
def FileObj.toJson (o : FileObj) : Val := .map o.fields

/-- `SecretConfig.MarshalYAML/JSON`: `if !s.marshallContent { s.Content = "" }` (on the value receiver) -/
def secretBlank (s : FileObj) : FileObj := if !s.marshallContent then { s with content := "" } else s
/-- `ConfigObjConfig.MarshalYAML/JSON`: `if s.Environment != "" { s.Content = "" }` -/
def configBlank (s : FileObj) : FileObj := if s.environment ≠ "" then { s with content := "" } else s

def secretYaml (s : FileObj) : Val := (secretBlank s).toYaml
def secretJson (s : FileObj) : Val := (secretBlank s).toJson
def configYaml (s : FileObj) : Val := (configBlank s).toYaml
def configJson (s : FileObj) : Val := (configBlank s).toJson

/-! ## the project (the part this property speaks about) -/

structure Proj where
  secrets : List (String × FileObj) := []
  configs : List (String × FileObj) := []
deriving Repr, Inhabited

def mapVals (f : FileObj → Val) (l : List (String × FileObj)) : KVs := l.map fun kv => (kv.1, f kv.2)

def sectionKV (k : String) (m : KVs) : KVs := if m.isEmpty then [] else [(k, .map m)]

inductive Renderer | yaml | json
deriving Repr, DecidableEq

def renderSecret : Renderer → FileObj → Val
  | .yaml => secretYaml
  | .json => secretJson
def renderConfig : Renderer → FileObj → Val
  | .yaml => configYaml
  | .json => configJson

/-- `marshallOptions.apply` seen functionally: the project that is actually encoded -/
def withContent (p : Proj) : Proj :=
  { p with secrets := p.secrets.map fun kv => (kv.1, { kv.2 with marshallContent := true }) }

def applyOpts (secretsContent : Bool) (p : Proj) : Proj := if secretsContent then withContent p else p

/-- `Project.MarshalYAML / MarshalJSON (opts…)` restricted to the `secrets` and `configs` sections -/
def render (r : Renderer) (secretsContent : Bool) (p : Proj) : Val :=
  let q := applyOpts secretsContent p
  .map (sectionKV "secrets" (mapVals (renderSecret r) q.secrets) ++ sectionKV "configs" (mapVals (renderConfig r) q.configs))

/-! ## the flow: raw model (just before `ResolveEnvironment`) → loaded project -/

/-- `ResolveEnvironment` (secrets and configs part) → `Normalize` (`name` := project name; `setNameFromKey`)
→ `modelToProject` (`processExtensions`, `Transform`): the literal composition of the whole-tree stage models -/
def loadDict (env : Env) (pname : String) (dict : KVs) : Out Proj :=
  let d1 := resolveConfigsEnv env (resolveSecretsEnv env dict)
  (setNameSections pname ["configs", "secrets"] d1).bind fun d2 =>
  match processExtensions d2 with
  | .map d3 =>
    (decodeSection decodeSecret "secrets" d3).bind fun ss =>
    (decodeSection decodeConfig "configs" d3).bind fun cs =>
    .ok { secrets := ss, configs := cs }
  | _ => .err "impossible"

/-- the same pipeline, one section at a time (the form the theorems are about; the driver checks on every
case that it agrees with `loadDict`) -/
def loadSection (isSecret : Bool) (env : Env) (pname : String) (dict : KVs) : Out (List (String × FileObj)) :=
  match lookup (if isSecret then "secrets" else "configs") dict with
  | none => .ok []
  | some (.map objs) =>
    (setNameObjs pname (resolveObjs (if isSecret then xValue else "content") env objs)).bind fun objs2 =>
      decodeObjs (if isSecret then decodeSecret else decodeConfig)
        (pxKVs [if isSecret then "secrets" else "configs"] true objs2)
  | some _ => .err "setNameFromKey"

def load (env : Env) (pname : String) (dict : KVs) : Out Proj :=
  (loadSection true env pname dict).bind fun ss =>
  (loadSection false env pname dict).bind fun cs =>
  .ok { secrets := ss, configs := cs }

def flow (env : Env) (pname : String) (dict : KVs) (r : Renderer) (secretsContent : Bool) : Out Val :=
  (load env pname dict).bind fun p => .ok (render r secretsContent p)

/-! ## `marshallOptions.apply` on a heap (Go maps are references)

Only `Project.Secrets` is ever written by `apply`, so the heap holds the secrets maps. -/

structure Heap where
  maps : List (Nat × List (String × FileObj)) := []
  next : Nat := 0
deriving Repr

def Heap.get (h : Heap) (a : Nat) : List (String × FileObj) := (h.maps.lookup a).getD []

def Heap.set (h : Heap) (a : Nat) (m : List (String × FileObj)) : Heap :=
  { h with maps := (a, m) :: h.maps.filter (fun e => e.1 != a) }

/-- `p.deepCopy()`: a fresh map with the same (copied) entries -/
def Heap.copyMap (h : Heap) (a : Nat) : Heap × Nat :=
  ({ maps := (h.next, h.get a) :: h.maps, next := h.next + 1 }, h.next)

/-- `for name, config := range p.Secrets { config.marshallContent = true; p.Secrets[name] = config }` -/
def setFlags (m : List (String × FileObj)) : List (String × FileObj) :=
  m.map fun kv => (kv.1, { kv.2 with marshallContent := true })

/-- `marshallOptions.apply(p)`; a project is represented by the address of its `Secrets` map -/
def applyHeap (secretsContent : Bool) (h : Heap) (p : Nat) : Heap × Nat :=
  if secretsContent then
    let (h1, q) := h.copyMap p
    (h1.set q (setFlags (h1.get q)), q)
  else (h, p)

end CV.Secrets
