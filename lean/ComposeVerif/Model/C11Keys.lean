import ComposeVerif.Model.C11Defaults
/-!
# C11 — the defaults inside the unicity keys of `override.EnforceUnicity`  (override/uncity.go)

When a later file (an override, the extending service of an `extends`) states a list entry that an earlier one
already has, `EnforceUnicity` recognises the two by a *key* computed by an indexer.  Three of the indexers build the
key with a documented default filled in — `portIndexer` (`host_ip` 0.0.0.0, `protocol` tcp), `mountIndexer`
(`/run/secrets/<source>` for secrets, `/<source>` for configs) and `envFileIndexer` (short form = its path) — so that
an entry that leaves the default implicit and the same entry with the default written out are one entry.  This is
the part of "implicit ≡ explicit, with the attribute arriving from an override" that does not live in
`transform/defaults.go`; the models below mirror it, `Props/C11Keys.lean` proves the clause.

Conventions as in `Model/C11Defaults.lean`.  `%v` / `%s` renderings are modelled on scalars (`fmtV`, `fmtS`).
-/
namespace CV.C11
open CV CV.Val

/-- `host, ok := value["host_ip"]; if !ok { host = "0.0.0.0" }` … rendered with `%s` -/
def keyOr (dflt : String) : Option Val → String
  | none => dflt
  | some v => fmtS (some v)

/-- `%v` of a value read from a map (`published` may be absent: the nil interface prints `<nil>`) -/
def fmtVO : Option Val → String
  | none => "<nil>"
  | some v => fmtV v

/-- override/uncity.go `portIndexer` -/
def portKey : Val → Out String
  | .int i => .ok (toString i)
  | .map m =>
    match lookup "target" m with
    | none => .err "missingTarget"
    | some t =>
      .ok (keyOr "0.0.0.0" (lookup "host_ip" m) ++ ":" ++ fmtVO (lookup "published" m) ++ ":" ++ fmtV t ++ "/" ++
        keyOr "tcp" (lookup "protocol" m))
  | .str s => .ok s
  | _ => .ok ""

/-- override/uncity.go `mountIndexer(defaultPath)` (`services.*.secrets`: `/run/secrets`, `services.*.configs`: the empty path) -/
def mountKey (defaultPath : String) : Val → Out String
  | .str s => .ok (defaultPath ++ "/" ++ s)
  | .map m =>
    match lookup "target" m with
    | some (.str t) => .ok t
    | some _ => .err "unexpectedType"
    | none => .ok (defaultPath ++ "/" ++ fmtS (lookup "source" m))
  | _ => .err "unsupported"

/-- override/uncity.go `envFileIndexer` -/
def envFileKey : Val → Out String
  | .str s => .ok s
  | .map m =>
    match lookup "path" m with
    | some (.str p) => .ok p
    | some _ => .err "unexpectedType"
    | none => .err "missingPath"
  | _ => .ok ""

/-- the sequence branch of `enforceUnicity`: `keys` + `seq` of the Go loop are one association list key → entry
(`seq[j] = entry` for a key seen before: `Val.insert` replaces in place; a new key appends) -/
def uniqAcc (key : Val → Out String) : List Val → KVs → Out KVs
  | [], acc => .ok acc
  | x :: r, acc =>
    match key x with
    | .ok k => uniqAcc key r (insert k x acc)
    | .err e => .err e
    | .panic s => .panic s

def enforceSeq (key : Val → Out String) (xs : List Val) : Out (List Val) :=
  (uniqAcc key xs []).map fun acc => acc.map Prod.snd

/-- the indexer registered for a list of a service (`unique` table: handler name as regenerated in `CV.Gen.unique`) -/
def indexerOf (name : String) : Option (Val → Out String) :=
  if name = "portIndexer" then some portKey
  else if name = "mountIndexer(\"/run/secrets\")" then some (mountKey "/run/secrets")
  else if name = "mountIndexer(\"\")" then some (mountKey "")
  else if name = "envFileIndexer" then some envFileKey
  else none

/-! total versions of the default handlers (what `SetDefaultValues` / `Canonical` do to one list entry) -/

def portDefaultsV : Val → Val
  | .map m => .map (setIfAbsent "mode" (.str "ingress") (setIfAbsent "protocol" (.str "tcp") m))
  | v => v

def secretDefaultsV : Val → Val
  | .map m => .map (setIfAbsent "target" (.str ("/run/secrets/" ++ fmtS (lookup "source" m))) m)
  | v => v

end CV.C11
