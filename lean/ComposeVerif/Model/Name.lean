import ComposeVerif.Model.Str
import ComposeVerif.Model.Template
/-!
# Model of the project-name decision and of the project-environment option machine (C17)

Mirrors the code that exists:

* `loader.NormalizeProjectName` (`normalize`): `strings.ToLower`, keep the matches of `[a-z0-9_-]`,
  `strings.TrimLeft(s, "_-")`.  `strings.ToLower` is `unicode.ToLower` per rune; the only runes outside
  ASCII whose lower case lands inside `[a-z0-9_-]` are U+212A KELVIN SIGN (→ `k`) and U+0130 (→ `i`);
  every other rune is dropped by the filter whatever its lower case is, so `toLowerGo` is the identity
  there (checked against the real function on every code point, harness check `c17norm`).
* `cli.WithName`, `cli.WithEnv`, `cli.WithOsEnv`, `cli.WithEnvFiles`, `cli.WithDotEnv` (`applyOpt`) as a state
  machine over `ProjectOptions{Name, Environment, EnvFiles}` (`PO`), `cli.NewProjectOptions` (`runOpts`);
* `utils.GetAsEqualsMap` (`asEqualsMap`), `types.Mapping.Merge` (non-overriding: `e ++ m` under first-match lookup),
  `dotenv.GetEnvFromFile` (`getEnvFromFile`) on files made of simple `KEY=VALUE` lines, the value being a
  template expanded by `template.Substitute` with the lookup chain
  current project environment → earlier files → earlier lines of the same file;
* `cli.withNamePrecedenceLoad` (`cliName`), `loader.projectName` (`loaderName`), the export as
  `COMPOSE_PROJECT_NAME`, the interpolation of every `name:` key and of a probe string by the load pipeline,
  and the `project name must not be empty` test of `loader.load` (`load`).

Go maps are association lists read with first-match `List.lookup`; `m[k] = v` is `(k, v) :: m`.
-/
namespace CV.Name
open CV

/-! ## `NormalizeProjectName` -/

/-- `unicode.ToLower`, as far as the result can survive the `[a-z0-9_-]` filter -/
def toLowerGo (c : Char) : Char :=
  if c = '\u212A' then 'k' else if c = '\u0130' then 'i' else c.toLower

/-- one match of the regexp `[a-z0-9_-]` -/
def isNameChar (c : Char) : Bool := c.isLower || c.isDigit || c == '_' || c == '-'

/-- the cutset of `strings.TrimLeft(s, "_-")` -/
def isSep (c : Char) : Bool := c == '_' || c == '-'

def normalize (s : Str) : Str := ((s.map toLowerGo).filter isNameChar).dropWhile isSep

/-- `[a-z0-9][a-z0-9_-]*` -/
def validName : Str → Bool
  | [] => false
  | c :: cs => (c.isLower || c.isDigit) && cs.all isNameChar

/-! ## environments -/

abbrev Env := List (Str × Str)

def Env.get (e : Env) (k : Str) : Option Str := List.lookup k e

/-- `strings.Cut(s, "=")` when found -/
def splitEq : Str → Option (Str × Str)
  | [] => none
  | c :: cs => if c = '=' then some ([], cs) else
    match splitEq cs with
    | some p => some (c :: p.1, p.2)
    | none => none

/-- `utils.GetAsEqualsMap`: entries without `=` are dropped, a later duplicate wins -/
def asEqualsMap (l : List Str) : Env :=
  l.foldl (fun e s => match splitEq s with | some kv => kv :: e | none => e) []

def cpn : Str := "COMPOSE_PROJECT_NAME".toList
def disableKey : Str := "COMPOSE_DISABLE_ENV_FILE".toList

/-! ## the world outside the options -/

inductive EnvFile
  | dir
  | file (lines : List (Str × Str))   -- `KEY=VALUE` lines, VALUE a template
deriving Repr, DecidableEq

inductive FileRef
  | named (n : Str)
  | default              -- `.env` of the directory of the first compose file
  | defaultAlt           -- `.env` of the directory given to `WithWorkingDirectory`
deriving Repr, DecidableEq

structure World where
  /-- base name of the directory of the first compose file -/
  dir : Str
  /-- base name of the directory handed to `WithWorkingDirectory` (when that option is used) -/
  altDir : Str := []
  /-- `.env` of that directory -/
  altDotEnv : Option EnvFile := none
  /-- `os.Environ()` -/
  os : List Str
  /-- compose files in order → YAML documents → the `name:` key (`none` = absent) -/
  files : List (List (Option Str))
  /-- env files by path; an absent path does not exist -/
  envFiles : List (Str × EnvFile)
  /-- `<project directory>/.env` -/
  dotEnv : Option EnvFile
  /-- a string of the compose model, interpolated by the load -/
  probe : Str
deriving Repr

inductive Err
  | invalidName | emptyName | envNotFound | envIsDir | dotenvParse | interp | disableParse | panic
deriving Repr, DecidableEq

inductive Opt
  | withName (n : Str)
  | withEnv (l : List Str)
  | withOsEnv
  | withEnvFiles (fs : List Str)
  | withDotEnv
  /-- `WithWorkingDirectory(alt ? <the alternative directory> : "")`; the empty path is a no-op -/
  | withWorkDir (alt : Bool)
deriving Repr, DecidableEq

/-- `cli.ProjectOptions` (the three fields the property is about) -/
structure PO where
  name : Str := []
  env : Env := []
  envFiles : List FileRef := []
  /-- `WorkingDir` set (to the alternative directory) -/
  alt : Bool := false
deriving Repr, DecidableEq

def strs (l : List String) : List Str := l.map String.toList

/-- `strconv.ParseBool` -/
def parseBool (s : Str) : Option Bool :=
  if (strs ["1", "t", "T", "TRUE", "true", "True"]).contains s then some true
  else if (strs ["0", "f", "F", "FALSE", "false", "False"]).contains s then some false
  else none

/-- `ProjectOptions.GetWorkingDir`: `WorkingDir` when set, else the directory of the first compose file -/
def projDir (w : World) (o : PO) : Str := if o.alt then w.altDir else w.dir

def defaultEnvFile (w : World) (o : PO) : PO :=
  match (if o.alt then w.altDotEnv else w.dotEnv) with
  | some (.file _) => { o with envFiles := [if o.alt then .defaultAlt else .default] }
  | _ => o

def withEnvFiles (w : World) (o : PO) (fs : List Str) : Except Err PO :=
  match fs with
  | _ :: _ => .ok { o with envFiles := fs.map .named }
  | [] =>
    match (asEqualsMap w.os).get disableKey with      -- os.LookupEnv
    | some v =>
      match parseBool v with
      | none => .error .disableParse
      | some true => .ok o
      | some false => .ok (defaultEnvFile w o)
    | none => .ok (defaultEnvFile w o)

def lookupFile (w : World) : FileRef → Option EnvFile
  | .default => w.dotEnv
  | .defaultAlt => w.altDotEnv
  | .named n => List.lookup n w.envFiles

/-- lookup chain: first `a`, then `b` -/
def chain (a b : Env) (k : Str) : Option Str :=
  match a.get k with
  | some v => some v
  | none => b.get k

/-- the lookup of `dotenv.expandVariables`: `lookupFn` first, then the map being filled -/
def lookThen (look : Str → Option Str) (out : Env) (n : Str) : Option Str :=
  match look n with
  | some v => some v
  | none => out.get n

/-- one env file: `look` is the `lookupFn` handed to the parser, `out` the map being filled -/
def parseLines (look : Str → Option Str) : List (Str × Str) → Env → Except Err Env
  | [], out => .ok out
  | (k, t) :: ls, out =>
    match Template.subst (lookThen look out) t with
    | .ok v => parseLines look ls ((k, v) :: out)
    | .err _ => .error .dotenvParse
    | .panic _ => .error .panic

/-- `dotenv.GetEnvFromFile(cur, files)`; `envMap` accumulates -/
def getEnvFromFile (w : World) (cur : Env) : List FileRef → Env → Except Err Env
  | [], envMap => .ok envMap
  | f :: fs, envMap =>
    match lookupFile w f with
    | none => .error .envNotFound
    | some .dir => .error .envIsDir
    | some (.file ls) =>
      match parseLines (chain cur envMap) ls [] with
      | .ok out => getEnvFromFile w cur fs (out ++ envMap)
      | .error e => .error e

def applyOpt (w : World) (o : PO) : Opt → Except Err PO
  | .withName n => if normalize n = n then .ok { o with name := n } else .error .invalidName
  | .withEnv l => .ok { o with env := asEqualsMap l ++ o.env }
  | .withOsEnv => .ok { o with env := o.env ++ asEqualsMap w.os }
  | .withEnvFiles fs => withEnvFiles w o fs
  | .withDotEnv =>
    match getEnvFromFile w o.env o.envFiles [] with
    | .ok m => .ok { o with env := o.env ++ m }
    | .error e => .error e
  | .withWorkDir b => .ok (if b then { o with alt := true } else o)

/-- `cli.NewProjectOptions`: the option functions run in call order, the first error aborts -/
def runOpts (w : World) : List Opt → PO → Except Err PO
  | [], o => .ok o
  | x :: xs, o =>
    match applyOpt w o x with
    | .ok o' => runOpts w xs o'
    | .error e => .error e

/-! ## the name decision -/

/-- `withNamePrecedenceLoad`: (projectName, imperativelySet) -/
def cliName (w : World) (o : PO) : Str × Bool :=
  if o.name ≠ [] then (o.name, true)
  else match o.env.get cpn with
    | some n => if n ≠ [] then (n, true) else (normalize (projDir w o), false)
    | none => (normalize (projDir w o), false)

/-- the scan of `loader.projectName` over one file: last non-empty `name` -/
def lastNameDocs : List (Option Str) → Str → Str
  | [], acc => acc
  | some n :: ds, acc => lastNameDocs ds (if n ≠ [] then n else acc)
  | none :: ds, acc => lastNameDocs ds acc

def lastName : List (List (Option Str)) → Str → Str
  | [], acc => acc
  | f :: fs, acc => lastName fs (lastNameDocs f acc)

/-- `loader.projectName` -/
def loaderName (w : World) (env : Env) (pn : Str × Bool) : Except Err Str :=
  if pn.2 then
    if normalize pn.1 ≠ pn.1 then .error .invalidName else .ok pn.1
  else
    match Template.subst env.get (lastName w.files []) with
    | .ok s => if normalize s ≠ [] then .ok (normalize s) else .ok pn.1
    | .err _ => .error .interp
    | .panic _ => .error .panic

/-- interpolation of a list of strings of the model by the load pipeline: only failure is observed -/
def interpAll (env : Env) : List Str → Except Err Unit
  | [] => .ok ()
  | t :: ts =>
    match Template.subst env.get t with
    | .ok _ => interpAll env ts
    | .err _ => .error .interp
    | .panic _ => .error .panic

structure Loaded where
  name : Str
  env : Env
  probe : Str
deriving Repr, DecidableEq

def allNames (w : World) : List Str := w.files.flatten.filterMap id

/-- `ProjectOptions.LoadProject` observed at `Project.Name`, `Project.Environment` and one interpolated string -/
def load (w : World) (o : PO) : Except Err Loaded :=
  match loaderName w o.env (cliName w o) with
  | .error e => .error e
  | .ok name =>
    let env : Env := (cpn, name) :: o.env
    match interpAll env (allNames w) with
    | .error e => .error e
    | .ok _ =>
      match Template.subst env.get w.probe with
      | .err _ => .error .interp
      | .panic _ => .error .panic
      | .ok p => if name = [] then .error .emptyName else .ok { name := name, env := env, probe := p }

/-- `NewProjectOptions(opts…)` then `LoadProject` -/
def run (w : World) (opts : List Opt) : Except Err Loaded :=
  match runOpts w opts {} with
  | .ok o => load w o
  | .error e => .error e

end CV.Name
