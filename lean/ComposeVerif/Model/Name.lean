import ComposeVerif.Model.Str
import ComposeVerif.Model.Template
import ComposeVerif.Model.Dotenv
/-!
# Model of the project-name decision and of the project-environment option machine (C17)

Mirrors the code that exists:

* `loader.NormalizeProjectName` (`normalize`): `strings.ToLower`, keep the matches of `[a-z0-9_-]`,
  `strings.TrimLeft(s, "_-")`.  `strings.ToLower` is `unicode.ToLower` per rune; the only runes outside
  ASCII whose lower case lands inside `[a-z0-9_-]` are U+212A KELVIN SIGN (→ `k`) and U+0130 (→ `i`);
  every other rune is dropped by the filter whatever its lower case is, so `toLowerGo` is the identity
  there (checked against the real function on every code point, harness check `c17norm`).
* `cli.WithName`, `cli.WithEnv`, `cli.WithOsEnv`, `cli.WithEnvFiles`, `cli.WithDotEnv` (`applyOpt`) as a state
  machine over `ProjectOptions{Name, Environment, EnvFiles}` (`PO`), `cli.NewProjectOptions` (`runOpts`);
* `utils.GetAsEqualsMap` (`asEqualsMap`), `types.Mapping.Merge` (non-overriding: `e ++ m` under first-match lookup),
  `dotenv.GetEnvFromFile` (`getEnvFromFile`) on the raw text of the files, parsed by the C18 model of the env-file
  parser (`Dotenv.parse`, BOM stripped) with the lookup chain current project environment → earlier files
  (→ earlier lines of the same file, inside the parser);
* `cli.WithConfigFileEnv` (`withConfigFileEnv`, `splitOn`), `cli.WithDefaultConfigPath` (`searchUp`),
  `cli.WithWorkingDirectory`, `ProjectOptions.GetWorkingDir` (`projDirId`) over a finite directory tree; the config
  path `-` (standard input: kept by `absolutePaths`, skipped by `GetWorkingDir`, read by `ReadConfigFiles`);
* `cli.withNamePrecedenceLoad` (`cliName`), `loader.projectName` (`loaderName`), the export as
  `COMPOSE_PROJECT_NAME`, the interpolation of every `name:` key and of a probe string by the load pipeline,
  and the `project name must not be empty` test of `loader.load` (`load`).

Go maps are association lists read with first-match `List.lookup`; `m[k] = v` is `(k, v) :: m`.
-/
namespace CV.Name
open CV

/-! ## `NormalizeProjectName` -/

/-- `unicode.ToLower`, as far as the result can survive the `[a-z0-9_-]` filter -/
def toLowerGo (c : Char) : Char :=
  if c = '\u212A' then 'k' else if c = '\u0130' then 'i' else c.toLower

/-- one match of the regexp `[a-z0-9_-]` -/
def isNameChar (c : Char) : Bool := c.isLower || c.isDigit || c == '_' || c == '-'

/-- the cutset of `strings.TrimLeft(s, "_-")` -/
def isSep (c : Char) : Bool := c == '_' || c == '-'

def normalize (s : Str) : Str := ((s.map toLowerGo).filter isNameChar).dropWhile isSep

/-- `[a-z0-9][a-z0-9_-]*` -/
def validName : Str → Bool
  | [] => false
  | c :: cs => (c.isLower || c.isDigit) && cs.all isNameChar

/-! ## environments -/

abbrev Env := List (Str × Str)

def Env.get (e : Env) (k : Str) : Option Str := List.lookup k e

/-- `strings.Cut(s, "=")` when found -/
def splitEq : Str → Option (Str × Str)
  | [] => none
  | c :: cs => if c = '=' then some ([], cs) else
    match splitEq cs with
    | some p => some (c :: p.1, p.2)
    | none => none

/-- `utils.GetAsEqualsMap`: entries without `=` are dropped, a later duplicate wins -/
def asEqualsMap (l : List Str) : Env :=
  l.foldl (fun e s => match splitEq s with | some kv => kv :: e | none => e) []

def cpn : Str := "COMPOSE_PROJECT_NAME".toList
def disableKey : Str := "COMPOSE_DISABLE_ENV_FILE".toList

def composeFileKey : Str := "COMPOSE_FILE".toList
def pathSepKey : Str := "COMPOSE_PATH_SEPARATOR".toList

/-! ## the world outside the options -/

inductive EnvFile
  | dir
  | file (content : Str)   -- raw text of the file
deriving Repr, DecidableEq

/-- one directory of the (finite) tree the options can see -/
structure DirNode where
  /-- base name -/
  name : Str
  /-- `.env` in this directory -/
  dotEnv : Option EnvFile := none
  /-- index of the parent directory (`none`: nothing above it holds compose files) -/
  parent : Option Nat := none
  /-- compose files in this directory: file name → YAML documents → the `name:` key (`none` = absent) -/
  files : List (Str × List (Option Str)) := []
deriving Repr

/-- a config path after `filepath.Abs`: a file `f` in directory `dir`, or (`file = none`) a directory whose parent is `dir` -/
structure CfgRef where
  dir : Nat
  file : Option Str
  /-- the path `-`: the compose file is read from standard input (`dir`/`file` are then meaningless) -/
  stdin : Bool := false
deriving Repr, DecidableEq

inductive FileRef
  | named (n : Str)
  | default (d : Nat)       -- `.env` of directory `d`
deriving Repr, DecidableEq

structure World where
  dirs : List DirNode
  /-- the process working directory -/
  cwd : Nat := 0
  /-- config paths handed to `NewProjectOptions` -/
  given : List CfgRef := []
  /-- what a path string of `COMPOSE_FILE` denotes (relative to `cwd`); an absent string does not exist -/
  paths : List (Str × CfgRef) := []
  /-- `os.Environ()` -/
  os : List Str
  /-- env files by path; an absent path does not exist -/
  envFiles : List (Str × EnvFile)
  /-- what standard input holds (the documents of a compose file), for a config path `-` -/
  stdinDocs : List (Option Str) := []
  /-- a string of the compose model (a label of a service present in every file), interpolated by the load -/
  probe : Str
deriving Repr

inductive Err
  | invalidName | emptyName | envNotFound | envIsDir | dotenvParse | interp | disableParse | panic
  | configNotFound | configIsDir | noConfig
deriving Repr, DecidableEq

inductive Opt
  | withName (n : Str)
  | withEnv (l : List Str)
  | withOsEnv
  | withEnvFiles (fs : List Str)
  | withDotEnv
  /-- `WithWorkingDirectory(path of directory d)`; `none` is the empty path, a no-op -/
  | withWorkDir (d : Option Nat)
  | withConfigFileEnv
  | withDefaultConfigPath
deriving Repr, DecidableEq

/-- `cli.ProjectOptions` (the fields the property is about) -/
structure PO where
  name : Str := []
  env : Env := []
  envFiles : List FileRef := []
  /-- `WorkingDir` -/
  workDir : Option Nat := none
  /-- `ConfigPaths` -/
  configs : List CfgRef := []
deriving Repr, DecidableEq

def strs (l : List String) : List Str := l.map String.toList

/-- `strconv.ParseBool` -/
def parseBool (s : Str) : Option Bool :=
  if (strs ["1", "t", "T", "TRUE", "true", "True"]).contains s then some true
  else if (strs ["0", "f", "F", "FALSE", "false", "False"]).contains s then some false
  else none

def dirNode (w : World) (d : Nat) : DirNode := w.dirs.getD d { name := [] }

/-- `ProjectOptions.GetWorkingDir`: `WorkingDir` when set, else the directory of the first config path, else
    the process working directory -/
def firstFileDir : List CfgRef → Option Nat
  | [] => none
  | c :: cs => if c.stdin then firstFileDir cs else some c.dir

def projDirId (w : World) (o : PO) : Nat :=
  match o.workDir with
  | some d => d
  | none => match firstFileDir o.configs with   -- the first config path that is not `-`
    | some d => d
    | none => w.cwd

/-- base name of the project directory -/
def projDir (w : World) (o : PO) : Str := (dirNode w (projDirId w o)).name

def defaultEnvFile (w : World) (o : PO) : PO :=
  match (dirNode w (projDirId w o)).dotEnv with
  | some (.file _) => { o with envFiles := [.default (projDirId w o)] }
  | _ => o

def withEnvFiles (w : World) (o : PO) (fs : List Str) : Except Err PO :=
  match fs with
  | _ :: _ => .ok { o with envFiles := fs.map .named }
  | [] =>
    match (asEqualsMap w.os).get disableKey with      -- os.LookupEnv
    | some v =>
      match parseBool v with
      | none => .error .disableParse
      | some true => .ok o
      | some false => .ok (defaultEnvFile w o)
    | none => .ok (defaultEnvFile w o)

def lookupFile (w : World) : FileRef → Option EnvFile
  | .default d => (dirNode w d).dotEnv
  | .named n => List.lookup n w.envFiles

/-- `ParseWithLookup` on the text of one env file (`look` is the `lookupFn`) -/
def parseFile (look : Str → Option Str) (content : Str) : Except Err Env :=
  match Dotenv.parse (Dotenv.stripBOM content) look with
  | .ok m => .ok m
  | .err _ _ => .error .dotenvParse
  | .panic _ => .error .panic

/-- `dotenv.GetEnvFromFile(cur, files)`; `envMap` accumulates -/
def getEnvFromFile (w : World) (cur : Env) : List FileRef → Env → Except Err Env
  | [], envMap => .ok envMap
  | f :: fs, envMap =>
    match lookupFile w f with
    | none => .error .envNotFound
    | some .dir => .error .envIsDir
    | some (.file c) =>
      match parseFile (Dotenv.envOf cur.get envMap) c with
      | .ok out => getEnvFromFile w cur fs (Dotenv.mergeInto envMap out)
      | .error e => .error e

/-! ## which compose files are loaded -/

/-- `strings.Split(s, sep)` for a non-empty separator (`fuel` bounds the number of cuts) -/
def splitOnFuel (sep : Str) : Nat → Str → List Str
  | 0, s => [s]
  | n + 1, s =>
    match indexOf sep s with
    | none => [s]
    | some i => s.take i :: splitOnFuel sep n (s.drop (i + sep.length))

def splitOn (sep s : Str) : List Str := splitOnFuel sep s.length s

/-- what one entry of `COMPOSE_FILE` denotes: `-` is standard input (kept without any check), anything else must exist -/
def pathRef (w : World) (p : Str) : Option CfgRef :=
  if p = ['-'] then some { dir := 0, file := none, stdin := true } else List.lookup p w.paths

/-- `absolutePaths`: every path must exist -/
def resolvePaths (w : World) : List Str → Except Err (List CfgRef)
  | [] => .ok []
  | p :: ps =>
    match pathRef w p with
    | none => .error .configNotFound
    | some r =>
      match resolvePaths w ps with
      | .ok rs => .ok (r :: rs)
      | .error e => .error e

/-- `cli.WithConfigFileEnv` -/
def withConfigFileEnv (w : World) (o : PO) : Except Err PO :=
  match o.configs with
  | _ :: _ => .ok o
  | [] =>
    let sep := match o.env.get pathSepKey with
      | some s => if s = [] then [':'] else s
      | none => [':']
    match o.env.get composeFileKey with
    | none => .ok o
    | some f =>
      match resolvePaths w (splitOn sep f) with
      | .ok rs => .ok { o with configs := rs }
      | .error e => .error e

def defaultFileNames : List Str := strs ["compose.yaml", "compose.yml", "docker-compose.yml", "docker-compose.yaml"]
def defaultOverrideFileNames : List Str :=
  strs ["compose.override.yml", "compose.override.yaml", "docker-compose.override.yml", "docker-compose.override.yaml"]

def present (n : DirNode) (f : Str) : Bool := (List.lookup f n.files).isSome

/-- the loop of `WithDefaultConfigPath`: first directory, going up, that holds a default file name -/
def searchUp (w : World) : Nat → Nat → List CfgRef
  | 0, _ => []
  | fuel + 1, d =>
    let n := dirNode w d
    match defaultFileNames.filter (present n) with
    | winner :: _ =>
      { dir := d, file := some winner } ::
        (match defaultOverrideFileNames.filter (present n) with
         | ov :: _ => [{ dir := d, file := some ov }]
         | [] => [])
    | [] =>
      match n.parent with
      | some p => searchUp w fuel p
      | none => []

/-- `cli.WithDefaultConfigPath` -/
def withDefaultConfigPath (w : World) (o : PO) : PO :=
  match o.configs with
  | _ :: _ => o
  | [] => { o with configs := searchUp w (w.dirs.length + 1) (projDirId w o) }

def applyOpt (w : World) (o : PO) : Opt → Except Err PO
  | .withName n => if normalize n = n then .ok { o with name := n } else .error .invalidName
  | .withEnv l => .ok { o with env := asEqualsMap l ++ o.env }
  | .withOsEnv => .ok { o with env := o.env ++ asEqualsMap w.os }
  | .withEnvFiles fs => withEnvFiles w o fs
  | .withDotEnv =>
    match getEnvFromFile w o.env o.envFiles [] with
    | .ok m => .ok { o with env := o.env ++ m }
    | .error e => .error e
  | .withWorkDir d => .ok (match d with | some i => { o with workDir := some i } | none => o)
  | .withConfigFileEnv => withConfigFileEnv w o
  | .withDefaultConfigPath => .ok (withDefaultConfigPath w o)

/-- `cli.NewProjectOptions`: the option functions run in call order, the first error aborts -/
def runOpts (w : World) : List Opt → PO → Except Err PO
  | [], o => .ok o
  | x :: xs, o =>
    match applyOpt w o x with
    | .ok o' => runOpts w xs o'
    | .error e => .error e

/-! ## the name decision -/

/-- `withNamePrecedenceLoad`: (projectName, imperativelySet) -/
def cliName (w : World) (o : PO) : Str × Bool :=
  if o.name ≠ [] then (o.name, true)
  else match o.env.get cpn with
    | some n => if n ≠ [] then (n, true) else (normalize (projDir w o), false)
    | none => (normalize (projDir w o), false)

/-- `ReadConfigFiles`: the documents of every config path, in order -/
def readConfigs (w : World) : List CfgRef → Except Err (List (List (Option Str)))
  | [] => .ok []
  | c :: cs =>
    match (if c.stdin then Except.ok w.stdinDocs else
      match c.file with
      | none => .error .configIsDir
      | some f =>
        match List.lookup f (dirNode w c.dir).files with
        | none => .error .configNotFound
        | some docs => .ok docs) with
    | .error e => .error e
    | .ok docs =>
      match readConfigs w cs with
      | .ok r => .ok (docs :: r)
      | .error e => .error e

/-- the scan of `loader.projectName` over one file: last non-empty `name` -/
def lastNameDocs : List (Option Str) → Str → Str
  | [], acc => acc
  | some n :: ds, acc => lastNameDocs ds (if n ≠ [] then n else acc)
  | none :: ds, acc => lastNameDocs ds acc

def lastName : List (List (Option Str)) → Str → Str
  | [], acc => acc
  | f :: fs, acc => lastName fs (lastNameDocs f acc)

/-- `loader.projectName` on the loaded config files -/
def loaderName (files : List (List (Option Str))) (env : Env) (pn : Str × Bool) : Except Err Str :=
  if pn.2 then
    if normalize pn.1 ≠ pn.1 then .error .invalidName else .ok pn.1
  else
    match Template.subst env.get (lastName files []) with
    | .ok s => if normalize s ≠ [] then .ok (normalize s) else .ok pn.1
    | .err _ => .error .interp
    | .panic _ => .error .panic

/-- interpolation of a list of strings of the model by the load pipeline: only failure is observed -/
def interpAll (env : Env) : List Str → Except Err Unit
  | [] => .ok ()
  | t :: ts =>
    match Template.subst env.get t with
    | .ok _ => interpAll env ts
    | .err _ => .error .interp
    | .panic _ => .error .panic

structure Loaded where
  name : Str
  env : Env
  probe : Str
deriving Repr, DecidableEq

def allNames (files : List (List (Option Str))) : List Str := files.flatten.filterMap id

/-- the load proper, once the config files are read -/
def loadFiles (w : World) (o : PO) (files : List (List (Option Str))) : Except Err Loaded :=
  match loaderName files o.env (cliName w o) with
  | .error e => .error e
  | .ok name =>
    let env : Env := (cpn, name) :: o.env
    match interpAll env (allNames files) with
    | .error e => .error e
    | .ok _ =>
      match Template.subst env.get w.probe with
      | .err _ => .error .interp
      | .panic _ => .error .panic
      | .ok p => if name = [] then .error .emptyName else .ok { name := name, env := env, probe := p }

/-- `ProjectOptions.LoadProject` observed at `Project.Name`, `Project.Environment` and one interpolated string -/
def load (w : World) (o : PO) : Except Err Loaded :=
  match o.configs with
  | [] => .error .noConfig
  | _ :: _ =>
    match readConfigs w o.configs with
    | .error e => .error e
    | .ok files => loadFiles w o files

/-- `NewProjectOptions(given, opts…)` then `LoadProject` -/
def run (w : World) (opts : List Opt) : Except Err Loaded :=
  match runOpts w opts { configs := w.given } with
  | .ok o => load w o
  | .error e => .error e

end CV.Name
