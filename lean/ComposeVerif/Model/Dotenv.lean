import ComposeVerif.Model.Template
/-!
# Model of the env-file parser (`dotenv/parser.go`, `dotenv/godotenv.go:expandVariables`)

Mirrors the code that exists, quirks included.  Domain: strings over ASCII plus
U+0085 and U+00A0 (DESIGN §2.5); byte indices of the Go code are code-point indices
here (every byte the scanner compares against is ASCII, so the cuts coincide).

* `getStatementStart`  → `stmtStart`   (`src[pos:]`, `src[0]` are checked accesses)
* `locateKeyName`      → `locateKey`   (`src[0:i]`, `src[offset:]`, `strings.Split(..)[0]`)
* `extractVarValue`    → `extractValue` (`src[i]`, `src[i+1:]`, `src[:valEndIndex]`)
* `expandEscapes`      → `expandEscapes` (the escape regex as a matcher + `strconv.UnquoteChar`)
* `expandVariables`    → `expandVars`  (C07 model, lookup first, earlier lines second)
* `parser.parse`       → `parseLoop` / `parse`

Every index / slice expression of the Go code is an `Option` access whose `none`
branch is an explicit `panic site`; "never crashes" is therefore a theorem about the
arithmetic, not a by-product of totalised list functions.  The Go loops are modelled
with the loop bound as structural fuel (`for i := 1; i < len(src); i++` runs
`len(src) - 1` times); the outer statement loop and the recursion of
`getStatementStart` take explicit fuel and `Site.fuel` is a distinguished outcome so
that termination is a theorem as well.
-/
namespace CV.Dotenv
open CV CV.Template

abbrev Map := List (Str × Str)

inductive PErr
  | unexpectedChar          -- "unexpected character %q in variable name"
  | keySpace                -- "key cannot contain a space"
  | unterminated            -- "unterminated quoted value"
  | zeroLength              -- "zero length string"
  | tmpl (e : Template.Err) -- error of template.Substitute
deriving Repr, DecidableEq

inductive Site
  | fuel            -- model artefact: not enough fuel (would be non-termination)
  | tmpl (s : Template.PanicSite)
  | stmtSlice       -- getStatementStart: src[pos:]
  | stmtIndex0      -- getStatementStart: src[0]
  | stmtSlice2      -- getStatementStart: src[pos:] after the comment
  | keySlice        -- locateKeyName: src[0:i]
  | keyRest         -- locateKeyName: src[offset:]
  | splitIndex0     -- locateKeyName: strings.Split(src, "\n")[0]
  | quoteIndex      -- extractVarValue: src[i]
  | quoteRest       -- extractVarValue: src[i+1:]
  | untermSlice     -- extractVarValue: src[:valEndIndex]
deriving Repr, DecidableEq

inductive POut
  | ok (m : Map)
  | err (e : PErr) (partialMap : Map)
  | panic (site : Site)
deriving Repr, DecidableEq

/-- result of one parser stage: a panic site, or the Go `(value, error)` pair -/
abbrev Stage (α : Type) := Except Site (Except PErr α)

/-! ## character classes -/

/-- `unicode.IsSpace` on the modelled domain -/
def isSpaceU (c : Char) : Bool :=
  c == '\t' || c == '\n' || c == '\x0b' || c == '\x0c' || c == '\r' || c == ' ' || c == '\u0085' || c == '\u00a0'

/-- `parser.go:isSpace`: a space but not a line break -/
def isSpaceNB (c : Char) : Bool :=
  c == '\t' || c == '\x0b' || c == '\x0c' || c == '\r' || c == ' ' || c == '\u0085' || c == '\u00a0'

/-- the regexp class `\s` (RE2: `[\t\n\f\r ]`) used by `exportRegex` -/
def isSpaceRE (c : Char) : Bool :=
  c == '\t' || c == '\n' || c == '\x0c' || c == '\r' || c == ' '

/-- `unicode.IsLetter(c) || unicode.IsNumber(c)` on the modelled domain: ASCII plus the three
    sample code points U+00E9 (Ll), U+4E16 (Lo), U+00B2 (No); cross-checked against Go's tables
    by `Gen.Dotenv.unicodeClass` / `unicode_classes_are_modelled` -/
def isLetterOrNumber (c : Char) : Bool :=
  c.isAlphanum || c == '\u00e9' || c == '\u4e16' || c == '\u00b2'

/-- runes `locateKeyName` lets through: `_ . - [ ]`, letters and numbers -/
def isKeyRune (c : Char) : Bool :=
  c == '_' || c == '.' || c == '-' || c == '[' || c == ']' || isLetterOrNumber c

/-! ## checked Go slicing -/

/-- `strings.IndexFunc` (index of the first element satisfying `p`, counted from `i`) -/
def indexFunc (p : Char → Bool) : Str → Nat → Option Nat
  | [], _ => none
  | c :: cs, i => if p c then some i else indexFunc p cs (i + 1)

/-- `s[i:]`; `none` = slice bounds out of range -/
def sliceFrom (s : Str) (i : Nat) : Option Str := if i ≤ s.length then some (s.drop i) else none
/-- `s[:i]` -/
def sliceTo (s : Str) (i : Nat) : Option Str := if i ≤ s.length then some (s.take i) else none

/-! ## the result map: a Go `map[string]string` as an association list (insertion order, overwrite in place) -/

def put (m : Map) (k v : Str) : Map :=
  match m with
  | [] => [(k, v)]
  | (k', v') :: r => if k = k' then (k, v) :: r else (k', v') :: put r k v

def get (m : Map) (k : Str) : Option Str :=
  match m with
  | [] => none
  | (k', v') :: r => if k = k' then some v' else get r k

/-! ## getStatementStart -/

def stmtStart : Nat → Str → Except Site Str
  | 0, _ => .error .fuel
  | fuel + 1, src =>
    match indexFunc (fun c => !isSpaceU c) src 0 with
    | none => .ok []
    | some pos =>
      match sliceFrom src pos with
      | none => .error .stmtSlice
      | some s1 =>
        match s1[0]? with
        | none => .error .stmtIndex0
        | some c =>
          if c != '#' then .ok s1
          else
            match indexFunc (· == '\n') s1 0 with
            | none => .ok []
            | some p =>
              match sliceFrom s1 p with
              | none => .error .stmtSlice2
              | some s2 => stmtStart fuel s2

/-! ## locateKeyName -/

def exportKw : Str := ['e', 'x', 'p', 'o', 'r', 't']

/-- `if exportRegex.MatchString(src) { src = TrimLeftFunc(TrimPrefix(src, "export"), isSpace) }` -/
def dropExport (s : Str) : Str :=
  if exportKw.isPrefixOf s then
    match s.drop 6 with
    | c :: r => if isSpaceRE c then (c :: r).dropWhile isSpaceNB else s
    | [] => s
  else s

inductive KeyScan
  | delim (i : Nat) (inherited : Bool)   -- `break loop` at index i
  | noDelim                              -- the range loop ran off the end
  | bad                                  -- unexpected character
deriving Repr, DecidableEq

/-- the `for i, rune := range src` loop of `locateKeyName` -/
def scanKey : Str → Nat → KeyScan
  | [], _ => .noDelim
  | c :: cs, i =>
    if isSpaceNB c then scanKey cs (i + 1)
    else if c == '=' || c == ':' then .delim i false
    else if c == '\n' then .delim i true
    else if isKeyRune c then scanKey cs (i + 1)
    else .bad

/-- `strings.Split(s, "\n")` -/
def splitNL : Str → List Str
  | [] => [[]]
  | c :: cs =>
    if c == '\n' then [] :: splitNL cs
    else match splitNL cs with
      | [] => [[c]]
      | h :: t => (c :: h) :: t

/-- `strings.TrimRightFunc(s, unicode.IsSpace)` -/
def trimRightU (s : Str) : Str := (s.reverse.dropWhile isSpaceU).reverse

def locateKey (src0 : Str) : Stage (Str × Str × Bool) :=
  let src := dropExport src0
  match scanKey src 0 with
  | .bad =>
    match splitNL src with
    | [] => .error .splitIndex0
    | _ :: _ => .ok (.error .unexpectedChar)
  | .noDelim =>
    if src.isEmpty then .ok (.error .zeroLength)
    else
      -- `if offset == 0 { key = src; offset = len(src); inherited = true }`: a bare key on the last line
      match sliceFrom src src.length with
      | none => .error .keyRest
      | some r => .ok (.ok (trimRightU src, r.dropWhile isSpaceNB, true))
  | .delim i inh =>
    match sliceTo src i with
    | none => .error .keySlice
    | some key =>
      if src.isEmpty then .ok (.error .zeroLength)
      else
        match sliceFrom src (i + 1) with
        | none => .error .keyRest
        | some r => .ok (.ok (trimRightU key, r.dropWhile isSpaceNB, inh))

/-! ## expandEscapes -/

def isOct (c : Char) : Bool := '0' ≤ c && c ≤ '7'

def octVal (ds : Str) : Nat := ds.foldl (fun a d => a * 8 + (d.toNat - '0'.toNat)) 0

/-- replacement for the match `\0` followed by the digits `ds` (at most three, greedy):
    the prefix is rewritten to `\`, `strconv.UnquoteChar` accepts exactly three octal digits ≤ 255 -/
def octalRepl (ds : Str) : Str :=
  if ds.length == 3 && ds.all isOct && octVal ds ≤ 255 then [Char.ofNat (octVal ds)]
  else '\\' :: ds

/-- the single-character escapes of `escapeSeqRegex` other than `0` -/
def simpleEscape (c : Char) : Option Str :=
  if c == '$' then some ['$', '$']
  else if c == 'a' then some ['\x07']
  else if c == 'b' then some ['\x08']
  else if c == 'f' then some ['\x0c']
  else if c == 'n' then some ['\n']
  else if c == 'r' then some ['\r']
  else if c == 't' then some ['\t']
  else if c == 'v' then some ['\x0b']
  else if c == '"' then some ['"']
  else if c == '\\' then some ['\\']
  else none

/-- `escapeSeqRegex.ReplaceAllStringFunc`; the first argument counts input characters
    already consumed by the previous match (so that the recursion is structural) -/
def expEsc : Nat → Str → Str
  | _, [] => []
  | skip + 1, _ :: cs => expEsc skip cs
  | 0, c :: cs =>
    if c == '\\' then
      match cs with
      | [] => ['\\']
      | d :: ds =>
        match simpleEscape d with
        | some r => r ++ expEsc 1 cs
        | none =>
          if d == '0' then
            let digits := (ds.take 3).takeWhile Char.isDigit
            octalRepl digits ++ expEsc (1 + digits.length) cs
          else '\\' :: expEsc 0 cs
    else c :: expEsc 0 cs

def expandEscapes (s : Str) : Str := expEsc 0 s

/-! ## expandVariables -/

/-- the mapping handed to `template.Substitute`: lookup function first, the file's earlier lines second -/
def envOf (lookup : Env) (envMap : Map) : Env := fun k =>
  match lookup k with
  | some v => some v
  | none => get envMap k

def expandVars (value : Str) (envMap : Map) (lookup : Env) : Stage Str :=
  match Template.subst (envOf lookup envMap) value with
  | .ok v => .ok (.ok v)
  | .err e => .ok (.error (.tmpl e))
  | .panic p => .error (.tmpl p)

/-! ## extractVarValue -/

inductive QScan
  | closed (chars : Str) (i : Nat)   -- closing quote at index i
  | unterminated
  | oob                              -- src[i] out of range
deriving Repr, DecidableEq

/-- `for i := 1; i < len(src); i++`: the first argument is `len(src) - i` -/
def quotedLoop (q : Char) (src : Str) : Nat → Nat → Bool → Str → QScan
  | 0, _, _, _ => .unterminated
  | n + 1, i, esc, acc =>
    match src[i]? with
    | none => .oob
    | some c =>
      if c != q then
        if !esc && c == '\\' then quotedLoop q src n (i + 1) true acc
        else if esc then quotedLoop q src n (i + 1) false (acc ++ ['\\', c])
        else quotedLoop q src n (i + 1) false (acc ++ [c])
      else if esc then quotedLoop q src n (i + 1) false (acc ++ [c])
      else .closed acc i

/-- `valEndIndex := strings.IndexFunc(src, isCharFunc('\n')); if valEndIndex == -1 { valEndIndex = len(src) }` -/
def valEndIndex (src : Str) : Nat :=
  match indexFunc (· == '\n') src 0 with
  | some k => k
  | none => src.length

/-- `hasQuotePrefix` -/
def quotePrefix : Str → Option Char
  | c :: _ => if c == '"' || c == '\'' then some c else none
  | [] => none

def extractValue (src : Str) (envMap : Map) (lookup : Env) : Stage (Str × Str) :=
  match quotePrefix src with
  | none =>
    let line := (cut ['\n'] src).1
    let rest := (cut ['\n'] src).2
    let v := trimRightU (cut [' ', '#'] line).1
    match expandVars v envMap lookup with
    | .error s => .error s
    | .ok (.error e) => .ok (.error e)
    | .ok (.ok r) => .ok (.ok (r, rest))
  | some q =>
    match quotedLoop q src (src.length - 1) 1 false [] with
    | .oob => .error .quoteIndex
    | .unterminated =>
      match sliceTo src (valEndIndex src) with
      | none => .error .untermSlice
      | some _ => .ok (.error .unterminated)
    | .closed chars i =>
      if q == '"' then
        match expandVars (expandEscapes chars) envMap lookup with
        | .error s => .error s
        | .ok (.error e) => .ok (.error e)
        | .ok (.ok v) =>
          match sliceFrom src (i + 1) with
          | none => .error .quoteRest
          | some rest => .ok (.ok (v, rest))
      else
        match sliceFrom src (i + 1) with
        | none => .error .quoteRest
        | some rest => .ok (.ok (chars, rest))

/-! ## parser.parse -/

def parseLoop : Nat → Str → Map → Env → POut
  | 0, _, _, _ => .panic .fuel
  | fuel + 1, src, out, lookup =>
    match stmtStart (src.length + 1) src with
    | .error s => .panic s
    | .ok cs =>
      if cs.isEmpty then .ok out
      else
        match locateKey cs with
        | .error s => .panic s
        | .ok (.error e) => .err e out
        | .ok (.ok (key, left, inherited)) =>
          if key.any isSpaceU then .err .keySpace out
          else if inherited then
            match lookup key with
            | some v => parseLoop fuel left (put out key v) lookup
            | none => parseLoop fuel left out lookup
          else
            match extractValue left out lookup with
            | .error s => .panic s
            | .ok (.error e) => .err e out
            | .ok (.ok (v, left')) => parseLoop fuel left' (put out key v) lookup

/-- `dotenv.UnmarshalWithLookup` -/
def parse (src : Str) (lookup : Env) : POut := parseLoop (src.length + 2) src [] lookup

/-! ## ParseWithLookup / GetEnvFromFile (`dotenv/godotenv.go`, `dotenv/env.go`) -/

/-- `bytes.TrimPrefix(data, utf8BOM)` -/
def stripBOM : Str → Str
  | '\uFEFF' :: r => r
  | s => s

/-- `for k, v := range env { envMap[k] = v }` -/
def mergeInto (m : Map) : Map → Map
  | [] => m
  | (k, v) :: r => mergeInto (put m k v) r

/-- `dotenv.GetEnvFromFile` on the contents of the files: the caller's environment wins over
    the variables of earlier files, which win over earlier lines of the current file -/
def fromFiles (currentEnv : Env) : List Str → Map → POut
  | [], m => .ok m
  | f :: fs, m =>
    match parse (stripBOM f) (envOf currentEnv m) with
    | .ok env => fromFiles currentEnv fs (mergeInto m env)
    | .err e _ => .err e m
    | .panic s => .panic s

/-- `startsWithDigitRegex` = `^\s*\d.*` on a key -/
def startsWithDigit (k : Str) : Bool :=
  match k.dropWhile isSpaceRE with
  | c :: _ => c.isDigit
  | [] => false

/-- `dotenv.ReadWithLookup` on the contents of the files: every file is parsed against the lookup function
    only (earlier files are NOT visible, unlike `GetEnvFromFile`), keys starting with a digit are dropped,
    later files replace earlier variables -/
def readFiles (lookup : Env) : List Str → Map → POut
  | [], m => .ok m
  | f :: fs, m =>
    match parse (stripBOM f) lookup with
    | .ok env => readFiles lookup fs (mergeInto m (env.filter fun kv => !startsWithDigit kv.1))
    | .err e _ => .err e m
    | .panic s => .panic s

end CV.Dotenv
