import Lean.Data.Json
/-!
# The untyped YAML tree (`map[string]any`) every loader stage walks  (DESIGN.md §2.1, §2.2)

Maps are association lists in *list order*; Go's randomised iteration order is a
universally quantified permutation in the theorems.  Floats are opaque (decimal text).
Wire format (line protocol): `null`, `{"b":true}`, `{"i":"42"}`, `{"f":"1.5"}`, `{"s":"…"}`,
`{"l":[…]}`, `{"m":[["k",v],…]}`.
-/
open Lean
namespace CV

inductive Val where
  | null
  | bool (b : Bool)
  | int (i : Int)
  | float (repr : String)
  | str (s : String)
  | seq (xs : List Val)
  | map (kvs : List (String × Val))
deriving Repr, Inhabited, BEq

namespace Val

abbrev KVs := List (String × Val)

partial def ofJson : Json → Except String Val
  | .null => .ok .null
  | .obj o =>
    match o.toList with
    | [("b", .bool b)] => .ok (.bool b)
    | [("i", .str s)] => match s.toInt? with
      | some i => .ok (.int i)
      | none => .error "bad int"
    | [("f", .str s)] => .ok (.float s)
    | [("s", .str s)] => .ok (.str s)
    | [("l", .arr xs)] => do
        let ys ← xs.toList.mapM ofJson
        pure (.seq ys)
    | [("l", .null)] => .ok (.seq [])
    | [("m", .arr kvs)] => do
        let ys ← kvs.toList.mapM fun kv => match kv with
          | .arr #[.str k, v] => do
            let v' ← ofJson v
            pure (k, v')
          | _ => .error "bad entry"
        pure (.map ys)
    | [("m", .null)] => .ok (.map [])
    | _ => .error "bad node"
  | _ => .error "bad node"

def sortKVs (kvs : List (String × Json)) : List (String × Json) :=
  (kvs.toArray.qsort (fun a b => a.1 < b.1)).toList

/-- canonical output: map entries sorted by key (the harness sorts Go's output the same way) -/
partial def toJson : Val → Json
  | .null => .null
  | .bool b => Json.mkObj [("b", .bool b)]
  | .int i => Json.mkObj [("i", .str (toString i))]
  | .float s => Json.mkObj [("f", .str s)]
  | .str s => Json.mkObj [("s", .str s)]
  | .seq xs => Json.mkObj [("l", .arr (xs.map toJson).toArray)]
  | .map kvs => Json.mkObj [("m", .arr ((sortKVs (kvs.map fun (k, v) => (k, toJson v))).map fun (k, v) => Json.arr #[.str k, v]).toArray)]

def lookup (k : String) : KVs → Option Val
  | [] => none
  | (k', v) :: r => if k = k' then some v else lookup k r

/-- Go `m[k] = v`: replace in place if present, else append -/
def insert (k : String) (v : Val) : KVs → KVs
  | [] => [(k, v)]
  | (k', v') :: r => if k = k' then (k, v) :: r else (k', v') :: insert k v r

def erase (k : String) : KVs → KVs
  | [] => []
  | (k', v') :: r => if k = k' then erase k r else (k', v') :: erase k r

def keys (m : KVs) : List String := m.map Prod.fst

/-- `fmt.Sprintf("%v", x)` on scalars (composite values are not compared through this) -/
def fmtV : Val → String
  | .null => "<nil>"
  | .bool b => if b then "true" else "false"
  | .int i => toString i
  | .float s => s
  | .str s => s
  | .seq _ => "[?]"
  | .map _ => "map[?]"

/-- the ten node kinds of property C01 -/
def kind : Val → String
  | .null => "null" | .bool _ => "bool" | .int _ => "int" | .float _ => "float" | .str _ => "string"
  | .seq [] => "emptyList" | .seq (.map _ :: _) => "listOfMaps" | .seq _ => "list"
  | .map [] => "emptyMap" | .map _ => "map"

end Val
end CV
