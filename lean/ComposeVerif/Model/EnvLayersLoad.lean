import ComposeVerif.Model.EnvLayers
import ComposeVerif.Spec.EnvLayers
import ComposeVerif.Model.EnvLayersOrder
/-!
# C16 — more of the code around the two Project methods (round 5)

* `types.Labels.DecodeMapstructure` / `labelValue` (types/labels.go): the YAML `labels` of a service in its sequence form
  (`- k=v`, `- k`) and its mapping form (`k: v`, `k:` null) decoded into `Labels`; `loadProjectY` is the whole load
  with both `environment` and `labels` in their YAML forms;
* `Project.WithServicesEnabled(names…)` (types/project.go): the second caller of `WithServicesEnvironmentResolved`, with
  the constant `true` for discard, and *no* call at all when no name is given;
* the choice of the reported error when several services fail: the `range newProject.Services` loop returns at the
  first failing service of Go's iteration order (`firstErr` on any listing of the services).
-/
namespace CV.EnvLayers

/-! ## YAML `labels` -/

inductive YLabels
  | absent
  | list (items : List Item)              -- `- "k=v"` / `- "k"`, tokenised at the first `=`
  | map (kvs : List (Key × Option Str))   -- `k: v` / `k:` (null)
deriving Repr, DecidableEq

/-- `labelValue` on the value of a mapping entry: `nil` is the empty string -/
def labelMapValue : Option Str → Str
  | some v => v
  | none => []

/-- one element of the sequence form: `k, e, _ := strings.Cut(s, "=")`; `labels[k] = labelValue(e)` -/
def Item.labelPair : Item → Key × Str
  | .kv k v => (k, v)
  | .bare k => (k, [])

/-- `Labels.DecodeMapstructure`: `labels[k] = …` for every element / entry in order -/
def decodeLabels : YLabels → List (Key × Str)
  | .absent => []
  | .list items => overrideBy [] (items.map Item.labelPair)
  | .map kvs => overrideBy [] (kvs.map fun kv => (kv.1, labelMapValue kv.2))

/-- a service as the YAML model has it: `environment` and `labels` in their YAML forms -/
structure YService where
  yenv : YEnv
  ylabels : YLabels
  svc : Service          -- `environment` / `labels` of `svc` are ignored (overwritten by the decoded forms)

def YService.decoded (y : YService) : Service := { y.svc with labels := decodeLabels y.ylabels }

/-- environment and label part of a whole load with both YAML forms -/
def loadProjectY (cfg : LoadCfg) (penv : List (Key × Str)) (fs : FS) (svcs : List (Str × YService)) :
    Except (List Err) (List (Str × Service)) :=
  loadProject cfg penv fs (svcs.map fun p => (p.1, p.2.yenv, p.2.decoded))

/-! ## `WithServicesEnabled` -/

/-- `Project.WithServicesEnabled(names…)` on a project in which the named services are enabled already (profiles are
    C13's): no name ⇒ the deep copy is returned as it is; otherwise `WithServicesEnvironmentResolved(true)`. -/
def withServicesEnabled (penv : List (Key × Str)) (fs : FS) (names : List Str) (svcs : List (Str × Service)) :
    Except (List Err) (List (Str × Service)) :=
  if names.isEmpty then .ok svcs else resolveProjectEnv penv fs true svcs

/-! ## which failing service is reported -/

/-- `for i, service := range newProject.Services { …; if err != nil { return nil, err } }` on one listing of the map -/
def firstErr {α : Type} : List (Str × Except Err α) → Option Err
  | [] => none
  | (_, .error e) :: _ => some e
  | (_, .ok _) :: r => firstErr r

end CV.EnvLayers

namespace CV.EnvLayers.Spec
open CV.EnvLayers

/-- what the YAML `labels` of a service say about `k`: the **last** element of the sequence form that names `k`
    (a bare `k` is the empty value), the mapping entry (`k:` null is the empty value) -/
def yamlLabel : YLabels → Key → Option Str
  | .absent, _ => none
  | .list items, k => lookup k (items.map Item.labelPair).reverse
  | .map kvs, k => (lookup k kvs.reverse).map labelMapValue

/-- the final label through a whole load: YAML `labels` over the last label file that defines the key -/
def finalLabelY (files : List (List Line)) (yl : YLabels) (k : Key) : Option Str :=
  orElse (yamlLabel yl k) (labelFilesVal files k)

/-! ### layering for any registry of env_file formats

The layering itself does not depend on how a file is parsed: whatever map `loadEnvFile` returns for a file — the dotenv
parser's, or a parser registered with `dotenv.RegisterFormat` — is that file's layer; it is read with the lookup
"earlier layers, then the project environment". -/

/-- what env file `f` contributes to `k` when read with `look` (nothing when it is skipped); the parser returns a Go
    map, for which `lookup k vars.reverse = lookup k vars` -/
def layerVal (fs : FS) (f : EnvFile) (look : Look) (k : Key) : Option Str :=
  match loadEnvFile fs f look with
  | .ok vars => lookup k vars.reverse
  | .error _ => none

/-- value of `k` after the env files, listed LAST FILE FIRST -/
def filesValGFrom (penv : List (Key × Str)) (fs : FS) (base : Key → Option Str) : List EnvFile → Key → Option Str
  | [], k => base k
  | f :: earlier, k =>
    orElse (layerVal fs f (envLook penv (filesValGFrom penv fs base earlier)) k) (filesValGFrom penv fs base earlier k)

def finalEnvG (penv : List (Key × Str)) (fs : FS) (efs : List EnvFile) (environment : List (Key × Option Str))
    (k : Key) : Option (Option Str) :=
  match lookup k environment with
  | some (some v) => some (some v)
  | some none => some (lookup k penv)
  | none => (filesValGFrom penv fs (fun _ => none) efs.reverse k).map some

end CV.EnvLayers.Spec

namespace CV.EnvLayers

/-- `WithServicesLabelsResolved` for one service with Go choosing every iteration order, **through** the
    `len(labels) == 0` test and `NewLabelsFromMappingWithEquals` (a `range` again): the outcome is the final `Labels` -/
def ServiceLabelsRunFull (fs : FS) (s : Service) (out : Except Err (List (Key × Str))) : Prop :=
  ∃ merged, ServiceLabelsRun fs s merged ∧
    match merged with
    | .error e => out = .error e
    | .ok final =>
      if final.isEmpty then out = .ok s.labels
      else ∃ res, Listing (ofMWE final) res ∧ out = .ok res

end CV.EnvLayers
