/-!
# Model of `types.(*Project).WithServicesTransform` (types/project.go) as a transition system

```go
expect := len(p.Services); resultCh := make(chan result, expect); newProject := p.deepCopy()
services := newProject.Services                  // M.read   (read of the field, before the collector exists)
eg, ctx := errgroup.WithContext(context.Background())
eg.Go(func() error {                             // M.spawnC
    s := Services{}
    for expect > 0 {
        select {                                 // C.select
        case <-ctx.Done(): return nil            // C.ctxDone ; C.return
        case r := <-resultCh:                    // C.recv
            s[r.name] = r.service; expect--      // C.store
        }
    }
    newProject.Services = s; return nil          // C.exit   (write of the field)
})
for n, s := range services {                     // M.spawn v   (Go map order = any order)
    eg.Go(func() error {
        updated, err := fn(name, service)        // W.begin v ; W.return v
        if err != nil { return err }             // W.fail v  (errgroup: first error recorded, ctx cancelled)
        resultCh <- result{name, updated}        // W.send v  (blocks iff the buffer is full)
        return nil })                            // W.exit v
}
return newProject, eg.Wait()                     // M.wait ; M.return (enabled when every goroutine has exited)
```

Every label is one atomic step between two `verifYield` points of the real code, so a run of the real
function under the controlled scheduler of `harness/c19fanout.go` *is* a label sequence, replayed through `step?`.

`item`, `fails`, `calls` are ghost fields (they never influence which step is enabled).
Core Lean only (linked into the driver).
-/
namespace CV.Fanout

abbrev V := Nat

/-- worker of service `v`: not yet spawned / parked before `fn` / inside `fn` / `fn` returned /
    result sent / goroutine gone (ok) / goroutine gone (error) -/
inductive WPc | idle | start | running | returned | sent | exited | failed
deriving DecidableEq, Repr

/-- ghost: where the result of service `v` is -/
inductive Item | none | inCh | got | stored
deriving DecidableEq, Repr

/-- collector goroutine -/
inductive CPc | notStarted | sel | got (v : V) (r : Nat) | done | fin | gone
deriving DecidableEq, Repr

/-- calling goroutine -/
inductive MPc | read | spawnC | spawning (todo : List V) | waiting | returned
deriving DecidableEq, Repr

/-- one call: the services of the project and the outcome of the supplied function on each
    (`some r` = returns the service value `r`, `none` = returns an error; the error of service `v` is named `v`) -/
structure Cfg where
  svcs : List V
  fn : V → Option Nat

structure St where
  m : MPc
  w : V → WPc
  ch : List (V × Nat)
  c : CPc
  expect : Nat
  acc : V → Option Nat
  /-- `newProject.Services` after the collector's final store (`none` = still the deep copy of the receiver's) -/
  services : Option (V → Option Nat)
  cancelled : Bool
  firstErr : Option V
  item : V → Item
  fails : List V
  calls : List V

inductive Label
  | mRead | mSpawnC | mSpawn (v : V) | mWait | mReturn
  | wBegin (v : V) | wReturn (v : V) | wSend (v : V) | wExit (v : V) | wFail (v : V)
  | cRecv | cCtxDone | cStore | cReturn | cExit
deriving DecidableEq, Repr

def set {α : Type} (f : V → α) (v : V) (x : α) : V → α := fun u => if u = v then x else f u

def live : WPc → Bool
  | .start | .running | .returned | .sent => true
  | _ => false

def step? (cfg : Cfg) (s : St) : Label → Option St
  | .mRead =>
    match s.m with
    | .read => some { s with m := if s.c = .notStarted then .spawnC else .spawning cfg.svcs }
    | _ => none
  | .mSpawnC =>
    match s.m, s.c with
    | .spawnC, .notStarted => some { s with m := .spawning cfg.svcs, c := if s.expect = 0 then .fin else .sel }
    | _, _ => none
  | .mSpawn v =>
    match s.m with
    | .spawning todo => if v ∈ todo then some { s with m := .spawning (todo.erase v), w := set s.w v .start } else none
    | _ => none
  | .mWait =>
    match s.m with
    | .spawning [] => some { s with m := .waiting }
    | _ => none
  | .mReturn =>
    match s.m, s.c with
    | .waiting, .gone => if cfg.svcs.all (fun v => !(live (s.w v))) then some { s with m := .returned } else none
    | _, _ => none
  | .wBegin v =>
    if s.w v = .start then some { s with w := set s.w v .running, calls := s.calls ++ [v] } else none
  | .wReturn v =>
    if s.w v = .running then some { s with w := set s.w v .returned } else none
  | .wSend v =>
    if s.w v = .returned then
      match cfg.fn v with
      | some r =>
        if s.ch.length < cfg.svcs.length then
          some { s with w := set s.w v .sent, ch := s.ch ++ [(v, r)], item := set s.item v .inCh }
        else none
      | none => none
    else none
  | .wFail v =>
    if s.w v = .returned then
      match cfg.fn v with
      | none => some { s with w := set s.w v .failed, cancelled := true,
                              firstErr := (match s.firstErr with | some e => some e | none => some v),
                              fails := s.fails ++ [v] }
      | some _ => none
    else none
  | .wExit v =>
    if s.w v = .sent then some { s with w := set s.w v .exited } else none
  | .cRecv =>
    match s.c, s.ch with
    | .sel, (v, r) :: rest => some { s with c := .got v r, ch := rest, item := set s.item v .got }
    | _, _ => none
  | .cCtxDone =>
    match s.c with
    | .sel => if s.cancelled then some { s with c := .done } else none
    | _ => none
  | .cStore =>
    match s.c with
    | .got v r => some { s with acc := set s.acc v (some r), expect := s.expect - 1,
                                c := if s.expect - 1 = 0 then .fin else .sel, item := set s.item v .stored }
    | _ => none
  | .cReturn =>
    match s.c with
    | .done => some { s with c := .gone }
    | _ => none
  | .cExit =>
    match s.c with
    | .fin => some { s with c := .gone, services := some s.acc }
    | _ => none

def init (cfg : Cfg) : St :=
  { m := .read, w := fun _ => .idle, ch := [], c := .notStarted, expect := cfg.svcs.length,
    acc := fun _ => none, services := none, cancelled := false, firstErr := none,
    item := fun _ => .none, fails := [], calls := [] }

/-- the order of the code before the `fix:` commit that moved the read of `newProject.Services`
    in front of the collector's start: the collector already runs when the caller reads the field -/
def initLegacy (cfg : Cfg) : St :=
  { init cfg with c := if cfg.svcs.length = 0 then .fin else .sel }

def run (cfg : Cfg) (s : St) : List Label → Option St
  | [] => some s
  | l :: ls => (step? cfg s l).bind (fun s' => run cfg s' ls)

inductive Reach (cfg : Cfg) : St → Prop
  | init : Reach cfg (init cfg)
  | step {s s' l} : Reach cfg s → step? cfg s l = some s' → Reach cfg s'

def terminal (s : St) : Prop := s.m = .returned

/-- all labels that can matter for a configuration (used to compute enabled sets) -/
def labels (cfg : Cfg) : List Label :=
  [.mRead, .mSpawnC, .mWait, .mReturn, .cRecv, .cCtxDone, .cStore, .cReturn, .cExit] ++
  cfg.svcs.flatMap (fun v => [.mSpawn v, .wBegin v, .wReturn v, .wSend v, .wExit v, .wFail v])

def enabled (cfg : Cfg) (s : St) : List Label := (labels cfg).filter (fun l => (step? cfg s l).isSome)

/-! ### accesses to the plain shared memory location `newProject.Services` -/

inductive Gor | M | C | W (v : V)
deriving DecidableEq, Repr

def actor : Label → Gor
  | .mRead | .mSpawnC | .mSpawn _ | .mWait | .mReturn => .M
  | .wBegin v | .wReturn v | .wSend v | .wExit v | .wFail v => .W v
  | .cRecv | .cCtxDone | .cStore | .cReturn | .cExit => .C

/-- `some true` = writes the field, `some false` = reads it (the caller reads the returned project after `mReturn`) -/
def fieldAccess : Label → Option Bool
  | .mRead => some false
  | .mReturn => some false
  | .cExit => some true
  | _ => none

/-- a data race on the field: two steps of different goroutines are enabled in the same state, both access the
    field, at least one writes -/
def RaceAt (cfg : Cfg) (s : St) : Prop :=
  ∃ l₁ l₂ w₁ w₂, actor l₁ ≠ actor l₂ ∧ fieldAccess l₁ = some w₁ ∧ fieldAccess l₂ = some w₂ ∧ (w₁ = true ∨ w₂ = true) ∧
    (step? cfg s l₁).isSome = true ∧ (step? cfg s l₂).isSome = true

/-- termination measure -/
def wMu : WPc → Nat
  | .idle => 5 | .start => 4 | .running => 3 | .returned => 2 | .sent => 1 | .exited => 0 | .failed => 0

def cMu (c : CPc) (e : Nat) : Nat :=
  match c with
  | .notStarted => 2 * e + 4 | .sel => 2 * e + 3 | .got _ _ => 2 * e + 2 | .done => 1 | .fin => 1 | .gone => 0

def mMu : MPc → Nat
  | .read => 4 | .spawnC => 3 | .spawning _ => 2 | .waiting => 1 | .returned => 0

def mu (cfg : Cfg) (s : St) : Nat :=
  mMu s.m + cMu s.c s.expect + (cfg.svcs.map (fun v => wMu (s.w v))).sum

end CV.Fanout
