import ComposeVerif.Model.Validate
import ComposeVerif.Model.Interp
/-!
# What `validation.Validate` sees under `SkipInterpolation` (round 6)

`interp.Interpolate` does two things to the merged tree before the structural checks run: it substitutes variables and it
*casts* the leaves the cast table (`interpolateTypeCastMapping`, regenerated as `Gen.castTable`) names — among them
`volumes.*.external`, `secrets.*.external`, `configs.*.external` through `toBoolean`.  With `SkipInterpolation` the cast
has not run: the checkers meet whatever yaml.v3 decoded, i.e. a *string* for the YAML 1.1 words (`yes`, `on`, `y`, …) and
for quoted text.  `castTop` is that cast on the three resource sections (the only leaves of the cast table the structural
checkers read); the theorems in `Props/C10Opts.lean` say the verdict of every checker — and of `Validate` on the whole
tree — is the same before and after it.
-/
namespace CV.Validate
open CV

/-- the two rows of the spelling table of `asBoolean` (validation/external.go), in source order -/
def trueSpellings : List String := ["true", "y", "yes", "on"]
def falseSpellings : List String := ["false", "n", "no", "off"]

/-- `strings.ToLower` on the ASCII range (as in `Interp.parseBool`) -/
def lower (s : String) : String := String.ofList (s.toList.map Char.toLower)

/-- the cast of one leaf by `toBoolean`; a text that is not a boolean stays (the real cast fails there: the load ends in
the interpolation stage) -/
def castLeaf : Val → Val
  | .str s => match Interp.parseBool s with
    | some b => .bool b
    | none => .str s
  | v => v

/-- `<section>.<name>.external` cast, every other entry of the resource kept -/
def castExternalKVs : Val.KVs → Val.KVs
  | [] => []
  | (k, v) :: r => (if k = "external" then (k, castLeaf v) else (k, v)) :: castExternalKVs r

def castResource : Val → Val
  | .map kvs => .map (castExternalKVs kvs)
  | v => v

/-- every resource of one section -/
def castSection : Val → Val
  | .map rs => .map (rs.map fun e => (e.1, castResource e.2))
  | v => v

def isResourceSection (k : String) : Bool := k == "volumes" || k == "secrets" || k == "configs"

/-- the cast on the three resource sections of the merged model -/
def castTop : Val → Val
  | .map top => .map (top.map fun e => if isResourceSection e.1 then (e.1, castSection e.2) else e)
  | v => v

/-- does the cast of this leaf succeed (`toBoolean` returns no error)? -/
def leafCastable : Val → Bool
  | .str s => (Interp.parseBool s).isSome
  | _ => true

def resourceCastable : Val → Bool
  | .map kvs => kvs.all fun e => e.1 != "external" || leafCastable e.2
  | _ => true

def sectionCastable : Val → Bool
  | .map rs => rs.all fun e => resourceCastable e.2
  | _ => true

/-- `interp.Interpolate` does not fail on one of the three `external` leaves -/
def castableTop : Val → Bool
  | .map top => top.all fun e => !isResourceSection e.1 || sectionCastable e.2
  | _ => true

/-- the tree the structural stage reads: cast unless interpolation was skipped -/
def seenByValidate (skipInterpolation : Bool) (t : Val) : Val :=
  if skipInterpolation then t else castTop t

end CV.Validate
