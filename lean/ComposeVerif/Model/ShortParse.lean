import ComposeVerif.Model.ShortStr
/-!
# Short-syntax parsers: `format.ParseVolume` and `types.ParsePortConfig`  (C03)

`parseVolume` mirrors format/volume.go statement by statement (the scanning loop is the
recursive function `scan`, the buffer is kept in order).  `parsePort` mirrors
`types.ParsePortConfig → nat.ParsePortSpecs → nat.ParsePortSpec → convertPortToPortConfig`
(github.com/docker/go-connections v0.4.0), including the sort by the *string* `"port/proto"`.
-/
namespace CV.Short

/-! ## volumes -/

structure Bind where
  selinux : Str := []
  propagation : Str := []
  createHostPath : Bool := false
deriving DecidableEq, Repr

/-- the part of `types.ServiceVolumeConfig` the short syntax can set; `volume = some nocopy` -/
structure Vol where
  type : Str := []
  source : Str := []
  target : Str := []
  readOnly : Bool := false
  bind : Option Bind := none
  volume : Option Bool := none
deriving DecidableEq, Repr

def NUL : Char := Char.ofNat 0

def propagations : List Str :=
  [['r', 'p', 'r', 'i', 'v', 'a', 't', 'e'], ['p', 'r', 'i', 'v', 'a', 't', 'e'], ['r', 's', 'h', 'a', 'r', 'e', 'd'], ['s', 'h', 'a', 'r', 'e', 'd'], ['r', 's', 'l', 'a', 'v', 'e'], ['s', 'l', 'a', 'v', 'e']]

def applyOption (v : Vol) (o : Str) : Vol :=
  if o = ['r', 'o'] then { v with readOnly := true }
  else if o = ['r', 'w'] then { v with readOnly := false }
  else if o = ['n', 'o', 'c', 'o', 'p', 'y'] then { v with volume := some true }
  else if propagations.contains o then { v with bind := some { (v.bind.getD {}) with propagation := o } }
  else if o = ['z'] || o = ['Z'] then { v with bind := some { (v.bind.getD {}) with selinux := o } }
  else v

/-- `populateFieldFromBuffer`; `none` = error -/
def populate (isEnd : Bool) (buf : Str) (v : Vol) : Option Vol :=
  if buf = [] then none
  else if v.source = [] && isEnd then some { v with target := buf }
  else if v.source = [] then some { v with source := buf }
  else if v.target = [] then some { v with target := buf }
  else if !isEnd then none
  else some ((splitOn ',' buf).foldl applyOption v)

def isWindowsDrive (buf : Str) (ch : Char) : Bool :=
  ch = ':' && (match buf with | [b] => isLetter b | _ => false)

/-- the `for _, char := range spec + string(endOfSpec)` loop -/
def scan : Str → Str → Vol → Option Vol
  | [], _, v => some v
  | ch :: r, buf, v =>
    if isWindowsDrive buf ch && (v.source = [] || v.target = []) then scan r (buf ++ [ch]) v
    else if ch = ':' || ch = NUL then
      match populate (ch = NUL) buf v with
      | none => none
      | some v' => scan r [] v'
    else scan r (buf ++ [ch]) v

def isFilePath (src : Str) : Bool :=
  match src with
  | [] => false
  | c :: r =>
    if c = '.' || c = '/' || c = '~' then true
    else if c = '\\' && r.head? = some '\\' then true
    else match r with
      | d :: _ => d = ':' && isLetter c
      | [] => false

def populateType (v : Vol) : Vol :=
  if isFilePath v.source then
    { v with type := ['b', 'i', 'n', 'd'], bind := some { (v.bind.getD {}) with createHostPath := true } }
  else
    { v with type := ['v', 'o', 'l', 'u', 'm', 'e'], volume := some (v.volume.getD false) }

/-- `format.ParseVolume`; `none` = error (the partially filled value that Go returns next to the error is dropped by every caller) -/
def parseVolume (spec : Str) : Option Vol :=
  if byteLen spec = 0 then none
  else if byteLen spec ≤ 2 then some { target := spec, type := ['v', 'o', 'l', 'u', 'm', 'e'] }
  else (scan (spec ++ [NUL]) [] {}).map populateType

/-! ## ports -/

structure PortCfg where
  hostIP : Str
  target : Nat
  published : Str
  protocol : Str
deriving DecidableEq, Repr

/-- `nat.splitParts` on the already split list -/
def splitParts (parts : List Str) : Str × Str × Str :=
  match parts.reverse with
  | [] => ([], [], [])
  | [c] => ([], [], c)
  | c :: h :: ipRev => (joinWith ':' ipRev.reverse, h, c)

/-- `nat.SplitProtoPort` → (proto, port) -/
def splitProtoPort (raw : Str) : Str × Str :=
  match splitOn '/' raw with
  | [] => ([], [])
  | p0 :: rest =>
    if p0 = [] then ([], [])
    else match rest with
      | [] => (['t', 'c', 'p'], raw)
      | p1 :: _ => if p1 = [] then (['t', 'c', 'p'], p0) else (p1, p0)

/-- `nat.ParsePortRange` -/
def parsePortRange (s : Str) : Option (Nat × Nat) :=
  if s = [] then none
  else if !s.contains '-' then (parseUint16 s).map fun n => (n, n)
  else match splitOn '-' s with
    | a :: b :: _ =>
      match parseUint16 a, parseUint16 b with
      | some lo, some hi => if hi < lo then none else some (lo, hi)
      | _, _ => none
    | _ => none

def validProto (p : Str) : Bool := p = ['t', 'c', 'p'] || p = ['u', 'd', 'p'] || p = ['s', 'c', 't', 'p']

structure Mapping where
  key : Str          -- nat.Port = "N/proto"
  cfg : PortCfg
deriving Repr

def mkMapping (ip : Str) (proto : Str) (start hs he : Nat) (hasHost single : Bool) (i : Nat) : Mapping :=
  let hp : Str := if hasHost then natToDec (hs + i) else []
  let hp := if single && hs ≠ he then hp ++ '-' :: natToDec he else hp
  { key := natToDec (start + i) ++ '/' :: proto
    cfg := { hostIP := ip, target := start + i, published := hp, protocol := proto } }

/-- the part of `nat.ParsePortSpec` after the string has been cut into its sections -/
def portCore (ip host cont proto : Str) : Option (List Mapping) :=
  if ip ≠ [] && !validIP ip then none
  else if cont = [] then none
  else match parsePortRange cont with
    | none => none
    | some (s, e) =>
      match (if host = [] then some (0, 0) else parsePortRange host) with
      | none => none
      | some (hs, he) =>
        if host ≠ [] && (e - s ≠ he - hs) && e ≠ s then none
        else if !validProto (lower proto) then none
        else some ((List.range (e - s + 1)).map (mkMapping ip (lower proto) s hs he (host ≠ []) (s = e)))

/-- `nat.ParsePortSpec`; `none` = error -/
def parsePortSpec (raw : Str) : Option (List Mapping) :=
  match splitHostColon (splitParts (splitOn ':' raw)).1 with
  | none => none
  | some ip =>
    portCore ip (splitParts (splitOn ':' raw)).2.1
      (splitProtoPort (splitParts (splitOn ':' raw)).2.2).2 (splitProtoPort (splitParts (splitOn ':' raw)).2.2).1

/-- Go `<` on strings (byte-wise; the keys are ASCII) -/
def strLt : Str → Str → Bool
  | [], [] => false
  | [], _ :: _ => true
  | _ :: _, [] => false
  | a :: as, b :: bs => if a.toNat < b.toNat then true else if b.toNat < a.toNat then false else strLt as bs

def insertByKey (m : Mapping) : List Mapping → List Mapping
  | [] => [m]
  | x :: xs => if strLt m.key x.key then m :: x :: xs else x :: insertByKey m xs

/-- `sort.Strings(keys)` followed by the lookup loop (keys are distinct within one spec) -/
def sortByKey (l : List Mapping) : List Mapping := l.foldr insertByKey []

/-- `types.ParsePortConfig` -/
def parsePort (raw : Str) : Option (List PortCfg) :=
  (parsePortSpec raw).map fun l => (sortByKey l).map (·.cfg)

end CV.Short
