import ComposeVerif.Model.Encode
/-!
# Generic decoding of a YAML tree into a model type (C09): mapstructure with `TagName: "yaml"` over the descriptors

`decode env fuel ty t` is the typed value (same conventions as `Model/Encode.lean`) that `loader.Transform` produces
for the tree `t`: scalars as they are, `null` → nil / the zero value, lists and mappings element-wise, a struct field by
field — the field's YAML key looked up in the mapping, a missing or null key leaving the zero value.  A named type with a
`DecodeMapstructure` method is decoded by its model in `Model/Marshal.lean`.  Not modelled: the weak-typing `cast` hook
(strings into numbers/booleans — the renderings carry properly typed scalars), extension attributes (moved under
`#extensions` by `processExtensions` before decoding), `EnvFile` / `SSHConfig` canonicalisation (`Model/Marshal.lean`).
-/
namespace CV.Decode
open CV CV.TypeDesc CV.Marshal CV.Encode

/-- the field is part of the typed value (visible to at least one encoder) -/
def rendered (fd : FieldDesc) : Bool := fd.exported && !(fd.yamlSkip && fd.jsonSkip)

def primZeroVal (p : String) : Val :=
  if p == "string" then .str "" else if p == "bool" then .bool false else if p == "any" then .null else .int 0

/-- the zero value of a type -/
def zeroVal (env : Env) : Nat → TyExpr → Val
  | 0, _ => .null
  | _ + 1, .prim p => primZeroVal p
  | _ + 1, .other _ => .int 0
  | _ + 1, .ptr _ => .null
  | _ + 1, .slice _ => .null
  | _ + 1, .map _ => .null
  | f + 1, .named n =>
    match findStruct env.structs n with
    | some s => .map ((s.fields.filter rendered).map fun fd => (fd.goName, zeroVal env f fd.ty))
    | none => match findNamed env.named n with
      | some e => zeroVal env f e
      | none => .null

/-- the model of `DecodeMapstructure` of a named type, if it has one -/
def customDecode (n : String) : Option (Val → Out) :=
  match n with
  | "UnitBytes" => some decode_UnitBytes
  | "Duration" => some decode_Duration
  | "DeviceCount" => some decode_DeviceCount
  | "ShellCommand" => some decode_ShellCommand
  | "HealthCheckTest" => some decode_HealthCheckTest
  | "StringList" => some decode_StringList
  | "StringOrNumberList" => some decode_StringOrNumberList
  | "Mapping" => some decode_Mapping
  | "Labels" => some decode_Labels
  | "Options" => some decode_Options
  | "MappingWithEquals" => some decode_MappingWithEquals
  | "HostsList" => some decode_HostsList
  | "UlimitsConfig" => some decodeDM_Ulimits
  | "NanoCPUs" => some fun t => match t with          -- a number stays the (opaque) number; strings go through ParseFloat
    | .int i => .ok (.int i)
    | .float r => .ok (.float r)
    | .null => .ok (.int 0)
    | _ => .unmodelled "cpus text"
  | _ => none

/-- what the decoder makes of one field: its YAML key looked up in the mapping; a missing or null key leaves the zero value
    (a `yaml:"-"` field is not read).  The inlined extension map is read like any other field, under its tag name
    `#extensions` — the key under which `processExtensions` (`procExt` below) has gathered the `x-` attributes -/
def fieldDecoded (dec : TyExpr → Val → Out) (zero : TyExpr → Val) (t : List (String × Val)) (fd : FieldDesc) : Out :=
  if fd.yamlSkip then .ok (zero fd.ty)
  else match Val.lookup fd.yamlKey t with
    | none => .ok (zero fd.ty)
    | some .null => .ok (zero fd.ty)
    | some x => dec fd.ty x

/-- the fields of a struct from a mapping; `dec` decodes a field value, `zero` gives the value of an absent one -/
def decodeFieldsWith (dec : TyExpr → Val → Out) (zero : TyExpr → Val) :
    List FieldDesc → List (String × Val) → Except Out (List (String × Val))
  | [], _ => .ok []
  | fd :: rest, t =>
    if !rendered fd then decodeFieldsWith dec zero rest t else
    match fieldDecoded dec zero t fd, decodeFieldsWith dec zero rest t with
    | .ok v, .ok vs => .ok ((fd.goName, v) :: vs)
    | .ok _, .error e => .error e
    | e, _ => .error e

def decode (env : Env) : Nat → TyExpr → Val → Out
  | 0, _, _ => .unmodelled "fuel"
  | f + 1, ty, t =>
    match ty with
    | .prim _ => .ok t
    | .other _ => .ok t
    | .ptr e => match t with
      | .null => .ok .null
      | t => decode env f e t
    | .slice e => match t with
      | .null => .ok .null
      | .seq xs => match mapOut (decode env f e) xs with
        | .ok ys => .ok (.seq ys)
        | .error o => o
      | _ => .err "not-a-list"
    | .map e => match t with
      | .null => .ok .null
      | .map kvs => match mapKVs (decode env f e) kvs with
        | .ok ys => .ok (.map ys)
        | .error o => o
      | _ => .err "not-a-mapping"
    | .named n =>
      match customDecode n with
      | some d => d t
      | none =>
        if hasMethod env n "DecodeMapstructure" then .unmodelled ("custom decoder of " ++ n) else
        match findStruct env.structs n with
        | some s => (match t with
          | .map kvs => match decodeFieldsWith (decode env f) (zeroVal env f) s.fields kvs with
            | .ok fs => .ok (.map fs)
            | .error o => o
          | .null => .ok (zeroVal env (f + 1) (.named n))
          | _ => .err "not-a-mapping")
        | none => match findNamed env.named n with
          | some e => decode env f e t
          | none => .unmodelled ("unknown type " ++ n)

/-- entry point -/
def load (env : Env) (ty : String) (t : Val) : Out := decode env 60 (.named ty) t

/-! ## extension attributes — `loader.processExtensions` -/

/-- `strings.HasPrefix(key, "x-")` -/
def isExtKey (k : String) : Bool := "x-".toList.isPrefixOf k.toList

/-- `processExtensions` below the user-defined sections: in every mapping the `x-` attributes are gathered under
    `#extensions`, the other values are processed recursively (mappings, and mappings inside lists) -/
def procExt : Nat → Val → Val
  | 0, v => v
  | f + 1, .map kvs =>
    let ext := kvs.filter fun p => isExtKey p.1
    let rest := (kvs.filter fun p => !isExtKey p.1).map fun p => (p.1, procExt f p.2)
    .map (rest ++ (if ext.isEmpty then [] else [("#extensions", .map ext)]))
  | f + 1, .seq xs => .seq (xs.map fun x => match x with
      | .map kvs => procExt f (.map kvs)
      | x => x)
  | _ + 1, v => v

/-- entry point: `processExtensions` then the generic decoding -/
def loadExt (env : Env) (ty : String) (t : Val) : Out := decode env 60 (.named ty) (procExt 60 t)

end CV.Decode
