/-!
# Model of `graph.newGraph` + `graph.checkCycle` (compose-go `graph/services.go:49-80`, `graph/cycle.go:37-63`)

Core Lean only.  Go maps are association lists iterated in list order (`services`, each `depends_on`).
Since `fix:` 3143716 an *optional* dependency that is not an enabled service is simply not an edge and the caller's
project is not written to (the earlier `delete(s.DependsOn, name)` with `name` = the service's own name is kept as
`runOld` in `Neg/C13.lean`).
-/
namespace CV.DepGraph

abbrev Name := Nat

structure Dep where
  name : Name
  required : Bool
deriving DecidableEq, Repr

structure Svc where
  name : Name
  deps : List Dep
deriving DecidableEq, Repr

structure Proj where
  services : List Svc
  disabled : List Name
deriving DecidableEq, Repr

inductive Err | disabled | unknown | cycle
deriving DecidableEq, Repr

/-- inner loop of `newGraph` for one service: error (if any) and the edges added -/
def scanDeps (en dis : List Name) : List Dep → List Name → Option Err × List Name
  | [], es => (none, es)
  | d :: rest, es =>
    if en.contains d.name then scanDeps en dis rest (es ++ [d.name])
    else if d.required then (some (if dis.contains d.name then .disabled else .unknown), es)
    else scanDeps en dis rest es                                            -- optional, not enabled: no edge

/-- outer loop: adjacency (service ↦ dependencies that are enabled services).  An error returns at once.
The project is only read. -/
def build (en dis : List Name) : List Svc → List (Name × List Name) → Option Err × List (Name × List Name)
  | [], adj => (none, adj)
  | s :: rest, adj =>
    match scanDeps en dis s.deps [] with
    | (none, es) => build en dis rest (adj ++ [(s.name, es)])
    | (some e, _) => (some e, adj)

def adjOf (adj : List (Name × List Name)) (v : Name) : List Name :=
  match adj.find? (·.1 == v) with
  | some p => p.2
  | none => []

/-- `searchCycle`: is a vertex of `path` reachable again from `v`?  `fuel` bounds the depth (the path has no
repetition, so `|vertices| + 1` is enough) -/
def searchCycle (adj : Name → List Name) : Nat → List Name → Name → Bool
  | 0, _, _ => false
  | f + 1, path, v => (adj v).any (fun c => path.contains c || searchCycle adj f (path ++ [c]) c)

def checkCycle (verts : List Name) (adj : Name → List Name) : Bool :=
  verts.any (fun v => searchCycle adj (verts.length + 1) [v] v)

structure Outcome where
  /-- "ok" | "disabled" | "unknown" | "cycle" -/
  cls : String
  /-- services whose `depends_on` differs from what the caller passed -/
  changed : List Name
deriving DecidableEq, Repr

/-- `newGraph` followed by `checkCycle`, i.e. everything `CollectInDependencyOrder` does before `walk`.
`changed` is empty by construction: the function has no write to the project. -/
def run (p : Proj) : Outcome :=
  let en := p.services.map (·.name)
  match build en p.disabled p.services [] with
  | (some e, _) =>
    { cls := match e with | .disabled => "disabled" | .unknown => "unknown" | .cycle => "cycle", changed := [] }
  | (none, adj) =>
    { cls := if checkCycle en (adjOf adj) then "cycle" else "ok", changed := [] }

/-- all permutations (iteration orders of a Go map) -/
def perms {α} : List α → List (List α)
  | [] => [[]]
  | a :: r => (perms r).flatMap (fun p => (List.range (p.length + 1)).map (fun i => p.take i ++ a :: p.drop i))

def svcOrders : List Svc → List (List Svc)
  | [] => [[]]
  | s :: r => (perms s.deps).flatMap (fun d => (svcOrders r).map (fun rest => ⟨s.name, d⟩ :: rest))

/-- every outcome reachable under some iteration order of the maps -/
def outcomes (p : Proj) : List Outcome :=
  ((svcOrders p.services).flatMap perms).map (fun ss => run ⟨ss, p.disabled⟩)

end CV.DepGraph
