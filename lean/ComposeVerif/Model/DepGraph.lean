/-!
# Model of `graph.newGraph` + `graph.checkCycle` (compose-go `graph/services.go:49-80`, `graph/cycle.go:37-63`)

Core Lean only.  Go maps are association lists iterated in list order (`services`, each `depends_on`).
The quirk of `newGraph` is modelled as it is: on an *optional* dependency that is not an enabled service the code
runs `delete(s.DependsOn, name)` with `name` = the **service's own name** on the caller's map while ranging over it:
an entry for the service itself that has not been reached yet is never produced, and the caller's project loses it.
-/
namespace CV.DepGraph

abbrev Name := Nat

structure Dep where
  name : Name
  required : Bool
deriving DecidableEq, Repr

structure Svc where
  name : Name
  deps : List Dep
deriving DecidableEq, Repr

structure Proj where
  services : List Svc
  disabled : List Name
deriving DecidableEq, Repr

inductive Err | disabled | unknown | cycle
deriving DecidableEq, Repr

/-- inner loop of `newGraph` for service `self`: error (if any), the edges added, and whether the `delete` ran -/
def scanDeps (en dis : List Name) (self : Name) : List Dep → List Name → Bool → Option Err × List Name × Bool
  | [], es, del => (none, es, del)
  | d :: rest, es, del =>
    if del && d.name == self then scanDeps en dis self rest es del          -- deleted before the range reached it
    else if en.contains d.name then scanDeps en dis self rest (es ++ [d.name]) del
    else if d.required then (some (if dis.contains d.name then .disabled else .unknown), es, del)
    else scanDeps en dis self rest es true                                 -- delete(s.DependsOn, name); continue

/-- what the caller's `depends_on` map of `self` looks like afterwards -/
def depsAfter (self : Name) (deps : List Dep) (del : Bool) : List Dep :=
  if del then deps.filter (fun d => d.name != self) else deps

/-- outer loop: adjacency (service ↦ dependencies that are enabled services) and the project as left behind.
An error returns at once; what had been deleted before stays deleted. -/
def build (en dis : List Name) : List Svc → List (Name × List Name) → List Svc → Option Err × List (Name × List Name) × List Svc
  | [], adj, done => (none, adj, done)
  | s :: rest, adj, done =>
    match scanDeps en dis s.name s.deps [] false with
    | (none, es, del) => build en dis rest (adj ++ [(s.name, es)]) (done ++ [⟨s.name, depsAfter s.name s.deps del⟩])
    | (some e, _, del) => (some e, adj, done ++ ⟨s.name, depsAfter s.name s.deps del⟩ :: rest)

def adjOf (adj : List (Name × List Name)) (v : Name) : List Name :=
  match adj.find? (·.1 == v) with
  | some p => p.2
  | none => []

/-- `searchCycle`: is a vertex of `path` reachable again from `v`?  `fuel` bounds the depth (the path has no
repetition, so `|vertices| + 1` is enough) -/
def searchCycle (adj : Name → List Name) : Nat → List Name → Name → Bool
  | 0, _, _ => false
  | f + 1, path, v => (adj v).any (fun c => path.contains c || searchCycle adj f (path ++ [c]) c)

def checkCycle (verts : List Name) (adj : Name → List Name) : Bool :=
  verts.any (fun v => searchCycle adj (verts.length + 1) [v] v)

structure Outcome where
  /-- "ok" | "disabled" | "unknown" | "cycle" -/
  cls : String
  /-- services whose `depends_on` differs from what the caller passed -/
  changed : List Name
deriving DecidableEq, Repr

def changedOf (before after : List Svc) : List Name :=
  (before.zip after).filterMap fun (a, b) => if a.deps == b.deps then none else some a.name

/-- `newGraph` followed by `checkCycle`, i.e. everything `CollectInDependencyOrder` does before `walk` -/
def run (p : Proj) : Outcome :=
  let en := p.services.map (·.name)
  match build en p.disabled p.services [] [] with
  | (some e, _, after) =>
    { cls := match e with | .disabled => "disabled" | .unknown => "unknown" | .cycle => "cycle", changed := changedOf p.services after }
  | (none, adj, after) =>
    { cls := if checkCycle en (adjOf adj) then "cycle" else "ok", changed := changedOf p.services after }

/-- all permutations (iteration orders of a Go map) -/
def perms {α} : List α → List (List α)
  | [] => [[]]
  | a :: r => (perms r).flatMap (fun p => (List.range (p.length + 1)).map (fun i => p.take i ++ a :: p.drop i))

def svcOrders : List Svc → List (List Svc)
  | [] => [[]]
  | s :: r => (perms s.deps).flatMap (fun d => (svcOrders r).map (fun rest => ⟨s.name, d⟩ :: rest))

/-- every outcome reachable under some iteration order of the maps -/
def outcomes (p : Proj) : List Outcome :=
  ((svcOrders p.services).flatMap perms).map (fun ss => run ⟨ss, p.disabled⟩)

end CV.DepGraph
