import ComposeVerif.Model.Dotenv
/-!
# The glue around the env-file parser (round 6): `ParseWithLookup`, `Parse`, `UnmarshalBytesWithLookup`, `ReadFile`
and the format registry `RegisterFormat` / `ParseWithFormat` (`dotenv/format.go`).  File contents are parameters.
-/
namespace CV.Dotenv
open CV CV.Template

/-- `ParseWithLookup` (= `ReadFile` on the contents): strip one BOM, then `UnmarshalBytesWithLookup` = `UnmarshalWithLookup` -/
def parseWithLookup (src : Str) (lookup : Env) : POut := parse (stripBOM src) lookup

/-- `dotenv.Parse`: a nil `LookupFn`, which `parser.parse` replaces by `noLookupFn` -/
def parseNoLookup (src : Str) : POut := parseWithLookup src (fun _ => none)

/-- a registered parser, as a function of the contents and the lookup (the file name is passed on for messages only) -/
abbrev FormatParser := Str → Env → POut

/-- the package variable `formats`: a Go map, here an association list read by `List.lookup` -/
abbrev Formats := List (String × FormatParser)

/-- `RegisterFormat`: `formats[format] = p` (a later registration replaces an earlier one) -/
def registerFormat (fs : Formats) (format : String) (p : FormatParser) : Formats :=
  (format, p) :: fs.filter (fun e => e.1 != format)

/-- `ParseWithFormat`: `none` = the error "unsupported env_file format" (nil map) -/
def parseWithFormat (fs : Formats) (format : String) (src : Str) (lookup : Env) : Option POut :=
  match fs.lookup format with
  | none => none
  | some p => some (p src lookup)

end CV.Dotenv
