import ComposeVerif.Model.PathsOrigin
/-!
# The resource-loader list of a nested load, on the Go heap  (property C12, round 6)

Which directory anchors the paths of an included / extended file is decided by the `localResourceLoader` of the
*referring* model: `loader.Load` / `loader.Dir` of `ApplyInclude` and `getExtendsBaseFromFile` (`absIn`, `loaderDir` of
`Model/PathsOrigin.lean`, parameter `lw`).  Every nested load derives its own list from the parent's:

    loadOptions.ResourceLoaders = append(loadOptions.RemoteResourceLoaders(), localResourceLoader{WorkingDir: dir})

`Model/PathsOrigin.lean` threads `lw` functionally — a sibling cannot see what an earlier sibling did.  On the real heap
`Options.ResourceLoaders` is a *slice* (array, length, capacity) that `Options.clone` copies by header; whether the
functional reading is right depends on `RemoteResourceLoaders` returning a list that shares no array with its argument.
This module models exactly that: Go slices over a heap of arrays, `append` (in place when there is capacity, a fresh
array otherwise), `RemoteResourceLoaders` (a fresh, filtered list), the derivation of the child's list, `toOptions`'
append of the project's local loader.  `Props/C12Loaders.lean`: no nested load changes what any existing slice reads.
-/
namespace CV.Paths.Loaders

inductive Loader where
  | remote (id : Nat)
  | loc (wd : Str)          -- `localResourceLoader{WorkingDir: wd}`
deriving DecidableEq, Repr

/-- array id, length, capacity (the loader code never re-slices from the front: offset 0) -/
structure Slice where
  arr : Nat
  len : Nat
  cap : Nat
deriving DecidableEq, Repr

/-- a Go slice value; `none` = `nil` -/
abbrev GoSlice := Option Slice

/-- arrays of interface slots (`none` = nil interface), `next` = the next fresh array id -/
structure Heap where
  arr : Nat → List (Option Loader)
  next : Nat

def Heap.empty : Heap := ⟨fun _ => [], 0⟩

/-- `s[:len(s)]` -/
def read (h : Heap) : GoSlice → List (Option Loader)
  | none => []
  | some s => (h.arr s.arr).take s.len

/-- `s[:cap(s)]` -/
def full (h : Heap) : GoSlice → List (Option Loader)
  | none => []
  | some s => h.arr s.arr

def Valid (h : Heap) : GoSlice → Prop
  | none => True
  | some s => s.arr < h.next ∧ s.len ≤ s.cap ∧ (h.arr s.arr).length = s.cap

/-- `runtime.growslice` for 16-byte elements and small capacities (the size classes 16·k, k ≤ 16, are exact) -/
def growCap (c : Nat) : Nat := if c = 0 then 1 else 2 * c

/-- `append(s, x)` -/
def append (h : Heap) (s : GoSlice) (x : Option Loader) : Heap × GoSlice :=
  match s with
  | none => (⟨fun i => if i = h.next then [x] else h.arr i, h.next + 1⟩, some ⟨h.next, 1, 1⟩)
  | some s =>
    if s.len < s.cap then
      (⟨fun i => if i = s.arr then (h.arr s.arr).set s.len x else h.arr i, h.next⟩, some ⟨s.arr, s.len + 1, s.cap⟩)
    else
      (⟨fun i => if i = h.next then (h.arr s.arr).take s.len ++ x :: List.replicate (growCap s.cap - s.len - 1) none else h.arr i,
        h.next + 1⟩, some ⟨h.next, s.len + 1, growCap s.cap⟩)

/-- `make([]ResourceLoader, 0, cap)` followed by appends: a caller's slice -/
def alloc (h : Heap) (xs : List (Option Loader)) (spare : Nat) : Heap × GoSlice :=
  (⟨fun i => if i = h.next then xs ++ List.replicate spare none else h.arr i, h.next + 1⟩, some ⟨h.next, xs.length, xs.length + spare⟩)

def isLocal : Option Loader → Bool
  | some (.loc _) => true
  | _ => false

/-- one iteration of the loop of `Options.RemoteResourceLoaders` -/
def remoteStep (acc : Heap × GoSlice) (x : Option Loader) : Heap × GoSlice :=
  if isLocal x then acc else append acc.1 acc.2 x

/-- `Options.RemoteResourceLoaders()`: `var loaders []ResourceLoader; for … { if local { continue }; loaders = append(loaders, loader) }` -/
def remoteLoaders (h : Heap) (s : GoSlice) : Heap × GoSlice :=
  (read h s).foldl remoteStep (h, none)

/-- `append(opts.RemoteResourceLoaders(), localResourceLoader{WorkingDir: dir})` (ApplyInclude, getExtendsBaseFromFile;
`opts.clone()` copies the slice header, so the clone's list *is* `s`) -/
def childLoaders (h : Heap) (s : GoSlice) (dir : Str) : Heap × GoSlice :=
  let r := remoteLoaders h s
  append r.1 r.2 (some (.loc dir))

/-- `toOptions`: `opts.ResourceLoaders = append(opts.ResourceLoaders, localResourceLoader{configDetails.WorkingDir})` -/
def toOptions (h : Heap) (mine : GoSlice) (wd : Str) : Heap × GoSlice := append h mine (some (.loc wd))

/-- several nested loads one after the other out of the same parent list (the include entries of one file, the
`extends.file` references of its services): the heap afterwards and every child's list -/
def siblings (h : Heap) (s : GoSlice) : List Str → Heap × List GoSlice
  | [] => (h, [])
  | d :: rest =>
    let c := childLoaders h s d
    let r := siblings c.1 s rest
    (r.1, c.2 :: r.2)

/-- any sequence of nested loads: step `(i, d)` derives a child for directory `d` from the `i`-th list created so far
(`0` = the project's options) and adds it to the lists — siblings, children of children, in any interleaving -/
def runScript (h : Heap) (opts : List GoSlice) : List (Nat × Str) → Heap × List GoSlice
  | [] => (h, opts)
  | (i, d) :: rest =>
    let c := childLoaders h (opts.getD i none) d
    runScript c.1 (opts ++ [c.2]) rest

/-- the working directory of the list's local loader (the last one, as the `baseDir` loop of `ApplyInclude` reads it) -/
def localDir : List (Option Loader) → Option Str
  | [] => none
  | x :: rest =>
    match localDir rest with
    | some d => some d
    | none => match x with
      | some (.loc d) => some d
      | _ => none

/-! ## nested loads on the heap vs. the functional origin model -/

/-- one nested load: model `i` includes `p` (± `project_directory`), or a service of model `i` extends from file `ref` -/
inductive NStep where
  | incl (i : Nat) (p : Str) (pd : Option Str)
  | ext (i : Nat) (ref : Str)
deriving Repr

/-- nested loads ON THE HEAP: `models` = the models loaded so far (loader list + the `Level` the functional model
threads).  `incl i p pd`: the local loader's directory is READ OFF THE HEAP (the last local loader of the list, as
`loader.Load` / `loader.Dir` / the `baseDir` loop see it), `includeLevel` computes the child's directories, the child's
list is derived with `childLoaders` and the child becomes a model of its own.  `ext i ref`: `getExtendsBaseFromFile`
derives a list anchored at the extended file's directory for the load of that file (`SkipInclude`, `SkipExtends`: it
loads nothing further) and drops it. -/
def runIncl (isDir : Str → Bool) (h : Heap) (models : List (GoSlice × Level)) : List NStep → Heap × List (GoSlice × Level)
  | [] => (h, models)
  | .incl i p pd :: rest =>
    let m := models.getD i (none, ⟨[], []⟩)
    let lwH := (localDir (read h m.1)).getD []
    let st' := (includeLevel isDir ⟨lwH, m.2.cw⟩ p pd).2
    let c := childLoaders h m.1 st'.lw
    runIncl isDir c.1 (models ++ [(c.2, st')]) rest
  | .ext i ref :: rest =>
    let m := models.getD i (none, ⟨[], []⟩)
    let lwH := (localDir (read h m.1)).getD []
    let c := childLoaders h m.1 (dir (absIn lwH ref))
    runIncl isDir c.1 models rest

/-- the same on the functional model (`Model/PathsOrigin.lean`): the level of the referring model is the one it was
created with; an `extends` creates no model -/
def runInclF (isDir : Str → Bool) (models : List Level) : List NStep → List Level
  | [] => models
  | .incl i p pd :: rest =>
    let m := models.getD i ⟨[], []⟩
    runInclF isDir (models ++ [(includeLevel isDir ⟨m.lw, m.cw⟩ p pd).2]) rest
  | .ext _ _ :: rest => runInclF isDir models rest

/-! ## the variant that returns a sub-slice (what a "no need to copy" rewrite of `RemoteResourceLoaders` does) —
kept for `Neg/C12.lean`: it shares the parent's array, and the child's `append` overwrites the parent's local loader -/

def remoteLoadersSub (h : Heap) (s : GoSlice) : Heap × GoSlice :=
  match s with
  | none => (h, none)
  | some t =>
    match (read h s).getLast? with
    | some (some (.loc _)) => if t.len ≤ 1 then (h, none) else (h, some ⟨t.arr, t.len - 1, t.cap⟩)
    | _ => (h, s)

def childLoadersSub (h : Heap) (s : GoSlice) (dir : Str) : Heap × GoSlice :=
  let r := remoteLoadersSub h s
  append r.1 r.2 (some (.loc dir))

end CV.Paths.Loaders
