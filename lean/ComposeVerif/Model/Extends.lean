import ComposeVerif.Model.Val
import ComposeVerif.Model.Path
/-!
# `extends` resolution  (loader/extends.go, the cycle tracker of loader/loader.go)

Model of `ApplyExtends`, `applyServiceExtends`, `getExtendsBaseFromFile`, `cycleTracker.Add`
and `deepClone`, quirks included:

* the tracker records `(current file, extendingName)`: the main file's name for services of the main
  file, the reference string for services of an extended file (since `fix: the extends cycle tracker
  records the file the extending service lives in`; before it the key was `(refFile, extendingName)`
  with the *main* file's name for every same-file step — see `Neg/C05.lean`, pre-fix model);
* a resolved service is written back into the map it came from (`services[name] = merged`) only
  on a same-file step; on a cross-file step the write goes to the freshly loaded (discarded) map;
* a `null` base leaves the extending service untouched (its `extends` attribute stays);
* `extends: {file: f}` without a string `service`, or with a non-string `file`, is an error
  (it was a panic before the repair `fix: extends with a non-string service or file …`);
  an `extends` value that is neither a string nor a mapping behaves like `extends: ""`.

Parameters (an `Env`): the name of the main file, the *file system* `fs` — for every reference
string the outcome of loading that file the way `getExtendsBaseFromFile` does (yaml, interpolation,
canonical form, relative paths resolved against the file's own directory) — and the merge step
`extend` (= `override.ExtendService`, the C04 model; every theorem is parametric in it).
`!reset` post-processors are outside this model.
-/
namespace CV.Extends
open CV CV.Val

inductive Out (α : Type) where
  | ok (a : α)
  | err (cls : String)
  | panic (site : String)
deriving Repr, Inhabited

/-- outcome of loading an extended file -/
inductive FileRes where
  /-- `loader.Load` / `loadYamlFile` failed (class of the error) -/
  | err (cls : String)
  /-- loading the file panics (e.g. a non-string `extends.file` *inside* the extended file reaches
      `paths.absExtendsPath`) -/
  | panic (site : String)
  /-- the loaded document (top-level mapping), relative paths already resolved against the
      file's directory; `resolveErr` = `paths.ResolveRelativePaths` failed (it runs *after* the
      `services` / base-present checks) -/
  | ok (doc : KVs) (resolveErr : Bool)
  /-- the document loads but `paths.ResolveRelativePaths` panics at `site` (a non-string `extends.file` inside
      the extended file reaches `absExtendsPath`); like `resolveErr` this happens *after* the `services` /
      base-present checks -/
  | okResolvePanic (doc : KVs) (site : String)
deriving Repr, Inhabited

/-- the Go function in which loading the file panics, if it does -/
def FileRes.panicSite? : FileRes → Option String
  | .panic s => some s
  | .okResolvePanic _ s => some s
  | _ => none

abbrev FS := List (String × FileRes)

abbrev Key := String × String

structure Env where
  mainFile : String
  fs : FS
  extend : KVs → KVs → Out KVs

def fsLookup (f : String) : FS → Option FileRes
  | [] => none
  | (k, r) :: rest => if f = k then some r else fsLookup f rest

/-- loading file `f` panics at `s` (while loading, or while resolving its relative paths) -/
def fsPanics (fs : FS) (f s : String) : Prop := ∃ r, fsLookup f fs = some r ∧ r.panicSite? = some s

/-- `cycleTracker.Add` -/
def trackerAdd (tr : List Key) (k : Key) : Option (List Key) :=
  if k ∈ tr then none else some (tr ++ [k])

def panicSite : String := "loader.applyServiceExtends"

/-- the model's own out-of-fuel marker (never produced when the fuel is `fuelFor`: `extends_terminates`) -/
def fuelMark : String := "extends:fuel"

/-- the `switch v := extends.(type)` of `applyServiceExtends`: (ref, file) -/
def parseExtends : Val → Out (String × Option String)
  | .str r => .ok (r, none)
  | .map m =>
    match lookup "service" m with
    | some (.str r) =>
      match lookup "file" m with
      | none => .ok (r, none)
      | some .null => .ok (r, none)
      | some (.str f) => .ok (r, some f)
      | some _ => .err "extendsFileNotString"      -- "services.%s.extends.file must be a string"
    | _ => .err "extendsServiceNotString"          -- "services.%s.extends.service must be a string"
  | _ => .ok ("", none)

/-- `getExtendsBaseFromFile` (local resource loader) -/
def baseFromFile (fs : FS) (refPath ref : String) : Out KVs :=
  match fsLookup refPath fs with
  | none => .err "noFile"
  | some (.err c) => .err c
  | some (.panic s) => .panic s
  | some (.ok doc rerr) =>
    match lookup "services" doc with
    | none => .err "noServices"
    | some (.map svcs) =>
      match lookup ref svcs with
      | none => .err "notFoundInFile"
      | some _ => if rerr then .err "resolveErr" else .ok svcs
    | some _ => .err "fileServicesNotMapping"
  | some (.okResolvePanic doc site) =>
    match lookup "services" doc with
    | none => .err "noServices"
    | some (.map svcs) =>
      match lookup ref svcs with
      | none => .err "notFoundInFile"
      | some _ => .panic site
    | some _ => .err "fileServicesNotMapping"

/-- where the base lives: (map to recurse in, tracker key, same-file?) -/
def resolveBase (E : Env) (cur name ref : String) (file : Option String) (services : KVs) :
    Out (KVs × Key × Bool) :=
  match file with
  | none =>
    match lookup ref services with
    | none => .err "notFound"
    | some _ => .ok (services, (cur, name), true)
  | some f =>
    match baseFromFile E.fs f ref with
    | .ok svcs => .ok (svcs, (cur, name), false)
    | .err c => .err c
    | .panic s => .panic s

/-- the file the base lives in: the referenced file, or the current one -/
def nextFile (cur : String) : Option String → String
  | none => cur
  | some f => f

/-- `applyServiceExtends` for service `name` of the file `cur` (the `ComposeFileKey` of the context):
the resolved service and the (possibly memoised) `services` map of the caller -/
def applySvc (E : Env) : Nat → String → String → KVs → List Key → Out (Val × KVs)
  | 0, _, _, _, _ => .panic fuelMark
  | fuel + 1, cur, name, services, tr =>
    match lookup name services with
    | none => .ok (.null, services)
    | some .null => .ok (.null, services)
    | some (.map svc) =>
      (match lookup "extends" svc with
      | none => .ok (.map svc, services)
      | some e =>
        match parseExtends e with
        | .panic s => .panic s
        | .err c => .err c
        | .ok (ref, file) =>
          match resolveBase E cur name ref file services with
          | .panic s => .panic s
          | .err c => .err c
          | .ok (svcs, key, same) =>
            match trackerAdd tr key with
            | none => .err "circular"
            | some tr' =>
              match applySvc E fuel (nextFile cur file) ref svcs tr' with
              | .panic s => .panic s
              | .err c => .err c
              | .ok (base, svcs') =>
                match base with
                | .null => .ok (.map svc, if same then svcs' else services)
                | .map b =>
                  (match E.extend b svc with
                  | .panic s => .panic s
                  | .err c => .err c
                  | .ok m =>
                    .ok (.map (erase "extends" m),
                         if same then insert name (.map (erase "extends" m)) svcs' else services))
                | _ => .panic panicSite)
    | some _ => .err "serviceNotMapping"

/-- the loop of `ApplyExtends` over the service names in visit order `names` -/
def applyAll (E : Env) (fuel : Nat) : List String → KVs → Out KVs
  | [], S => .ok S
  | n :: ns, S =>
    match applySvc E fuel E.mainFile n S [] with
    | .ok (v, S') => applyAll E fuel ns (insert n v S')
    | .err c => .err c
    | .panic s => .panic s

/-- service names of a loaded file -/
def fileNames : FileRes → List String
  | .err _ => []
  | .panic _ => []
  | .okResolvePanic _ _ => []
  | .ok doc _ => match lookup "services" doc with
    | some (.map svcs) => keys svcs
    | _ => []

def allNames (E : Env) (S : KVs) : List String :=
  keys S ++ E.fs.flatMap (fun p => fileNames p.2)

def allFiles (E : Env) : List String := E.mainFile :: E.fs.map Prod.fst

/-- every key the tracker can ever hold -/
def keyUniverse (E : Env) (S : KVs) : List Key :=
  (allFiles E).flatMap fun f => (allNames E S).map fun n => (f, n)

/-- enough fuel: the tracker holds distinct `(file, name)` pairs -/
def fuelFor (E : Env) (S : KVs) : Nat := (keyUniverse E S).length + 1

/-- `ApplyExtends` visiting the services in the order `order` (Go: random map order) -/
def applyExtendsOrd (E : Env) (order : List String) (dict : KVs) : Out KVs :=
  match lookup "services" dict with
  | none => .ok dict
  | some (.map S) =>
    match applyAll E (fuelFor E S) order S with
    | .ok S' => .ok (insert "services" (.map S') dict)
    | .err c => .err c
    | .panic s => .panic s
  | some _ => .err "servicesNotMapping"

/-- `ApplyExtends` in list order -/
def applyExtends (E : Env) (dict : KVs) : Out KVs :=
  match lookup "services" dict with
  | some (.map S) => applyExtendsOrd E (keys S) dict
  | _ => applyExtendsOrd E [] dict

/-! ## The plain part of `override.ExtendService`

`mergeYaml` at `services.x` for attributes that have no special rule in `mergeSpecials`:
mappings merge key by key (`x-*` keys are replaced), sequences append, anything else is replaced,
a `null` override keeps the base.  A path with a special rule yields `err "special"` (the
correspondence stream skips such inputs; the full table is C04's model). -/

mutual
  def mergeY (sp : List (List String × String)) (fuel : Nat) (p : TPath) (e o : Val) : Out Val :=
    match fuel with
    | 0 => .panic "fuel"
    | fuel + 1 =>
      if (TPath.firstMatch sp p).isSome then .err "special" else
      match o with
      | .null => .ok e
      | _ =>
        match e, o with
        | .map a, .map b => mergeM sp fuel p a b
        | .map _, _ => .err "cannotOverride"
        | .seq a, .seq b => .ok (.seq (a ++ b))
        | .seq _, _ => .err "cannotOverride"
        | _, _ => .ok o
  def mergeM (sp : List (List String × String)) (fuel : Nat) (p : TPath) (m : KVs) : KVs → Out Val
    | [] => .ok (.map m)
    | (k, v) :: rest =>
      match lookup k m with
      | none => mergeM sp fuel p (insert k v m) rest
      | some e =>
        if k.startsWith "x-" then mergeM sp fuel p (insert k v m) rest else
        match mergeY sp fuel (p ++ [k.replace "." TPath.ghost]) e v with
        | .ok r => mergeM sp fuel p (insert k r m) rest
        | .err c => .err c
        | .panic s => .panic s
end

/-- nesting depth of a tree (fuel for `mergeY`) -/
partial def depth : Val → Nat
  | .seq xs => 1 + xs.foldl (fun a x => max a (depth x)) 0
  | .map kvs => 1 + kvs.foldl (fun a x => max a (depth x.2)) 0
  | _ => 1

/-- `override.ExtendService(base, override)` restricted to rule-free attributes -/
def plainExtend (sp : List (List String × String)) (base over : KVs) : Out KVs :=
  match mergeY sp (depth (.map over) + 2) ["services", "x"] (.map base) (.map over) with
  | .ok (.map m) => .ok m
  | .ok _ => .panic "override.ExtendService"
  | .err c => .err c
  | .panic s => .panic s

end CV.Extends
