import ComposeVerif.Model.C01Cycles
/-!
# C01 — alias expansion with `!reset` / `!override` recording (`ResetProcessor.resolveReset`, loader/reset.go)

The YAML node graph is an arena: `nodes[i]` is a scalar, a sequence / mapping of child indices, or an alias
to another index (YAML anchors may be referenced from inside their own content, so the graph can be cyclic).
`resolveReset` walks it recursively, replaces aliases by their targets, drops `!reset` nodes, and records
the paths of `!reset` / `!override` nodes.  Its only protection against cycles is `checkForCycle`.

Paths are lists of segments.  This is exact for keys that contain no `.` and no `<<` other than the merge
key itself (what the harness generates): `strings.Contains(pathStr, ".<<")` is then "some segment after the
first is `<<`", the `strings.Replace(…, 1)` removes the first such segment, `strings.HasPrefix(a, b+".")`
is "b is a proper segment prefix of a".
-/
namespace CV.C01.Reset

inductive Node where
  | scalar (tag : String)
  | seq (tag : String) (items : List Nat)
  | map (tag : String) (entries : List (String × Nat))
  | alias (target : Nat)
deriving Repr, Inhabited

def Node.tag : Node → String
  | .scalar t => t
  | .seq t _ => t
  | .map t _ => t
  | .alias _ => ""

abbrev P := List String

structure St where
  arena : List Node
  visited : List (Nat × List P)     -- `visitedNodes`: alias target ↦ paths at which it was expanded
  paths : List P                    -- `p.paths`
deriving Repr, Inhabited

inductive Err where
  | cycle
  | outOfFuel
  | badIndex
deriving Repr, DecidableEq, Inhabited

def eraseFirst (s : String) : P → P
  | [] => []
  | h :: t => if h = s then t else h :: eraseFirst s t

/-- `if strings.Contains(pathStr, ".<<") { path = NewPath(strings.Replace(pathStr, ".<<", "", 1)) }` -/
def normPath : P → P
  | [] => []
  | h :: t => if "<<" ∈ t then h :: eraseFirst "<<" t else h :: t

def properPrefix : P → P → Bool
  | [], _ :: _ => true
  | a :: as, b :: bs => a = b && properPrefix as bs
  | _, _ => false

/-- `areInDifferentServices` -/
def diffServices : P → P → Bool
  | a :: as, b :: bs =>
    if a = "services" ∧ b = "services" then
      match as, bs with
      | a1 :: _, b1 :: _ => a1 ≠ b1
      | _, _ => diffServices as bs
    else diffServices as bs
  | _, _ => false

def visitedOf (n : Nat) : List (Nat × List P) → List P
  | [] => []
  | (k, ps) :: r => if n = k then ps else visitedOf n r

def setVisited (n : Nat) (ps : List P) : List (Nat × List P) → List (Nat × List P)
  | [] => [(n, ps)]
  | (k, qs) :: r => if n = k then (k, ps) :: r else (k, qs) :: setVisited n ps r

/-- `checkForCycle(node, path)` -/
def checkForCycle (st : St) (t : Nat) (path : P) : Except Err St :=
  let prevs := visitedOf t st.visited
  if prevs.any (fun prev =>
      prev ≠ path && !("<<" ∈ prev || "<<" ∈ path) &&
      (properPrefix prev path || properPrefix path prev) && !diffServices path prev)
  then .error .cycle
  else .ok { st with visited := setVisited t (prevs ++ [path]) st.visited }

/-- loop over the items of a sequence (`rec` = the recursive `resolveReset`) -/
def resolveItems (rec : St → Nat → P → Except Err (St × Option Nat)) (path : P) :
    St → List Nat → Nat → Except Err (St × List Nat)
  | st, [], _ => .ok (st, [])
  | st, v :: rest, idx =>
    match rec st v (path ++ [toString idx]) with
    | .error e => .error e
    | .ok (st1, r) =>
      match resolveItems rec path st1 rest (idx + 1) with
      | .error e => .error e
      | .ok (st2, kept) => .ok (st2, match r with | some k => k :: kept | none => kept)

/-- loop over the entries of a mapping -/
def resolveEntries (rec : St → Nat → P → Except Err (St × Option Nat)) (path : P) :
    St → List (String × Nat) → Except Err (St × List (String × Nat))
  | st, [] => .ok (st, [])
  | st, (key, v) :: rest =>
    match rec st v (path ++ [key]) with
    | .error e => .error e
    | .ok (st1, r) =>
      match resolveEntries rec path st1 rest with
      | .error e => .error e
      | .ok (st2, kept) => .ok (st2, match r with | some k => (key, k) :: kept | none => kept)

def setNode (n : Nat) (nd : Node) : List Node → List Node
  | [] => []
  | h :: t => match n with
    | 0 => nd :: t
    | k + 1 => h :: setNode k nd t

/-- `resolveReset(node, path)`; `fuel` bounds the nesting depth of the recursion, `active` is the recursion stack
(`p.active`, as a list with multiplicities): a node that is already nested twice inside its own expansion is
reported as a cycle before anything else is looked at (the repair of `hang@alias-self-merge`). -/
def resolve : Nat → St → List Nat → Nat → P → Except Err (St × Option Nat)
  | 0, _, _, _, _ => .error .outOfFuel
  | fuel + 1, st, active, n, path0 =>
    let path := normPath path0
    if 2 ≤ active.count n then .error .cycle
    else
    match st.arena[n]? with
    | none => .error .badIndex
    | some (.alias t) =>
      match checkForCycle st t path with
      | .error e => .error e
      | .ok st' => resolve fuel st' (n :: active) t path
    | some node =>
      if node.tag = "!reset" then .ok ({ st with paths := st.paths ++ [path] }, none)
      else if node.tag = "!override" then .ok ({ st with paths := st.paths ++ [path] }, some n)
      else match node with
        | .seq tag items =>
          match resolveItems (fun s c p => resolve fuel s (n :: active) c p) path st items 0 with
          | .error e => .error e
          | .ok (st', kept) => .ok ({ st' with arena := setNode n (.seq tag kept) st'.arena }, some n)
        | .map tag entries =>
          match resolveEntries (fun s c p => resolve fuel s (n :: active) c p) path st entries with
          | .error e => .error e
          | .ok (st', kept) => .ok ({ st' with arena := setNode n (.map tag kept) st'.arena }, some n)
        | _ => .ok (st, some n)

/-! ## what follows `resolveReset` in `UnmarshalYAML`: `checkAcyclic`, then yaml.v3's `Decode` -/

/-- the pointers `checkAcyclic` (and the decoder) follow from a node -/
def succs : Node → List Nat
  | .scalar _ => []
  | .seq _ items => items
  | .map _ entries => entries.map Prod.snd
  | .alias t => [t]

/-- the node graph of an arena (pointers are node indices; an index outside the arena cannot come from a YAML
document and is dropped) -/
def graphOf (arena : List Node) : Dep.G Nat :=
  (List.range arena.length).map fun i =>
    (i, ((arena[i]?.map succs).getD []).filter (fun c => decide (c < arena.length)))

/-- `checkAcyclic(resolved, {})`: the same search as `graph.searchCycle`, started at the resolved root -/
def checkAcyclic (arena : List Node) (fuel : Nat) (root : Nat) : Dep.R Nat :=
  Dep.searchCycle (graphOf arena) fuel [root] root

/-- `UnmarshalYAML` up to the call of `Decode`: fresh visited map and stack, start at the document root with the
empty path; if a node is left, check the tree that will be decoded -/
def run (arena : List Node) (root : Nat) (fuel : Nat) : Except Err (List P) :=
  match resolve fuel { arena := arena, visited := [], paths := [] } [] root [] with
  | .error e => .error e
  | .ok (st, none) => .ok st.paths
  | .ok (st, some r) =>
    match checkAcyclic st.arena fuel r with
    | .ok => .ok st.paths
    | .cycle _ => .error .cycle
    | .outOfFuel => .error .outOfFuel

end CV.C01.Reset
