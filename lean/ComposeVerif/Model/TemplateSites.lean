import ComposeVerif.Spec.Template
/-!
# The mapping the *loader* hands to `template.Substitute` (property C07, round 5)

`template.Substitute` only sees a `Mapping`; inside a whole load the mapping is built by glue code:

* `types.ConfigDetails.LookupEnv` (types/config.go) — `v, ok := cd.Environment[key]`, returned as is on a
  case-sensitive platform (`isCaseInsensitiveEnvVars = false` on every platform but Windows): `lookupEnv`;
* `types.Mapping.Merge` (types/mapping.go) — adds the bindings of the argument whose key is **not set** in the
  receiver (a key set to the empty string is set): `merge`;
* `loader.ApplyInclude` (loader/include.go) — an included file is interpolated with
  `environment.Clone().Merge(envFromFile)` looked up through `config.LookupEnv`: `includeEnv`, nested includes
  iterate it (`includeChain`);
* `dotenv.GetEnvFromFile` — the lookup closure handed to the env-file parser (`currentEnv` first, then the
  variables of the env files read so far): `envFileLookup`;
* the call sites of `interp.Interpolate` in the loader (model of a file, project name, included file) all pass
  `*opts.Interpolate`, whose `LookupValue` is `configDetails.LookupEnv` (`toOptions`).

Go maps are association lists whose first binding of a key is the binding.
-/
namespace CV.Template.Sites
open CV.Template

abbrev GoMap := List (Str × Str)

/-- `v, ok := m[k]` -/
def mlookup : GoMap → Str → Option Str
  | [], _ => none
  | (k', v) :: r, k => if k' = k then some v else mlookup r k

/-- `types.ConfigDetails.LookupEnv` (case-sensitive platform): the map's own answer, empty values included -/
def lookupEnv (environment : GoMap) : Env := fun k => mlookup environment k

/-- one iteration of the loop of `types.Mapping.Merge`: `if _, set := m[k]; !set { m[k] = v }` -/
def mergeStep (m : GoMap) (kv : Str × Str) : GoMap :=
  match mlookup m kv.1 with
  | some _ => m
  | none => m ++ [kv]

/-- `types.Mapping.Merge` -/
def merge (m o : GoMap) : GoMap := o.foldl mergeStep m

/-- the environment an included file is interpolated in: `environment.Clone().Merge(envFromFile)` -/
def includeEnv (environment envFromFile : GoMap) : GoMap := merge environment envFromFile

/-- nested includes: each level merges its own env file under what it inherited -/
def includeChain (environment : GoMap) : List GoMap → GoMap
  | [] => environment
  | f :: fs => includeChain (includeEnv environment f) fs

/-- the lookup closure of `dotenv.GetEnvFromFile`: the current environment first, then the files read so far -/
def envFileLookup (currentEnv envMap : GoMap) : Env := fun k =>
  match mlookup currentEnv k with
  | some v => some v
  | none => mlookup envMap k

/-- the layered lookup the property's grammar is evaluated in: the first layer that *sets* the variable wins -/
def layered : List GoMap → Env
  | [] => fun _ => none
  | m :: ms => fun k =>
    match mlookup m k with
    | some v => some v
    | none => layered ms k

/-- what a call site of the loader computes for a string value: `Substitute` under the site's lookup -/
def siteSubst (environment : GoMap) (envFiles : List GoMap) (s : Str) : Out :=
  subst (lookupEnv (includeChain environment envFiles)) s

end CV.Template.Sites

namespace CV.Template.Sites
open CV.Template

/-! ## Interpolated values inside the env file of an include entry

`dotenv.GetEnvFromFile(environment, files)` parses each file with `ParseWithLookup`; an unquoted or double-quoted value
is itself a template, interpolated by `expandVariables` under "lookup function first, earlier lines of this file
second", where the lookup function is `GetEnvFromFile`'s closure (the current environment first, then the env files
read before this one).  For the single env file of an include entry this is the layered lookup
`[environment, lines so far]`; a later assignment of the same key replaces the earlier one. -/

inductive FileRes
  | ok (m : GoMap)
  | fail (o : Out)
deriving Repr

/-- the lines of one env file, `KEY="<template>"`, processed in order; `acc` holds the lines so far, latest first -/
def envFileValues (environment : GoMap) : List (Str × Str) → GoMap → FileRes
  | [], acc => .ok acc
  | (k, tpl) :: r, acc =>
    match subst (layered [environment, acc]) tpl with
    | .ok v => envFileValues environment r ((k, v) :: acc)
    | o => .fail o

/-- a string value of a file included with such an env file -/
def siteSubstRaw (environment : GoMap) (lines : List (Str × Str)) (s : Str) : Out :=
  match envFileValues environment lines [] with
  | .ok f => subst (lookupEnv (includeEnv environment f)) s
  | .fail o => o

end CV.Template.Sites

namespace CV.Template.Sites
open CV.Template

/-- the grammar's reading of the same env file: every value is the meaning of its AST (`Spec/Template.lean`) -/
def specFileValues (environment : GoMap) : List (Str × List Seg) → GoMap → FileRes
  | [], acc => .ok acc
  | (k, t) :: r, acc =>
    match evalOut (layered [environment, acc]) t with
    | .ok v => specFileValues environment r ((k, v) :: acc)
    | o => .fail o

end CV.Template.Sites

namespace CV.Template.Sites
open CV.Template

/-! ## Several env files in one include entry (`env_file: [f1, f2, …]`)

`dotenv.GetEnvFromFile` reads the files in order into one `envMap` (`envMap[k] = v` for every variable of the file just
read); while file *i* is parsed, the lookup closure answers from the current environment first and from `envMap` — the
files read **before** it — second, and `expandVariables` falls back to the earlier lines of file *i* itself. -/

/-- the lines of one env file read after others: `envMap` holds the earlier files (latest first), `acc` the lines so far -/
def envFileValues2 (environment envMap : GoMap) : List (Str × Str) → GoMap → FileRes
  | [], acc => .ok acc
  | (k, tpl) :: r, acc =>
    match subst (layered [environment, envMap, acc]) tpl with
    | .ok v => envFileValues2 environment envMap r ((k, v) :: acc)
    | o => .fail o

/-- all env files of the entry, in order; a later file overrides an earlier one -/
def envFilesValues (environment : GoMap) : List (List (Str × Str)) → GoMap → FileRes
  | [], envMap => .ok envMap
  | f :: fs, envMap =>
    match envFileValues2 environment envMap f [] with
    | .ok m => envFilesValues environment fs (m ++ envMap)
    | .fail o => .fail o

/-- a string value of a file included with these env files -/
def siteSubstRawFiles (environment : GoMap) (files : List (List (Str × Str))) (s : Str) : Out :=
  match envFilesValues environment files [] with
  | .ok f => subst (lookupEnv (includeEnv environment f)) s
  | .fail o => o

end CV.Template.Sites
