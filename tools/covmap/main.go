package main

import (
	"encoding/json"
	"go/ast"
	"go/parser"
	"go/token"
	"os"
	"path/filepath"
	"strings"
)

type F struct {
	Pkg, File, Name, Recv string
	Lines                 int
}

func main() {
	root := os.Args[1]
	var out []F
	filepath.Walk(root, func(p string, info os.FileInfo, err error) error {
		if err != nil || info.IsDir() {
			if info != nil && info.IsDir() && (info.Name() == ".git" || info.Name() == "testdata" || info.Name() == "cmd" || info.Name()=="ci") {
				return filepath.SkipDir
			}
			return nil
		}
		if !strings.HasSuffix(p, ".go") || strings.HasSuffix(p, "_test.go") || strings.Contains(filepath.Base(p), "verif_") {
			return nil
		}
		fs := token.NewFileSet()
		f, err := parser.ParseFile(fs, p, nil, 0)
		if err != nil {
			return nil
		}
		rel, _ := filepath.Rel(root, p)
		for _, d := range f.Decls {
			fd, ok := d.(*ast.FuncDecl)
			if !ok || fd.Body == nil {
				continue
			}
			recv := ""
			if fd.Recv != nil && len(fd.Recv.List) > 0 {
				t := fd.Recv.List[0].Type
				if s, ok := t.(*ast.StarExpr); ok {
					t = s.X
				}
				if id, ok := t.(*ast.Ident); ok {
					recv = id.Name
				} else if ix, ok := t.(*ast.IndexExpr); ok {
					if id, ok := ix.X.(*ast.Ident); ok {
						recv = id.Name
					}
				}
			}
			out = append(out, F{f.Name.Name, rel, fd.Name.Name, recv, fs.Position(fd.End()).Line - fs.Position(fd.Pos()).Line + 1})
		}
		return nil
	})
	json.NewEncoder(os.Stdout).Encode(out)
}
