module covmap
go 1.21
