#!/usr/bin/env python3
"""Assemble /verif/MANIFEST.json from manifest/Cxx.json fragments (one per property)."""
import json, os, subprocess
V = os.path.dirname(os.path.dirname(os.path.abspath(__file__)))
props = [json.loads(l) for l in open(os.path.join(V, "properties.jsonl"))]
checks, na = [], []
for p in props:
    pid = p["id"]
    fp = os.path.join(V, "manifest", pid + ".json")
    frag = json.load(open(fp)) if os.path.exists(fp) else {}
    if frag.get("claimed"):
        checks.append({
            "property_id": pid,
            "quick_cmd": "./check %s --tier quick" % pid,
            "thorough_cmd": "./check %s --tier thorough" % pid,
            "evidence_file": "/verif/evidence/%s.json" % pid,
            "replay_cmd_template": "./check %s --replay {path}" % pid,
            "engine": "lean4-proof+correspondence",
            "level_claimed": {"category": frag.get("category", "proof"), "text": frag["level_text"], "design_ref": frag.get("design_ref", "DESIGN.md §6 " + pid)},
            "level_note": frag["level_note"],
            "technique": frag.get("technique", "Lean 4 machine-checked proof over a hand-written model + differential correspondence"),
        })
    else:
        na.append({"property_id": pid, "reason": frag.get("reason", "not yet built in this round (design in DESIGN.md §6); no check is claimed until its model, theorems and correspondence exist")})
hooks_commits = subprocess.run(["git", "-C", "/repo", "log", "--format=%H %s", "--grep=^verif hooks"], stdout=subprocess.PIPE, text=True).stdout.strip().split("\n")
m = {"version": 1, "setup_cmd": "./setup.sh",
     "hooks": {"guard": "verif", "enable": "go build -tags verif (harness and translator build /repo through a replace directive with the tag on)",
               "baseline_off_cmd": "cd /repo && go test -mod=mod -json -vet=off -count=1 -timeout 25m ./...",
               "source_commits": [c.split(" ")[0] for c in hooks_commits if c], "add_only": True},
     "engines": [{"name": "lean4-proof+correspondence", "path": "/verif/check", "serves_properties": [c["property_id"] for c in checks],
                  "kind_free_text": "Lean 4 theorems over hand-written models and facts regenerated from the source by translator/; Go differential harness (harness/) against the Lean line-protocol driver; direct oracles on the real code"}],
     "checks": checks,
     "notes": "See DESIGN.md. known_findings.txt lists genuine defects recorded rather than repaired.",
     "not_applicable": na}
json.dump(m, open(os.path.join(V, "MANIFEST.json"), "w"), indent=1)
print("claimed:", [c["property_id"] for c in checks])
