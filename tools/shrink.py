#!/usr/bin/env python3
"""shrink.py <harness-binary> <driver> <result.json> [index] — minimise a tree-valued disagreement (delta debugging on the tagged tree).
Works for checks whose args are {"tree": T} (or any args: every nested tagged map/list is reduced)."""
import json, subprocess, sys
H, D, R = sys.argv[1], sys.argv[2], sys.argv[3]
idx = int(sys.argv[4]) if len(sys.argv) > 4 else 0
res = json.load(open(R))
f = res["disagreements"][idx]
check, args = f["case"]["check"], f["case"]["args"]
dop = sys.argv[5] if len(sys.argv) > 5 else check
real = subprocess.Popen([H, "-serve"], stdin=subprocess.PIPE, stdout=subprocess.PIPE, text=True)
drv = subprocess.Popen([D], stdin=subprocess.PIPE, stdout=subprocess.PIPE, text=True)
def ask(p, op, a, flush=False):
    p.stdin.write(json.dumps({"id": 0, "op": op, "args": a}) + "\n" + ("\n" if flush else "")); p.stdin.flush()
    return json.loads(p.stdout.readline())["out"]
def strip(o):
    if isinstance(o, dict): o = {k: v for k, v in o.items() if k != "msg"}
    return o
def differs(a):
    return strip(ask(real, check, a)) != strip(ask(drv, dop, a, True))
assert differs(args), "not reproducible"
def candidates(t):
    """yield smaller variants of tagged tree t"""
    if isinstance(t, dict) and "m" in t and t["m"]:
        for i in range(len(t["m"])):
            yield {"m": t["m"][:i] + t["m"][i+1:]}
        for i, (k, v) in enumerate(t["m"]):
            for c in candidates(v):
                yield {"m": t["m"][:i] + [[k, c]] + t["m"][i+1:]}
    elif isinstance(t, dict) and "l" in t and t["l"]:
        for i in range(len(t["l"])):
            yield {"l": t["l"][:i] + t["l"][i+1:]}
        for i, v in enumerate(t["l"]):
            for c in candidates(v):
                yield {"l": t["l"][:i] + [c] + t["l"][i+1:]}
def shrink_key(a, key):
    t = a[key]; changed = True
    while changed:
        changed = False
        for c in candidates(t):
            b = dict(a); b[key] = c
            if differs(b):
                t = c; a = b; changed = True; break
    return a
for k in list(args):
    if isinstance(args[k], dict) and ("m" in args[k] or "l" in args[k]):
        args = shrink_key(args, k)
print(json.dumps({"check": check, "args": args}))
print("real:", ask(real, check, args)); print("drv:", ask(drv, dop, args, True))
