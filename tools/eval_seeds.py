#!/usr/bin/env python3
"""eval_seeds.py [-w WORKERS] [--lanes N] [--first] [--extra Cyy,…] [seed ids…]

Run the registered check of each seed's property against the seeded change, in parallel.
Every worker owns a private copy of /verif HEAD (git worktree + copied Lean build cache), so concurrent
runs never share Gen/, the driver or build/. Each seed is applied to its own scratch worktree of /repo HEAD.
Results go to seeded/<id>/meta.json: `checks_run` (with --first: first evaluation of a new seed) or
`rerun_final_checks` (re-evaluation of an older seed against the current checks).
Nothing here touches /repo's working tree or /verif's evidence."""
import json, os, queue, shutil, subprocess, sys, threading, time
V = os.path.dirname(os.path.dirname(os.path.abspath(__file__)))
args = sys.argv[1:]
def opt(name, default, conv=str):
    if name in args:
        i = args.index(name); v = conv(args[i + 1]); del args[i:i + 2]; return v
    return default
W = opt("-w", 4, int); LANES = opt("--lanes", 4, int); EXTRA = [x for x in opt("--extra", "").split(",") if x]
FIRST = "--first" in args
if FIRST: args.remove("--first")
ids = args or sorted(os.listdir(os.path.join(V, "seeded")))
ROOT = "/work/evalseeds"
os.makedirs(ROOT, exist_ok=True)
q = queue.Queue()
for s in ids: q.put(s)
lock = threading.Lock()

def sh(cmd, **kw):
    return subprocess.run(cmd, stdout=subprocess.PIPE, stderr=subprocess.STDOUT, text=True, **kw)

def worker(k):
    wv = os.path.join(ROOT, "verif-%d" % k)
    if os.path.exists(wv):
        sh(["git", "-C", V, "worktree", "remove", "--force", wv]); shutil.rmtree(wv, ignore_errors=True)
    sh(["git", "-C", V, "worktree", "add", "-q", "--detach", wv, "HEAD"])
    sh(["cp", "-r", os.path.join(V, "lean", ".lake"), os.path.join(wv, "lean", ".lake")])
    env = dict(os.environ, VERIF_LANES=str(LANES), GOFLAGS="-mod=mod", GOPROXY="off", GOSUMDB="off", GOTOOLCHAIN="local")
    r = sh(["./setup.sh"], cwd=wv, env=env)
    if r.returncode != 0:
        print("worker %d: setup failed\n%s" % (k, r.stdout[-800:])); return
    while True:
        try: sid = q.get_nowait()
        except queue.Empty: break
        d = os.path.join(V, "seeded", sid)
        meta = json.load(open(os.path.join(d, "meta.json")))
        wt = os.path.join(ROOT, "repo-%d" % k)
        sh(["git", "-C", "/repo", "worktree", "remove", "--force", wt]); shutil.rmtree(wt, ignore_errors=True)
        sh(["git", "-C", "/repo", "worktree", "add", "-q", "--detach", wt, "main"])
        ap = sh(["git", "apply", os.path.join(d, "patch.diff")], cwd=wt)
        res = {}
        if ap.returncode != 0:
            res = {"applies": False, "note": "the patch no longer applies to /repo main (fix: commits touched the same lines); the recorded result is the one against the tree it was written for"}
            rec = {meta["property"]: res}
        else:
            rec = {}
            for p in [meta["property"]] + EXTRA:
                t0 = time.time()
                r = sh(["./check", p], cwd=wv, env=dict(env, VERIF_REPO=wt), timeout=3600)
                out = r.stdout.split("\n")
                vio = [l for l in out if l.startswith("VIOLATION")]
                summ = [l for l in out if l.startswith(p + " tier")]
                rec[p] = {"applies": True, "exit": r.returncode, "violation_lines": len(vio),
                          "with_failing_input": len([l for l in vio if "no-failing-input-found" not in l]),
                          "detected": r.returncode == 1 and bool(vio), "output": (vio[:4] + summ[:1]), "wall_s": round(time.time() - t0)}
        sh(["git", "-C", "/repo", "worktree", "remove", "--force", wt]); shutil.rmtree(wt, ignore_errors=True)
        with lock:
            meta = json.load(open(os.path.join(d, "meta.json")))
            own = rec.get(meta["property"], {})
            if FIRST:
                meta["checks_run"] = {p: {"exit": v.get("exit"), "detected": v.get("detected", False), "output": v.get("output", [])} for p, v in rec.items()}
            else:
                meta["rerun_final_checks"] = {k2: v for k2, v in own.items() if k2 != "output"}
                if len(rec) > 1:
                    meta["rerun_final_checks"]["other_checks"] = {p: {"detected": v.get("detected"), "with_failing_input": v.get("with_failing_input")} for p, v in rec.items() if p != meta["property"]}
            json.dump(meta, open(os.path.join(d, "meta.json"), "w"), indent=1)
            print(sid, {p: (v.get("detected"), v.get("with_failing_input"), v.get("wall_s")) if v.get("applies", True) else "no-apply" for p, v in rec.items()}, flush=True)
    sh(["git", "-C", V, "worktree", "remove", "--force", wv]); shutil.rmtree(wv, ignore_errors=True)

ts = [threading.Thread(target=worker, args=(k,)) for k in range(W)]
for t in ts: t.start()
for t in ts: t.join()
sh(["git", "-C", V, "worktree", "prune"]); sh(["git", "-C", "/repo", "worktree", "prune"])
