#!/usr/bin/env python3
"""adopt_seed.py <src dir> <seed id> [extra props…] — verify a seeded change independently, store it under seeded/<id>/,
run the property's check(s) against it on a scratch worktree, and record what caught it."""
import json, os, shutil, subprocess, sys
V = os.path.dirname(os.path.dirname(os.path.abspath(__file__)))
norun = "--no-run" in sys.argv
if norun: sys.argv.remove("--no-run")
src, sid = sys.argv[1], sys.argv[2]
extra = sys.argv[3:]
r = subprocess.run([os.path.join(V, "tools/verify_seed.sh"), src], stdout=subprocess.PIPE, stderr=subprocess.STDOUT, text=True)
print(r.stdout[-400:])
if "CONFIRMED" not in r.stdout or "NOT-CONFIRMED" in r.stdout:
    print("seed not confirmed; not adopted"); sys.exit(1)
dst = os.path.join(V, "seeded", sid)
shutil.rmtree(dst, ignore_errors=True)
shutil.copytree(src, dst)
meta = json.load(open(os.path.join(dst, "meta.json")))
facts = [l for l in r.stdout.split("\n") if l.startswith("RESULT")]
meta["confirmed_by_integrator"] = {"how": "tools/verify_seed.sh on a scratch worktree of /repo HEAD: go build, full go test, demo without and with the change", "result": facts[-1] if facts else ""}
if norun:
    json.dump(meta, open(os.path.join(dst, "meta.json"), "w"), indent=1)
    print("adopted (checks not run: use tools/eval_seeds.py --first %s)" % sid); sys.exit(0)
props = [meta["property"]] + extra
out = subprocess.run([os.path.join(V, "tools/run_seed.sh"), dst] + props, stdout=subprocess.PIPE, stderr=subprocess.STDOUT, text=True).stdout
print(out[-3000:])
det = {}
cur = None
for l in out.split("\n"):
    if l.startswith("== "):
        cur = l.split()[1]; det[cur] = {"rc": int(l.split("rc=")[1]), "lines": []}
    elif cur and l.strip():
        det[cur]["lines"].append(l.strip()[:300])
meta["checks_run"] = {p: {"exit": d["rc"], "detected": d["rc"] == 1 and any(x.startswith("VIOLATION") for x in d["lines"]), "output": d["lines"][:6]} for p, d in det.items()}
json.dump(meta, open(os.path.join(dst, "meta.json"), "w"), indent=1)
print({p: v["detected"] for p, v in meta["checks_run"].items()})
