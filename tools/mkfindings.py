#!/usr/bin/env python3
"""Concatenate findings/Cxx.txt fragments into known_findings.txt (run by hand, result committed; never at check time)."""
import glob, os
V = os.path.dirname(os.path.dirname(os.path.abspath(__file__)))
head = """# Genuine defects of compose-go that are recorded rather than repaired (DESIGN.md §10, design/Cxx.md).
# Assembled by tools/mkfindings.py from findings/Cxx.txt; never written at check time.  Format:
#   finding: property=<id> key=<stable key of the failing input / call site / history> <what fails>
#   fixed: property=<id> <commit> key=<key> <what failed>      (suppresses nothing)
"""
body = ""
for f in sorted(glob.glob(os.path.join(V, "findings", "*.txt"))):
    body += open(f).read().rstrip("\n") + "\n"
open(os.path.join(V, "known_findings.txt"), "w").write(head + body)
print(body)
