#!/bin/bash
# integrate.sh <workspace> — merge a builder's branches into /verif and /repo (integration aid, run by hand).
set -u
WS=$1
cd /verif
echo "== repo commits on ag-$WS:"; git -C /repo log --oneline main..ag-$WS
for c in $(git -C /repo rev-list --reverse main..ag-$WS); do
  git -C /repo cherry-pick -x $c >/dev/null 2>&1 || { echo "CHERRY-PICK CONFLICT $c"; git -C /repo cherry-pick --abort; }
done
git merge -q --no-edit ag-$WS 2>&1 | tail -5
git status --short | grep '^U' && echo "MERGE CONFLICTS"
python3 tools/mkfindings.py >/dev/null; python3 tools/mkmanifest.py
