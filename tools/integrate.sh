#!/bin/bash
# integrate.sh <workspace> — merge a builder's branches into /verif and /repo (integration aid, run by hand).
set -u
WS=$1; BR=${2:-ag}-$WS
cd /verif
echo "== repo commits on $BR:"; git -C /repo log --oneline main..$BR
# `git cherry` marks with "-" the commits whose patch is already on main (another builder made the same repair)
for c in $(git -C /repo cherry main $BR | awk '$1=="+"{print $2}'); do
  git -C /repo cherry-pick -x $c >/dev/null 2>&1 || { echo "CHERRY-PICK CONFLICT $c $(git -C /repo show -s --format=%s $c | cut -c1-70)"; git -C /repo cherry-pick --abort; }
done
git merge -q --no-edit $BR >/dev/null 2>&1
# generated / integrator-owned files: keep ours, regenerate below
for f in known_findings.txt MANIFEST.json check setup.sh harness/go.mod; do
  if git status --short | grep -q "^UU $f\|^AA $f"; then git checkout --ours $f 2>/dev/null; git add $f; fi
done
for f in $(git status --short | grep '^UU evidence/\|^AA evidence/' | awk '{print $2}'); do git checkout --theirs $f; git add $f; done
if git status --short | grep '^U\|^AA'; then echo "MERGE CONFLICTS REMAIN — resolve by hand, then: git add -A; git commit; re-run the tail of this script"; exit 1; fi
./tools/pkgsplit.sh >/dev/null; python3 tools/mkfindings.py >/dev/null; python3 tools/mkmanifest.py
git add -A
git -c core.editor=true commit -qm "Merge $BR" 2>&1 | tail -2
# rewrite fix-commit hashes of the builder's branch to the cherry-picked ones on /repo main
for c in $(git -C /repo log --format=%H main -30); do
  orig=$(git -C /repo show -s --format=%B $c | sed -n 's/.*cherry picked from commit \([0-9a-f]*\)).*/\1/p')
  [ -n "$orig" ] && sed -i "s/${orig:0:7}/${c:0:7}/g" findings/*.txt design/*.md 2>/dev/null
done
python3 tools/mkfindings.py >/dev/null
git add -A; git commit -qm "findings: main-branch fix commit hashes ($WS)" 2>/dev/null
git log --oneline | head -2
