#!/usr/bin/env python3
"""run_all.py [-j N] [--tier quick|thorough] [ids…] — run the registered checks and print a summary (integration aid)."""
import json, os, subprocess, sys, time
from concurrent.futures import ThreadPoolExecutor
V = os.path.dirname(os.path.dirname(os.path.abspath(__file__)))
args = sys.argv[1:]
j, tier = 1, "quick"
if "-j" in args:
    i = args.index("-j"); j = int(args[i + 1]); del args[i:i + 2]
if "--tier" in args:
    i = args.index("--tier"); tier = args[i + 1]; del args[i:i + 2]
ids = args or [c["property_id"] for c in json.load(open(os.path.join(V, "MANIFEST.json")))["checks"]]
def run(pid):
    t0 = time.time()
    p = subprocess.run(["./check", pid, "--tier", tier], cwd=V, stdout=subprocess.PIPE, stderr=subprocess.STDOUT, text=True)
    lines = [l for l in p.stdout.split("\n") if l.startswith(("VIOLATION", "KNOWN-FINDING")) or l.startswith(pid + " tier")]
    return pid, p.returncode, time.time() - t0, lines
with ThreadPoolExecutor(j) as ex:
    for pid, rc, dt, lines in ex.map(run, ids):
        print("%s rc=%d %.0fs" % (pid, rc, dt))
        for l in lines: print("   ", l[:220])
