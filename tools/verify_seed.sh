#!/bin/bash
# verify_seed.sh <dir with patch.diff, meta.json, demo> — confirm a seeded change independently:
# applies to a scratch worktree of /repo, builds, runs the full test suite, runs the demo with and without the change.
set -u
export GOFLAGS=-mod=mod GOPROXY=off GOSUMDB=off GOTOOLCHAIN=local
D=$(cd "$1" && pwd)
WT=$(mktemp -d /tmp/seedverify-XXXX)
LOGD=$(mktemp -d /tmp/seedlog-XXXX)
rmdir "$WT"
git -C /repo worktree add -q --detach "$WT" HEAD || exit 2
cleanup() { git -C /repo worktree remove --force "$WT" 2>/dev/null; rm -rf "$WT" "$WT-demo" "$LOGD"; }
trap cleanup EXIT
kind=$(python3 -c "import json;print(json.load(open('$D/meta.json'))['demo']['kind'])")
pkg=$(python3 -c "import json;print(json.load(open('$D/meta.json'))['demo'].get('pkg_dir',''))")
RACE=$(python3 -c "import json;print('-race' if '-race' in json.load(open('$D/meta.json'))['demo'].get('run','') else '')")
run_demo() {
  if [ "$kind" = test ]; then
    cp "$D"/demo_test.go "$WT/$pkg/zz_seed_demo_test.go"
    name=$(grep -o 'func Test[A-Za-z0-9_]*' "$D/demo_test.go" | head -1 | sed 's/func //')
    (cd "$WT" && timeout 300 go test $RACE -vet=off -count=1 -run "^${name}\$" "./$pkg" >$LOGD/demo.log 2>&1); rc=$?
    rm -f "$WT/$pkg/zz_seed_demo_test.go"
  else
    rm -rf "$WT-demo"; mkdir -p "$WT-demo"; cp -r "$D"/demo/* "$WT-demo"/
    cat > "$WT-demo/go.mod" <<EOM
module seeddemo

go 1.21

require github.com/compose-spec/compose-go/v2 v2.0.0

replace github.com/compose-spec/compose-go/v2 => $WT
EOM
    cp "$WT/go.sum" "$WT-demo/go.sum"
    (cd "$WT-demo" && timeout 300 go run . >$LOGD/demo.log 2>&1); rc=$?
  fi
  return $rc
}
run_demo; without=$?
(cd "$WT" && git apply "$D/patch.diff") || { echo "RESULT apply=FAIL"; exit 1; }
(cd "$WT" && go build ./... ) >$LOGD/build.log 2>&1; build=$?
(cd "$WT" && timeout 1200 go test -vet=off -count=1 ./... ) >$LOGD/tests.log 2>&1; tests=$?
run_demo; with=$?
echo "RESULT build=$build tests=$tests demo_without=$without demo_with=$with"
if [ $build = 0 ] && [ $tests = 0 ] && [ $without = 0 ] && [ $with != 0 ]; then echo CONFIRMED; exit 0; else echo NOT-CONFIRMED; tail -5 $LOGD/demo.log; exit 1; fi
