#!/bin/bash
# run_seed.sh <seeded/<id> dir> [property ids…] — run checks against a seeded change on a scratch worktree (never /repo itself).
set -u
D=$(cd "$1" && pwd); shift
PROPS=${*:-$(python3 -c "import json;print(json.load(open('$D/meta.json'))['property'])")}
WT=$(mktemp -d /tmp/seedrun-XXXX); rmdir "$WT"
git -C /repo worktree add -q --detach "$WT" HEAD || exit 2
trap 'git -C /repo worktree remove --force "$WT" 2>/dev/null; rm -rf "$WT"' EXIT
(cd "$WT" && git apply "$D/patch.diff") || exit 2
cd "$(dirname "$0")/.."
for p in $PROPS; do
  out=$(VERIF_REPO="$WT" timeout 3000 ./check "$p" --tier "${VERIF_TIER:-quick}" 2>&1); rc=$?
  echo "== $p rc=$rc"; echo "$out" | grep -E "^VIOLATION" | head -4; echo "$out" | grep -E "^(KNOWN-FINDING|C[0-9]+ tier)" | head -4
  # evidence of a run against a seeded tree must not stay behind as the property's evidence
  git checkout -q -- "evidence/$p.json" 2>/dev/null || true
done
