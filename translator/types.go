package main

// Gen/Types.lean — every struct and named type of package `types` as a descriptor:
// (Go field name, type expression, yaml key, json key, omitempty, inline) and the custom
// (Un)MarshalYAML / (Un)MarshalJSON / DecodeMapstructure / IsZero methods per type (C09; also C08 C14 C20).
//
// Key rules reproduced here (they are the documented behaviour of the two encoders, trusted base):
//   yaml.v3        no tag or empty name → strings.ToLower(FieldName); "-" → skipped; flags omitempty, inline
//   encoding/json  no tag or empty name → FieldName;                  "-" → skipped; flag omitempty
// Unexported fields are skipped by both.

import (
	"fmt"
	"go/ast"
	"go/token"
	"os"
	"path/filepath"
	"reflect"
	"sort"
	"strconv"
	"strings"
)

func init() { extraGenerators = append(extraGenerators, genTypes) }

var primTypes = map[string]bool{"string": true, "bool": true, "int": true, "int8": true, "int16": true, "int32": true, "int64": true,
	"uint": true, "uint8": true, "uint16": true, "uint32": true, "uint64": true, "float32": true, "float64": true, "any": true}

func tyExpr(e ast.Expr) string {
	switch v := e.(type) {
	case *ast.Ident:
		if primTypes[v.Name] {
			return ".prim " + leanStr(v.Name)
		}
		return ".named " + leanStr(v.Name)
	case *ast.StarExpr:
		return ".ptr (" + tyExpr(v.X) + ")"
	case *ast.ArrayType:
		if v.Len == nil {
			return ".slice (" + tyExpr(v.Elt) + ")"
		}
	case *ast.MapType:
		if id, ok := v.Key.(*ast.Ident); ok && id.Name == "string" {
			return ".map (" + tyExpr(v.Value) + ")"
		}
	case *ast.InterfaceType:
		if v.Methods == nil || len(v.Methods.List) == 0 {
			return ".prim \"any\""
		}
	case *ast.SelectorExpr:
		// time.Duration and friends: an opaque foreign type
		return ".other " + leanStr(src(e))
	}
	return ".other " + leanStr(src(e))
}

type tagInfo struct {
	key                string
	skip, omit, inline bool
}

func parseTag(tag, which, field string, lower bool) tagInfo {
	st := reflect.StructTag(tag)
	val, ok := st.Lookup(which)
	ti := tagInfo{}
	name := ""
	if ok {
		if val == "-" {
			ti.skip = true
			return ti
		}
		parts := strings.Split(val, ",")
		name = parts[0]
		for _, f := range parts[1:] {
			switch f {
			case "omitempty":
				ti.omit = true
			case "inline":
				ti.inline = true
			}
		}
	}
	if name == "" {
		if lower {
			name = strings.ToLower(field)
		} else {
			name = field
		}
	}
	ti.key = name
	return ti
}

func leanBool(b bool) string {
	if b {
		return "true"
	}
	return "false"
}

func genTypes() (string, string) {
	dir := filepath.Join(repo, "types")
	ents, err := os.ReadDir(dir)
	if err != nil {
		fmt.Fprintf(os.Stderr, "translator: %v\n", err)
		os.Exit(1)
	}
	var files []string
	for _, e := range ents {
		n := e.Name()
		if strings.HasSuffix(n, ".go") && !strings.HasSuffix(n, "_test.go") {
			files = append(files, n)
		}
	}
	sort.Strings(files)

	type structT struct {
		name string
		rows []string
	}
	var structs []structT
	var named []string
	methods := map[string][]string{}
	interesting := map[string]bool{"MarshalYAML": true, "MarshalJSON": true, "UnmarshalYAML": true, "UnmarshalJSON": true, "DecodeMapstructure": true, "IsZero": true}
	nFields := 0
	for _, fn := range files {
		// build-constrained twins (verif_on/verif_off) carry no model types; parse everything that parses
		f := parse(filepath.Join("types", fn))
		for _, d := range f.Decls {
			switch dd := d.(type) {
			case *ast.GenDecl:
				if dd.Tok != token.TYPE {
					continue
				}
				for _, sp := range dd.Specs {
					ts := sp.(*ast.TypeSpec)
					if st, ok := ts.Type.(*ast.StructType); ok {
						s := structT{name: ts.Name.Name}
						for _, fld := range st.Fields.List {
							tag := ""
							if fld.Tag != nil {
								tag, _ = strconv.Unquote(fld.Tag.Value)
							}
							names := fld.Names
							if len(names) == 0 {
								// embedded field: named after its type
								names = []*ast.Ident{{Name: strings.TrimPrefix(src(fld.Type), "*")}}
							}
							for _, id := range names {
								y := parseTag(tag, "yaml", id.Name, true)
								j := parseTag(tag, "json", id.Name, false)
								s.rows = append(s.rows, fmt.Sprintf("{ goName := %s, ty := %s, exported := %s, yamlKey := %s, yamlSkip := %s, yamlOmit := %s, yamlInline := %s, jsonKey := %s, jsonSkip := %s, jsonOmit := %s }",
									leanStr(id.Name), tyExpr(fld.Type), leanBool(ast.IsExported(id.Name)),
									leanStr(y.key), leanBool(y.skip), leanBool(y.omit), leanBool(y.inline),
									leanStr(j.key), leanBool(j.skip), leanBool(j.omit)))
								nFields++
							}
						}
						structs = append(structs, s)
					} else if _, isFunc := ts.Type.(*ast.FuncType); !isFunc {
						if _, isIface := ts.Type.(*ast.InterfaceType); isIface {
							continue
						}
						named = append(named, fmt.Sprintf("(%s, %s)", leanStr(ts.Name.Name), tyExpr(ts.Type)))
					}
				}
			case *ast.FuncDecl:
				if dd.Recv == nil || len(dd.Recv.List) != 1 || !interesting[dd.Name.Name] {
					continue
				}
				rt := dd.Recv.List[0].Type
				ptr := ""
				if st, ok := rt.(*ast.StarExpr); ok {
					rt = st.X
					ptr = "*"
				}
				if id, ok := rt.(*ast.Ident); ok {
					methods[id.Name] = append(methods[id.Name], ptr+dd.Name.Name)
				}
			}
		}
	}
	sort.Slice(structs, func(i, j int) bool { return structs[i].name < structs[j].name })
	sort.Strings(named)

	var b strings.Builder
	b.WriteString("import ComposeVerif.Model.TypeDesc\n" + header)
	b.WriteString("namespace CV.Gen\nopen CV.TypeDesc\n\n")
	var sn []string
	for _, s := range structs {
		fmt.Fprintf(&b, "def struct_%s : StructDesc := { name := %s, fields := [", s.name, leanStr(s.name))
		for i, r := range s.rows {
			if i > 0 {
				b.WriteString(",")
			}
			b.WriteString("\n  " + r)
		}
		b.WriteString("] }\n\n")
		sn = append(sn, "struct_"+s.name)
	}
	b.WriteString("/-- every struct type declared in package types (sorted by name) -/\ndef structs : List StructDesc := [" + strings.Join(sn, ", ") + "]\n\n")
	b.WriteString("/-- every non-struct named type of package types with its underlying type expression -/\ndef namedTypes : List (String × TyExpr) := [\n  " + strings.Join(named, ",\n  ") + "]\n\n")
	var mk []string
	for k := range methods {
		mk = append(mk, k)
	}
	sort.Strings(mk)
	var ml []string
	for _, k := range mk {
		sort.Strings(methods[k])
		ml = append(ml, fmt.Sprintf("(%s, [%s])", leanStr(k), joinLean(methods[k])))
	}
	b.WriteString("/-- custom marshalling / decoding methods per receiver type (`*` = pointer receiver) -/\ndef customMethods : List (String × List String) := [\n  " + strings.Join(ml, ",\n  ") + "]\n\n")
	b.WriteString("end CV.Gen\n")
	fmt.Fprintf(logw, "types: %d structs, %d fields, %d named types, %d types with custom methods\n", len(structs), nFields, len(named), len(mk))
	return "Types.lean", b.String()
}
